import Model.Wire
import Model.Filename
/-
Model of /repo/storage/store/full_kv.go and partial_kv.go `Save` / `Load` (+ writer.go, common.go
`saveStore`/`loadStore`) over the default marshaller (`marshaller.Default()` = `VTproto`) and a dstore that is a
map from object name to bytes (atomic whole-object writes; zstd compression transparent).
-/
namespace SV.Snapshot
open SV.Wire SV.Filename

/-- the object store: name ↦ content -/
abbrev Files := List (Name × Bytes)

def Files.write : Files → Name → Bytes → Files
  | [], n, c => [(n, c)]
  | (n', c') :: t, n, c => if n' = n then (n, c) :: t else (n', c') :: Files.write t n c

def Files.read : Files → Name → Option Bytes
  | [], _ => none
  | (n', c') :: t, n => if n' = n then some c' else Files.read t n

def Files.exists (fs : Files) (n : Name) : Bool := (fs.read n).isSome

inductive Err where
  | notFound
  | marshal                    -- Marshal failed (never, for VTproto, see `marshalVT_ok`)
  | unmarshal (e : VTErr)
deriving DecidableEq, Repr

/-- what `Load` leaves in the store object -/
structure Loaded where
  kv : KV
  deletedPrefixes : List Bytes
  totalSizeBytes : Nat
deriving DecidableEq, Repr

/-- `FullKV.Save(endBoundaryBlock)` followed by `fileWriter.Write`: marshal `StoreData{Kv: s.kv}` (no delete
prefixes), file `FullStateFileName([moduleInitialBlock, end))`. -/
def saveFull (fs : Files) (moduleInitialBlock stop : Nat) (kv : KV) : Except Err (Name × Files) :=
  match marshalVT kv [] with
  | .ok content =>
    let name := fullName moduleInitialBlock stop
    .ok (name, fs.write name content)
  | _ => .error .marshal

/-- `FullKV.Load(file)`: kv and size from the marshaller; delete prefixes in the file are ignored. -/
def loadFull (fs : Files) (name : Name) : Except Err Loaded :=
  match fs.read name with
  | none => .error .notFound
  | some data =>
    match unmarshalVT data with
    | .error e => .error (.unmarshal e)
    | .ok (d, size) => .ok ⟨d.kv, [], size⟩

/-- `PartialKV.Save` + write -/
def savePartial (fs : Files) (initialBlock stop : Nat) (kv : KV) (dp : List Bytes) : Except Err (Name × Files) :=
  match marshalVT kv dp with
  | .ok content =>
    let name := partialName initialBlock stop
    .ok (name, fs.write name content)
  | _ => .error .marshal

/-- `PartialKV.Load(file)` -/
def loadPartial (fs : Files) (name : Name) : Except Err Loaded :=
  match fs.read name with
  | none => .error .notFound
  | some data =>
    match unmarshalVT data with
    | .error e => .error (.unmarshal e)
    | .ok (d, size) => .ok ⟨d.kv, d.dp, size⟩

/-! ### transient write failures: `saveStore` = `derr.RetryContext(ctx, 10, WriteObject(name, bytes.NewReader(content)))`
Every attempt gets a fresh reader over the whole content.  A failed attempt leaves nothing, or (on a store without
atomic writes) some garbage, under the object's name. -/

inductive WriteAttempt
  | ok
  | fail (leaves : Option Bytes)
deriving Repr

/-- the retry loop with `budget` attempts left (`retries + 1` at the start): `none` = every attempt failed, the
error is returned to the caller of `Write` -/
def writeRetry (fs : Files) (name : Name) (content : Bytes) : Nat → List WriteAttempt → Option Files
  | 0, _ => none
  | _ + 1, [] => some (fs.write name content)
  | _ + 1, .ok :: _ => some (fs.write name content)
  | k + 1, .fail g :: rest =>
    writeRetry (match g with | none => fs | some x => fs.write name x) name content k rest

def saveRetries : Nat := 10

def saveFullR (fs : Files) (moduleInitialBlock stop : Nat) (kv : KV) (att : List WriteAttempt) :
    Except Err (Name × Option Files) :=
  match marshalVT kv [] with
  | .ok content =>
    let name := fullName moduleInitialBlock stop
    .ok (name, writeRetry fs name content (saveRetries + 1) att)
  | _ => .error .marshal

def savePartialR (fs : Files) (initialBlock stop : Nat) (kv : KV) (dp : List Bytes) (att : List WriteAttempt) :
    Except Err (Name × Option Files) :=
  match marshalVT kv dp with
  | .ok content =>
    let name := partialName initialBlock stop
    .ok (name, writeRetry fs name content (saveRetries + 1) att)
  | _ => .error .marshal

/-- `ExistsFullKV(upTo)` / `ExistsPartialKV(from, to)` -/
def existsFullKV (fs : Files) (moduleInitialBlock upTo : Nat) : Bool := fs.exists (fullName moduleInitialBlock upTo)
def existsPartialKV (fs : Files) (from_ to : Nat) : Bool := fs.exists (partialName from_ to)

/-- `ListSnapshotFiles` on the object store -/
def listSnapshots (stops : Bool) (fs : Files) (below : Nat) : ListResult :=
  listSnapshotFiles stops below (fs.map (·.1))

end SV.Snapshot

import Model.Store
/-
Concrete value semantics of the numeric store policies: store_sum.go, store_min.go, store_max.go,
store_setsum.go, value_append.go, and the text codecs they go through (strconv.ParseInt/FormatInt,
big.Int.SetString/String, shopspring/decimal NewFromString/String/Add/Cmp/Truncate, float64).

Byte-exact for int64, bigint and bigdecimal (plain notation, no exponent).  float64: a stored float is
represented by the decimal text of its IEEE-754 bit pattern (the harness canonicalises real stored
texts through ParseFloat → bits), so float *texts* and their lengths are outside the model.
-/
namespace SV

def c0 : UInt8 := 48      -- '0'
def cMinus : UInt8 := 45  -- '-'
def cPlus : UInt8 := 43
def cDot : UInt8 := 46

/-! ### decimal text of naturals and integers -/

def digitsRev : Nat → Nat → List UInt8
  | 0, _ => []
  | fuel + 1, n => if n < 10 then [c0 + UInt8.ofNat n] else (c0 + UInt8.ofNat (n % 10)) :: digitsRev fuel (n / 10)

/-- decimal digits of `n` ("0" for 0) -/
def renderNat (n : Nat) : Bytes := (digitsRev (n + 1) n).reverse

def renderInt (i : Int) : Bytes :=
  if i < 0 then cMinus :: renderNat i.natAbs else renderNat i.natAbs

def isDigit (c : UInt8) : Bool := 48 ≤ c && c ≤ 57

/-- all-digit, non-empty text → number -/
def parseNat (b : Bytes) : Option Nat :=
  if b = [] then none
  else if b.all isDigit then some (b.foldl (fun acc c => acc * 10 + (c.toNat - 48)) 0)
  else none

/-- `[+-]?digits` (big.Int.SetString base 10; strconv.ParseInt before its range check) -/
def parseInt (b : Bytes) : Option Int :=
  match b with
  | c :: rest =>
    if c = cMinus then (parseNat rest).map (fun n => - (n : Int))
    else if c = cPlus then (parseNat rest).map (fun n => (n : Int))
    else (parseNat b).map (fun n => (n : Int))
  | [] => none

def two63 : Int := 9223372036854775808
def two64 : Int := 18446744073709551616

/-- two's-complement wrap-around of Go's `int64` arithmetic -/
def wrap64 (x : Int) : Int := (x + two63) % two64 - two63

/-- `strconv.ParseInt(s, 10, 64)`: out-of-range is an error -/
def parseInt64 (b : Bytes) : Option Int :=
  match parseInt b with
  | some i => if -two63 ≤ i ∧ i < two63 then some i else none
  | none => none

/-! ### shopspring/decimal: value = coef × 10^(-scale) (only non-positive exponents occur) -/

structure Dec where
  coef  : Int
  scale : Nat
deriving DecidableEq, Repr, Inhabited

namespace Dec

/-- `NewFromString` for plain notation `[+-]?digits[.digits]` (exponent notation is not modelled: error) -/
def parse (b : Bytes) : Option Dec :=
  let (sign, body) : Bool × Bytes := match b with
    | c :: rest => if c = cMinus then (true, rest) else if c = cPlus then (false, rest) else (false, b)
    | [] => (false, [])
  let ip := body.takeWhile (· ≠ cDot)
  let rest := body.dropWhile (· ≠ cDot)
  let fp := rest.drop 1
  if fp.any (· = cDot) then none
  else
    match parseNat (ip ++ fp) with
    | none => none
    | some n => some ⟨if sign then - (n : Int) else (n : Int), fp.length⟩

def rescaleUp (d : Dec) (s : Nat) : Dec := ⟨d.coef * (10 : Int) ^ (s - d.scale), s⟩

def add (a b : Dec) : Dec :=
  let s := max a.scale b.scale
  ⟨(a.rescaleUp s).coef + (b.rescaleUp s).coef, s⟩

/-- `Cmp` -/
def cmp (a b : Dec) : Ordering :=
  let s := max a.scale b.scale
  compare (a.rescaleUp s).coef (b.rescaleUp s).coef

/-- `Truncate(p)`: drop digits beyond `p` decimals (big.Int.Quo truncates toward zero) -/
def truncate (d : Dec) (p : Nat) : Dec :=
  if p < d.scale then ⟨Int.tdiv d.coef ((10 : Int) ^ (d.scale - p)), p⟩ else d

def dropTrailingZeros (b : Bytes) : Bytes := (b.reverse.dropWhile (· = c0)).reverse

/-- `String()` (trailing zeros of the fraction trimmed) -/
def render (d : Dec) : Bytes :=
  if d.scale = 0 then renderInt d.coef
  else
    let str := renderNat d.coef.natAbs
    let (ip, fp) : Bytes × Bytes :=
      if str.length > d.scale then (str.take (str.length - d.scale), str.drop (str.length - d.scale))
      else ([c0], List.replicate (d.scale - str.length) c0 ++ str)
    let fp := dropTrailingZeros fp
    let number := if fp = [] then ip else ip ++ [cDot] ++ fp
    if d.coef < 0 then cMinus :: number else number

end Dec

/-! ### float64 (text of the bit pattern; see the header) -/

def parseF64 (b : Bytes) : Option Float := (parseNat b).map (fun n => Float.ofBits (UInt64.ofNat n))
def renderF64 (f : Float) : Bytes := renderNat f.toBits.toNat

/-! ### value computation per operation kind (what `Flush` passes to `set`) -/

def startsWith (p b : Bytes) : Bool := isPrefix p b

/-- decode the operand recorded in the operation log -/
def argInt64 (v : Bytes) : Int := wrap64 ((parseInt v).getD 0)      -- valueToInt64
def argBigInt (v : Bytes) : Int := (parseInt v).getD 0              -- valueToBigInt

def semSum (vt : VT) (cur : Option Bytes) (v : Bytes) : Except SErr Bytes :=
  match vt with
  | .int64 =>
    let value := argInt64 v
    match cur with
    | none => .ok (renderInt value)
    | some c => match parseInt64 c with
      | none => .ok (renderInt value)
      | some prev => .ok (renderInt (wrap64 (prev + value)))
  | .bigint =>
    let value := argBigInt v
    match cur with
    | none => .ok (renderInt value)
    | some c => match parseInt c with
      | none => .ok (renderInt value)
      | some prev => .ok (renderInt (prev + value))
  | .bigdecimal =>
    match Dec.parse v with
    | none => .error .badValue
    | some value =>
      match cur with
      | none => .ok value.render
      | some c => match Dec.parse c with
        | none => .ok value.render
        | some prev => .ok (prev.add value).render
  | .float64 =>
    match parseF64 v with
    | none => .error .badValue
    | some value =>
      match cur with
      | none => .ok (renderF64 value)
      | some c => match parseF64 c with
        | none => .ok (renderF64 value)
        | some prev => .ok (renderF64 (prev + value))
  | .bytes => .error .badValue

/-- `isMax = true`: store_max.go, `false`: store_min.go (note the different strictness per type) -/
def semMinMax (isMax : Bool) (vt : VT) (cur : Option Bytes) (v : Bytes) : Except SErr Bytes :=
  match vt with
  | .int64 =>
    let value := argInt64 v
    match cur with
    | none => .ok (renderInt value)
    | some c => match parseInt64 c with
      | none => .ok (renderInt value)
      | some prev =>
        let takeNew := if isMax then decide (value > prev) else decide (value < prev)
        .ok (renderInt (if takeNew then value else prev))
  | .bigint =>
    let value := argBigInt v
    match cur with
    | none => .ok (renderInt value)
    | some c => match parseInt c with
      | none => .error .badValue   -- Go: `max = prev` with prev == nil, then nil dereference
      | some prev =>
        let takeNew := if isMax then decide (value > prev) else decide (value ≤ prev)
        .ok (renderInt (if takeNew then value else prev))
  | .bigdecimal =>
    match Dec.parse v with
    | none => .error .badValue
    | some value =>
      match cur with
      | none => .ok value.render
      | some c => match Dec.parse c with
        | none => .ok value.render
        | some prev =>
          let takeNew := if isMax then value.cmp prev == .gt else value.cmp prev != .gt
          .ok (if takeNew then value.render else prev.render)
  | .float64 =>
    match parseF64 v with
    | none => .error .badValue
    | some value =>
      match cur with
      | none => .ok (renderF64 value)
      | some c => match parseF64 c with
        | none => .ok (renderF64 value)
        | some prev =>
          let takeNew := if isMax then value > prev else value ≤ prev
          .ok (renderF64 (if takeNew then value else prev))
  | .bytes => .error .badValue

/-- store_setsum.go: `cur` is the raw stored value (with its tag), `v` the module's tagged value -/
def semSetSum (vt : VT) (cur : Option Bytes) (v : Bytes) : Except SErr Bytes :=
  match cur with
  | none => .ok v
  | some c =>
    if v.length < 4 then .error .badValue          -- value[:4] out of range (panic recovered by Flush)
    else if v.take 4 = pfxSum then
      if c.length < 4 then .error .badValue
      else
        let tag := c.take 4
        match vt with
        | .int64 =>
          let prev := (parseInt64 (c.drop 4)).getD 0
          let next := (parseInt64 (v.drop 4)).getD 0
          .ok (tag ++ renderInt (wrap64 (prev + next)))
        | .bigint => .ok (tag ++ renderInt (argBigInt (c.drop 4) + argBigInt (v.drop 4)))
        | .bigdecimal =>
          match Dec.parse (c.drop 4), Dec.parse (v.drop 4) with
          | some p, some n => .ok (tag ++ (p.add n).render)
          | _, _ => .error .badValue               -- mustDecimalFromBytes panics
        | .float64 =>
          -- ParseFloat errors are ignored (0)
          let p := (parseF64 (c.drop 4)).getD 0.0
          let n := (parseF64 (v.drop 4)).getD 0.0
          .ok (tag ++ renderF64 (p + n))
        | .bytes => .error .badValue
    else if v.take 4 = pfxSet then .ok v
    else .ok []                                     -- `default:` leaves data nil

/-- value_append.go -/
def semAppend (cfg : Cfg) (cur : Option Bytes) (v : Bytes) : Except SErr Bytes :=
  match cur with
  | none => .ok v
  | some old =>
    if cfg.appendLimit > 0 ∧ old.length + v.length ≥ cfg.appendLimit then .error .appendLimit
    else .ok (old ++ v)

/-- the concrete `Sem` of a store configured with `cfg` -/
def stdSem (cfg : Cfg) : Sem := fun k cur v =>
  match k with
  | .append => semAppend cfg cur v
  | .sum vt => semSum vt cur v
  | .max vt => semMinMax true vt cur v
  | .min vt => semMinMax false vt cur v
  | .setSum vt => semSetSum vt cur v
  | .set | .setIfNotExists | .deletePrefix => .ok v   -- not routed through `sem`

end SV

namespace SV

/-- what wasm/call.go does to an operand before it reaches the store: bigdecimal operands of
add/min/max are parsed and truncated to 34 decimals (`none`: the host call fails, the module errors);
everything else is passed through. -/
def hostOp (op : Op) : Option Op :=
  let trunc : Option Op :=
    match Dec.parse op.val with
    | none => none
    | some d => some { op with val := (d.truncate 34).render }
  match op.kind with
  | .sum .bigdecimal | .max .bigdecimal | .min .bigdecimal => trunc
  | _ => some op

end SV

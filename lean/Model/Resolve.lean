/-
Model of /repo/pipeline/resolve.go (`BuildRequestDetails`, `resolveStartBlockNum`,
`reprocStateRequired`, `computeLinearHandoffBlockNum`), of the part of
/repo/pipeline/exec/graph.go that these functions and the planner read (`computeGraph`'s initial-block
check, `computeLowestInitBlock`, `computeLowestStoresInitBlock`, `ValidateRequestStartBlock`) and of
the start-block prelude of `Tier1Service.blocks` (/repo/service/tier1.go).

Core Lean only; executable; total.

Abstractions (DESIGN §4, §6/C12):
* block numbers: `Nat` (Go `uint64`; none of the subtractions in these functions can underflow:
  `x - x % k`, `stop - stop % k + k`).  `request.StartBlockNum` is an `int64`: `Int`.
* a block reference is `(num, id)`; ids are opaque labels (the code compares numbers only).
* a cursor is `{step, block, LIB, head}`; `CursorArg.malformed` is an opaque string that
  `bstream.CursorFromOpaque` rejects.  Only the four steps that a cursor can carry are modelled
  (`readCursorStep` rejects every other value).
* external calls are parameters: `final : Option Nat` (`getRecentFinalBlock`, `none` = error),
  `head : Option Nat` (`getHeadBlock`), `resolver : ResolverAnswer` (the answer `resolveCursor` gives
  for the request's cursor).
* modules: what the functions read: the raw `InitialBlock` of the stores the output module depends on
  (module order), the output module's raw `InitialBlock` and its kind.  `Request.Validate` only lets a
  mapper through on the public tier-1 endpoint, but `BuildRequestDetails`, `NewOutputModuleGraph`,
  `BuildTier1RequestPlan` and `TestBlocks` accept an output module of kind store; it then counts among
  the required stores (`StoresDownTo` includes the module itself, `computeLowestStoresInitBlock` runs
  over all used modules, stage 0 ends in a store layer).  In the harness' graphs the stores and the
  output module are all the used non-index modules, so `computeLowestInitBlock` is the minimum over both.
* `segmentSize = 0` (a Go division-by-zero panic) is outside the model: every theorem has `0 < seg`
  and the generator never produces it.
-/
import Model.Segmenter
namespace SV.Resolve

/-- errors, named after the place that raises them -/
inductive Err
  | graph                      -- exec.NewOutputModuleGraph: module initial block below the first streamable block
  | startBelowFirstStreamable  -- tier1.blocks prelude
  | headUnknown                -- resolveStartBlockNum: negative start, getHeadBlock failed
  | badCursor                  -- CursorFromOpaque failed
  | cursorAfterStop            -- cursor block above the stop block
  | cursorLibAboveBlock        -- cursor with LIB above its block
  | resolverFailed             -- resolveCursor returned an error
  | finalUnknownOpenEnded      -- computeLinearHandoffBlockNum: production, no final block, stop = 0
  | startEqStop                -- tier1.blocks: resolved start = stop ≠ 0
  | startBelowOutputInit       -- exec.Graph.ValidateRequestStartBlock
  | startBelowLowestInit       -- BuildTier1RequestPlan
  | writeRangeInvalid          -- BuildTier1RequestPlan: segmenter.Range(...) == nil
deriving DecidableEq, Repr, Inhabited

def Err.name : Err → String
  | .graph => "graph"
  | .startBelowFirstStreamable => "start-below-first-streamable"
  | .headUnknown => "head-unknown"
  | .badCursor => "bad-cursor"
  | .cursorAfterStop => "cursor-after-stop"
  | .cursorLibAboveBlock => "cursor-lib-above-block"
  | .resolverFailed => "resolver-failed"
  | .finalUnknownOpenEnded => "final-unknown-open-ended"
  | .startEqStop => "start-eq-stop"
  | .startBelowOutputInit => "start-below-output-init"
  | .startBelowLowestInit => "start-below-lowest-init"
  | .writeRangeInvalid => "write-range-invalid"

structure BlockRef where
  num : Nat
  id  : Nat
deriving DecidableEq, Repr, Inhabited

/-- the step values `readCursorStep` accepts: 1, 2, 16, 17 -/
inductive Step
  | new | undo | irreversible | newIrreversible
deriving DecidableEq, Repr, Inhabited

/-- `Step.Matches(StepNew)` -/
def Step.matchesNew : Step → Bool
  | .new | .newIrreversible => true
  | _ => false
/-- `Step.Matches(StepUndo)` -/
def Step.matchesUndo : Step → Bool
  | .undo => true
  | _ => false

structure Cursor where
  step  : Step
  block : BlockRef
  lib   : BlockRef
  head  : BlockRef
deriving DecidableEq, Repr, Inhabited

inductive CursorArg
  | none                  -- `StartCursor == ""`
  | malformed             -- `CursorFromOpaque` fails
  | some (c : Cursor)
deriving DecidableEq, Repr, Inhabited

/-- what `resolveCursor(ctx, cursor)` answers -/
inductive ResolverAnswer
  | error
  | ok (junction : Option BlockRef) (head : BlockRef)
deriving DecidableEq, Repr, Inhabited

structure Request where
  startNum   : Int
  cursor     : CursorArg
  stop       : Nat
  production : Bool
deriving Repr, Inhabited

structure Env where
  seg      : Nat
  fsb      : Nat            -- bstream.GetProtocolFirstStreamableBlock
  final    : Option Nat     -- getRecentFinalBlock
  head     : Option Nat     -- getHeadBlock
  resolver : ResolverAnswer
deriving Repr, Inhabited

/-- `BlockUndoSignal{LastValidBlock, LastValidCursor}` -/
structure Undo where
  lastValid : BlockRef
  cursor    : Cursor
deriving DecidableEq, Repr, Inhabited

/-! ### modules / exec.Graph -/

structure Mods where
  stores     : List Nat   -- raw `InitialBlock` of the stores the output module depends on, module order
  out        : Nat        -- raw `InitialBlock` of the output module
  outIsStore : Bool       -- the output module is itself a store (else a mapper)
deriving Repr, Inhabited

/-- the stores among the used modules = `graph.StoresDownTo(outputModule)`: the ancestor stores and, when it
is a store, the output module itself -/
def Mods.reqStores (m : Mods) : List Nat := if m.outIsStore then m.stores ++ [m.out] else m.stores

/-- `computeGraph`: `modulesInitBlocks[mod]` (0 means "first streamable block") -/
def mapInit (fsb raw : Nat) : Nat := if raw = 0 then fsb else raw

/-- `computeGraph` rejects a module whose initial block is below the first streamable block
(`0` is accepted and replaced). -/
def Mods.graphOk (fsb : Nat) (m : Mods) : Bool :=
  (m.out :: m.stores).all fun raw => raw = 0 || fsb ≤ raw

/-- the `lowest` loop of `computeLowestInitBlock` / `computeLowestStoresInitBlock`, started at MaxUint64
(modelled by `none`) -/
def lowestOf : List Nat → Option Nat
  | [] => none
  | x :: xs => match lowestOf xs with
    | none => some x
    | some y => some (min x y)

/-- `computeLowestInitBlock` over the used non-index modules (stores and the output mapper) -/
def Mods.lowestInitBlock (fsb : Nat) (m : Mods) : Nat :=
  match lowestOf (m.out :: m.stores) with
  | none => fsb
  | some l => if l < fsb then fsb else l

/-- `computeLowestStoresInitBlock`: `none` = `nil` (no store) -/
def Mods.lowestStoresInitBlock (fsb : Nat) (m : Mods) : Option Nat :=
  match lowestOf m.reqStores with
  | none => none
  | some l => some (if l < fsb then fsb else l)

/-- `execGraph.StagedUsedModules()[0].LastLayer().IsStoreLayer()` for these graphs -/
def Mods.scheduleStores (m : Mods) : Bool := !m.reqStores.isEmpty

/-- `ValidateRequestStartBlock`: compares with the *raw* initial block of the output module -/
def Mods.validateRequestStartBlock (m : Mods) (start : Nat) : Except Err Unit :=
  if start < m.out then .error .startBelowOutputInit else .ok ()

/-! ### reprocStateRequired (after `fix: … returns the lowest store initial block below the start block`) -/

def reprocStep (start : Nat) (lowest : Option Nat) (storeInit : Nat) : Option Nat :=
  match lowest with
  | none => if storeInit < start then some storeInit else none
  | some l => if storeInit < start ∧ storeInit < l then some storeInit else some l

/-- the loop over `requiredStores` -/
def reprocStateRequired (start : Nat) (stores : List Nat) : Option Nat :=
  stores.foldl (reprocStep start) none

/-! ### computeLinearHandoffBlockNum -/

/-- the return statements of `computeLinearHandoffBlockNum`, in source order -/
inductive HandoffPath
  | prodNoFinalOpenEnded     -- error
  | prodNoFinalNextBoundary  -- `return nextBoundary` (getRecentFinalBlock failed, stop ≠ 0)
  | prodStartAboveFinal      -- `return startBlock`
  | prodFinalBoundary        -- `return libHandoffBoundary`
  | prodNextBoundary         -- `return nextBoundary` (final block at or above the stop block)
  | devNoState               -- `return startBlock`
  | devStoreAboveBoundary    -- `return *stateRequiredAt`
  | devPrevBoundaryNoFinal   -- `return linearHandoff` (getRecentFinalBlock failed)
  | devPrevBoundary          -- `return linearHandoff` (at or below the final block)
  | devFinalBoundary         -- `return lib - lib % segmentSize`
deriving DecidableEq, Repr, Inhabited

def HandoffPath.name : HandoffPath → String
  | .prodNoFinalOpenEnded => "prod-nofinal-open"
  | .prodNoFinalNextBoundary => "prod-nofinal-nextboundary"
  | .prodStartAboveFinal => "prod-start-above-final"
  | .prodFinalBoundary => "prod-final-boundary"
  | .prodNextBoundary => "prod-nextboundary"
  | .devNoState => "dev-nostate"
  | .devStoreAboveBoundary => "dev-store-above-boundary"
  | .devPrevBoundaryNoFinal => "dev-prevboundary-nofinal"
  | .devPrevBoundary => "dev-prevboundary"
  | .devFinalBoundary => "dev-final-boundary"

def nextBoundary (stop seg : Nat) : Nat :=
  if stop % seg ≠ 0 then stop - stop % seg + seg else stop

/-- returns the path taken and the hand-off block (0 on the error path, as in Go) -/
def computeLinearHandoffP (production : Bool) (start stop : Nat) (final : Option Nat)
    (stateRequiredAt : Option Nat) (seg : Nat) : HandoffPath × Nat :=
  let stateRequired := match stateRequiredAt with
    | none => false
    | some s => decide (s ≤ start)
  if production then
    let nb := nextBoundary stop seg
    match final with
    | none => if stop = 0 then (.prodNoFinalOpenEnded, 0) else (.prodNoFinalNextBoundary, nb)
    | some lib =>
      let libBoundary := lib - lib % seg
      if stop = 0 ∨ lib < stop then
        if !stateRequired ∧ start > libBoundary then (.prodStartAboveFinal, start)
        else (.prodFinalBoundary, libBoundary)
      else (.prodNextBoundary, nb)
  else if !stateRequired then (.devNoState, start)
  else
    let prevBoundary := start - start % seg
    let sra := stateRequiredAt.getD 0
    if sra > prevBoundary then (.devStoreAboveBoundary, sra)
    else match final with
      | none => (.devPrevBoundaryNoFinal, prevBoundary)
      | some lib =>
        if prevBoundary ≤ lib then (.devPrevBoundary, prevBoundary)
        else (.devFinalBoundary, lib - lib % seg)

def computeLinearHandoff (production : Bool) (start stop : Nat) (final : Option Nat)
    (stateRequiredAt : Option Nat) (seg : Nat) : Except Err Nat :=
  match computeLinearHandoffP production start stop final stateRequiredAt seg with
  | (.prodNoFinalOpenEnded, _) => .error .finalUnknownOpenEnded
  | (_, h) => .ok h

/-! ### resolveStartBlockNum -/

inductive ResolvePath
  | noCursor | finalCursor | notForked | noJunction | forked
deriving DecidableEq, Repr, Inhabited

def ResolvePath.name : ResolvePath → String
  | .noCursor => "no-cursor"
  | .finalCursor => "final-cursor"
  | .notForked => "not-forked"
  | .noJunction => "no-junction"
  | .forked => "forked"

structure Resolved where
  start  : Nat
  cursor : Option Cursor   -- `none` is the empty string
  undo   : Option Undo
  path   : ResolvePath
deriving Repr, Inhabited

/-- the `if req.StartBlockNum < 0` block: returns the new `req.StartBlockNum` -/
def resolveNegativeStart (head : Option Nat) (startNum : Int) : Except Err Int :=
  if startNum < 0 then
    match head with
    | none => .error .headUnknown
    | some h =>
      let s := (h : Int) + startNum
      .ok (if s < 0 then 0 else s)
  else .ok startNum

/-- the `switch` at the end of `resolveStartBlockNum` (no case matches a bare `irreversible` step:
the Go variable keeps its zero value) -/
def startOfCursor (c : Cursor) : Nat :=
  if c.step.matchesNew then c.block.num + 1
  else if c.step.matchesUndo then c.block.num
  else 0

def resolveStartBlockNum (env : Env) (req : Request) : Except Err Resolved := do
  let sn ← resolveNegativeStart env.head req.startNum
  match req.cursor with
  | .none => .ok ⟨sn.toNat, none, none, .noCursor⟩
  | .malformed => .error .badCursor
  | .some c =>
    if req.stop > 0 ∧ req.stop < c.block.num then .error .cursorAfterStop
    else if c.block.num = c.lib.num then .ok ⟨c.block.num + 1, none, none, .finalCursor⟩
    else if c.lib.num > c.block.num then .error .cursorLibAboveBlock
    else match env.resolver with
      | .error => .error .resolverFailed
      | .ok none _ => .ok ⟨startOfCursor c, some c, none, .noJunction⟩
      | .ok (some j) head =>
        if j.num ≠ c.block.num then
          let valid : Cursor := ⟨.new, j, c.lib, head⟩
          .ok ⟨startOfCursor valid, some valid, some ⟨j, valid⟩, .forked⟩
        else .ok ⟨startOfCursor c, some c, none, .notForked⟩

/-! ### BuildRequestDetails -/

structure Details where
  production : Bool
  start      : Nat            -- ResolvedStartBlockNum
  handoff    : Nat            -- LinearHandoffBlockNum
  gate       : Nat            -- LinearGateBlockNum
  stop       : Nat            -- StopBlockNum
  cursor     : Option Cursor  -- ResolvedCursor
  rpath      : ResolvePath
  hpath      : HandoffPath
deriving Repr, Inhabited

def buildRequestDetails (env : Env) (m : Mods) (req : Request) : Except Err (Details × Option Undo) := do
  let r ← resolveStartBlockNum env req
  let stateRequiredAt := reprocStateRequired r.start m.reqStores
  let ph := computeLinearHandoffP req.production r.start req.stop env.final stateRequiredAt env.seg
  let handoff ← computeLinearHandoff req.production r.start req.stop env.final stateRequiredAt env.seg
  let gate := if r.start > handoff then r.start else handoff
  let cursor := if r.start < handoff then none else r.cursor
  .ok (⟨req.production, r.start, handoff, gate, req.stop, cursor, r.path, ph.1⟩, r.undo)

/-! ### the start-block prelude of `Tier1Service.blocks` -/

/-- returns the rewritten `request.StartBlockNum` -/
def normalizeStart (fsb : Nat) (startNum : Int) (stop : Nat) : Except Err Int :=
  if startNum > 0 ∧ startNum < (fsb : Int) then .error .startBelowFirstStreamable
  else if startNum < 0 ∧ stop > 0 then
    if (stop : Int) + startNum < (fsb : Int) then .ok (fsb : Int) else .ok startNum
  else if startNum = 0 then .ok (fsb : Int)
  else .ok startNum

end SV.Resolve

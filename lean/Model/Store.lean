/-
Model of /repo/storage/store: base_store.go (Flush, Reset, ReadOps/ApplyOps), value_get.go (the six
readers + HasAt), value_set.go, value_delete.go, value_append.go, delta.go (ApplyDelta,
ApplyDeltasReverse), the size accounting (`totalSizeBytes`).

The value computation of the numeric policies (store_sum.go, store_min.go, store_max.go,
store_setsum.go) is a *parameter* `sem : Sem` of the flush machinery: C08, C09 and C11 hold for every
such function.  The concrete semantics used by the driver and by C02 is in `Model/Policy.lean`.

Core Lean only; executable; total.  Go `string`/`[]byte` = `List UInt8`; Go's `nil` and empty slice
are both `[]` (the code only ever looks at their length/content).  `uint64` sizes = `Nat` with
truncated subtraction (C11 proves that no subtraction underflows on reachable states).
-/
namespace SV

abbrev Bytes := List UInt8

/-- bytewise lexicographic `≤` (Go's string comparison) -/
def bytesLe : Bytes → Bytes → Bool
  | [], _ => true
  | _ :: _, [] => false
  | a :: as, b :: bs => if a < b then true else if b < a then false else bytesLe as bs

def isPrefix : Bytes → Bytes → Bool
  | [], _ => true
  | _ :: _, [] => false
  | a :: as, b :: bs => a == b && isPrefix as bs

/-! ### key/value content: association list with distinct keys (Go map) -/

abbrev KV := List (Bytes × Bytes)

def look (kv : KV) (k : Bytes) : Option Bytes :=
  match kv with
  | [] => none
  | (k', v) :: rest => if k' = k then some v else look rest k

def del (kv : KV) (k : Bytes) : KV := kv.filter (fun p => p.1 ≠ k)

/-- `m[k] = v` -/
def ins (kv : KV) (k v : Bytes) : KV :=
  match kv with
  | [] => [(k, v)]
  | (k', v') :: rest => if k' = k then (k, v) :: rest else (k', v') :: ins rest k v

def kvSize (kv : KV) : Nat := (kv.map (fun p => p.1.length + p.2.length)).sum

/-! ### operations and deltas -/

inductive VT | bytes | int64 | bigint | bigdecimal | float64
deriving DecidableEq, Repr, Inhabited

inductive Policy | unset | set | setIfNotExists | add | min | max | append | setSum
deriving DecidableEq, Repr, Inhabited

/-- `pbssinternal.Operation_Type` (SET/SET_BYTES and the two *_IF_NOT_EXISTS are handled identically
by `Flush`). -/
inductive OpKind
  | set | setIfNotExists | append | deletePrefix
  | max (vt : VT) | min (vt : VT) | sum (vt : VT) | setSum (vt : VT)
deriving DecidableEq, Repr, Inhabited

structure Op where
  kind : OpKind
  ord  : Nat
  key  : Bytes
  val  : Bytes
deriving DecidableEq, Repr, Inhabited

inductive DOp | create | update | delete
deriving DecidableEq, Repr, Inhabited

structure Delta where
  op  : DOp
  ord : Nat
  key : Bytes
  old : Bytes
  new : Bytes
deriving DecidableEq, Repr, Inhabited

structure Cfg where
  policy      : Policy
  vt          : VT
  appendLimit : Nat
  totalLimit  : Nat
  itemLimit   : Nat
deriving Repr, Inhabited

/-- errors (all of them end the request; which one is kept for the correspondence) -/
inductive SErr
  | reservedKey | itemTooBig | emptyKey | ffKey | tooBig | appendLimit | badValue
deriving DecidableEq, Repr, Inhabited

structure Store where
  kv      : KV
  ops     : List Op
  deltas  : List Delta
  lastOrd : Nat
  size    : Nat
deriving Repr, Inhabited

def Store.empty : Store := ⟨[], [], [], 0, 0⟩

/-- the value computation of the non-primitive operations: current stored value (as `getAt` at the
operation's ordinal returns it) and the operation's value give the new stored value or an error. -/
abbrev Sem := OpKind → Option Bytes → Bytes → Except SErr Bytes

/-! ### readers (value_get.go) -/

/-- `getFirst`: first delta of the block for the key decides; else the current content -/
def getFirstIn (ds : List Delta) (kv : KV) (k : Bytes) : Option Bytes :=
  match ds with
  | [] => look kv k
  | d :: rest =>
    if d.key = k then
      match d.op with
      | .delete | .update => some d.old
      | .create => none
    else getFirstIn rest kv k

/-- `getLast`: walks the deltas backwards; `rds` is the reversed delta list -/
def getLastIn (rds : List Delta) (kv : KV) (k : Bytes) : Option Bytes :=
  match rds with
  | [] => look kv k
  | d :: rest =>
    if d.key = k then
      match d.op with
      | .delete => none
      | .create | .update => some d.new
    else getLastIn rest kv k

/-- the backward loop of `getAt`: starts from `cur`, stops at the first delta (from the end) whose
ordinal is `≤ ord` -/
def walkBack (rds : List Delta) (ord : Nat) (k : Bytes) (cur : Option Bytes) : Option Bytes :=
  match rds with
  | [] => cur
  | d :: rest =>
    if d.ord ≤ ord then cur
    else if d.key = k then
      match d.op with
      | .delete | .update => walkBack rest ord k (some d.old)
      | .create => walkBack rest ord k none
    else walkBack rest ord k cur

namespace Store

def getFirst (s : Store) (k : Bytes) : Option Bytes := getFirstIn s.deltas s.kv k
def getLast (s : Store) (k : Bytes) : Option Bytes := getLastIn s.deltas.reverse s.kv k
def getAt (s : Store) (ord : Nat) (k : Bytes) : Option Bytes :=
  walkBack s.deltas.reverse ord k (s.getLast k)

/-- `HasFirst`: coded separately from `getFirst` in Go (same walk, booleans) -/
def hasFirstIn (ds : List Delta) (kv : KV) (k : Bytes) : Bool :=
  match ds with
  | [] => (look kv k).isSome
  | d :: rest =>
    if d.key = k then
      match d.op with
      | .delete | .update => true
      | .create => false
    else hasFirstIn rest kv k

def hasLastIn (rds : List Delta) (kv : KV) (k : Bytes) : Bool :=
  match rds with
  | [] => (look kv k).isSome
  | d :: rest =>
    if d.key = k then
      match d.op with
      | .delete => false
      | .create | .update => true
    else hasLastIn rest kv k

def walkBackHas (rds : List Delta) (ord : Nat) (k : Bytes) (cur : Bool) : Bool :=
  match rds with
  | [] => cur
  | d :: rest =>
    if d.ord ≤ ord then cur
    else if d.key = k then
      match d.op with
      | .delete | .update => walkBackHas rest ord k true
      | .create => walkBackHas rest ord k false
    else walkBackHas rest ord k cur

def hasFirst (s : Store) (k : Bytes) : Bool := hasFirstIn s.deltas s.kv k
def hasLast (s : Store) (k : Bytes) : Bool := hasLastIn s.deltas.reverse s.kv k
/-- `HasAt` (after the fix of F2: starts from `getLast`) -/
def hasAt (s : Store) (ord : Nat) (k : Bytes) : Bool :=
  walkBackHas s.deltas.reverse ord k (s.getLast k).isSome

end Store

/-- `"sum:"` / `"set:"` -/
def pfxSum : Bytes := [115, 117, 109, 58]
def pfxSet : Bytes := [115, 101, 116, 58]
def reservedPfx : Bytes := [95, 95, 33, 95, 95]   -- "__!__"

/-- the exported `GetFirst/GetLast/GetAt` strip the 4-byte tag of `set_sum` stores -/
def stripTag (cfg : Cfg) (v : Option Bytes) : Option Bytes :=
  match v with
  | none => none
  | some b =>
    if cfg.policy = .setSum ∧ (isPrefix pfxSum b ∨ isPrefix pfxSet b) then some (b.drop 4) else some b

/-! ### ApplyDelta / ApplyDeltasReverse (delta.go) -/

def applyDeltaKV (kv : KV) (d : Delta) : KV :=
  match d.op with
  | .update | .create => ins kv d.key d.new
  | .delete => del kv d.key

def applyDeltaSize (size : Nat) (d : Delta) : Nat :=
  match d.op with
  | .update =>
    if d.new.length > d.old.length then size + (d.new.length - d.old.length)
    else if d.new.length < d.old.length then size - (d.old.length - d.new.length)
    else size
  | .create => size + d.new.length + d.key.length
  | .delete => size - d.old.length - d.key.length

/-- `ApplyDelta` with its panics (recovered by `Flush`) as errors -/
def applyDelta (cfg : Cfg) (s : Store) (d : Delta) : Except SErr Store :=
  if d.key = [] then .error .emptyKey
  else if d.key.head? = some 255 then .error .ffKey
  else
    let s' := { s with kv := applyDeltaKV s.kv d, size := applyDeltaSize s.size d }
    if d.op ≠ .delete ∧ s'.size > cfg.totalLimit then .error .tooBig else .ok s'

def revDeltaKV (kv : KV) (d : Delta) : KV :=
  match d.op with
  | .update | .delete => ins kv d.key d.old
  | .create => del kv d.key

def revDeltaSize (size : Nat) (d : Delta) : Nat :=
  match d.op with
  | .update =>
    if d.new.length > d.old.length then size - (d.new.length - d.old.length)
    else if d.new.length < d.old.length then size + (d.old.length - d.new.length)
    else size
  | .create => size - d.new.length - d.key.length
  | .delete => size + d.old.length + d.key.length

/-- `ApplyDeltasReverse` (after the fix of F1) -/
def applyDeltasReverse (s : Store) (ds : List Delta) : Store :=
  ds.reverse.foldl (fun s d => { s with kv := revDeltaKV s.kv d, size := revDeltaSize s.size d }) s

/-! ### the primitive writers (value_set.go, value_delete.go) -/

def pushDelta (cfg : Cfg) (s : Store) (d : Delta) : Except SErr Store :=
  match applyDelta cfg s d with
  | .error e => .error e
  | .ok s' => .ok { s' with deltas := s'.deltas ++ [d] }

/-- `baseStore.set` -/
def setRaw (cfg : Cfg) (s : Store) (ord : Nat) (k v : Bytes) : Except SErr Store :=
  if isPrefix reservedPfx k then .error .reservedKey
  else if v.length > cfg.itemLimit then .error .itemTooBig
  else if k = [] then .error .emptyKey
  else
    match s.getLast k with
    | some old => pushDelta cfg s ⟨.update, ord, k, old, v⟩
    | none => pushDelta cfg s ⟨.create, ord, k, [], v⟩

/-- `baseStore.setIfNotExists` -/
def setIfNotExistsRaw (cfg : Cfg) (s : Store) (ord : Nat) (k v : Bytes) : Except SErr Store :=
  match s.getLast k with
  | some _ => .ok s
  | none => pushDelta cfg s ⟨.create, ord, k, [], v⟩

/-- insertion sort by key (the deltas of one `deletePrefix` are sorted by key) -/
def insByKey (p : Bytes × Bytes) : KV → KV
  | [] => [p]
  | q :: rest => if bytesLe p.1 q.1 then p :: q :: rest else q :: insByKey p rest

def sortByKey (kv : KV) : KV := kv.foldr insByKey []

/-- `baseStore.deletePrefix`: one DELETE delta per matching key of the *current content*, in key order -/
def deletePrefixRaw (cfg : Cfg) (s : Store) (ord : Nat) (pfx : Bytes) : Except SErr Store :=
  (sortByKey (s.kv.filter (fun p => isPrefix pfx p.1))).foldlM
    (fun s p => pushDelta cfg s ⟨.delete, ord, p.1, p.2, []⟩) s

/-! ### Flush (base_store.go) -/

def isSetSum : OpKind → Bool
  | .setSum _ => true
  | _ => false

/-- the body of one iteration of the loop of `Flush` -/
def flushOpBody (cfg : Cfg) (sem : Sem) (s : Store) (op : Op) : Except SErr Store :=
  match op.kind with
  | .set => setRaw cfg s op.ord op.key op.val
  | .setIfNotExists => setIfNotExistsRaw cfg s op.ord op.key op.val
  | .deletePrefix => deletePrefixRaw cfg s op.ord op.key
  | k =>
    -- the set_sum writers read with the raw `getAt`, all others with the exported `GetAt`
    let cur := if isSetSum k then s.getAt op.ord op.key else stripTag cfg (s.getAt op.ord op.key)
    match sem k cur op.val with
    | .error e => .error e
    | .ok nv => setRaw cfg s op.ord op.key nv

/-- one iteration of the loop of `Flush` (`b.lastOrdinal = op.Ord` at the end) -/
def flushOp (cfg : Cfg) (sem : Sem) (s : Store) (op : Op) : Except SErr Store :=
  match flushOpBody cfg sem s op with
  | .error e => .error e
  | .ok s' => .ok { s' with lastOrd := op.ord }

/-- stable insertion sort by ordinal = `slices.SortStableFunc` by `Ord` (the stable sort is unique) -/
def insByOrd (o : Op) : List Op → List Op
  | [] => [o]
  | p :: rest => if o.ord ≤ p.ord then o :: p :: rest else p :: insByOrd o rest

def sortOps (ops : List Op) : List Op := ops.foldr insByOrd []

/-- `Flush`: sort the recorded operations in place, apply them in order -/
def flush (cfg : Cfg) (sem : Sem) (s : Store) : Except SErr Store :=
  let sorted := sortOps s.ops
  sorted.foldlM (flushOp cfg sem) { s with ops := sorted }

/-- the exported setters only record the operation -/
def record (s : Store) (op : Op) : Store := { s with ops := s.ops ++ [op] }

/-- `Reset` -/
def reset (s : Store) : Store := { s with ops := [], deltas := [], lastOrd := 0 }

/-- `ReadOps` (the log as it is after `Flush` sorted it) and `ApplyOps` (replay of a log) -/
def readOps (s : Store) : List Op := s.ops
def applyOps (cfg : Cfg) (sem : Sem) (s : Store) (log : List Op) : Except SErr Store :=
  flush cfg sem { s with ops := log }

/-- one block of execution on a store: record the module's calls, flush -/
def execBlock (cfg : Cfg) (sem : Sem) (s : Store) (calls : List Op) : Except SErr Store :=
  flush cfg sem (calls.foldl record s)

-- `SetDeltas` is not modelled (unused on the paths of the properties).

end SV

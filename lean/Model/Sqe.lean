/-
Model of the block-filter machinery of /repo (property C15):

* `sqe/lexer.go`      `lex`           the regexp lexer (participle `lexer.Regexp`, leftmost-first alternation)
* `sqe/parser.go`     `parseExpression / exprLoop / parseUnary / parseParen / parseKeyTerm /
                       parseQuotedString / parse`   the recursive-descent parser, token level
* `sqe/optimizer.go`  `optimize`      post-order flattening of directly nested ORs
* `sqe/keys.go`       `keysApply`     boolean evaluation on one block's key set
* `sqe/bitmap.go`     `bitmapApply`   set-algebra evaluation over the per-key bitmaps of a segment
* `pipeline/cache/engine.go` `buildIndex`  the index `Engine.EndOfStream` writes
* `storage/index/index.go`, `pipeline/exec/module_executor.go`, `pipeline/pipeline.go`
                      `BlockIndex`, `skipFromIndex`, `newBlockIndex`, `excludesAllBlocks`

Core Lean only; executable; total (the parser takes fuel, `Props/C15.lean` proves the fuel `parse`
passes always suffices).

Modelling assumptions (recorded in checks/C15.json):
* a `roaring64.Bitmap` is a finite set of block numbers, here a `List Nat` read through `∈`
  (`And` = intersection, `Or` = union, `Flip` = complement inside a range, `Clone` = identity because
  the model has no mutation — the harness evaluates every expression several times over the same
  shared bitmaps to detect a lost `Clone`);
* a Go `map[string]…` is an association list read through `lookup`;
* `pbindex.Keys` protobuf payloads are their decoded key lists; the index file `Save`/`Load` round trip
  is the identity;
* Go byte strings are `List UInt8`; block numbers are `Nat` (no block number reaches 2^64-1).
-/
namespace SV.Sqe

abbrev Bytes := List UInt8
abbrev Key := Bytes

/-- A Go `panic` the callee does not recover. -/
inductive Fault where
  | panic
deriving DecidableEq, Repr

/-! ## Expressions (`sqe/types.go`) -/

/-- `KeyTerm{StringLiteral{Value, QuotingChar}}`, `AndExpression`, `OrExpression`,
`ParenthesisExpression`, `NotExpression`. -/
inductive Expr where
  | key (v : Bytes) (q : Bytes)
  | and (cs : List Expr)
  | or (cs : List Expr)
  | paren (c : Expr)
  | not (c : Expr)
deriving Repr, Inhabited

/-! ## Tokens and lexer (`sqe/lexer.go`) -/

inductive Tok where
  | quoting (c : UInt8)      -- `"` or `'`
  | notOp                    -- `-`
  | orOp                     -- `||`
  | andOp                    -- `&&`
  | lpar
  | rpar
  | name (v : Bytes)
  | space (v : Bytes)
deriving DecidableEq, Repr, Inhabited

/-- `token.Value`: the matched text. -/
def Tok.text : Tok → Bytes
  | .quoting c => [c]
  | .notOp => [45]
  | .orOp => [124, 124]
  | .andOp => [38, 38]
  | .lpar => [40]
  | .rpar => [41]
  | .name v => v
  | .space v => v

/-- the symbol name `getTokenType` returns (used in error messages only) -/
def Tok.typeName : Tok → String
  | .quoting _ => "Quoting"
  | .notOp => "NotOperator"
  | .orOp => "OrOperator"
  | .andOp => "AndOperator"
  | .lpar => "LeftParenthesis"
  | .rpar => "RightParenthesis"
  | .name _ => "Name"
  | .space _ => "Space"

/-- RE2 `\s` = `[\t\n\f\r ]` -/
def isSpaceByte (c : UInt8) : Bool := c == 9 || c == 10 || c == 12 || c == 13 || c == 32
def isQuoteByte (c : UInt8) : Bool := c == 34 || c == 39
/-- `[^\s'"\(\)]`: what a Name continues with (includes `-`, `|`, `&`, every non-ASCII byte) -/
def isNameCont (c : UInt8) : Bool := !(isSpaceByte c || isQuoteByte c || c == 40 || c == 41)

inductive LexSt where
  | none
  | inName (acc : Bytes)
  | inSpace (acc : Bytes)

def LexSt.flush : LexSt → List Tok
  | .none => []
  | .inName acc => [.name acc]
  | .inSpace acc => [.space acc]

/-- The regexp lexer, one byte at a time.  Alternatives are tried in the order of the pattern
(Quoting, NotOperator, OrOperator, AndOperator, parentheses, Name, Space) at every token start; Name
and Space are greedy.  All delimiters are ASCII, so lexing bytes and lexing runes coincide (an invalid
UTF-8 byte is the rune U+FFFD of width 1 for Go's regexp: a Name character). Every input lexes. -/
def lexGo : LexSt → Bytes → List Tok
  | st, [] => st.flush
  | st, c :: rest =>
    match st, isNameCont c, isSpaceByte c with
    | .inName acc, true, _ => lexGo (.inName (acc ++ [c])) rest
    | .inSpace acc, _, true => lexGo (.inSpace (acc ++ [c])) rest
    | st, _, _ =>
      st.flush ++
      (if isSpaceByte c then lexGo (.inSpace [c]) rest
       else if isQuoteByte c then .quoting c :: lexGo .none rest
       else if c == 45 then .notOp :: lexGo .none rest
       else if c == 40 then .lpar :: lexGo .none rest
       else if c == 41 then .rpar :: lexGo .none rest
       else match rest with
         | c' :: rest' =>
           if c == 124 && c' == 124 then .orOp :: lexGo .none rest'
           else if c == 38 && c' == 38 then .andOp :: lexGo .none rest'
           else lexGo (.inName [c]) (c' :: rest')
         | [] => lexGo (.inName [c]) [])

def lex (input : Bytes) : List Tok := lexGo .none input

/-! ## Parser (`sqe/parser.go`) -/

/-- the `fmt.Errorf("…: %w")` wrappers -/
inductive Wrap where
  | implicitAnd | and | or | paren | rhs
deriving DecidableEq, Repr

inductive ErrKind where
  | tooDeep                     -- the `panic(parserError(...))` recovered by `Parse`
  | unexpectedRParen
  | unaryEof
  | unaryGot (ty : String)
  | notUnsupported
  | parenEof
  | parenGot (ty : String)
  | quoteEof
  | emptyString
  | keyTermGot (ty : String)
  | rhsInvalid (ty : String)
deriving DecidableEq, Repr

structure PErr where
  wraps : List Wrap        -- outermost first
  kind  : ErrKind
deriving DecidableEq, Repr

/-- wrapping an error; the depth-limit panic unwinds through every frame unwrapped -/
def PErr.wrap (w : Wrap) (e : PErr) : PErr :=
  if e.kind = .tooDeep then e else { e with wraps := w :: e.wraps }

/-- parser state: the `PeekingLexer` cursor (remaining tokens) and `lookForRightParenthesis` -/
structure PState where
  toks : List Tok
  look : Nat
deriving Repr

inductive Res (α : Type) where
  | ok (a : α) (st : PState)
  | err (e : PErr)
  | fuel                       -- model artefact: out of fuel (proved unreachable from `parse`)
deriving Repr

def leaf {α} (k : ErrKind) : Res α := .err ⟨[], k⟩

/-- `lexer.skipSpaces` -/
def skipSpaces : List Tok → List Tok
  | .space _ :: rest => skipSpaces rest
  | ts => ts

/-- `parseQuotedString`: concatenates the text of every token up to the next Quoting token — of
either kind, whatever the opening one was. -/
def parseQuotedString (q : UInt8) : Bytes → List Tok → Nat → Res Expr
  | _, [], _ => leaf .quoteEof
  | acc, .quoting _ :: rest, look =>
    if acc.isEmpty then leaf .emptyString else .ok (.key acc [q]) ⟨rest, look⟩
  | acc, t :: rest, look => parseQuotedString q (acc ++ t.text) rest look

/-- `parseKeyTerm` (consumes one token) -/
def parseKeyTerm (st : PState) : Res Expr :=
  match st.toks with
  | .name v :: rest => .ok (.key v []) ⟨rest, st.look⟩
  | .quoting c :: rest => parseQuotedString c [] rest st.look
  | t :: _ => leaf (.keyTermGot t.typeName)
  | [] => leaf (.keyTermGot "EOF")

def Tok.isBinary : Tok → Bool
  | .andOp | .orOp => true
  | _ => false

/-- `if v, ok := left.(*AndExpression); ok { v.Children = append(v.Children, right) } else
{ left = &AndExpression{Children: []Expression{left, right}} }` -/
def andAppend : Expr → Expr → Expr
  | .and cs, r => .and (cs ++ [r])
  | l, r => .and [l, r]

mutual

/-- `parseExpression(depth)` up to the `for` loop -/
def parseExpression (maxDepth : Nat) : Nat → Nat → PState → Res Expr
  | 0, _, _ => .fuel
  | fuel + 1, depth, st =>
    if depth ≥ maxDepth then leaf .tooDeep
    else match parseUnary maxDepth fuel depth st with
      | .ok left st => exprLoop maxDepth fuel depth left st
      | r => r
termination_by structural fuel => fuel

/-- the `for` loop of `parseExpression` -/
def exprLoop (maxDepth : Nat) : Nat → Nat → Expr → PState → Res Expr
  | 0, _, _, _ => .fuel
  | fuel + 1, depth, left, st =>
    match skipSpaces st.toks with
    | [] => .ok left ⟨[], st.look⟩
    | next :: rest =>
      if next = .rpar then
        if st.look = 0 then leaf .unexpectedRParen else .ok left ⟨next :: rest, st.look⟩
      else
        let isImplicitAnd := !next.isBinary
        let toks' := if next.isBinary then skipSpaces rest else next :: rest
        let right :=
          if next = .orOp then parseExpression maxDepth fuel (depth + 1) ⟨toks', st.look⟩
          else parseUnary maxDepth fuel depth ⟨toks', st.look⟩
        if isImplicitAnd || next = .andOp then
          match right with
          | .ok r st' =>
            exprLoop maxDepth fuel depth (andAppend left r) st'
          | .err e => .err (e.wrap (if isImplicitAnd then .implicitAnd else .and))
          | .fuel => .fuel
        else if next = .orOp then
          match right with
          | .ok r st' => exprLoop maxDepth fuel depth (.or [left, r]) st'
          | .err e => .err (e.wrap .or)
          | .fuel => .fuel
        else
          match right with
          | .ok _ _ => leaf (.rhsInvalid next.typeName)
          | .err e => .err (e.wrap .rhs)
          | .fuel => .fuel
termination_by structural fuel => fuel

/-- `parseUnaryExpression(depth)` -/
def parseUnary (maxDepth : Nat) : Nat → Nat → PState → Res Expr
  | 0, _, _ => .fuel
  | fuel + 1, depth, st =>
    match skipSpaces st.toks with
    | [] => leaf .unaryEof
    | .name v :: rest => parseKeyTerm ⟨.name v :: rest, st.look⟩
    | .quoting c :: rest => parseKeyTerm ⟨.quoting c :: rest, st.look⟩
    | .lpar :: rest => parseParen maxDepth fuel depth ⟨rest, st.look⟩
    | .notOp :: _ => leaf .notUnsupported
    | t :: _ => leaf (.unaryGot t.typeName)
termination_by structural fuel => fuel

/-- `parseParenthesisExpression(depth)`; called with the opening parenthesis already consumed -/
def parseParen (maxDepth : Nat) : Nat → Nat → PState → Res Expr
  | 0, _, _ => .fuel
  | fuel + 1, depth, st =>
    match parseExpression maxDepth fuel (depth + 1) ⟨st.toks, st.look + 1⟩ with
    | .ok child st' =>
      match skipSpaces st'.toks with
      | [] => leaf .parenEof
      | .rpar :: rest => .ok (.paren child) ⟨rest, st'.look - 1⟩
      | t :: _ => leaf (.parenGot t.typeName)
    | .err e => .err (e.wrap .paren)
    | .fuel => .fuel
termination_by structural fuel => fuel

end

/-! ## Optimizer (`sqe/optimizer.go`) -/

/-- the after-visit callback on an `OrExpression`: children that are themselves ORs are replaced by
their children (one level; the children were optimized before) -/
def flattenOr : List Expr → List Expr
  | [] => []
  | .or ws :: cs => ws ++ flattenOr cs
  | c :: cs => c :: flattenOr cs

mutual
/-- `optimizeExpression`: depth-first, callback after the children -/
def optimize : Expr → Expr
  | .key v q => .key v q
  | .and cs => .and (optimizeList cs)
  | .or cs => .or (flattenOr (optimizeList cs))
  | .paren c => .paren (optimize c)
  | .not c => .not (optimize c)
def optimizeList : List Expr → List Expr
  | [] => []
  | c :: cs => optimize c :: optimizeList cs
end

/-- result of `Parser.Parse` -/
inductive ParseResult where
  | ok (e : Expr)
  | err (e : PErr)
  | fuel
deriving Repr

/-- fuel `parse` gives to `parseExpression` (`Props/C15.lean: parse_total` shows it suffices) -/
def parseFuel (toks : List Tok) : Nat := 3 * toks.length + 2

/-- `Parser.Parse` on a token stream: `parseExpression(0)` then `optimizeExpression`.
`maxDepth` is `MaxRecursionDeepness`. -/
def parse (maxDepth : Nat) (toks : List Tok) : ParseResult :=
  match parseExpression maxDepth (parseFuel toks) 0 ⟨toks, 0⟩ with
  | .ok e _ => .ok (optimize e)
  | .err e => .err e
  | .fuel => .fuel

/-- `sqe.Parse(ctx, input)` -/
def parseBytes (maxDepth : Nat) (input : Bytes) : ParseResult := parse maxDepth (lex input)

/-! ## Evaluation on one block's keys (`sqe/keys.go`) -/

/-- `KeysQuerier.blockKeys`: `none` is the nil map of the zero value -/
abbrev KeysQuerier := Option (List Key)

mutual
/-- `KeysQuerier.apply` -/
def keysApply (k : KeysQuerier) : Expr → Except Fault Bool
  | .key v _ =>
    match k with
    | none => .ok false
    | some ks => .ok (ks.contains v)
  | .and [] => .error .panic
  | .and (c :: rest) => do
    let r ← keysApply k c
    keysRest k true r rest
  | .or [] => .error .panic
  | .or (c :: rest) => do
    let r ← keysApply k c
    keysRest k false r rest
  | .paren c => keysApply k c
  | .not c =>
    match k with
    | none => .ok false
    | some _ => do
      let r ← keysApply k c
      .ok (!r)
/-- `for _, child := range children[1:] { op(k.apply(child)) }` (no short circuit) -/
def keysRest (k : KeysQuerier) (isAnd : Bool) (acc : Bool) : List Expr → Except Fault Bool
  | [] => .ok acc
  | c :: rest => do
    let x ← keysApply k c
    keysRest k isAnd (if isAnd then acc && x else acc || x) rest
end

/-! ## Evaluation over bitmaps (`sqe/bitmap.go`) -/

/-- `*roaring64.Bitmap` as a finite set of block numbers (read through `∈`) -/
abbrev Bitmap := List Nat

namespace Bitmap
def and (a b : Bitmap) : Bitmap := a.filter (fun x => b.contains x)
def or (a b : Bitmap) : Bitmap := a ++ b.filter (fun x => !a.contains x)
/-- `Flip(lo, hi)`: complement inside `[lo, hi)`; nothing when `lo ≥ hi` -/
def flip (a : Bitmap) (lo hi : Nat) : Bitmap :=
  a.filter (fun x => x < lo || hi ≤ x) ++ (List.range' lo (hi - lo)).filter (fun x => !a.contains x)
def minimum : Bitmap → Nat
  | [] => 0
  | x :: xs => xs.foldl min x
def maximum : Bitmap → Nat
  | [] => 0
  | x :: xs => xs.foldl max x
end Bitmap

/-- `map[string]*roaring64.Bitmap` -/
abbrev Index := List (Key × Bitmap)

/-- `bitmaps[key]` (`none` = absent) -/
def Index.get : Index → Key → Option Bitmap
  | [], _ => none
  | (k', bm) :: rest, k => if k' = k then some bm else Index.get rest k

def maxUint64 : Nat := 18446744073709551615

/-- `getRoaringRange`: `[min of minima, max of maxima + 1)` over the non-empty bitmaps
(`[MaxUint64, 1)` when there is none) -/
def roaringRange (idx : Index) : Nat × Nat :=
  let se := idx.foldl (fun (se : Nat × Nat) (kb : Key × Bitmap) =>
    if kb.2.isEmpty then se else (min se.1 kb.2.minimum, max se.2 kb.2.maximum)) (maxUint64, 0)
  (se.1, se.2 + 1)

mutual
/-- `roaringQuerier.apply` (= `RoaringBitmapsApply`, which only replaces a nil result — there is none) -/
def bitmapApply (idx : Index) : Expr → Except Fault Bitmap
  | .key v _ => .ok ((idx.get v).getD [])
  | .and [] => .error .panic
  | .and (c :: rest) => do
    let r ← bitmapApply idx c
    bitmapRest idx true r rest
  | .or [] => .error .panic
  | .or (c :: rest) => do
    let r ← bitmapApply idx c
    bitmapRest idx false r rest
  | .paren c => bitmapApply idx c
  | .not c => do
    let rr := roaringRange idx
    let r ← bitmapApply idx c
    .ok (r.flip rr.1 rr.2)
def bitmapRest (idx : Index) (isAnd : Bool) (acc : Bitmap) : List Expr → Except Fault Bitmap
  | [] => .ok acc
  | c :: rest => do
    let x ← bitmapApply idx c
    bitmapRest idx isAnd (if isAnd then acc.and x else acc.or x) rest
end

/-! ## The index written at end of stream (`pipeline/cache/engine.go EndOfStream`) -/

/-- one entry of the index module's output file `currentFile.Kv`: the block number and the decoded
`pbindex.Keys` the index module emitted on that block -/
structure Item where
  block : Nat
  keys  : List Key
deriving Repr

/-- `if _, ok = indexes[key]; !ok { indexes[key] = roaring64.New() }; indexes[key].Add(blockNum)` -/
def Index.add : Index → Key → Nat → Index
  | [], k, b => [(k, [b])]
  | (k', bm) :: rest, k, b =>
    if k' = k then (k', if bm.contains b then bm else bm ++ [b]) :: rest
    else (k', bm) :: Index.add rest k b

def Index.addItem (idx : Index) (it : Item) : Index :=
  it.keys.foldl (fun idx k => idx.add k it.block) idx

/-- the `indexes` map handed to `indexWriter.Write` -/
def buildIndex (items : List Item) : Index := items.foldl Index.addItem []

/-! ## Skip decisions (`storage/index/index.go`, `pipeline/exec/module_executor.go`, `pipeline/pipeline.go`) -/

/-- `index.BlockIndex` (the index module's name is irrelevant here) -/
structure BlockIndex where
  expr   : Expr
  bitmap : Option Bitmap        -- pre-applied; `none` = nil: no index file existed

/-- `BuildModuleExecutors`: `precomputedBitmap = RoaringBitmapsApply(expr, indices)` when an index
file was loaded for the filter's index module, nil otherwise -/
def newBlockIndex (expr : Expr) (existing : Option Index) : Except Fault BlockIndex :=
  match existing with
  | none => .ok ⟨expr, none⟩
  | some idx => do
    let bm ← bitmapApply idx expr
    .ok ⟨expr, some bm⟩

def BlockIndex.precomputed (bi : BlockIndex) : Bool := bi.bitmap.isSome

/-- `Skip(blk)` -/
def BlockIndex.skip (bi : BlockIndex) (blk : Nat) : Bool :=
  match bi.bitmap with
  | none => false
  | some bm => !bm.contains blk

/-- `SkipFromKeys(indexedKeys)` -/
def BlockIndex.skipFromKeys (bi : BlockIndex) (keys : List Key) : Except Fault Bool := do
  let r ← keysApply (some keys) bi.expr
  .ok (!r)

/-- `ExcludesAllBlocks()` (`bi` = `none` is the nil receiver) -/
def excludesAllBlocks : Option BlockIndex → Bool
  | none => false
  | some bi =>
    match bi.bitmap with
    | none => false
    | some bm => bm.isEmpty

/-- `skipFromIndex(index, execOutput)`: `blk` is the clock's block number, `indexOutput` what
`execOutput.Get(index.IndexModule)` yields (`none` = `ErrNotFound`: the index module produced no
output on this block, e.g. all its inputs were skipped — no key can match, the module is skipped;
before the fix "a filtered module is skipped, not crashed, …" this was a panic). -/
def skipFromIndex (bi : Option BlockIndex) (blk : Nat) (indexOutput : Option (List Key)) :
    Except Fault Bool :=
  match bi with
  | none => .ok false
  | some bi =>
    if bi.precomputed then .ok (bi.skip blk)
    else match indexOutput with
      | none => .ok true
      | some keys => bi.skipFromKeys keys

/-! ## Specification-level definitions used by the theorems of `Props/C15.lean` -/

/-- what `execOutput.Get(indexModule)` yields on block `b` when the index module's outputs over the
segment are `items`: the keys of the output numbered `b`, `none` when there is none -/
def outputOf (items : List Item) (b : Nat) : Option (List Key) :=
  (items.find? (fun it => it.block == b)).map Item.keys

mutual
/-- The expressions the property quantifies over: no NOT (bitmaps of one segment cannot represent it),
every AND/OR has at least one child.  Decidable. -/
def accepted : Expr → Bool
  | .key _ _ => true
  | .and cs => !cs.isEmpty && acceptedList cs
  | .or cs => !cs.isEmpty && acceptedList cs
  | .paren c => accepted c
  | .not _ => false
def acceptedList : List Expr → Bool
  | [] => true
  | c :: cs => accepted c && acceptedList cs
end

mutual
/-- What the parser builds: no NOT, every AND/OR has at least two children. -/
def shape : Expr → Bool
  | .key _ _ => true
  | .and cs => decide (2 ≤ cs.length) && shapeList cs
  | .or cs => decide (2 ≤ cs.length) && shapeList cs
  | .paren c => shape c
  | .not _ => false
def shapeList : List Expr → Bool
  | [] => true
  | c :: cs => shape c && shapeList cs
end

mutual
/-- The plain boolean meaning of a filter on a set of keys: the abstract specification both
evaluators are compared with. -/
def holds (ks : List Key) : Expr → Bool
  | .key v _ => ks.contains v
  | .and cs => holdsAll ks cs
  | .or cs => holdsAny ks cs
  | .paren c => holds ks c
  | .not c => !holds ks c
def holdsAll (ks : List Key) : List Expr → Bool
  | [] => true
  | c :: cs => holds ks c && holdsAll ks cs
def holdsAny (ks : List Key) : List Expr → Bool
  | [] => false
  | c :: cs => holds ks c || holdsAny ks cs
end

end SV.Sqe

import Model.Sha1
/-
Model of the module cache identity of /repo:

  manifest/signature.go   hashModule (pre-image layout), inputName, inputValue
  manifest/graph.go       NewModuleGraph (edges, cycle rejection), AncestorsOf (ancestors in module-index order)
  pb/.../modules.go       BlockFilterQueryString
  manifest/reader.go      prefixModules, reindexAndMergePackage (alias import)
  pipeline/exec/graph.go  hashModules (hash of every used module)
  storage/*/config.go     "<hex hash>/states|outputs|index" directory names

Core Lean only, executable, total.  Byte strings are `List UInt8` (Go strings need not be UTF-8).
Modules are addressed by name, as in the Go code (`moduleIndex`, `ModuleHashes.cache`); the model
assumes module names are pairwise distinct (`ValidateModules` rejects duplicates before any graph is
built, service/validate.go).

The hash function is a parameter `H : Bytes → Bytes` everywhere; the driver instantiates it with
`SV.Sha1.sha1`.  Two fuels: `r` bounds the length of dependency paths explored by `reachF`
(`graph.ShortestPaths`), `k` bounds the recursion depth of the hash (`hashModule` calling itself on
ancestors and on the filter module).  The driver uses `r = k = number of modules`; all theorems hold
for every `r` and every `k` (see Props/C06.lean).
-/
namespace SV.Hash

abbrev Bytes := List UInt8

/-! ## labels written by `hashModule` (ASCII bytes; compared with the real hashes by the harness) -/

/-- `"initial_block"` -/
def lblInitialBlock : Bytes := [105, 110, 105, 116, 105, 97, 108, 95, 98, 108, 111, 99, 107]
/-- `"kind"` -/
def lblKind : Bytes := [107, 105, 110, 100]
/-- `"map"` -/
def lblMap : Bytes := [109, 97, 112]
/-- `"store"` -/
def lblStore : Bytes := [115, 116, 111, 114, 101]
/-- `"block_index"` -/
def lblBlockIndex : Bytes := [98, 108, 111, 99, 107, 95, 105, 110, 100, 101, 120]
/-- `"binary"` -/
def lblBinary : Bytes := [98, 105, 110, 97, 114, 121]
/-- `"inputs"` -/
def lblInputs : Bytes := [105, 110, 112, 117, 116, 115]
/-- `"source"` -/
def lblSource : Bytes := [115, 111, 117, 114, 99, 101]
/-- `"params"` -/
def lblParams : Bytes := [112, 97, 114, 97, 109, 115]
/-- `"block_filter_module!"` -/
def lblFilterModule : Bytes := [98, 108, 111, 99, 107, 95, 102, 105, 108, 116, 101, 114, 95, 109, 111, 100, 117, 108, 101, 33]
/-- `"block_filter_query!"` -/
def lblFilterQuery : Bytes := [98, 108, 111, 99, 107, 95, 102, 105, 108, 116, 101, 114, 95, 113, 117, 101, 114, 121, 33]
/-- `"ancestors"` -/
def lblAncestors : Bytes := [97, 110, 99, 101, 115, 116, 111, 114, 115]
/-- `"entrypoint"` -/
def lblEntrypoint : Bytes := [101, 110, 116, 114, 121, 112, 111, 105, 110, 116]

/-! ## data (the part of `pbsubstreams.Modules` that the hash, the graph and the import read) -/

/-- `Module.Kind` oneof.  The payloads (output type, update policy, value type) are carried so that
the model can say that the pre-image ignores them. -/
inductive Kind
  | map (outputType : Bytes)
  | store (updatePolicy : Nat) (valueType : Bytes)
  | blockIndex (outputType : Bytes)
  | unset
deriving DecidableEq, Repr

/-- `Module.Input` oneof.  `store` carries the mode (0 unset, 1 get, 2 deltas). -/
inductive Input
  | source (type : Bytes)
  | params (value : Bytes)
  | map (moduleName : Bytes)
  | store (moduleName : Bytes) (mode : Nat)
  | unset
deriving DecidableEq, Repr

/-- `Module.BlockFilter.Query` oneof -/
inductive FQuery
  | str (q : Bytes)
  | fromParams
  | unset
deriving DecidableEq, Repr

structure Filter where
  module : Bytes
  query  : FQuery
deriving DecidableEq, Repr

structure Module where
  name         : Bytes
  initialBlock : Nat            -- uint64
  kind         : Kind
  binaryIndex  : Nat            -- uint32
  entrypoint   : Bytes
  inputs       : List Input
  filter       : Option Filter
deriving DecidableEq, Repr

structure Binary where
  type    : Bytes
  content : Bytes
deriving DecidableEq, Repr

/-- `pbsubstreams.Modules` -/
structure Modules where
  modules  : List Module
  binaries : List Binary
deriving DecidableEq, Repr

/-! ## graph: `NewModuleGraph`, `AncestorsOf` -/

/-- `graph.Module(name)` / `moduleIndex[name]` (names are distinct) -/
def findM : List Module → Bytes → Option Module
  | [], _ => none
  | m :: rest, n => if m.name = n then some m else findM rest n

def hasName (G : List Module) (n : Bytes) : Bool := (findM G n).isSome

/-- the module name `NewModuleGraph` looks up in `moduleIndex` for an input.  Only map and store
inputs refer to modules (`found && (input.GetMap() != nil || input.GetStore() != nil)`, fix
17e1a4e4; before it a params value or a source type spelled like a module name created an edge);
source, params and unset inputs give the empty string, which is skipped. -/
def inputRef : Input → Bytes
  | .map m => m
  | .store m _ => m
  | .source _ => []
  | .params _ => []
  | .unset => []

/-- targets of the edges `AddCost(i, j, 1)` leaving module `m` (an empty input string is skipped;
the block-filter module is looked up without that test) -/
def edgeTargets (G : List Module) (m : Module) : List Bytes :=
  ((m.inputs.map inputRef).filter fun t => decide (t ≠ []) && hasName G t) ++
  (match m.filter with
   | some f => if hasName G f.module then [f.module] else []
   | none => [])

def succs (G : List Module) (n : Bytes) : List Bytes :=
  match findM G n with
  | none => []
  | some m => edgeTargets G m

/-- `b` is reachable from `a` by a path of 1 … `fuel` edges (`ShortestPaths` distance ≥ 1) -/
def reachF (G : List Module) : Nat → Bytes → Bytes → Bool
  | 0, _, _ => false
  | k + 1, a, b => (succs G a).any fun s => decide (s = b) || reachF G k s b

/-- `AncestorsOf(name)`: the modules at distance ≥ 1, **in module-list order** (names) -/
def ancestorNames (G : List Module) (r : Nat) (n : Bytes) : List Bytes :=
  (G.filter fun a => reachF G r n a.name).map (·.name)

/-- `!graph.Acyclic(g)` (a module reachable from itself; includes self-loops) -/
def cyclic (G : List Module) (r : Nat) : Bool := G.any fun m => reachF G r m.name m.name

/-! ## pre-image: `hashModule` -/

/-- `binary.LittleEndian.PutUint64` -/
def le64 (n : Nat) : Bytes :=
  [UInt8.ofNat n, UInt8.ofNat (n / 256), UInt8.ofNat (n / 65536), UInt8.ofNat (n / 16777216),
   UInt8.ofNat (n / 4294967296), UInt8.ofNat (n / 1099511627776), UInt8.ofNat (n / 281474976710656),
   UInt8.ofNat (n / 72057594037927936)]

def kindLabel : Kind → Bytes
  | .map _ => lblMap
  | .store _ _ => lblStore
  | .blockIndex _ => lblBlockIndex
  | .unset => []          -- Go: error "invalid module file" (see `checkN`)

/-- `inputName(input) ++ inputValue(input)`: map and store inputs contribute their kind only -/
def encInput : Input → Bytes
  | .source t => lblSource ++ t
  | .params v => lblParams ++ v
  | .map _ => lblMap
  | .store _ _ => lblStore
  | .unset => []          -- Go: error "invalid input"

def encInputs (ins : List Input) : Bytes := (ins.map encInput).flatten

def firstParams : List Input → Option Bytes
  | [] => none
  | .params v :: _ => some v
  | _ :: rest => firstParams rest

/-- `BlockFilterQueryString` (errors are in `checkN`) -/
def queryString (m : Module) : Bytes :=
  match m.filter with
  | none => []
  | some f =>
    match f.query with
    | .str q => q
    | .fromParams => (firstParams m.inputs).getD []
    | .unset => []

def binaryOf (P : Modules) (m : Module) : Binary := (P.binaries[m.binaryIndex]?).getD ⟨[], []⟩

/-- The segments `hashModule` writes for one module, labels left out. -/
structure Segs where
  ib    : Bytes                    -- 8 bytes, little endian
  kind  : Bytes
  bty   : Bytes
  bct   : Bytes
  ins   : Bytes
  flt   : Option (Bytes × Bytes)   -- (hash of the filter module, query string)
  anc   : List Bytes               -- hashes of the ancestors, module-list order
  entry : Bytes
deriving DecidableEq, Repr

/-- the sequence of `buf.Write*` calls -/
def Segs.list (s : Segs) : List Bytes :=
  [lblInitialBlock, s.ib, lblKind, s.kind, lblBinary, s.bty, s.bct, lblInputs, s.ins] ++
  (match s.flt with
   | none => []
   | some (h, q) => [lblFilterModule, h, lblFilterQuery, q]) ++
  [lblAncestors] ++ s.anc ++ [lblEntrypoint, s.entry]

/-- the bytes handed to SHA-1: plain concatenation, no length prefixes, no separators -/
def Segs.enc (s : Segs) : Bytes := s.list.flatten

/-- the segments of module `m` of `P`, given the hashes `hf` of the other modules (by name) -/
def segsOf (P : Modules) (r : Nat) (hf : Bytes → Bytes) (m : Module) : Segs :=
  { ib := le64 m.initialBlock
    kind := kindLabel m.kind
    bty := (binaryOf P m).type
    bct := (binaryOf P m).content
    ins := encInputs m.inputs
    flt := m.filter.map fun f => (hf f.module, queryString m)
    anc := (ancestorNames P.modules r m.name).map hf
    entry := m.entrypoint }

def preimage (P : Modules) (r : Nat) (hf : Bytes → Bytes) (m : Module) : Bytes := (segsOf P r hf m).enc

/-- `hashModule` by module name with recursion depth `k` (`[]` when the depth is exhausted or the
name is unknown; neither happens for `k ≥ number of modules` on an acyclic graph) -/
def hashN (H : Bytes → Bytes) (P : Modules) (r : Nat) : Nat → Bytes → Bytes
  | 0, _ => []
  | k + 1, n =>
    match findM P.modules n with
    | none => []
    | some m => H (preimage P r (hashN H P r k) m)

/-- the pre-image of module `n` at depth `k + 1` -/
def preN (H : Bytes → Bytes) (P : Modules) (r k : Nat) (n : Bytes) : Bytes :=
  match findM P.modules n with
  | none => []
  | some m => preimage P r (hashN H P r k) m

/-- `exec.Graph.ModuleHashes().Get(name)` before hex encoding -/
def hash (H : Bytes → Bytes) (P : Modules) (n : Bytes) : Bytes :=
  hashN H P P.modules.length P.modules.length n

/-! ## errors of `hashModule` / `NewModuleGraph` (no theorem is about these; tied by correspondence) -/

inductive Err
  | cycle | kind | binIdx | input | filterMissing | filterHash | queryUnset | queryNoParams | missing
deriving DecidableEq, Repr

def Err.toString : Err → String
  | .cycle => "cycle" | .kind => "kind" | .binIdx => "binidx" | .input => "input"
  | .filterMissing => "filter-missing" | .filterHash => "filter-hash"
  | .queryUnset => "query-unset" | .queryNoParams => "query-noparams" | .missing => "missing"

def firstErr {α} (f : α → Option Err) : List α → Option Err
  | [] => none
  | a :: rest => match f a with
    | some e => some e
    | none => firstErr f rest

def queryErr (m : Module) (f : Filter) : Option Err :=
  match f.query with
  | .str _ => none
  | .fromParams => if (firstParams m.inputs).isSome then none else some .queryNoParams
  | .unset => some .queryUnset

/-- the error `hashModule` returns for module `n`, in the order the Go code meets them -/
def checkN (P : Modules) (r : Nat) : Nat → Bytes → Option Err
  | 0, _ => none
  | k + 1, n =>
    match findM P.modules n with
    | none => some .missing
    | some m =>
      if m.kind = .unset then some .kind
      else if P.binaries.length ≤ m.binaryIndex then some .binIdx
      else if m.inputs.any (· = .unset) then some .input
      else
        let fltErr : Option Err :=
          match m.filter with
          | none => none
          | some f =>
            if !hasName P.modules f.module then some .filterMissing
            else if (checkN P r k f.module).isSome then some .filterHash
            else queryErr m f
        match fltErr with
        | some e => some e
        | none => firstErr (checkN P r k) (ancestorNames P.modules r n)

/-- `NewModuleGraph` + `HashModule` for module `n`: error or hash -/
def hashModule (H : Bytes → Bytes) (P : Modules) (n : Bytes) : Except Err Bytes :=
  let c := P.modules.length
  if cyclic P.modules c then .error .cycle
  else match checkN P c c n with
    | some e => .error e
    | none => .ok (hash H P n)

/-! ## identity-preserving transformations (functions on module lists) -/

def renameInput (ρ : Bytes → Bytes) : Input → Input
  | .map m => .map (ρ m)
  | .store m mode => .store (ρ m) mode
  | i => i

/-- rename a module and every reference to a module it holds (map / store inputs, filter module);
source types and params values are left alone — exactly what `prefixModules` does -/
def renameModule (ρ : Bytes → Bytes) (m : Module) : Module :=
  { m with name := ρ m.name
           inputs := m.inputs.map (renameInput ρ)
           filter := m.filter.map fun f => { f with module := ρ f.module } }

/-- consistent renaming of all modules -/
def rename (ρ : Bytes → Bytes) (P : Modules) : Modules :=
  { P with modules := P.modules.map (renameModule ρ) }

/-- `withPrefix(val, prefix)` = prefix ++ ":" ++ val -/
def withPrefix (pfx : Bytes) (n : Bytes) : Bytes := pfx ++ 58 :: n

/-- `prefixModules(mods, prefix)` -/
def prefixModules (pfx : Bytes) (P : Modules) : Modules := rename (withPrefix pfx) P

/-- the part of `reindexAndMergePackage(src, dest)` that touches `Modules` -/
def reindexAndMerge (src dest : Modules) : Modules :=
  { modules := dest.modules ++ src.modules.map fun m => { m with binaryIndex := m.binaryIndex + dest.binaries.length }
    binaries := dest.binaries ++ src.binaries }

/-- `loadImports` for one import: `prefixModules` then `reindexAndMergePackage` -/
def importPkg (alias : Bytes) (src dest : Modules) : Modules :=
  reindexAndMerge (prefixModules alias src) dest

/-- binary re-indexing: a new binaries table and a map of indexes -/
def reindexBinaries (σ : Nat → Nat) (bins : List Binary) (P : Modules) : Modules :=
  { modules := P.modules.map fun m => { m with binaryIndex := σ m.binaryIndex }
    binaries := bins }

/-- replace the module named `x` (single-module edit) -/
def setModule (P : Modules) (x : Bytes) (m' : Module) : Modules :=
  { P with modules := P.modules.map fun m => if m.name = x then m' else m }

/-! ## cache directories: storage/store/config.go, storage/execout/config.go, storage/index/config.go -/

def hexDigit (n : Nat) : UInt8 := if n < 10 then UInt8.ofNat (48 + n) else UInt8.ofNat (87 + n)

/-- `hex.EncodeToString` -/
def hexEnc (bs : Bytes) : Bytes := bs.flatMap fun b => [hexDigit (b.toNat / 16), hexDigit (b.toNat % 16)]

/-- `"states"`, `"outputs"`, `"index"` -/
def subStates : Bytes := [115, 116, 97, 116, 101, 115]
def subOutputs : Bytes := [111, 117, 116, 112, 117, 116, 115]
def subIndex : Bytes := [105, 110, 100, 101, 120]

/-- which constructor asks for the directory -/
inductive CacheUse
  | storeStates | storeOutputs | execoutMap | execoutIndex | index
deriving DecidableEq, Repr

def CacheUse.sub : CacheUse → Bytes
  | .storeStates => subStates
  | .storeOutputs => subOutputs
  | .execoutMap => subOutputs
  | .execoutIndex => subIndex
  | .index => subIndex

/-- `fmt.Sprintf("%s/states", moduleHash)` etc.; `moduleHash` is the hex string `ModuleHashes.Get` returns -/
def cacheDir (hash : Bytes) (u : CacheUse) : Bytes := hexEnc hash ++ 47 :: u.sub

end SV.Hash

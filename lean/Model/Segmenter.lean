/-
Model of /repo/block/segmenter.go, /repo/block/range.go (Split), /repo/block/ranges.go (Merged,
MergedBuckets).  Core Lean only; executable; total.

Numbers: Go `uint64` is modelled by `Nat` with truncated subtraction.  The two places where the Go
code can wrap (`exclusiveEndBlock - 1` at 0, `blockNum - 1` at 0) are excluded by the guards of the
theorems (`init < end_`, `0 < e`) and by the correspondence generator (documented in DESIGN §6/C13).
-/
namespace SV

structure Range where
  start : Nat
  stop  : Nat
deriving DecidableEq, Repr, Inhabited

namespace Range
def contains (r : Range) (b : Nat) : Bool := r.start ≤ b && b < r.stop
def size (r : Range) : Nat := r.stop - r.start
end Range

structure Segmenter where
  interval : Nat
  init     : Nat
  end_     : Nat
deriving DecidableEq, Repr

namespace Segmenter

def firstIndex (s : Segmenter) : Nat := s.init / s.interval
def lastIndex (s : Segmenter) : Nat := (s.end_ - 1) / s.interval

/-- `Count()`; Go computes in `int`, so a last index below the first gives a non-positive count. -/
def count (s : Segmenter) : Int := (s.lastIndex : Int) - (s.firstIndex : Int) + 1

def firstRange (s : Segmenter) : Option Range :=
  if s.end_ ≠ 0 ∧ s.end_ < s.init then none
  else
    let floorLowerBound := s.init - s.init % s.interval
    let upperBound := floorLowerBound + s.interval
    some ⟨s.init, min upperBound s.end_⟩

def followingRange (s : Segmenter) (idx : Nat) : Option Range :=
  if idx > s.lastIndex then none
  else
    let baseBlock := idx * s.interval
    let upperBound := baseBlock + s.interval
    some ⟨baseBlock, min upperBound s.end_⟩

/-- `Range(idx)`; `none` is Go's `nil`. (Negative `idx` is `< first`, hence `nil`; the model takes `Nat`.) -/
def range? (s : Segmenter) (idx : Nat) : Option Range :=
  let first := s.firstIndex
  if idx < first then none
  else if idx = first then s.firstRange
  else s.followingRange idx

def indexForStartBlock (s : Segmenter) (b : Nat) : Nat := b / s.interval
def indexForEndBlock (s : Segmenter) (b : Nat) : Nat := (b - 1) / s.interval

/-- `EndsOnInterval`: `none` = Go panics (explicit panic past the last index, nil dereference below
the first index). -/
def endsOnInterval (s : Segmenter) (idx : Nat) : Option Bool :=
  if idx > s.lastIndex then none
  else match s.range? idx with
    | none => none
    | some r => some (r.stop % s.interval == 0)

end Segmenter

/-! ### Range.Split -/

/-- The `for` loop of `Range.Split`, with fuel.  State: current start, current end. -/
def splitLoop (stop chunk : Nat) : Nat → Nat → Nat → List Range
  | 0, cs, ce => [⟨cs, ce⟩]
  | fuel + 1, cs, ce =>
    ⟨cs, ce⟩ ::
      (if ce ≥ stop then []
       else
         let cs' := ce
         let ce' := if cs' + chunk > stop then stop else cs' + chunk
         splitLoop stop chunk fuel cs' ce')

def Range.split (r : Range) (chunk : Nat) : List Range :=
  if r.stop - r.start ≤ chunk then [r]
  else
    let currentEnd := (r.start + chunk) - (r.start + chunk) % chunk
    splitLoop r.stop chunk (r.stop - r.start) r.start currentEnd

/-! ### Ranges.Merged / MergedBuckets

The Go code is an index loop with an inner "squash" loop; here: `absorb` is the inner loop (extends the
current end while the next range is adjacent), the outer recursion consumes what was absorbed. -/

/-- inner loop: returns (new end, remaining list). `ok cur next` is the loop's continue condition. -/
def absorb (ok : Nat → Range → Bool) : Nat → List Range → Nat × List Range
  | e, [] => (e, [])
  | e, n :: rest => if ok e n then absorb ok n.stop rest else (e, n :: rest)

theorem absorb_length_le (ok : Nat → Range → Bool) (e : Nat) (l : List Range) :
    (absorb ok e l).2.length ≤ l.length := by
  induction l generalizing e with
  | nil => simp [absorb]
  | cons n rest ih =>
    unfold absorb
    split
    · exact Nat.le_succ_of_le (ih _)
    · exact Nat.le_refl _

def merged : List Range → List Range
  | [] => []
  | [r] => [r]
  | cur :: next :: rest =>
    if cur.stop ≠ next.start then cur :: merged (next :: rest)
    else
      let p := absorb (fun e n => e == n.start) next.stop rest
      ⟨cur.start, p.1⟩ :: merged p.2
termination_by l => l.length
decreasing_by
  · simp
  · exact Nat.lt_of_le_of_lt (absorb_length_le _ _ _) (by simp; omega)

def mergedBuckets (maxSize : Nat) : List Range → List Range
  | [] => []
  | [r] => [r]
  | cur :: next :: rest =>
    if cur.size ≥ maxSize - 1 then cur :: mergedBuckets maxSize (next :: rest)
    else if cur.stop ≠ next.start ∨ next.stop - cur.start > maxSize then
      cur :: mergedBuckets maxSize (next :: rest)
    else
      let p := absorb (fun e n => e == n.start && !(n.stop - cur.start > maxSize)) next.stop rest
      ⟨cur.start, p.1⟩ :: mergedBuckets maxSize p.2
termination_by l => l.length
decreasing_by
  · simp
  · simp
  · exact Nat.lt_of_le_of_lt (absorb_length_le _ _ _) (by simp; omega)

end SV

namespace SV
/-! ### All segments of a segmenter, all blocks of a range

`stage.NewStages` / `Stages.NextJob` / the squasher walk a store's segments as
`for idx := seg.FirstIndex(); idx <= seg.LastIndex(); idx++ { seg.Range(idx) }`; a tier-2 job receives the
index and runs the blocks `r.StartBlock … r.ExclusiveEndBlock-1` of that `Range` in order. -/

/-- the segments of `s` in index order (indexes without a range contribute nothing) -/
def Segmenter.segments (s : Segmenter) : List Range :=
  (List.range' s.firstIndex (s.lastIndex + 1 - s.firstIndex)).filterMap s.range?

/-- the blocks of a range, in order -/
def Range.blocks (r : Range) : List Nat := List.range' r.start (r.stop - r.start)
end SV

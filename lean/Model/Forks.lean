import Model.Linear
/-
Model of the pipeline under chain reorganisations (C03): pipeline/process_block.go (`processBlock`,
`handleStepNew`, `handleStepUndo`, `handleStepStalled`, `handleStepFinal`), pipeline/forkhandler.go
(reversible outputs per block id, `handleUndo` after the fix of F7), pipeline/stores.go
(`storesHandleUndo` → `ApplyDeltasReverse`), pipeline/gate.go, and of the client the property describes.
The steps are those the fork resolver (bstream `forkable`) emits; module code is the script world of
`Model/Linear.lean`.
-/
namespace SV.Fk
open SV SV.Lin

inductive StepKind | new | newFinal | undo | stalled | final
deriving DecidableEq, Repr, Inhabited

structure FStep where
  kind : StepKind
  num  : Nat
  id   : Bytes
  jNum : Nat          -- undo: the reorg junction block (jId = [] when the resolver gives none)
  jId  : Bytes
deriving Repr, Inhabited

inductive FMsg
  | data (num : Nat) (id : Bytes) (payload : Bytes)
  | undo (num : Nat) (id : Bytes)
deriving DecidableEq, Repr, Inhabited

structure FState where
  st          : LState
  rev         : List (Bytes × List (Bytes × List Delta))   -- block id ↦ the deltas of every store that ran on it
  insideReorg : Option (Nat × Bytes)                        -- `insideReorgUpTo`
  gateOpen    : Bool
  msgs        : List FMsg
  ended       : Bool                                        -- stop block reached (io.EOF) or an error
deriving Inhabited

structure FCfg where
  world     : World
  maxDepth  : Nat
  output    : Bytes
  gateStart : Nat      -- LinearGateBlockNum = max(start, hand-off)
  stop      : Nat      -- 0 = none

/-- `storesHandleUndo` for every recorded store output of the block -/
def undoStores (st : LState) (recs : List (Bytes × List Delta)) : LState :=
  recs.foldl (fun st r => setStore st r.1 (applyDeltasReverse (getStore st r.1) r.2)) st

def delRev (rev : List (Bytes × List (Bytes × List Delta))) (id : Bytes) := rev.filter (fun p => p.1 ≠ id)

/-- `gate.processBlock`: a New or Undo step at or above the gate's block opens it (after the fix of F16:
an undo below the start block no longer opens it) -/
def gateStep (cfg : FCfg) (open_ : Bool) (s : FStep) : Bool :=
  if open_ then true
  else match s.kind with
    | .new | .newFinal | .undo => decide (s.num ≥ cfg.gateStart)
    | _ => false

/-- the content number of a block: the harness names the blocks of branch `x` `<num>x`; branch `a` is the
canonical chain of every other harness (salt 0) -/
def saltOf (id : Bytes) : Nat :=
  match id.getLast? with
  | some c => if 97 ≤ c.toNat ∧ c.toNat ≤ 122 then 7 * (c.toNat - 97) else 0
  | none => 0

/-- all modules on one block of the fork tree -/
def runBlockF (cfg : FCfg) (st : LState) (num : Nat) (id : Bytes) : Except LErr BlockAcc :=
  (usedMods cfg.world cfg.output).foldlM
    (runModuleE (usedMods cfg.world cfg.output) cfg.maxDepth num (num + saltOf id)) ⟨st, [], [], []⟩

def handleNew (cfg : FCfg) (fs : FState) (s : FStep) : FState :=
  let fs := { fs with insideReorg := none }
  if cfg.stop ≠ 0 ∧ s.num ≥ cfg.stop then { fs with ended := true } else
  match runBlockF cfg fs.st s.num s.id with
  | .error _ => { fs with ended := true }
  | .ok acc =>
    let payload := (outputOf cfg.output acc.outs).getD []
    let msgs := if fs.gateOpen ∧ s.num ≥ cfg.gateStart then fs.msgs ++ [.data s.num s.id payload] else fs.msgs
    -- addReversibleOutput: appended to whatever is recorded under this id
    let rev := if fs.rev.any (fun p => p.1 == s.id)
      then fs.rev.map (fun p => if p.1 == s.id then (p.1, p.2 ++ acc.deltas) else p)
      else fs.rev ++ [(s.id, acc.deltas)]
    { fs with st := resetAll acc.st, rev := rev, msgs := msgs }

def handleFinal (fs : FState) (s : FStep) : FState :=
  { fs with insideReorg := none, rev := delRev fs.rev s.id }

def stepF (cfg : FCfg) (fs : FState) (s : FStep) : FState :=
  if fs.ended then fs else
  let fs := { fs with gateOpen := gateStep cfg fs.gateOpen s }
  match s.kind with
  | .new => handleNew cfg fs s
  | .newFinal =>
    let fs' := handleNew cfg fs s
    if fs'.ended then fs' else handleFinal fs' s
  | .final => handleFinal fs s
  | .stalled => { fs with rev := delRev fs.rev s.id }
  | .undo =>
    let st' := match fs.rev.find? (fun p => p.1 == s.id) with
      | some p => undoStores fs.st p.2
      | none => fs.st
    let fs := { fs with st := st', rev := delRev fs.rev s.id }
    -- EqualsBlockRefs(insideReorgUpTo, junction): both nil, or same num and id
    let same : Bool := match fs.insideReorg with
      | none => decide (s.jId = [])
      | some (n, i) => decide (s.jId ≠ [] ∧ n = s.jNum ∧ i = s.jId)
    if same then fs
    else
      let fs := { fs with insideReorg := if s.jId = [] then none else some (s.jNum, s.jId) }
      if s.jId = [] then { fs with ended := true }   -- blockRefToPB(nil) dereferences a nil junction
      else { fs with msgs := fs.msgs ++ [.undo s.jNum s.jId] }

def runSteps (cfg : FCfg) (fs : FState) (steps : List FStep) : FState := steps.foldl (stepF cfg) fs

/-! ### the client of the property: keeps data messages, drops above `last_valid` on an undo signal -/

def clientStep (held : List (Nat × Bytes × Bytes)) : FMsg → List (Nat × Bytes × Bytes)
  | .data n i p => held ++ [(n, i, p)]
  | .undo n _ => held.filter (fun h => h.1 ≤ n)

def client (msgs : List FMsg) : List (Nat × Bytes × Bytes) := msgs.foldl clientStep []

end SV.Fk

/-
Model for C17 of the request path of tier1 (and, at the end of the file, of the first steps of tier2's
processRange), as the code is at /repo HEAD (F10–F12 fixed; 17e1a4e4: only map and store inputs are
graph edges):

  service/validate.go            ValidateTier1Request, validateRequest, validateModuleGraph, validateBinaryTypes
  pb/.../rpc/v2/substreams.go    Request.Validate
  pb/.../v1/modules.go           ModuleKind (panics on an absent kind), BlockFilterQueryString
  wasm/interface.go, extensions.go  ParseWASMCodeType, ParseRuntimeExtensions
  manifest/reader.go             ValidateModules, checkValidInputs, checkValidBlockFilter, moduleNameRegexp
  manifest/graph.go              NewModuleGraph, AncestorsOf, ModulesDownTo, StoresDownTo, Module
  manifest/signature.go          HashModule / hashModule (control flow and failure points only, no bytes)
  pipeline/exec/graph.go         NewOutputModuleGraph, computeGraph, computeStages, computeLowest…, computeOutputModule …
  service/tier1.go               the glue of `Blocks`/`blocks()` between these calls
  pipeline/resolve.go            BuildRequestDetails, resolveStartBlockNum, reprocStateRequired, computeLinearHandoffBlockNum
  orchestrator/plan/requestplan.go  BuildTier1RequestPlan   (+ block/segmenter.go Range/IndexForStartBlock)

The request is the *wire-level* request: what `proto.Unmarshal` can produce.  Every oneof may be absent,
every reference may dangle, names may be duplicated or empty, numbers are arbitrary.  (Sub-messages of a
oneof that is present are never nil after decoding and repeated fields never hold nil entries; those two
Go-only shapes are not wire-level requests.)

Every Go partial operation on the path is a possible `Outcome.panic`; a returned `error` is
`Outcome.error`; running out of fuel in one of the two unbounded constructs (the `for i := 0; ; i++`
of computeStages, the recursion of hashModule) is `Outcome.hang`.  Core Lean only; executable; total.

Modelled, not verified (DESIGN §3.5): the graph library (`Acyclic`/`TopSort` = "a topological order
exists", computed by peeling; `ShortestPaths` with unit costs = breadth-first reachability), Go maps
(association lists), `strings.Cut/Split/TrimSpace`, the `regexp` of module names, `bstream` cursor
parsing (a cursor is absent / unparsable / parsed to (step, block, lib)), `resolveCursor`,
`getRecentFinalBlock`, `getHeadBlock` (parameters in `Cfg`).  The order in which `ModulesDownTo` /
`StoresDownTo` sort their result is abstracted (index order): nothing on this path depends on it.
-/
namespace SV.Val

abbrev Str := List UInt8

/-! ## Outcomes -/

inductive Outcome (α : Type) where
  | ok (a : α)
  | error
  | panic
  | hang
deriving Repr

namespace Outcome
@[inline] def bind {α β : Type} (o : Outcome α) (f : α → Outcome β) : Outcome β :=
  match o with
  | ok a => f a
  | error => error
  | panic => panic
  | hang => hang

/-- panic or hang -/
def isBad {α : Type} : Outcome α → Bool
  | panic => true
  | hang => true
  | _ => false

def isPanic {α : Type} : Outcome α → Bool
  | panic => true
  | _ => false

def isHang {α : Type} : Outcome α → Bool
  | hang => true
  | _ => false

def isOk {α : Type} : Outcome α → Bool
  | ok _ => true
  | _ => false

def isError {α : Type} : Outcome α → Bool
  | error => true
  | _ => false
end Outcome

/-! ## The wire-level request -/

inductive Kind where
  | map | store | blockIndex
deriving DecidableEq, Repr

/-- `Module.Input.input` oneof when present. `mode` is an open proto3 enum: any int32. -/
inductive InputK where
  | params (value : Str)
  | source (type : Str)
  | map (name : Str)
  | store (name : Str) (mode : Int)
deriving DecidableEq, Repr

/-- `Module.BlockFilter.query` oneof when present (the text of a query string is irrelevant here). -/
inductive Query where
  | str | fromParams
deriving DecidableEq, Repr

structure BlockFilter where
  module : Str
  query : Option Query
deriving DecidableEq, Repr

structure Module where
  name : Str
  kind : Option Kind
  binaryIndex : Nat
  inputs : List (Option InputK)
  initialBlock : Nat
  blockFilter : Option BlockFilter
deriving DecidableEq, Repr

structure Binary where
  type : Str
  contentLen : Nat
deriving DecidableEq, Repr

structure Modules where
  modules : List Module
  binaries : List Binary
deriving DecidableEq, Repr

/-- `start_cursor` after `bstream.CursorFromOpaque`: empty string / does not parse / parses. -/
inductive Cursor where
  | none
  | invalid
  | valid (step block lib : Nat)
deriving DecidableEq, Repr

structure Request where
  modules : Option Modules
  outputModule : Str
  startBlockNum : Int
  stopBlockNum : Nat
  startCursor : Cursor
  productionMode : Bool
  debugSnapshots : List Str
deriving Repr

/-- what `resolveCursor` (a service dependency) answers -/
inductive ResolveRes where
  | err
  | noJunction
  | junction (num : Nat)
deriving DecidableEq, Repr

/-- Server side parameters of `Tier1Service` and the answers of its external dependencies. -/
structure Cfg where
  blockType : Str
  firstStreamable : Nat
  segmentSize : Nat
  recentFinal : Option Nat
  headBlock : Option Nat
  resolve : ResolveRes
deriving Repr

/-! ## Strings -/

def isAlpha (b : UInt8) : Bool := (65 ≤ b && b ≤ 90) || (97 ≤ b && b ≤ 122)
def isAlnumU (b : UInt8) : Bool := isAlpha b || (48 ≤ b && b ≤ 57) || b == 95

/-- `^([a-zA-Z][a-zA-Z0-9_]{0,63})$` -/
def nameSegmentOk : Str → Bool
  | [] => false
  | c :: r => isAlpha c && r.length ≤ 63 && r.all isAlnumU

/-- `strings.Split(s, sep)` for a one byte separator -/
def splitOn (sep : UInt8) : Str → List Str
  | [] => [[]]
  | c :: r =>
    if c == sep then [] :: splitOn sep r
    else match splitOn sep r with
      | [] => [[c]]
      | h :: t => (c :: h) :: t

/-- `strings.Cut(s, sep)` for a one byte separator: (before, after, found) -/
def cut (sep : UInt8) : Str → Str × Str × Bool
  | [] => ([], [], false)
  | c :: r =>
    if c == sep then ([], r, true)
    else let (a, b, f) := cut sep r; (c :: a, b, f)

/-- UTF-8 encodings of the code points of `unicode.IsSpace` -/
def spaceSeqs : List Str :=
  [[9], [10], [11], [12], [13], [32], [0xC2, 0x85], [0xC2, 0xA0], [0xE1, 0x9A, 0x80],
   [0xE2, 0x80, 0x80], [0xE2, 0x80, 0x81], [0xE2, 0x80, 0x82], [0xE2, 0x80, 0x83], [0xE2, 0x80, 0x84],
   [0xE2, 0x80, 0x85], [0xE2, 0x80, 0x86], [0xE2, 0x80, 0x87], [0xE2, 0x80, 0x88], [0xE2, 0x80, 0x89],
   [0xE2, 0x80, 0x8A], [0xE2, 0x80, 0xA8], [0xE2, 0x80, 0xA9], [0xE2, 0x80, 0xAF], [0xE2, 0x81, 0x9F],
   [0xE3, 0x80, 0x80]]

def stripSpacePrefix (s : Str) : Option Str :=
  spaceSeqs.findSome? fun q => if q.isPrefixOf s then some (s.drop q.length) else none

def trimLeft : Nat → Str → Str
  | 0, s => s
  | k + 1, s => match stripSpacePrefix s with
    | some r => trimLeft k r
    | none => s

def stripSpaceSuffix (s : Str) : Option Str :=
  spaceSeqs.findSome? fun q => if q.isSuffixOf s then some (s.take (s.length - q.length)) else none

def trimRight : Nat → Str → Str
  | 0, s => s
  | k + 1, s => match stripSpaceSuffix s with
    | some r => trimRight k r
    | none => s

/-- `strings.TrimSpace` (on valid UTF-8) -/
def trimSpace (s : Str) : Str := trimRight s.length (trimLeft s.length s)

/-- "wasm-bindgen-shims" -/
def extWasmBindgenShims : Str := [119, 97, 115, 109, 45, 98, 105, 110, 100, 103, 101, 110, 45, 115, 104, 105, 109, 115]
/-- "wasm/rust-v1" -/
def typeRustV1 : Str := [119, 97, 115, 109, 47, 114, 117, 115, 116, 45, 118, 49]
/-- "wasip1/tinygo-v1" -/
def typeTinygoV1 : Str := [119, 97, 115, 105, 112, 49, 47, 116, 105, 110, 121, 103, 111, 45, 118, 49]
/-- "sf.substreams.v1.Clock" -/
def clockType : Str := [115, 102, 46, 115, 117, 98, 115, 116, 114, 101, 97, 109, 115, 46, 118, 49, 46, 67, 108, 111, 99, 107]

/-- `wasm.ParseRuntimeExtensions(..) == nil error` -/
def extensionsOk (raw : Str) : Bool :=
  (splitOn 44 raw).all fun expr => (cut 61 (trimSpace expr)).1 == extWasmBindgenShims

/-- `wasm.ParseWASMCodeType`: the type id, or `none` on error -/
def parseWASMCodeType (t : Str) : Option Str :=
  let (id, raw, hasExt) := cut 43 t
  if !hasExt then some id
  else if extensionsOk raw then some id else none

/-! ## Request.Validate -/

def Module.isStore (m : Module) : Bool := m.kind == some Kind.store

/-- the loop over `req.Modules.Modules`: `none` = returned "output module must be of kind 'map'",
`some found` otherwise -/
def outputLoop (out : Str) : List Module → Bool → Option Bool
  | [], found => some found
  | m :: r, found =>
    if m.name = out then
      if m.isStore then none else outputLoop out r true
    else outputLoop out r found

def requestValidate (r : Request) : Outcome Modules :=
  match r.modules with
  | none => .error
  | some ms =>
    if r.outputModule = [] then .error
    else if !r.debugSnapshots.isEmpty && r.productionMode then .error
    else match outputLoop r.outputModule ms.modules false with
      | none => .error
      | some false => .error
      | some true =>
        if r.debugSnapshots.all (fun s => ms.modules.any fun m => m.isStore && m.name == s)
        then .ok ms else .error

/-! ## validateBinaryTypes -/

def validateBinaryTypes : List Binary → Outcome Unit
  | [] => .ok ()
  | b :: r =>
    match parseWASMCodeType b.type with
    | none => .error
    | some id => if id = typeRustV1 || id = typeTinygoV1 then validateBinaryTypes r else .error

/-! ## manifest.ValidateModules -/

/-- `(*Module).ModuleKind()`: `panic("unsupported kind")` when the oneof is absent -/
def Module.moduleKind (m : Module) : Outcome Kind :=
  match m.kind with
  | none => .panic
  | some k => .ok k

def lookupMod (name : Str) : List (Str × Module) → Option Module
  | [] => none
  | (k, m) :: r => if k = name then some m else lookupMod name r

def lookupKind (name : Str) : List (Str × Kind) → Option Kind
  | [] => none
  | (k, v) :: r => if k = name then some v else lookupKind name r

/-- first loop of ValidateModules: fills `mapModuleKind` and `mapModules` -/
def buildMaps : List Module → List (Str × Kind) → List (Str × Module) →
    Outcome (List (Str × Kind) × List (Str × Module))
  | [], mk, mm => .ok (mk, mm)
  | m :: r, mk, mm =>
    if (lookupKind m.name mk).isSome then .error           -- duplicate module name
    else if m.kind.isNone then .error                      -- kind not set (F10 fix)
    else m.moduleKind.bind fun k => buildMaps r (mk ++ [(m.name, k)]) (mm ++ [(m.name, m)])

def checkValidBlockFilter (m : Module) (mm : List (Str × Module)) : Outcome Unit :=
  match m.blockFilter with
  | none => .ok ()
  | some bf =>
    match lookupMod bf.module mm with
    | none => .error
    | some sm =>
      sm.moduleKind.bind fun k =>
        if k ≠ Kind.blockIndex then .error
        else if sm.initialBlock > m.initialBlock then .error
        else .ok ()

def checkValidInputs (mk : List (Str × Kind)) : List (Option InputK) → Nat → Outcome Unit
  | [], _ => .ok ()
  | none :: _, _ => .error                                  -- no input type set (F12 fix)
  | some (.params _) :: r, idx => if idx ≠ 0 then .error else checkValidInputs mk r (idx + 1)
  | some (.source t) :: r, idx => if t = [] then .error else checkValidInputs mk r (idx + 1)
  | some (.map nm) :: r, idx =>
    match lookupKind nm mk with
    | none => .error
    | some k => if k ≠ Kind.map then .error else checkValidInputs mk r (idx + 1)
  | some (.store nm mode) :: r, idx =>
    match lookupKind nm mk with
    | none => .error
    | some k =>
      if k ≠ Kind.store then .error
      else if mode = 1 ∨ mode = 2 then checkValidInputs mk r (idx + 1)
      else .error

def moduleNameOk (name : Str) : Bool := (splitOn 58 name).all nameSegmentOk

/-- second loop of ValidateModules -/
def checkModules (mk : List (Str × Kind)) (mm : List (Str × Module)) : List Module → Outcome Unit
  | [] => .ok ()
  | m :: r =>
    if !moduleNameOk m.name then .error
    else if m.inputs.length > 30 then .error
    else (checkValidBlockFilter m mm).bind fun _ =>
      (checkValidInputs mk m.inputs 0).bind fun _ => checkModules mk mm r

def sumCode (bs : List Binary) : Nat := (bs.map (·.contentLen)).sum

def validateModules (ms : Modules) : Outcome Unit :=
  if sumCode ms.binaries > 300000000 then .error
  else if ms.modules.length > 100 then .error
  else (buildMaps ms.modules [] []).bind fun p => checkModules p.1 p.2 ms.modules

/-! ## manifest.ModuleGraph -/

/-- `g.moduleIndex[name]`: a Go map filled in slice order, so the last module of that name wins -/
def lookupIdx (name : Str) : List Module → Option Nat
  | [] => none
  | m :: r =>
    match lookupIdx name r with
    | some j => some (j + 1)
    | none => if m.name = name then some 0 else none

/-- the edge NewModuleGraph adds for an input: only map and store inputs refer to modules (a params
value or a source type spelled like a module name is not a dependency); an empty name is skipped -/
def inputEdge (ms : List Module) : Option InputK → Option Nat
  | some (.map n) => if n = [] then none else lookupIdx n ms
  | some (.store n _) => if n = [] then none else lookupIdx n ms
  | _ => none

def edgesOf (ms : List Module) (m : Module) : List Nat :=
  m.inputs.filterMap (inputEdge ms) ++
    (match m.blockFilter with
     | none => []
     | some bf => (lookupIdx bf.module ms).toList)

def succs (adj : List (List Nat)) (v : Nat) : List Nat := adj.getD v []

/-- one round of peeling: the vertices not yet removed all of whose successors are removed -/
def peelRound (adj : List (List Nat)) (done : List Nat) : List Nat :=
  (List.range adj.length).filter fun v => !done.contains v && (succs adj v).all done.contains

def peel (adj : List (List Nat)) : Nat → List Nat → List Nat
  | 0, done => done
  | k + 1, done =>
    let nw := peelRound adj done
    if nw.isEmpty then done else peel adj k (done ++ nw)

/-- a topological order (successors first) of as many vertices as can be ordered; it has all the
vertices iff the graph is acyclic (`graph.TopSort` / `graph.Acyclic`) -/
def topoOrder (adj : List (List Nat)) : List Nat := peel adj adj.length []

structure MGraph where
  ms : List Module
  adj : List (List Nat)
  order : List Nat

def newModuleGraph (ms : List Module) : Outcome MGraph :=
  let adj := ms.map (edgesOf ms)
  -- Mutable.AddCost: panic("vertex out of range") unless 0 <= w < n
  if !(adj.all fun l => l.all (· < ms.length)) then .panic
  else
    let order := topoOrder adj
    if order.length == ms.length then .ok ⟨ms, adj, order⟩ else .error   -- "modules graph has a cycle"

def addNew (vis cand : List Nat) : List Nat :=
  cand.foldl (fun acc w => if acc.contains w then acc else acc ++ [w]) vis

/-- breadth first search; `fr` is the last batch of new vertices -/
def bfs (adj : List (List Nat)) : Nat → List Nat → List Nat → List Nat
  | 0, vis, _ => vis
  | k + 1, vis, fr =>
    let vis' := addNew vis (fr.flatMap (succs adj))
    let nxt := vis'.drop vis.length
    if nxt.isEmpty then vis else bfs adj k vis' nxt

/-- the vertices with `dist >= 0` in `graph.ShortestPaths(g, v)` -/
def reach (adj : List (List Nat)) (v : Nat) : List Nat := bfs adj adj.length [v] [v]

/-- `g.indexIndex[i]` for each index, followed by a field access: nil dereference if absent -/
def modulesAt (ms : List Module) : List Nat → Outcome (List Module)
  | [] => .ok []
  | i :: r =>
    match ms[i]? with
    | none => .panic
    | some m => (modulesAt ms r).bind fun l => .ok (m :: l)

def MGraph.topSortOk (g : MGraph) : Bool := g.order.length == g.ms.length

def MGraph.ancestorsOf (g : MGraph) (name : Str) : Outcome (List Module) :=
  match lookupIdx name g.ms with
  | none => .error
  | some v =>
    let r := reach g.adj v
    modulesAt g.ms ((List.range g.ms.length).filter fun i => i != v && r.contains i)

def dedupByName : List Module → List Module → List Module
  | [], acc => acc
  | m :: r, acc => if acc.any (·.name == m.name) then dedupByName r acc else dedupByName r (acc ++ [m])

def MGraph.modulesDownTo (g : MGraph) (name : Str) : Outcome (List Module) :=
  if !g.topSortOk then .error
  else match lookupIdx name g.ms with
    | none => .error
    | some v =>
      let r := reach g.adj v
      (modulesAt g.ms ((List.range g.ms.length).filter r.contains)).bind fun l =>
        .ok (dedupByName l [])

def MGraph.storesDownTo (g : MGraph) (name : Str) : Outcome (List Module) :=
  if !g.topSortOk then .error
  else match lookupIdx name g.ms with
    | none => .error
    | some v =>
      let r := reach g.adj v
      (modulesAt g.ms ((List.range g.ms.length).filter r.contains)).bind fun l =>
        .ok (dedupByName (l.filter Module.isStore) [])

/-- `g.Module(name)`: map lookup then slice index -/
def MGraph.module (g : MGraph) (name : Str) : Outcome Module :=
  match lookupIdx name g.ms with
  | none => .error
  | some j => match g.ms[j]? with
    | none => .panic
    | some m => .ok m

/-! ## validateModuleGraph / validateRequest / ValidateTier1Request -/

def sourcesOk (blockType : Str) : List (Option InputK) → Bool
  | [] => true
  | some (.source t) :: r => (t = blockType || t = clockType) && sourcesOk blockType r
  | _ :: r => sourcesOk blockType r

def validateModuleGraph (ms : List Module) (out : Str) (blockType : Str) : Outcome Unit :=
  (newModuleGraph ms).bind fun g =>
    (g.ancestorsOf out).bind fun anc =>
      if anc.all (fun m => sourcesOk blockType m.inputs) then .ok () else .error

def validateRequest (ms : Modules) (out : Str) (blockType : Str) : Outcome Unit :=
  (validateBinaryTypes ms.binaries).bind fun _ =>
    (validateModules ms).bind fun _ =>
      validateModuleGraph ms.modules out blockType

def validateTier1Request (r : Request) (blockType : Str) : Outcome Modules :=
  (requestValidate r).bind fun ms =>
    (validateRequest ms r.outputModule blockType).bind fun _ => .ok ms

/-! ## exec.NewOutputModuleGraph -/

def initBlocks (first : Nat) : List Module → List (Str × Nat) → Outcome (List (Str × Nat))
  | [], acc => .ok acc
  | m :: r, acc =>
    if m.initialBlock = 0 then initBlocks first r (acc ++ [(m.name, first)])
    else if m.initialBlock < first then .error
    else initBlocks first r (acc ++ [(m.name, m.initialBlock)])

/-- `initBlocks[name]`: zero value when absent, last write wins -/
def lookupInit (tbl : List (Str × Nat)) (name : Str) : Nat :=
  match tbl.reverse.find? (fun p => p.1 == name) with
  | some p => p.2
  | none => 0

/-- the loop over `mod.Inputs` in computeStages. `ok none` = `continue modLoop`,
`ok (some v)` = loop finished with `validInputsAtInitialBlock = v`;
`panic(fmt.Errorf("unsupported input type %T"))` on an absent oneof -/
def inputsLoop (tbl : List (Str × Nat)) (seen : List Str) (m : Module) :
    List (Option InputK) → Bool → Outcome (Option Bool)
  | [], valid => .ok (some valid)
  | none :: _, _ => .panic
  | some (.params _) :: r, valid =>
    inputsLoop tbl seen m r (if m.inputs.length == 1 then true else valid)
  | some (.source _) :: r, _ => inputsLoop tbl seen m r true
  | some (.map nm) :: r, valid =>
    let valid' := if lookupInit tbl m.name ≥ lookupInit tbl nm then true else valid
    if !seen.contains nm then .ok none else inputsLoop tbl seen m r valid'
  | some (.store nm _) :: r, valid =>
    let valid' := if lookupInit tbl m.name ≥ lookupInit tbl nm then true else valid
    if !seen.contains nm then .ok none else inputsLoop tbl seen m r valid'

def paritySkip (i : Nat) : Option Kind → Bool
  | some Kind.map => i % 2 == 0
  | some Kind.blockIndex => i % 2 == 0
  | some Kind.store => i % 2 == 1
  | none => false

/-- body of `modLoop` for one module: `ok true` = appended to the layer -/
def modStep (tbl : List (Str × Nat)) (seen : List Str) (i : Nat) (m : Module) : Outcome Bool :=
  if paritySkip i m.kind then .ok false
  else if seen.contains m.name then .ok false
  else (inputsLoop tbl seen m m.inputs false).bind fun res =>
    match res with
    | none => .ok false
    | some valid =>
      if !valid then .error
      else match m.blockFilter with
        | none => .ok true
        | some bf => if !seen.contains bf.module then .ok false else .ok true

def layerOf (tbl : List (Str × Nat)) (seen : List Str) (i : Nat) : List Module → Outcome (List Module)
  | [] => .ok []
  | m :: r =>
    (modStep tbl seen i m).bind fun take =>
      (layerOf tbl seen i r).bind fun l => .ok (if take then m :: l else l)

/-- `seen[mod.Name] = true` for the modules of a layer (`seen` is a set) -/
def addSeen (seen : List Str) : List Module → List Str
  | [] => seen
  | m :: r => addSeen (if seen.contains m.name then seen else seen ++ [m.name]) r

/-- `for i := 0; ; i++ { if len(seen) == len(mods) { break } … }` -/
def stagesLoop (tbl : List (Str × Nat)) (mods : List Module) :
    Nat → Nat → List Str → List (List Module) → Outcome (List (List Module))
  | 0, _, _, _ => .hang
  | fuel + 1, i, seen, layers =>
    if seen.length == mods.length then .ok layers
    else (layerOf tbl seen i mods).bind fun layer =>
      if layer.isEmpty then stagesLoop tbl mods fuel (i + 1) seen layers
      else stagesLoop tbl mods fuel (i + 1) (addSeen seen layer) (layers ++ [layer])

/-- `LayerModules.IsStoreLayer`: `l[0].GetKindStore() != nil` -/
def isStoreLayer : List Module → Outcome Bool
  | [] => .panic
  | m :: _ => .ok m.isStore

/-- second loop of computeStages -/
def groupStages : List (List Module) → List (List Module) → Outcome (List (List (List Module)))
  | [], _ => .ok []
  | l :: r, cur =>
    (isStoreLayer l).bind fun st =>
      if st || r.isEmpty then (groupStages r []).bind fun ss => .ok ((cur ++ [l]) :: ss)
      else groupStages r (cur ++ [l])

def stagesFuel (mods : List Module) : Nat := 2 * mods.length + 1

def computeStages (mods : List Module) (tbl : List (Str × Nat)) : Outcome (List (List (List Module))) :=
  (stagesLoop tbl mods (stagesFuel mods) 0 [] []).bind fun layers => groupStages layers []

def maxU64 : Nat := 18446744073709551615

def computeLowestInitBlock (mods : List Module) (first : Nat) : Nat :=
  let c := (mods.filter fun m => m.kind != some Kind.blockIndex).map (·.initialBlock)
  if c.isEmpty then first
  else
    let lowest := c.foldl min maxU64
    if lowest < first then first else lowest

def computeLowestStoresInitBlock (mods : List Module) (first : Nat) : Option Nat :=
  let c := (mods.filter Module.isStore).map (·.initialBlock)
  if c.isEmpty then none
  else
    let lowest := c.foldl min maxU64
    if lowest < first then some first else some lowest

def foldOutcome {σ α : Type} (step : σ → α → Outcome σ) : σ → List α → Outcome σ
  | s, [] => .ok s
  | s, a :: r => (step s a).bind fun s' => foldOutcome step s' r

/-- `Module.BlockFilterQueryString` returns no error -/
def queryOk (m : Module) (bf : BlockFilter) : Bool :=
  match bf.query with
  | some Query.str => true
  | some Query.fromParams => m.inputs.any fun i => match i with
    | some (.params _) => true
    | _ => false
  | none => false

/-- the body of `ModuleHashes.hashModule`; `rec` is the recursive call (on the block filter module and
on every ancestor).  The result is the cache: which modules have a hash.  The bytes hashed are C06's
business; here: every failure point and the recursion. -/
def hashBody (mods : Modules) (g : MGraph) (rec : List Str → Module → Outcome (List Str))
    (cache : List Str) (m : Module) : Outcome (List Str) :=
  if cache.contains m.name then .ok cache
  else if m.kind.isNone then .error                              -- invalid module file %T
  else if m.binaryIndex ≥ mods.binaries.length then .error        -- F11 fix
  else if m.inputs.any Option.isNone then .error                  -- inputName: invalid input %T
  else
    (match m.blockFilter with
      | none => Outcome.ok cache
      | some bf =>
        (g.module bf.module).bind fun fm =>                       -- error: cannot find block filter module
          (rec cache fm).bind fun c =>
            if queryOk m bf then .ok c else .error).bind fun c1 =>
    (match g.ancestorsOf m.name with                              -- `ancestors, _ := graph.AncestorsOf`
      | .ok l => Outcome.ok l
      | .error => .ok []
      | .panic => .panic
      | .hang => .hang).bind fun anc =>
    (foldOutcome rec c1 anc).bind fun c2 =>
      .ok (m.name :: c2)

/-- `ModuleHashes.hashModule`: Go recursion without a static bound, here with fuel -/
def hashModule (mods : Modules) (g : MGraph) : Nat → List Str → Module → Outcome (List Str)
  | 0, _, _ => .hang
  | fuel + 1, cache, m => hashBody mods g (hashModule mods g fuel) cache m

def hashFuel (g : MGraph) : Nat := g.ms.length + 1

def hashModules (mods : Modules) (g : MGraph) (used : List Module) : Outcome (List Str) :=
  foldOutcome (fun c m => hashModule mods g (hashFuel g) c m) [] used

/-- `computeOutputModule`: explicit panic when the name is not among the used modules -/
def computeOutputModule : List Module → Str → Outcome Module
  | [], _ => .panic
  | m :: r, out => if m.name = out then .ok m else computeOutputModule r out

def computeSchedulableModules (stores : List Module) (outMod : Module) (prod : Bool) : List Module :=
  if !prod then stores
  else if outMod.isStore then stores
  else stores ++ [outMod]

/-- `computeSchedulableAncestors`: `graph.AncestorStoresOf` per schedulable module -/
def computeSchedulableAncestors (g : MGraph) : List Module → Outcome Unit
  | [] => .ok ()
  | m :: r => (g.ancestorsOf m.name).bind fun _ => computeSchedulableAncestors g r

structure ExecGraph where
  used : List Module
  stages : List (List (List Module))
  lowestInit : Nat
  lowestStoresInit : Option Nat
  outputModule : Module
  stores : List Module

def computeGraph (out : Str) (prod : Bool) (mods : Modules) (first : Nat) : Outcome ExecGraph :=
  (newModuleGraph mods.modules).bind fun g =>
  (g.modulesDownTo out).bind fun used =>
  (initBlocks first used []).bind fun tbl =>
  (computeStages used tbl).bind fun stages =>
  let lowest := computeLowestInitBlock used first
  let lowestStores := computeLowestStoresInitBlock used first
  (hashModules mods g used).bind fun _ =>
  (computeOutputModule used out).bind fun outMod =>
  (g.storesDownTo outMod.name).bind fun stores =>
  (computeSchedulableAncestors g (computeSchedulableModules stores outMod prod)).bind fun _ =>
  .ok ⟨used, stages, lowest, lowestStores, outMod, stores⟩

/-! ## uint64 / int64 arithmetic (the values below can reach 2^64 through cursors) -/

def U64 : Nat := 18446744073709551616
def I63 : Nat := 9223372036854775808

def wrap (x : Nat) : Nat := x % U64
/-- `a - b` on uint64 -/
def subU (a b : Nat) : Nat := (a % U64 + U64 - b % U64) % U64
/-- `int64(x)` / `int(x)` of a uint64 -/
def toI64 (x : Nat) : Int := if x % U64 < I63 then ((x % U64 : Nat) : Int) else ((x % U64 : Nat) : Int) - (U64 : Int)
/-- `uint64(x)` of an int64 -/
def ofI64 (x : Int) : Nat := (x % (U64 : Int)).toNat
/-- wrap an integer into int64 -/
def wrapI (x : Int) : Int := toI64 (ofI64 x)

/-! ## tier1 `blocks()` and pipeline.BuildRequestDetails -/

/-- the first lines of `blocks()`: `none` = invalid start block -/
def adjustStart (start : Int) (stop : Nat) (first : Nat) : Option Int :=
  let f := toI64 first
  if start > 0 ∧ start < f then none
  else if start < 0 ∧ stop > 0 then
    if wrapI (toI64 stop + start) < f then some f else some start
  else if start = 0 then some f
  else some start

def startFromStep (step blk : Nat) : Nat :=
  if step % 2 = 1 then wrap (blk + 1)           -- Matches(StepNew)
  else if (step / 2) % 2 = 1 then blk          -- Matches(StepUndo)
  else 0

def resolveStartBlockNum (start : Int) (stop : Nat) (cur : Cursor) (cfg : Cfg) : Outcome Nat :=
  let start' : Outcome Int :=
    if start < 0 then
      match cfg.headBlock with
      | none => .error
      | some h => let s := wrapI (toI64 h + start); .ok (if s < 0 then 0 else s)
    else .ok start
  start'.bind fun s =>
    match cur with
    | .none => .ok (ofI64 s)
    | .invalid => .error
    | .valid step blk lib =>
      if stop > 0 ∧ stop < blk then .error
      else if blk = lib then .ok (wrap (blk + 1))
      else if lib > blk then .error
      else match cfg.resolve with
        | .err => .error
        | .noJunction => .ok (startFromStep step blk)
        | .junction j => if j ≠ blk then .ok (wrap (j + 1)) else .ok (startFromStep step blk)

def lowestBelow (start : Nat) : List Module → Option Nat → Option Nat
  | [], acc => acc
  | s :: r, acc =>
    let below : Bool := match acc with
      | none => true
      | some l => decide (s.initialBlock < l)
    if s.initialBlock < start ∧ below = true
    then lowestBelow start r (some s.initialBlock) else lowestBelow start r acc

def reprocStateRequired (start : Nat) (out : Str) (ms : List Module) : Outcome (Option Nat) :=
  (newModuleGraph ms).bind fun g =>
    (g.storesDownTo out).bind fun stores => .ok (lowestBelow start stores none)

/-- `x % segmentSize` / `x / segmentSize`: integer divide by zero -/
def modSeg (x seg : Nat) : Outcome Nat := if seg = 0 then .panic else .ok (x % seg)
def divSeg (x seg : Nat) : Outcome Nat := if seg = 0 then .panic else .ok (x / seg)

def computeLinearHandoff (prod : Bool) (start stop : Nat) (recentFinal : Option Nat)
    (stateRequiredAt : Option Nat) (seg : Nat) : Outcome Nat :=
  let stateRequired := match stateRequiredAt with
    | some s => decide (s ≤ start)
    | none => false
  if prod then
    (modSeg stop seg).bind fun rem =>
      let nextBoundary := if rem ≠ 0 then wrap (subU stop rem + seg) else stop
      match recentFinal with
      | none => if stop = 0 then .error else .ok nextBoundary
      | some lib =>
        (modSeg lib seg).bind fun lrem =>
          let libB := lib - lrem
          if stop = 0 ∨ lib < stop then
            if !stateRequired ∧ start > libB then .ok start else .ok libB
          else .ok nextBoundary
  else if !stateRequired then .ok start
  else
    (modSeg start seg).bind fun srem =>
      let prev := start - srem
      if stateRequiredAt.getD 0 > prev then .ok (stateRequiredAt.getD 0)
      else match recentFinal with
        | none => .ok prev
        | some lib =>
          if prev ≤ lib then .ok prev
          else (modSeg lib seg).bind fun lrem => .ok (lib - lrem)

structure Details where
  start : Nat
  handoff : Nat
deriving Repr

def buildRequestDetails (r : Request) (ms : Modules) (start : Int) (cfg : Cfg) : Outcome Details :=
  (resolveStartBlockNum start r.stopBlockNum r.startCursor cfg).bind fun rs =>
    (reprocStateRequired rs r.outputModule ms.modules).bind fun sra =>
      (computeLinearHandoff r.productionMode rs r.stopBlockNum cfg.recentFinal sra cfg.segmentSize).bind fun h =>
        .ok ⟨rs, h⟩

/-! ## plan.BuildTier1RequestPlan -/

structure Plan where
  buildStores : Option (Nat × Nat)
  writeExecOut : Option (Nat × Nat)
  readExecOut : Option (Nat × Nat)
  linear : Option (Nat × Nat)
deriving Repr

/-- `Segmenter.Range(idx)` for a segmenter (seg, init, end): only the start block is used -/
def segRangeStart (seg init end_ : Nat) (idx : Int) : Outcome (Option Nat) :=
  (divSeg init seg).bind fun fi =>
    let first := toI64 fi
    if idx < first then .ok none
    else if idx = first then
      if end_ ≠ 0 ∧ end_ < init then .ok none else .ok (some init)
    else
      (divSeg (subU end_ 1) seg).bind fun li =>
        if idx > toI64 li then .ok none
        else .ok (some (wrap (ofI64 idx * seg)))

def buildTier1RequestPlan (prod : Bool) (seg lowestInit lowestStore start handoff stop : Nat)
    (scheduleStores : Bool) : Outcome Plan :=
  if start < lowestInit then .error
  else
    let linear := if handoff < stop ∨ stop = 0 ∨ handoff = 0 then some (handoff, stop) else none
    if start = handoff ∧ lowestInit = start then .ok ⟨none, none, none, linear⟩
    else if prod then
      let stores := if scheduleStores ∧ handoff > lowestStore then some (lowestStore, handoff) else none
      if start < handoff then
        let s0 := max start lowestInit
        (divSeg s0 seg).bind fun q =>
          (segRangeStart seg lowestInit stop (toI64 q)).bind fun w =>
            match w with
            | none => .error
            | some ws =>
              let readEnd := if stop ≠ 0 ∧ stop < handoff then stop else handoff
              .ok ⟨stores, some (ws, handoff), some (start, readEnd), linear⟩
      else .ok ⟨stores, none, none, linear⟩
    else
      let stores := if scheduleStores ∧ handoff > lowestStore then some (lowestStore, handoff) else none
      .ok ⟨stores, none, none, linear⟩

/-- `execGraph.StagedUsedModules()[0].LastLayer().IsStoreLayer()` and `*execGraph.LowestStoresInitBlock()` -/
def scheduleStoresOf (eg : ExecGraph) : Outcome (Bool × Nat) :=
  match eg.stages with
  | [] => .panic                                   -- index out of range [0]
  | st :: _ =>
    match st.getLast? with
    | none => .panic                               -- l[len(l)-1]
    | some layer =>
      (isStoreLayer layer).bind fun s =>
        if s then
          match eg.lowestStoresInit with
          | none => .panic                         -- nil pointer dereference
          | some l => .ok (true, l)
        else .ok (false, 0)

/-! ## The pipeline, stage by stage, in the order of `Tier1Service.Blocks` / `blocks()` -/

inductive Stage where
  | validate | graph | details | checks | plan | upto | done
deriving DecidableEq, Repr

structure Summary where
  graph : ExecGraph
  details : Details
  plan : Plan

def stageGraph (r : Request) (ms : Modules) (cfg : Cfg) : Outcome ExecGraph :=
  computeGraph r.outputModule r.productionMode ms cfg.firstStreamable

def stageDetails (r : Request) (ms : Modules) (cfg : Cfg) : Outcome Details :=
  match adjustStart r.startBlockNum r.stopBlockNum cfg.firstStreamable with
  | none => .error
  | some s => buildRequestDetails r ms s cfg

/-- "start block and stop block are the same", `execGraph.ValidateRequestStartBlock` -/
def stageChecks (r : Request) (eg : ExecGraph) (d : Details) : Outcome Unit :=
  if d.start = r.stopBlockNum ∧ r.stopBlockNum ≠ 0 then .error
  else if d.start < eg.outputModule.initialBlock then .error
  else .ok ()

def stagePlan (r : Request) (eg : ExecGraph) (d : Details) (cfg : Cfg) : Outcome Plan :=
  (scheduleStoresOf eg).bind fun p =>
    buildTier1RequestPlan r.productionMode cfg.segmentSize eg.lowestInit p.2 d.start d.handoff
      r.stopBlockNum p.1

/-- the stage that ended the request and how -/
def pipelineStaged (r : Request) (cfg : Cfg) : Stage × Outcome Summary :=
  match validateTier1Request r cfg.blockType with
  | .error => (.validate, .error) | .panic => (.validate, .panic) | .hang => (.validate, .hang)
  | .ok ms =>
    match stageGraph r ms cfg with
    | .error => (.graph, .error) | .panic => (.graph, .panic) | .hang => (.graph, .hang)
    | .ok eg =>
      match stageDetails r ms cfg with
      | .error => (.details, .error) | .panic => (.details, .panic) | .hang => (.details, .hang)
      | .ok d =>
        match stageChecks r eg d with
        | .error => (.checks, .error) | .panic => (.checks, .panic) | .hang => (.checks, .hang)
        | .ok _ =>
          match stagePlan r eg d cfg with
          | .error => (.plan, .error) | .panic => (.plan, .panic) | .hang => (.plan, .hang)
          | .ok p => (.done, .ok ⟨eg, d, p⟩)

def pipeline (r : Request) (cfg : Cfg) : Outcome Summary := (pipelineStaged r cfg).2

/-! ## tier2: ProcessRangeRequest.Validate, ValidateTier2Request and the first steps of processRange

  pb/.../intern/v2/validate.go   ProcessRangeRequest.Validate
  service/validate.go            ValidateTier2Request (shares validateRequest with tier1)
  service/tier2.go               processRange: NewOutputModuleGraph(out, true, modules, firstStreamable),
                                 the stage check (fix 84ed6b1e), then execGraph.UsedModulesUpToStage(int(request.Stage))
-/

/-- the internal request, wire level; the three store/metering strings only matter as empty / non-empty -/
structure T2Request where
  modules : Option Modules
  outputModule : Str
  blockType : Str
  stage : Nat
  segmentSize : Nat
  segmentNumber : Nat
  firstStreamable : Nat
  stopBlockNum : Nat
  meteringConfig : Bool
  stateStore : Bool
  mergedBlocksStore : Bool
deriving Repr

def requestValidateT2 (r : T2Request) : Outcome Modules :=
  if r.stopBlockNum ≠ 0 then .error                       -- "invalid protocol: update your tier1"
  else match r.modules with
    | none => .error
    | some ms =>
      if r.outputModule = [] then .error
      else if !r.meteringConfig then .error
      else if r.blockType = [] then .error
      else if !r.stateStore then .error
      else if !r.mergedBlocksStore then .error
      else if r.segmentSize = 0 then .error
      else if subU (wrap ((r.segmentNumber + 1) * r.segmentSize)) 1 < r.firstStreamable then .error
      else if ms.modules.any (fun m => m.name == r.outputModule) then .ok ms
      else .error

def validateTier2Request (r : T2Request) : Outcome Modules :=
  (requestValidateT2 r).bind fun ms =>
    (validateRequest ms r.outputModule r.blockType).bind fun _ => .ok ms

/-- `Graph.UsedModulesUpToStage(stage)`: `for i := 0; i <= stage; i++ { … g.StagedUsedModules()[i] … }`,
index out of range when `stage` is not a stage of the graph -/
def usedModulesUpToStage (eg : ExecGraph) (stage : Nat) : Outcome (List Module) :=
  if stage < eg.stages.length then .ok ((eg.stages.take (stage + 1)).flatten.flatten) else .panic

/-- processRange, fix 84ed6b1e: `if int(request.Stage) >= len(execGraph.StagedUsedModules())` → invalid argument -/
def checkStage (eg : ExecGraph) (stage : Nat) : Outcome Unit :=
  if eg.stages.length ≤ stage then .error else .ok ()

structure T2Summary where
  graph : ExecGraph
  upTo : List Module

def pipelineTier2Staged (r : T2Request) : Stage × Outcome T2Summary :=
  match validateTier2Request r with
  | .error => (.validate, .error) | .panic => (.validate, .panic) | .hang => (.validate, .hang)
  | .ok ms =>
    match computeGraph r.outputModule true ms r.firstStreamable with
    | .error => (.graph, .error) | .panic => (.graph, .panic) | .hang => (.graph, .hang)
    | .ok eg =>
      match (checkStage eg r.stage).bind fun _ => usedModulesUpToStage eg r.stage with
      | .error => (.upto, .error) | .panic => (.upto, .panic) | .hang => (.upto, .hang)
      | .ok l => (.done, .ok ⟨eg, l⟩)

def pipelineTier2 (r : T2Request) : Outcome T2Summary := (pipelineTier2Staged r).2

end SV.Val

import Model.Policy
/-
Model of /repo/storage/store/merge.go (`baseStore.Merge`, `setKV`, `setNewKV`, the `foundOrZero*`
helpers) and of partial_kv.go (`PartialKV`: a base store that also remembers the prefixes deleted
while it was being built; `DeletePrefix`, `ApplyOps` after the fix of F5, `Roll`).
-/
namespace SV

/-- `setKV` -/
def setKV (s : Store) (k v : Bytes) : Store :=
  let size := match look s.kv k with
    | some prev => s.size - prev.length
    | none => s.size + k.length
  { s with kv := ins s.kv k v, size := size + v.length }

/-- `setNewKV` (only correct when the key is absent) -/
def setNewKV (s : Store) (k v : Bytes) : Store :=
  { s with kv := ins s.kv k v, size := s.size + (k.length + v.length) }

structure Partial where
  store           : Store
  deletedPrefixes : List Bytes
deriving Repr, Inhabited

def Partial.empty : Partial := ⟨Store.empty, []⟩

/-- remember a deleted prefix (once): the `seen` map of `PartialKV` -/
def addPfx (dp : List Bytes) (op : Op) : List Bytes :=
  if op.kind = .deletePrefix ∧ ¬ dp.contains op.key then dp ++ [op.key] else dp

/-- `PartialKV.DeletePrefix`: record the operation and remember the prefix (once) -/
def Partial.record (p : Partial) (op : Op) : Partial := ⟨SV.record p.store op, addPfx p.deletedPrefixes op⟩

/-- one block on a partial store: the module's calls, then `Flush` -/
def Partial.execBlock (cfg : Cfg) (sem : Sem) (p : Partial) (calls : List Op) : Except SErr Partial :=
  let p' := calls.foldl Partial.record p
  match flush cfg sem p'.store with
  | .error e => .error e
  | .ok s => .ok ⟨s, p'.deletedPrefixes⟩

/-- `PartialKV.ApplyOps` (after the fix of F5): remembers the prefixes of the replayed log -/
def Partial.applyOps (cfg : Cfg) (sem : Sem) (p : Partial) (log : List Op) : Except SErr Partial :=
  match flush cfg sem { p.store with ops := log } with
  | .error e => .error e
  | .ok s => .ok ⟨s, log.foldl addPfx p.deletedPrefixes⟩

/-! ### typed readers used by merge -/

def foundOrZeroInt64 (v : Option Bytes) : Int :=
  match v with
  | none => 0
  | some b => (parseInt64 b).getD 0

/-- `bytesToBigInt` panics on a malformed text: `none` -/
def foundOrZeroBigInt (v : Option Bytes) : Option Int :=
  match v with
  | none => some 0
  | some b => parseInt b

/-- `foundOrZeroBigDecimal` (truncates to 34 decimals; panics on malformed text) -/
def foundOrZeroDec (v : Option Bytes) : Option Dec :=
  match v with
  | none => some ⟨0, 0⟩
  | some b => (Dec.parse b).map (·.truncate 34)

/-- `foundOrZeroPrefixedBigDecimal` (after the fix of F6: exact) -/
def foundOrZeroPrefixedDec (v : Option Bytes) : Option Dec :=
  match v with
  | none => some ⟨0, 0⟩
  | some b => Dec.parse (b.drop 4)

def foundOrZeroF64 (v : Option Bytes) : Float :=
  match v with
  | none => 0.0
  | some b => (parseF64 b).getD 0.0

/-- merge of one key of the partial store into the full store, per policy and value type.
`none` = the Go code panics (not recovered: `Merge` has no recover) -/
def mergeKey (cfg : Cfg) (s : Store) (k v : Bytes) : Option (Except SErr Store) :=
  let cur := look s.kv k
  match cfg.policy with
  | .set => some (.ok (setKV s k v))
  | .setIfNotExists => some (.ok (if cur.isSome then s else setNewKV s k v))
  | .append =>
    match cur with
    | some prev =>
      if cfg.appendLimit > 0 ∧ prev.length + v.length ≥ cfg.appendLimit then some (.error .appendLimit)
      else some (.ok (setKV s k (prev ++ v)))
    | none => some (.ok (setNewKV s k v))
  | .add =>
    match cfg.vt with
    | .int64 => some (.ok (setKV s k (renderInt (wrap64 (foundOrZeroInt64 cur + foundOrZeroInt64 (some v))))))
    | .float64 => some (.ok (setKV s k (renderF64 (foundOrZeroF64 cur + foundOrZeroF64 (some v)))))
    | .bigint =>
      match foundOrZeroBigInt cur, foundOrZeroBigInt (some v) with
      | some a, some b => some (.ok (setKV s k (renderInt (a + b))))
      | _, _ => none
    | .bigdecimal =>
      match foundOrZeroDec cur, foundOrZeroDec (some v) with
      | some a, some b => some (.ok (setKV s k (a.add b).render))
      | _, _ => none
    | .bytes => some (.error .badValue)
  | .setSum =>
    if isPrefix pfxSet v then
      match cfg.vt with
      | .float64 =>
        -- floatToPrefixedBytes("sum:", bytesToFloat(v[4:])): re-rendered (panics on malformed text)
        match parseF64 (v.drop 4) with
        | some f => some (.ok (setKV s k (pfxSum ++ renderF64 f)))
        | none => none
      | .bytes => some (.ok s)
      | _ => some (.ok (setKV s k (pfxSum ++ v.drop 4)))
    else
      match cfg.vt with
      | .int64 =>
        let a := match cur with | none => 0 | some c => (parseInt64 (c.drop 4)).getD 0
        let b := (parseInt64 (v.drop 4)).getD 0
        some (.ok (setKV s k (pfxSum ++ renderInt (wrap64 (a + b)))))
      | .float64 =>
        let a := match cur with | none => 0.0 | some c => (parseF64 (c.drop 4)).getD 0.0
        let b := (parseF64 (v.drop 4)).getD 0.0
        some (.ok (setKV s k (pfxSum ++ renderF64 (a + b))))
      | .bigint =>
        match (match cur with | none => some 0 | some c => parseInt (c.drop 4)), parseInt (v.drop 4) with
        | some a, some b => some (.ok (setKV s k (pfxSum ++ renderInt (a + b))))
        | _, _ => none
      | .bigdecimal =>
        match foundOrZeroPrefixedDec cur, foundOrZeroPrefixedDec (some v) with
        | some a, some b => some (.ok (setKV s k (pfxSum ++ (a.add b).render)))
        | _, _ => none
      | .bytes => some (.ok s)
  | .max | .min =>
    let isMax := cfg.policy = .max
    match cfg.vt with
    | .int64 =>
      let v1 := foundOrZeroInt64 (some v)
      match cur with
      | none => some (.ok (setNewKV s k (renderInt v1)))
      | some c =>
        let v0 := foundOrZeroInt64 (some c)
        let r := if isMax then (if v0 ≥ v1 then v0 else v1) else (if v0 ≤ v1 then v0 else v1)
        some (.ok (setKV s k (renderInt r)))
    | .float64 =>
      let v1 := foundOrZeroF64 (some v)
      match cur with
      | none => some (.ok (setNewKV s k (renderF64 v1)))
      | some c =>
        let v0 := foundOrZeroF64 (some c)
        let r := if isMax then (if v0 < v1 then v1 else v0) else (if v0 < v1 then v0 else v1)
        some (.ok (setKV s k (renderF64 r)))
    | .bigint =>
      match foundOrZeroBigInt (some v) with
      | none => none
      | some v1 =>
        match cur with
        | none => some (.ok (setNewKV s k (renderInt v1)))
        | some c =>
          match foundOrZeroBigInt (some c) with
          | none => none
          | some v0 =>
            let r := if isMax then (if v0 ≤ v1 then v1 else v0) else (if v0 ≤ v1 then v0 else v1)
            some (.ok (setKV s k (renderInt r)))
    | .bigdecimal =>
      match foundOrZeroDec (some v) with
      | none => none
      | some v1 =>
        match cur with
        | none => some (.ok (setNewKV s k v1.render))
        | some c =>
          match foundOrZeroDec (some c) with
          | none => none
          | some v0 =>
            let le := v0.cmp v1 != .gt
            let r := if isMax then (if le then v1 else v0) else (if le then v0 else v1)
            some (.ok (setKV s k r.render))    -- after the fix of F3 (was setNewKV)
    | .bytes => some (.error .badValue)
  | .unset => some (.error .badValue)

/-- `Merge`: delete the partial's prefixes (at the partial's last ordinal) and flush, then merge every
key of the partial, then `Reset`.  The keys of a Go map are visited in arbitrary order; they are
distinct, and `mergeKey` only touches its own key, so the order is immaterial (the model visits them in
list order; the correspondence compares sorted content). -/
def merge (cfg : Cfg) (sem : Sem) (full : Store) (p : Partial) : Option (Except SErr Store) :=
  let withDeletes := p.deletedPrefixes.foldl
    (fun s pfx => SV.record s ⟨.deletePrefix, p.store.lastOrd, pfx, []⟩) full
  match flush cfg sem withDeletes with
  | .error e => some (.error e)
  | .ok s0 =>
    let r := p.store.kv.foldl (fun (acc : Option (Except SErr Store)) kv =>
      match acc with
      | some (.ok s) => mergeKey cfg s kv.1 kv.2
      | other => other) (some (.ok s0))
    match r with
    | some (.ok s) => some (.ok (reset s))
    | other => other

end SV

import Model.Stages
/-!
Model of /repo/orchestrator/scheduler/scheduler.go (`Init`, `Update`, `cmdShutdownWhenComplete`),
/repo/orchestrator/work/workerpool.go, the walker state of /repo/orchestrator/execout/execout_walker.go,
the command/message plumbing of /repo/orchestrator/loop (Batch), and of the ENVIRONMENT: what executing an
in-flight command does (a tier2 job leaves files; the squasher reads/writes files and the per-module store
state; the walker's download finds the file or not).

State = Stages + worker pool + walker + the two final flags + the bag of in-flight commands + the files.
One step = pick a command of the bag, execute it, and (unless it was a batch or a quit) hand its message to
`update`, which returns at most one new command (usually a batch).
-/
namespace SV.Sch
open SV SV.Stg SV.Stg.Stages

inductive WState where
  | free | working | initialWait
deriving DecidableEq, Repr, Inhabited

structure Pool where
  workers : List WState
  rampup  : Bool          -- `started != nil`
deriving DecidableEq, Repr

namespace Pool
def new (n : Nat) : Pool :=
  ⟨(List.range n).map fun i => if i = 0 then .free else .initialWait, true⟩

/-- `WorkerAvailable`; `elapsed`: 4 s have passed since the pool was created. -/
def workerAvailable (p : Pool) (elapsed : Bool) : Pool × Bool × Bool :=
  let p := if p.rampup ∧ elapsed then
      { workers := p.workers.map fun w => if w = .initialWait then .free else w, rampup := false }
    else p
  if p.workers.contains .free then (p, true, false) else (p, false, p.rampup)

def firstFree : List WState → Nat → Option Nat
  | [], _ => none
  | w :: ws, i => if w = .free then some i else firstFree ws (i + 1)

def borrow (p : Pool) : Except Err (Pool × Nat) :=
  match firstFree p.workers 0 with
  | none => .error .noFreeWorker
  | some i => .ok ({ p with workers := p.workers.set i .working }, i)

def giveBack (p : Pool) (i : Nat) : Except Err Pool :=
  if i < p.workers.length then
    if p.workers.getD i .free ≠ .working then .error .workerAlreadyFree
    else .ok { p with workers := p.workers.set i .free }
  else .ok p     -- worker not found: the loop simply ends
end Pool

structure Walker where
  seg     : Segmenter      -- ReadOutSegmenter(initial block of the output module)
  cur     : Nat            -- FileWalker.segment
  working : Bool
deriving DecidableEq, Repr

namespace Walker
def isDone (w : Walker) : Bool := decide (w.cur > w.seg.lastIndex)
end Walker

inductive Cmd where
  | batch (l : List Cmd)                       -- loop.Batch
  | scheduleNextJob                            -- work.CmdScheduleNextJob
  | allStoresCompleted                         -- stage.CmdAllStoresCompleted / the literal in Init
  | mergeNotReady (u : WorkUnit)                   -- stage.CmdMergeNotReady
  | merge (u : WorkUnit)                           -- the squashing closure of CmdTryMerge
  | downloadSegment                            -- execout.CmdDownloadSegment
  | downloadCurrent (seg : Nat)                -- Walker.CmdDownloadCurrentSegment (file of segment `seg`)
  | walkerCompleted                            -- execout.CmdWalkerCompleted
  | shutdown                                   -- the closure of cmdShutdownWhenComplete
  | quit (err : Bool)                          -- loop.Quit
  | tick                                       -- loop.Tick(1 s, MsgScheduleNextJob)
  | job (u : WorkUnit) (startBlock : Nat) (worker : Nat)   -- Worker.Work

inductive Msg where
  | jobSucceeded (u : WorkUnit) (worker : Nat)
  | jobFailed
  | scheduleNextJob
  | mergeFinished (u : WorkUnit)
  | mergeFailed (u : WorkUnit)
  | mergeNotReady (u : WorkUnit)
  | allStoresCompleted
  | fileNotPresent
  | fileDownloaded
  | downloadSegment
  | walkerCompleted
deriving DecidableEq, Repr

/-- `loop.Batch(cmds...)`: nil commands are dropped, no command at all gives nil -/
def mkBatch (l : List (Option Cmd)) : Option Cmd :=
  match l.filterMap id with
  | [] => none
  | l' => some (.batch l')

inductive Ended where
  | quitNil | quitErr | panic (e : Err)
deriving DecidableEq, Repr

structure State where
  cfg        : Cfg
  fix        : Patch
  stages     : Stages
  pool       : Pool
  walker     : Option Walker
  outDone    : Bool          -- outputStreamCompleted
  storesDone : Bool          -- storesSyncCompleted
  bag        : List Cmd
  files      : Files
  ended      : Option Ended

def tryMergeCmd : TryMerge → Option Cmd
  | .allStoresCompleted => some .allStoresCompleted
  | .nothing => none
  | .notReady u => some (.mergeNotReady u)
  | .merge u => some (.merge u)

/-- `CmdTryMerge` for each of the units' stages, in order (the state changes accumulate) -/
def tryMergeList : List Nat → Stages → Except Err (Stages × List (Option Cmd))
  | [], s => .ok (s, [])
  | i :: rest, s =>
    match s.cmdTryMerge i with
    | .error e => .error e
    | .ok (s1, t) =>
      match tryMergeList rest s1 with
      | .error e => .error e
      | .ok (s2, l) => .ok (s2, tryMergeCmd t :: l)

/-- `CmdStartMerge`: the positions of the store stages -/
def storeStagePositions : List Stage → Nat → List Nat
  | [], _ => []
  | st :: rest, i => if st.kind = .store then i :: storeStagePositions rest (i + 1) else storeStagePositions rest (i + 1)

def cmdShutdownWhenComplete (st : State) : Option Cmd :=
  if st.outDone ∧ st.storesDone then
    match st.walker with
    | some _ => some .shutdown
    | none =>
      if st.stages.outIsIndex ∧ !st.stages.lastStageCompleted then none else some .shutdown
  else none

/-- `Scheduler.Update`.  Returns the new state and the returned command (`none` = nil). -/
def update (st : State) (msg : Msg) (elapsed : Bool) : Except Err (State × Option Cmd) :=
  match msg with
  | .jobSucceeded u worker =>
    match st.stages.markJobSuccess u with
    | .error e => .error e
    | .ok (s1, shadowed) =>
      match st.pool.giveBack worker with
      | .error e => .error e
      | .ok pool =>
        match tryMergeList (u.stage :: shadowed.map (·.stage)) s1 with
        | .error e => .error e
        | .ok (s2, tm) =>
          let first : Option Cmd := if shadowed.isEmpty then tm.headD none else mkBatch tm
          let dl : Option Cmd := if st.walker.isSome then some .downloadSegment else none
          .ok ({ st with stages := s2, pool := pool }, mkBatch [first, some .scheduleNextJob, dl])
  | .scheduleNextJob =>
    let (pool, avail, retry) := st.pool.workerAvailable elapsed
    let st := { st with pool := pool }
    if !avail then
      if !retry then .ok (st, none) else .ok (st, mkBatch [some .tick])
    else
      match st.stages.nextJob st.fix with
      | .error e => .error e
      | .ok (s1, none) => .ok ({ st with stages := s1 }, none)
      | .ok (s1, some (u, r)) =>
        match st.pool.borrow with
        | .error e => .error e
        | .ok (pool, w) =>
          .ok ({ st with stages := s1, pool := pool }, mkBatch [some (.job u r.start w), some .scheduleNextJob])
  | .jobFailed => .ok (st, mkBatch [some (.quit true)])
  | .mergeFinished u =>
    match st.stages.mergeCompleted u with
    | .error e => .error e
    | .ok s1 =>
      match s1.cmdTryMerge u.stage with
      | .error e => .error e
      | .ok (s2, t) => .ok ({ st with stages := s2 }, mkBatch [some .scheduleNextJob, tryMergeCmd t])
  | .allStoresCompleted =>
    let st := { st with storesDone := true }
    .ok (st, mkBatch [some .scheduleNextJob, cmdShutdownWhenComplete st])
  | .mergeFailed _ => .ok (st, mkBatch [some (.quit true)])
  | .fileNotPresent =>
    .ok ({ st with walker := st.walker.map fun w => { w with working := false } }, mkBatch [some .downloadSegment])
  | .fileDownloaded =>
    .ok ({ st with walker := st.walker.map fun w => { w with cur := w.cur + 1, working := false } },
         mkBatch [some .downloadSegment])
  | .downloadSegment =>
    match st.walker with
    | none => .ok (st, none)
    | some w =>
      if w.working then .ok (st, none)
      else
        let w := { w with working := true }
        let st := { st with walker := some w }
        if w.isDone then .ok (st, some .walkerCompleted)
        else .ok (st, mkBatch [some (.downloadCurrent w.cur)])
  | .walkerCompleted =>
    let st := { st with outDone := true }
    .ok (st, cmdShutdownWhenComplete st)
  | .mergeNotReady _ => .ok (st, none)

/-! ### environment: executing a command -/


/-- the store files a tier2 job of (graph stage `t`, segment `seg`) leaves: for every store module of the
stages `≤ t` that starts before the segment's end and has neither a full snapshot at the segment's end nor its
partial: a partial when the module belongs to stage `t`, a full snapshot otherwise. -/
def jobMods (k seg t j : Nat) : List Nat → Nat → Files → Files
  | [], _, f => f
  | init :: rest, i, f =>
    let start := seg * k
    let stop := seg * k + k
    if init ≥ stop then jobMods k seg t j rest (i + 1) f
    else
      let ms := max start init
      if f.hasFull j i stop init || f.hasPartial j i ms stop then jobMods k seg t j rest (i + 1) f
      else if j = t then jobMods k seg t j rest (i + 1) (f.addPartial j i ms stop)
      else jobMods k seg t j rest (i + 1) (f.addFull j i init stop)

def jobStages (k seg t : Nat) : List StageCfg → Nat → Files → Files
  | [], _, f => f
  | sc :: rest, j, f =>
    if j > t then f
    else if sc.kind = .store then jobStages k seg t rest (j + 1) (jobMods k seg t j sc.mods 0 f)
    else jobStages k seg t rest (j + 1) f

/-- the files a tier2 job of (graph stage `t`, segment `seg`) leaves (`service.GetExecutionPlan`,
`cache.Engine.EndOfStream`): the missing store files of the stages `≤ t` and, when `t` is the last (mapper)
stage and the output module has started, the file of the output module for `[max start init, stop)` — the
`.output` file of a map, the `.index` file of a block-index module (`Files.outputs` stands for either: one
request has one output module).  An existing file is kept; it does not make the job a no-op: since 6f136481
`GetExecutionPlan` answers "nothing to do" only when no store is left to write either (and it never did for an
index module, `outputModuleDone` being set for maps only). -/
def runJob (c : Cfg) (t seg : Nat) (f : Files) : Files :=
  let k := c.interval
  let start := seg * k
  let stop := seg * k + k
  match c.graph[t]? with
  | none => f
  | some sc =>
    let f1 := jobStages k seg t c.graph 0 f
    if sc.kind = .map then
      let xinit := sc.mods.headD 0
      if xinit < stop then f1.addOutput (max start xinit) stop else f1
    else f1

/-- `singleSquash` for one module; `none` = the squash fails (a file it needs is missing) -/
def squashMod (st : Stage) (seg : Nat) (i : Nat) (m : ModState) (f : Files) : Option (ModState × Files) :=
  let ms := modSeg st m
  if seg < ms.firstIndex then some (m, f)        -- `continue` in multiSquash
  else
    match ms.range? seg, ms.endsOnInterval seg with
    | some rng, some eoi =>
      -- getStore(rng.StartBlock)
      let ok1 := (m.lastBlock == rng.start && m.cached) || !(m.init < rng.start) || f.hasFull st.idx i rng.start m.init
      if !ok1 then none
      else
        -- getPartialOrFullKV: the full snapshot at the end (a store that starts at/after the end loads nothing)
        if !(m.init < rng.stop) || f.hasFull st.idx i rng.stop m.init then
          some ({ m with lastBlock := rng.stop, cached := true }, f)
        else if f.hasPartial st.idx i rng.start rng.stop then
          let f1 := f.delPartial st.idx i rng.start rng.stop
          let f2 := if eoi then f1.addFull st.idx i m.init rng.stop else f1
          some ({ m with lastBlock := rng.stop, cached := true }, f2)
        else none
    | _, _ => none

def squashMods (st : Stage) (seg : Nat) : List ModState → Nat → Files → Option (List ModState × Files)
  | [], _, f => some ([], f)
  | m :: rest, i, f =>
    match squashMod st seg i m f with
    | none => none
    | some (m', f1) =>
      match squashMods st seg rest (i + 1) f1 with
      | none => none
      | some (ms, f2) => some (m' :: ms, f2)

/-- `multiSquash` -/
def runMerge (s : Stages) (u : WorkUnit) (f : Files) : Option (Stages × Files) :=
  let st := s.stageAt u.stage
  match squashMods st u.seg st.mods 0 f with
  | none => none
  | some (ms, f') => some (s.setStage u.stage { st with mods := ms }, f')

/-- result of executing a command -/
inductive Outcome where
  | msg (m : Msg)
  | batch (l : List Cmd)
  | quit (err : Bool)

def exec (st : State) (c : Cmd) : State × Outcome :=
  match c with
  | .batch l => (st, .batch l)
  | .scheduleNextJob => (st, .msg .scheduleNextJob)
  | .allStoresCompleted => (st, .msg .allStoresCompleted)
  | .mergeNotReady u => (st, .msg (.mergeNotReady u))
  | .merge u =>
    match runMerge st.stages u st.files with
    | none => (st, .msg (.mergeFailed u))
    | some (s', f') => ({ st with stages := s', files := f' }, .msg (.mergeFinished u))
  | .downloadSegment => (st, .msg .downloadSegment)
  | .downloadCurrent seg =>
    match st.walker with
    | none => (st, .msg .fileNotPresent)
    | some w =>
      match w.seg.range? seg with
      | none => (st, .msg .fileNotPresent)
      | some r => if st.files.hasOutput r.start r.stop then (st, .msg .fileDownloaded) else (st, .msg .fileNotPresent)
  | .walkerCompleted => (st, .msg .walkerCompleted)
  | .shutdown => (st, .quit false)
  | .quit e => (st, .quit e)
  | .tick => (st, .msg .scheduleNextJob)
  | .job u startBlock worker =>
    -- work.NewRequest puts unit.Stage, the POSITION of the stage in Stages.stages, into the tier2 request, and
    -- tier2 reads it as an index in the graph's staged modules (they differ when NewStages skipped stages)
    let t := if st.fix.stageIdx then (st.stages.stageAt u.stage).idx else u.stage
    ({ st with files := runJob st.cfg t (startBlock / st.cfg.interval) st.files }, .msg (.jobSucceeded u worker))

/-- one step: execute the bag's command number `idx` and deliver its message -/
def step (st : State) (idx : Nat) (elapsed : Bool) : State :=
  if st.ended.isSome then st
  else
    match st.bag[idx]? with
    | none => st
    | some c =>
      let st := { st with bag := st.bag.eraseIdx idx }
      match exec st c with
      | (st1, .batch l) => { st1 with bag := st1.bag ++ l }
      | (st1, .quit e) => { st1 with ended := some (if e then .quitErr else .quitNil) }
      | (st1, .msg m) =>
        match update st1 m elapsed with
        | .error e => { st1 with ended := some (.panic e) }
        | .ok (st2, none) => st2
        | .ok (st2, some c') => { st2 with bag := st2.bag ++ [c'] }

/-- `BuildParallelProcessor` + `Scheduler.Init` -/
def init (c : Cfg) (fix : Patch) (files : Files) : Except Err State :=
  match initStages c files with
  | .error e => .error e
  | .ok s =>
    let walker : Option Walker :=
      match c.readExecOut, c.writeExecOut with
      | some _, some w =>
        if c.outIsMap then
          let sg : Segmenter := ⟨c.interval, max w.start c.outInit, w.stop⟩
          some ⟨sg, sg.firstIndex, false⟩
        else none
      | _, _ => none
    let dl : Option Cmd := if walker.isSome then some .downloadSegment else none
    let all : Option Cmd := if s.allStoresCompleted then some .allStoresCompleted else none
    match tryMergeList (storeStagePositions s.stages 0) s with
    | .error e => .error e
    | .ok (s1, tm) =>
      let initCmd := mkBatch [dl, some .scheduleNextJob, all, mkBatch tm]
      .ok { cfg := c, fix := fix, stages := s1, pool := Pool.new c.workers, walker := walker,
            outDone := walker.isNone, storesDone := false,
            bag := initCmd.toList, files := files, ended := none }

/-! ### specification vocabulary (used by the theorems of `Props/C05.lean`) -/

mutual
/-- the commands in flight inside a (possibly nested) batch -/
def Cmd.atoms : Cmd → List Cmd
  | .batch l => atomsList l
  | c => [c]
def atomsList : List Cmd → List Cmd
  | [] => []
  | c :: cs => c.atoms ++ atomsList cs
end

/-- the commands in flight: the bag with its batches unwrapped -/
def State.inFlight (st : State) : List Cmd := atomsList st.bag

def Cmd.jobUnit : Cmd → Option WorkUnit
  | .job u _ _ => some u
  | _ => none
def Cmd.jobWorker : Cmd → Option Nat
  | .job _ _ w => some w
  | _ => none
def Cmd.mergeUnit : Cmd → Option WorkUnit
  | .merge u => some u
  | _ => none

/-- the states reachable from the initial state of a configuration: any command in flight may answer next, and
the ramp-up clock of the worker pool is arbitrary -/
inductive Reachable (c : Cfg) (fix : Patch) (files : Files) : State → Prop
  | init {st : State} : init c fix files = .ok st → Reachable c fix files st
  | step {st : State} (idx : Nat) (elapsed : Bool) : Reachable c fix files st → Reachable c fix files (step st idx elapsed)

/-- did the step hand a unit to a worker? (the returned batch starts with the job command) -/
def handedOut (st : State) (idx : Nat) (elapsed : Bool) : Option WorkUnit :=
  if st.ended.isSome then none else
  match st.bag[idx]? with
  | some .scheduleNextJob | some .tick =>
    match update { st with bag := st.bag.eraseIdx idx } .scheduleNextJob elapsed with
    | .ok (_, some (.batch (.job u _ _ :: _))) => some u
    | _ => none
  | _ => none

/-- run a schedule: the commands to execute, by their position in the bag, with the state of the ramp-up clock -/
def runSched (st : State) (sched : List (Nat × Bool)) : State := sched.foldl (fun st c => step st c.1 c.2) st

theorem Reachable.runSched {c : Cfg} {fix : Patch} {files : Files} {st : State} (h : Reachable c fix files st)
    (sched : List (Nat × Bool)) : Reachable c fix files (runSched st sched) := by
  induction sched generalizing st with
  | nil => exact h
  | cons x xs ih => exact ih (Reachable.step x.1 x.2 h)

/-- the step is a POLL: the walker looks for an output file that is not there yet (it asks again later), or
`scheduleNextJob` finds no free worker during the ramp-up delay (it asks again after a tick) -/
def polls (st : State) (idx : Nat) (elapsed : Bool) : Bool :=
  match st.bag[idx]? with
  | some (.downloadCurrent seg) =>
    (match (exec { st with bag := st.bag.eraseIdx idx } (.downloadCurrent seg)).2 with
     | .msg .fileNotPresent => true
     | _ => false)
  | some .scheduleNextJob | some .tick =>
    let r := st.pool.workerAvailable elapsed
    !r.2.1 && r.2.2
  | _ => false

/-- `b` is the result of a step of the reachable, running state `a` that executes a command and is not a poll -/
def WorkStep (c : Cfg) (fix : Patch) (files : Files) (b a : State) : Prop :=
  Reachable c fix files a ∧ ∃ idx elapsed, a.ended = none ∧ idx < a.bag.length ∧ polls a idx elapsed = false ∧
    b = step a idx elapsed

/-- the code at HEAD: the three fixes are committed -/
def _root_.SV.Stg.Patch.head : Patch := ⟨true, true, true⟩
/-- the code before the fixes d60dce44 (`dependenciesCompleted`) and 9da4cc23 (`markShadowedUnits`), after the
stage-index fix 38ce9883: what the witnesses of F15, F19, F20 run on -/
def _root_.SV.Stg.Patch.before : Patch := ⟨false, false, true⟩

end SV.Sch

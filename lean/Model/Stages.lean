import Model.Segmenter
/-!
Model of /repo/orchestrator/stage/{stages.go, transitions.go, fetchstorage.go, stage.go, segment.go,
modstate.go} and of the state-relevant part of squash.go.  Core Lean only; executable; total.

Conventions
* Go `int` segment/stage numbers are `Nat`.  The places where the Go code computes a negative number are
  handled explicitly: `u.Segment - 1` at segment 0 (`getState` answers NoOp for a negative index:
  `getStatePrev`), `segmentCompleted = FirstIndex() - 1` (the model stores `next = segmentCompleted + 1`),
  `segmentIdx - shadowableSegment` (the comparisons are rewritten with the subtrahend on the other side).
* An unrecovered Go panic is `Except.error` with the reason.
* `fix : Patch` selects which of the three scheduler fixes the modelled code contains (all three are committed:
  `Patch.all` = `Patch.head` = the repository at HEAD; `Patch.none` = the code before them, kept so that the
  defects stay kernel-checked counterexamples and the harness can be run against an older checkout):
  `deps` = d60dce44 `dependenciesCompleted` (F15, F20), `shadow` = 9da4cc23 `markShadowedUnits` (F19),
  `stageIdx` = 38ce9883 the worker request carries the graph's stage index (F21: stage index shift when NewStages
  skips the store stages).
-/
namespace SV.Stg
open SV

inductive UnitState where
  | pending | partialPresent | scheduled | merging | shadowed | completed | noOp
deriving DecidableEq, Repr, Inhabited

/-- progress of a unit through its life: Pending/NoOp < Shadowed/Scheduled < PartialPresent < Merging < Completed -/
def rank : UnitState → Nat
  | .pending => 0 | .noOp => 0 | .shadowed => 1 | .scheduled => 1 | .partialPresent => 2 | .merging => 3 | .completed => 4

inductive Kind where
  | map | store
deriving DecidableEq, Repr, Inhabited

/-- reasons for an (unrecovered) Go panic -/
inductive Err where
  | invalidTransition (frm to : UnitState)   -- transitions.go invalidTransition
  | indexOutOfRange        -- slice index out of range in setState / stages[...]
  | nilRange               -- r.Len() on a nil *block.Range in NextJob
  | mergeNotAfterComplete  -- MarkSegmentMerging: "can only merge segments if previous is complete"
  | notParallel            -- NewStages outside of parallel processing
  | mapperStage            -- FetchStoresState assertions on the mapper stage
  | noFreeWorker           -- WorkerPool.Borrow
  | workerAlreadyFree      -- WorkerPool.Return
  | endsOnInterval         -- Segmenter.EndsOnInterval out of range
deriving DecidableEq, Repr, Inhabited

/-- which of the three scheduler fixes the modelled code contains -/
structure Patch where
  deps     : Bool     -- dependenciesCompleted
  shadow   : Bool     -- markShadowedUnits
  stageIdx : Bool     -- the tier2 request carries the stage's index in the graph, not its position in Stages.stages
deriving DecidableEq, Repr, Inhabited

def Patch.none : Patch := ⟨false, false, false⟩
def Patch.all : Patch := ⟨true, true, true⟩

structure WorkUnit where
  seg   : Nat
  stage : Nat
deriving DecidableEq, Repr, Inhabited

/-- `StoreModuleState`: the module's own segmenter is the stage's with the module's initial block. -/
structure ModState where
  init      : Nat
  lastBlock : Nat    -- lastBlockInStore
  cached    : Bool   -- cachedStore != nil
deriving DecidableEq, Repr, Inhabited

structure Stage where
  idx  : Nat         -- the index NewStage received (position in the graph's staged modules)
  kind : Kind
  seg  : Segmenter
  next : Nat         -- segmentCompleted + 1
  mods : List ModState
deriving DecidableEq, Repr

instance : Inhabited Stage := ⟨⟨0, .map, ⟨1, 0, 0⟩, 0, []⟩⟩

abbrev Row := List UnitState

structure Stages where
  globalSeg  : Segmenter
  storeSeg   : Option Segmenter
  mapSeg     : Option Segmenter
  stages     : List Stage
  states     : List Row         -- segmentStates[segment - offset][stage]
  offset     : Nat              -- segmentOffset
  shadowable : Nat              -- shadowableSegment
  outIsIndex : Bool
deriving DecidableEq, Repr

namespace Stages

def nStages (s : Stages) : Nat := s.stages.length
def stageAt (s : Stages) (i : Nat) : Stage := s.stages.getD i default

/-- the module's segmenter -/
def modSeg (st : Stage) (m : ModState) : Segmenter := { st.seg with init := m.init }

/-! ### the unit-state matrix -/

def matGet (m : List Row) (i j : Nat) : UnitState := (m.getD i []).getD j .pending
def matSet (m : List Row) (i j : Nat) (v : UnitState) : List Row := m.modify i (fun r => r.set j v)

/-- `getState`.  Order of the tests as in the code: beyond the allocated rows ⇒ Pending (even for a segment
below the stage's first one), then below the offset or below the stage's first segment ⇒ NoOp. -/
def getState (s : Stages) (seg stage : Nat) : UnitState :=
  if seg ≥ s.offset + s.states.length then .pending
  else if seg < s.offset ∨ (s.stages ≠ [] ∧ seg < (s.stageAt stage).seg.firstIndex) then .noOp
  else matGet s.states (seg - s.offset) stage

/-- `getState(WorkUnit{Segment: seg - 1, …})`; for `seg = 0` the index is negative ⇒ NoOp. -/
def getStatePrev (s : Stages) (seg stage : Nat) : UnitState :=
  if seg = 0 then .noOp else s.getState (seg - 1) stage

/-- `setState`: panics (index out of range) outside the allocated matrix. -/
def setState (s : Stages) (seg stage : Nat) (v : UnitState) : Except Err Stages :=
  if seg < s.offset ∨ seg - s.offset ≥ s.states.length ∨ stage ≥ s.nStages then .error .indexOutOfRange
  else .ok { s with states := matSet s.states (seg - s.offset) stage v }

def allocSegments (s : Stages) (seg : Nat) : Stages :=
  if seg < s.offset then s
  else if s.states.length > seg - s.offset then s
  else { s with states := s.states ++ List.replicate (seg - s.offset - s.states.length + 1)
                                         (List.replicate s.nStages .pending) }

/-- the guarded `transition` -/
def transition (s : Stages) (u : WorkUnit) (to : UnitState) (allowed : List UnitState) : Except Err Stages :=
  let s := s.allocSegments u.seg
  if allowed.contains (s.getState u.seg u.stage) then s.setState u.seg u.stage to
  else .error (.invalidTransition (s.getState u.seg u.stage) to)

def previousUnitComplete (s : Stages) (u : WorkUnit) : Bool :=
  let st := s.getStatePrev u.seg u.stage
  st == .completed || st == .noOp

def markSegmentMerging (s : Stages) (u : WorkUnit) : Except Err Stages :=
  if !s.previousUnitComplete u then .error .mergeNotAfterComplete
  else s.transition u .merging [.partialPresent]

def markSegmentPartialPresent (s : Stages) (u : WorkUnit) : Except Err Stages :=
  s.transition u .partialPresent [.scheduled, .pending]

def markSegmentScheduled (s : Stages) (u : WorkUnit) : Except Err Stages :=
  s.transition u .scheduled [.pending]

def markSegmentCompleted (s : Stages) (u : WorkUnit) : Except Err Stages :=
  s.transition u .completed [.pending, .merging, .scheduled, .shadowed, .noOp, .completed]

/-! ### shadowing -/

def shadowableSeg (s : Stages) (seg : Nat) : Bool :=
  if s.nStages < 2 then false else decide (seg ≤ s.shadowable + (s.nStages - 1))

/-- body of the loop of `markShadowedUnits`, stages `fuel-1, …, 0` of which only those with
`stage ≥ seg - shadowable` are looked at (the loop stops at the first one below).
`fix.shadow` is the FIX 9da4cc23: only a Pending (or already Shadowed) unit is shadowed — never one whose
partial is present, that is being merged or that is scheduled — and not under a unit that is already Merging
(its job is over and will never turn the shadowed unit into PartialPresent). -/
def shadowCond (fix : Patch) (st nx : UnitState) : Bool :=
  if fix.shadow then
    (st == .pending || st == .shadowed) && (nx == .pending || nx == .scheduled || nx == .shadowed)
  else
    (st != .completed && st != .noOp) && (nx == .pending || nx == .scheduled || nx == .merging || nx == .shadowed)

def markShadowedLoop (fix : Patch) (seg : Nat) : Nat → Stages → Bool → Except Err (Stages × Bool)
  | 0, s, sh => .ok (s, sh)
  | k + 1, s, sh =>
    -- stageIdx = k
    if k + s.shadowable < seg then .ok (s, sh)    -- stageIdx >= relSegmentOrdinal fails: loop ends
    else if shadowCond fix (s.getState seg k) (s.getState seg (k + 1)) then
      match s.setState seg k .shadowed with
      | .error e => .error e
      | .ok s' => markShadowedLoop fix seg k s' true
    else markShadowedLoop fix seg k s sh

def markShadowedUnits (fix : Patch) (s : Stages) (seg : Nat) : Except Err (Stages × Bool) :=
  if !s.shadowableSeg seg then .ok (s, false)
  else
    let s := s.allocSegments seg
    markShadowedLoop fix seg (s.nStages - 1) s false

/-! ### dependenciesCompleted -/

/-- the `for i := u.Stage - 1; i >= 0; i--` loop, `i = k-1, …, 0` -/
def depsLoop (s : Stages) (seg : Nat) (prevParentOk : Bool) : Nat → Bool
  | 0 => true
  | k + 1 =>
    match s.getState seg k with
    | .completed | .noOp => depsLoop s seg prevParentOk k
    | .shadowed | .partialPresent => if prevParentOk then depsLoop s seg prevParentOk k else false
    | _ => false

/-- FIX d60dce44 (`fix.deps`): for every lower stage that has data at or before this segment, the unit of
the PREVIOUS segment must be complete (that is where the job loads the stage's full snapshots from), and the
unit of this segment must be complete, or present, or shadowed (produced by this very job).  The early return
for the first segment of the unit's own stage is gone: a lower stage may have started earlier. -/
def depsLoopFix (s : Stages) (seg : Nat) : Nat → Bool
  | 0 => true
  | k + 1 =>
    let fi := (s.stageAt k).seg.firstIndex
    if seg < fi then depsLoopFix s seg k
    else if decide (seg > fi) && !s.previousUnitComplete ⟨seg, k⟩ then false
    else match s.getState seg k with
      | .completed | .noOp | .shadowed | .partialPresent => depsLoopFix s seg k
      | _ => false

def dependenciesCompleted (fix : Patch) (s : Stages) (u : WorkUnit) : Bool :=
  if fix.deps then
    if u.stage = 0 then true else depsLoopFix s u.seg u.stage
  else
    if u.seg ≤ (s.stageAt u.stage).seg.firstIndex then true
    else if u.stage = 0 then true
    else
      let pp := s.getStatePrev u.seg (u.stage - 1)
      depsLoop s u.seg (pp == .completed || pp == .noOp) u.stage

/-! ### NextJob -/

/-- the `for i := 0; i < len(s.stages); i++` search for the first Pending unit of the segment -/
def firstPending (s : Stages) (seg : Nat) : Nat → Nat → Option Nat
  | 0, _ => none
  | fuel + 1, i => if s.getState seg i = .pending then some i else firstPending s seg fuel (i + 1)

inductive StageStep where
  | found (s : Stages) (u : WorkUnit) (r : Range)
  | next (s : Stages)       -- inner loop finished or `break`

/-- inner loop of `NextJob` over `stageIdx = k-1, …, 0` for one segment -/
def nextJobStages (fix : Patch) (seg : Nat) (someShadowed : Bool) : Nat → Stages → Except Err StageStep
  | 0, s => .ok (.next s)
  | k + 1, s =>
    let stage := s.stageAt k
    if s.getState seg k ≠ .pending then nextJobStages fix seg someShadowed k s
    else if seg < stage.seg.firstIndex then nextJobStages fix seg someShadowed k s
    else if seg > stage.seg.lastIndex then .ok (.next s)          -- break
    else if !dependenciesCompleted fix s ⟨seg, k⟩ then nextJobStages fix seg someShadowed k s
    else
      match stage.seg.range? seg with
      | none => .error .nilRange
      | some r =>
        if r.stop - r.start = 0 then
          match s.markSegmentCompleted ⟨seg, k⟩ with
          | .error e => .error e
          | .ok s' => nextJobStages fix seg someShadowed k s'
        else if someShadowed ∧ k + 1 = s.nStages then
          match firstPending s seg s.nStages 0 with
          | some i =>
            match s.markSegmentScheduled ⟨seg, i⟩ with
            | .error e => .error e
            | .ok s' => .ok (.found s' ⟨seg, i⟩ r)
          | none =>
            match s.markSegmentScheduled ⟨seg, k⟩ with
            | .error e => .error e
            | .ok s' => .ok (.found s' ⟨seg, k⟩ r)
        else
          match s.markSegmentScheduled ⟨seg, k⟩ with
          | .error e => .error e
          | .ok s' => .ok (.found s' ⟨seg, k⟩ r)

/-- outer loop over segments `seg, seg+1, …` (`fuel` of them) -/
def nextJobSegs (fix : Patch) : Nat → Nat → Stages → Except Err (Stages × Option (WorkUnit × Range))
  | 0, _, s => .ok (s, none)
  | fuel + 1, seg, s =>
    match s.markShadowedUnits fix seg with
    | .error e => .error e
    | .ok (s1, someShadowed) =>
      match nextJobStages fix seg someShadowed s1.nStages s1 with
      | .error e => .error e
      | .ok (.found s2 u r) => .ok (s2, some (u, r))
      | .ok (.next s2) => nextJobSegs fix fuel (seg + 1) s2

def nextJob (fix : Patch) (s : Stages) : Except Err (Stages × Option (WorkUnit × Range)) :=
  nextJobSegs fix (s.globalSeg.lastIndex + 1 - s.globalSeg.firstIndex) s.globalSeg.firstIndex s

/-! ### job success, merging -/

/-- the loop of `MarkJobSuccess` over `i = k-1, …, 0`; returns the shadowed units in the order found -/
def jobSuccessLoop (seg : Nat) : Nat → Stages → List WorkUnit → Except Err (Stages × List WorkUnit)
  | 0, s, acc => .ok (s, acc)
  | k + 1, s, acc =>
    if s.getState seg k = .shadowed then
      match s.transition ⟨seg, k⟩ .partialPresent [.shadowed] with
      | .error e => .error e
      | .ok s' => jobSuccessLoop seg k s' (acc ++ [⟨seg, k⟩])
    else jobSuccessLoop seg k s acc

def markJobSuccess (s : Stages) (u : WorkUnit) : Except Err (Stages × List WorkUnit) :=
  match s.markSegmentPartialPresent u with
  | .error e => .error e
  | .ok s1 =>
    if s1.shadowableSeg u.seg then jobSuccessLoop u.seg u.stage s1 []
    else .ok (s1, [])

/-- are all units of one store stage Completed/NoOp over the segments `seg, …` (`fuel` of them) -/
def allDoneFrom (s : Stages) (stage : Nat) : Nat → Nat → Bool
  | 0, _ => true
  | fuel + 1, seg =>
    let st := s.getState seg stage
    (st == .completed || st == .noOp) && allDoneFrom s stage fuel (seg + 1)

def allStoresCompletedStages (s : Stages) (ss : Segmenter) : List Stage → Nat → Bool
  | [], _ => true
  | st :: rest, i =>
    (if st.kind = .store then allDoneFrom s i (ss.lastIndex + 1 - ss.firstIndex) ss.firstIndex else true)
      && allStoresCompletedStages s ss rest (i + 1)

def allStoresCompleted (s : Stages) : Bool :=
  match s.storeSeg with
  | none => true
  | some ss =>
    if ss.end_ = ss.init then true
    else allStoresCompletedStages s ss s.stages 0

def lastStageCompleted (s : Stages) : Bool :=
  match s.mapSeg with
  -- Go dereferences the nil `mapSegmenter` here: reached (and a panic, class C05/panic/nil-dereference, witness
  -- harness/cmd/vh_c05/witness_devidx_panic.case) only by a DEVELOPMENT-mode request whose output is a block-index
  -- module: no `WriteExecOut`, hence no mapper stage and no map segmenter.  In production mode an index output always
  -- has one.  `true` is what a nil guard would answer (nothing to wait for); the harness does not generate that case.
  | none => true
  | some ms =>
    (List.range' ms.firstIndex (ms.lastIndex + 1 - ms.firstIndex)).all fun seg =>
      let st := s.getState seg (s.nStages - 1)
      st == .completed || st == .partialPresent || st == .noOp

/-- what `CmdTryMerge` decides (the state change, `MarkSegmentMerging`, happens when the command is created) -/
inductive TryMerge where
  | allStoresCompleted
  | nothing                  -- `return nil` for a mapper stage
  | notReady (u : WorkUnit)
  | merge (u : WorkUnit)
deriving DecidableEq, Repr

def cmdTryMerge (s : Stages) (stageIdx : Nat) : Except Err (Stages × TryMerge) :=
  if s.allStoresCompleted then .ok (s, .allStoresCompleted)
  else
    let stage := s.stageAt stageIdx
    if stage.kind ≠ .store then .ok (s, .nothing)
    else
      let u : WorkUnit := ⟨stage.next, stage.idx⟩      -- nextUnit(): Stage = the stage's idx field
      if u.seg > stage.seg.lastIndex then .ok (s, .notReady u)
      else if s.getState u.seg u.stage ≠ .partialPresent then .ok (s, .notReady u)
      else if !s.previousUnitComplete u then .ok (s, .notReady u)
      else match s.markSegmentMerging u with
        | .error e => .error e
        | .ok s' => .ok (s', .merge u)

def setStage (s : Stages) (i : Nat) (st : Stage) : Stages := { s with stages := s.stages.set i st }

/-- `MoveSegmentCompletedForward`: `for i := segmentCompleted+1; i < LastIndex; i++` -/
def moveForwardLoop (s : Stages) (stageIdx : Nat) : Nat → Nat → Nat
  | 0, nx => nx
  | fuel + 1, nx =>
    if nx < (s.stageAt stageIdx).seg.lastIndex then
      if s.getState nx stageIdx = .completed then moveForwardLoop s stageIdx fuel (nx + 1) else nx
    else nx

def moveSegmentCompletedForward (s : Stages) (stageIdx : Nat) : Stages :=
  let st := s.stageAt stageIdx
  s.setStage stageIdx { st with next := moveForwardLoop s stageIdx (st.seg.lastIndex + 1 - st.next) st.next }

def mergeCompleted (s : Stages) (u : WorkUnit) : Except Err Stages :=
  match s.markSegmentCompleted u with
  | .error e => .error e
  | .ok s' => .ok (s'.moveSegmentCompletedForward u.stage)

/-! ### initial state: NewStages, initSegmentsOffset, FetchStoresState, setShadowableSegment -/
end Stages

structure StageCfg where
  kind : Kind
  mods : List Nat        -- initial blocks of the modules of the stage's last layer
deriving DecidableEq, Repr

structure Cfg where
  interval     : Nat
  buildStores  : Option Range
  writeExecOut : Option Range
  readExecOut  : Option Range
  graph        : List StageCfg
  start        : Nat        -- ResolvedStartBlockNum
  outIsIndex   : Bool
  outIsMap     : Bool
  outInit      : Nat        -- initial block of the output module
  workers      : Nat
deriving DecidableEq, Repr

namespace Cfg
/-- what the request planner guarantees (`plan.BuildTier1RequestPlan` after `computeLinearHandoffBlockNum`): a
positive segment size, and ranges that end on a segment boundary (the hand-off block) -/
def OK (c : Cfg) : Prop :=
  0 < c.interval ∧
  (∀ r, c.buildStores = some r → 0 < r.stop ∧ r.stop % c.interval = 0) ∧
  (∀ r, c.writeExecOut = some r → 0 < r.stop ∧ r.stop % c.interval = 0) ∧
  -- `exec.computeStages` closes a stage at every store layer: only the last stage can be a mapper stage
  (∀ i, i + 1 < c.graph.length → (c.graph.getD i ⟨.map, []⟩).kind = .store)
def storesSegmenter (c : Cfg) : Option Segmenter := c.buildStores.map fun r => ⟨c.interval, r.start, r.stop⟩
def writeOutSegmenter (c : Cfg) : Option Segmenter := c.writeExecOut.map fun r => ⟨c.interval, r.start, r.stop⟩
def backprocessSegmenter (c : Cfg) : Option Segmenter :=
  match c.buildStores, c.writeExecOut with
  | none, none => none
  | none, some w => some ⟨c.interval, w.start, w.stop⟩
  | some b, none => some ⟨c.interval, b.start, b.stop⟩
  | some b, some w => some ⟨c.interval, min b.start w.start, max b.stop w.stop⟩
end Cfg

namespace Stages

def minList (d : Nat) : List Nat → Nat
  | [] => d
  | x :: xs => minList (min d x) xs

def newStagesList (c : Cfg) : List StageCfg → Nat → List Stage
  | [], _ => []
  | sc :: rest, idx =>
    let segm : Option Segmenter := if sc.kind = .map then c.writeOutSegmenter else c.storesSegmenter
    match segm with
    | none => newStagesList c rest (idx + 1)     -- `continue`
    | some sg =>
      let lowest := minList (sc.mods.headD 0) sc.mods
      let stSeg : Segmenter := { sg with init := lowest }
      { idx := idx, kind := sc.kind, seg := stSeg, next := stSeg.firstIndex,
        mods := sc.mods.map fun i => ⟨i, 0, false⟩ } :: newStagesList c rest (idx + 1)

/-- `for i := from; i < to; i++ { allocSegments(i); setState(WorkUnit{i, stage}, NoOp) }` -/
def noOpLoop (stage : Nat) : Nat → Nat → Stages → Except Err Stages
  | 0, _, s => .ok s
  | fuel + 1, i, s =>
    match (s.allocSegments i).setState i stage .noOp with
    | .error e => .error e
    | .ok s' => noOpLoop stage fuel (i + 1) s'

def noOpStoresRow (lastStage : Nat) (i : Nat) : Nat → Stages → Except Err Stages
  | 0, s => .ok s
  | k + 1, s =>
    -- idx = nStages - (k+1) … ascending order is irrelevant: all are set
    let idx := s.nStages - (k + 1)
    if idx = lastStage then noOpStoresRow lastStage i k s
    else match (s.allocSegments i).setState i idx .noOp with
      | .error e => .error e
      | .ok s' => noOpStoresRow lastStage i k s'

def noOpStoresLoop (lastStage : Nat) : Nat → Nat → Stages → Except Err Stages
  | 0, _, s => .ok s
  | fuel + 1, i, s =>
    match noOpStoresRow lastStage i s.nStages s with
    | .error e => .error e
    | .ok s' => noOpStoresLoop lastStage fuel (i + 1) s'

def initSegmentsOffset (c : Cfg) (s : Stages) : Except Err Stages :=
  let first := s.globalSeg.firstIndex
  let s := { s with offset := first }
  let lastStage := s.nStages - 1     -- len(s.stages) - 1 (−1 when there is no stage: then nothing is indexed)
  let r1 : Except Err Stages := match c.writeOutSegmenter with
    | none => .ok s
    | some w =>
      if s.nStages = 0 ∧ first < w.firstIndex then .error .indexOutOfRange
      else noOpLoop lastStage (w.firstIndex - first) first s
  match r1 with
  | .error e => .error e
  | .ok s1 =>
    match c.storesSegmenter with
    | none => .ok s1
    | some b => noOpStoresLoop lastStage (b.firstIndex - first) first s1

def newStages (c : Cfg) : Except Err Stages :=
  match c.backprocessSegmenter with
  | none => .error .notParallel
  | some g =>
    initSegmentsOffset c
      { globalSeg := g, storeSeg := c.storesSegmenter, mapSeg := c.writeOutSegmenter,
        stages := newStagesList c c.graph 0, states := [], offset := 0, shadowable := 0,
        outIsIndex := c.outIsIndex }

/-- `setShadowableSegment` -/
def allPrevComplete (s : Stages) (seg : Nat) : Nat → Bool
  | 0 => true
  | k + 1 => allPrevComplete s seg k && s.previousUnitComplete ⟨seg, k⟩
  -- (the Go loop goes upward and returns at the first failure: same answer)

def shadowableLoop (s : Stages) (startSeg : Nat) : Nat → Nat → Nat → Nat
  | 0, _, cur => cur
  | fuel + 1, seg, cur =>
    if seg ≤ startSeg then
      if allPrevComplete s seg (s.nStages - 1) then shadowableLoop s startSeg fuel (seg + 1) seg else cur
    else cur

def setShadowableSegment (s : Stages) (startSeg : Nat) : Stages :=
  if s.nStages < 2 then { s with shadowable := s.offset }
  else { s with shadowable := shadowableLoop s startSeg (startSeg - s.offset) (s.offset + 1) s.offset }

end Stages

/-- what the storage listing returns: parsed file infos -/
structure StoreFile where
  stage   : Nat      -- graph stage of the store module
  mod     : Nat      -- position of the module in its stage
  partial_ : Bool
  start   : Nat
  stop    : Nat
deriving DecidableEq, Repr

structure OutFile where
  start : Nat
  stop  : Nat
deriving DecidableEq, Repr

structure Files where
  stores  : List StoreFile
  outputs : List OutFile
deriving DecidableEq, Repr

namespace Files
def hasFull (f : Files) (stage mod stop : Nat) (init : Nat) : Bool :=
  f.stores.any fun x => x.stage == stage && x.mod == mod && !x.partial_ && x.stop == stop && x.start == init
def hasPartial (f : Files) (stage mod start stop : Nat) : Bool :=
  f.stores.any fun x => x.stage == stage && x.mod == mod && x.partial_ && x.start == start && x.stop == stop
def hasOutput (f : Files) (start stop : Nat) : Bool :=
  f.outputs.any fun x => x.start == start && x.stop == stop
def addFull (f : Files) (stage mod init stop : Nat) : Files :=
  if f.hasFull stage mod stop init then f else { f with stores := f.stores ++ [⟨stage, mod, false, init, stop⟩] }
def addPartial (f : Files) (stage mod start stop : Nat) : Files :=
  if f.hasPartial stage mod start stop then f else { f with stores := f.stores ++ [⟨stage, mod, true, start, stop⟩] }
def delPartial (f : Files) (stage mod start stop : Nat) : Files :=
  { f with stores := f.stores.filter fun x => !(x.stage == stage && x.mod == mod && x.partial_ && x.start == start && x.stop == stop) }
def addOutput (f : Files) (start stop : Nat) : Files :=
  if f.hasOutput start stop then f else { f with outputs := f.outputs ++ [⟨start, stop⟩] }
end Files

namespace Stages

/-- `markFound`: association list unit ↦ set of module positions -/
def markFound (m : List (WorkUnit × List Nat)) (u : WorkUnit) (name : Nat) (count : Nat) : List (WorkUnit × List Nat) × Bool :=
  let cur := (m.find? (fun p => p.1 == u)).map (·.2) |>.getD []
  let cur' := if cur.contains name then cur else name :: cur
  let m' := (u, cur') :: m.filter (fun p => p.1 != u)
  (m', cur'.length == count)

def moduleCount (st : Stage) (seg : Nat) : Nat :=
  (st.mods.filter fun m => decide (seg ≥ (modSeg st m).firstIndex)).length

/-- insertion into a list sorted by `key` (stable: after equal keys) — `sort.SliceStable` -/
def insertBy {α} (key : α → Nat) (x : α) : List α → List α
  | [] => [x]
  | y :: ys => if key x < key y then x :: y :: ys else y :: insertBy key x ys
def sortBy {α} (key : α → Nat) (l : List α) : List α := l.foldl (fun acc x => insertBy key x acc) []

/-- `Config.ListSnapshotFiles(below)` of one store module: the directory is walked in file-name order
(`<end>-<start>.kv|partial`) and the walk stops at the first file whose start is ≥ below. -/
def nameLt (a b : StoreFile) : Bool :=
  a.stop < b.stop || (a.stop == b.stop && (a.start < b.start || (a.start == b.start && !a.partial_ && b.partial_)))
def insertName (x : StoreFile) : List StoreFile → List StoreFile
  | [] => [x]
  | y :: ys => if nameLt x y then x :: y :: ys else y :: insertName x ys
def listSnapshots (files : List StoreFile) (below : Nat) : List StoreFile :=
  if below = 0 then []
  else ((files.foldl (fun acc x => insertName x acc) []).takeWhile fun f => decide (f.start < below))

def fullsLoop (segm : Segmenter) (st : Stage) (stageIdx modPos : Nat) (ms : Segmenter) :
    List StoreFile → Stages → List (WorkUnit × List Nat) → Except Err (Stages × List (WorkUnit × List Nat))
  | [], s, cm => .ok (s, cm)
  | f :: rest, s, cm =>
    let segIdx := ms.indexForEndBlock f.stop
    match segm.range? segIdx with
    | none => fullsLoop segm st stageIdx modPos ms rest s cm
    | some rng =>
      if rng.stop ≠ f.stop then fullsLoop segm st stageIdx modPos ms rest s cm
      else
        let u : WorkUnit := ⟨segIdx, stageIdx⟩
        let (cm', done) := markFound cm u modPos (moduleCount st segIdx)
        if done then
          match s.markSegmentCompleted u with
          | .error e => .error e
          | .ok s' => fullsLoop segm st stageIdx modPos ms rest s' cm'
        else fullsLoop segm st stageIdx modPos ms rest s cm'

def partialsLoop (segm : Segmenter) (st : Stage) (stageIdx modPos : Nat) (ms : Segmenter) :
    List StoreFile → Stages → List (WorkUnit × List Nat) → Except Err (Stages × List (WorkUnit × List Nat))
  | [], s, pm => .ok (s, pm)
  | f :: rest, s, pm =>
    let segIdx := ms.indexForStartBlock f.start
    match segm.range? segIdx with
    | none => partialsLoop segm st stageIdx modPos ms rest s pm
    | some rng =>
      if rng.start ≠ f.start ∨ rng.stop ≠ f.stop then partialsLoop segm st stageIdx modPos ms rest s pm
      else if s.getState segIdx stageIdx = .completed then partialsLoop segm st stageIdx modPos ms rest s pm
      else
        let u : WorkUnit := ⟨segIdx, stageIdx⟩
        let (pm', done) := markFound pm u modPos (moduleCount st segIdx)
        if done then
          match s.markSegmentPartialPresent u with
          | .error e => .error e
          | .ok s' => partialsLoop segm st stageIdx modPos ms rest s' pm'
        else partialsLoop segm st stageIdx modPos ms rest s pm'

/-- the modules of one store stage -/
def fetchMods (segm : Segmenter) (files : List StoreFile) (st : Stage) (stageIdx : Nat) :
    List ModState → Nat → Stages → List (WorkUnit × List Nat) → List (WorkUnit × List Nat) →
    Except Err (Stages × List (WorkUnit × List Nat) × List (WorkUnit × List Nat))
  | [], _, s, cm, pm => .ok (s, cm, pm)
  | m :: rest, modPos, s, cm, pm =>
    let mine := listSnapshots (files.filter fun f => f.stage == st.idx && f.mod == modPos) segm.end_
    let fulls := sortBy (·.stop) (mine.filter (!·.partial_))
    let parts := sortBy (·.start) (mine.filter (·.partial_))
    match fullsLoop segm st stageIdx modPos (modSeg st m) fulls s cm with
    | .error e => .error e
    | .ok (s1, cm1) =>
      match partialsLoop segm st stageIdx modPos (modSeg st m) parts s1 pm with
      | .error e => .error e
      | .ok (s2, pm1) => fetchMods segm files st stageIdx rest (modPos + 1) s2 cm1 pm1

/-- `execout.Config.ListSnapshotFiles(NewInclusiveRange(from, upTo))`: name order = (start, end); files from
`from` on; stop at the first file whose end is beyond `upTo`. -/
def outLt (a b : OutFile) : Bool := a.start < b.start || (a.start == b.start && a.stop < b.stop)
def insertOut (x : OutFile) : List OutFile → List OutFile
  | [] => [x]
  | y :: ys => if outLt x y then x :: y :: ys else y :: insertOut x ys
def listOutputs (files : List OutFile) (frm upTo : Nat) : List OutFile :=
  (((files.foldl (fun acc x => insertOut x acc) []).filter fun f => decide (f.start ≥ frm)).takeWhile
    fun f => decide (f.stop - 1 < upTo))

def mapperLoop (ms : Segmenter) (st : Stage) (stageIdx : Nat) :
    List OutFile → Stages → List (WorkUnit × List Nat) → Except Err (Stages × List (WorkUnit × List Nat))
  | [], s, cm => .ok (s, cm)
  | f :: rest, s, cm =>
    let segIdx := ms.indexForEndBlock f.stop
    match ms.range? segIdx with
    | none => mapperLoop ms st stageIdx rest s cm
    | some rng =>
      if rng.stop ≠ f.stop then mapperLoop ms st stageIdx rest s cm
      else
        let u : WorkUnit := ⟨segIdx, stageIdx⟩
        let (cm', done) := markFound cm u 0 (moduleCount st segIdx)
        if done then
          match s.markSegmentCompleted u with
          | .error e => .error e
          | .ok s' => mapperLoop ms st stageIdx rest s' cm'
        else mapperLoop ms st stageIdx rest s cm'

def fetchStages (segm : Segmenter) (files : Files) (mapperFiles : Option (List OutFile)) :
    Nat → Nat → Stages → List (WorkUnit × List Nat) → List (WorkUnit × List Nat) → Except Err Stages
  | 0, _, s, _, _ => .ok s
  | fuel + 1, stageIdx, s, cm, pm =>
    let st := s.stageAt stageIdx
    if st.kind = .map then
      match mapperFiles with
      | none => fetchStages segm files mapperFiles fuel (stageIdx + 1) s cm pm
      | some mf =>
        if stageIdx + 1 ≠ s.nStages then .error .mapperStage
        else match s.mapSeg with
          | none => .error .mapperStage
          | some ms =>
            match mapperLoop ms st stageIdx mf s cm with
            | .error e => .error e
            | .ok (s', cm') => fetchStages segm files mapperFiles fuel (stageIdx + 1) s' cm' pm
    else
      match fetchMods segm files.stores st stageIdx st.mods 0 s cm pm with
      | .error e => .error e
      | .ok (s', cm', pm') =>
        fetchStages segm files mapperFiles fuel (stageIdx + 1) (s'.moveSegmentCompletedForward stageIdx) cm' pm'

def fetchStoresState (c : Cfg) (files : Files) (s : Stages) : Except Err Stages :=
  let segm? := match c.storesSegmenter with
    | some b => some b
    | none => c.writeOutSegmenter
  match segm? with
  | none => .error .notParallel
  | some segm =>
    if s.nStages = 0 then .error .indexOutOfRange
    else
      let last := s.stageAt (s.nStages - 1)
      if last.kind = .map ∧ last.mods.length ≠ 1 then .error .mapperStage
      else
        let upTo := segm.end_
        let mapperFiles : Option (List OutFile) :=
          if last.kind = .map ∧ upTo ≠ 0 ∧ upTo ≠ segm.init then
            let l := listOutputs files.outputs segm.init upTo
            if l.isEmpty then none else some l
          else none
        match fetchStages segm files mapperFiles s.nStages 0 s [] [] with
        | .error e => .error e
        | .ok s' => .ok (s'.setShadowableSegment (segm.indexForStartBlock c.start))

/-- the Stages built by `BuildParallelProcessor` -/
def initStages (c : Cfg) (files : Files) : Except Err Stages :=
  match newStages c with
  | .error e => .error e
  | .ok s => fetchStoresState c files s

/-! ### rendering (`StatesString`, the verif hook's fingerprint) -/

def UnitState.char : UnitState → Char
  | .pending => '.' | .partialPresent => 'P' | .scheduled => 'S' | .merging => 'M'
  | .completed => 'C' | .noOp => 'N' | .shadowed => 'Z'

end Stages
end SV.Stg

/-
Executable SHA-1 (FIPS 180-4) over `List UInt8`, core Lean only, total, structural recursion /
folds only.  It stands for Go's `crypto/sha1` (`sha1.New(); Write; Sum(nil)`), so that the model's
module hashes can be compared byte for byte with the real ones.  Nothing is proved about SHA-1:
the C06 theorems are stated for an arbitrary hash function `H` (DESIGN §3.5); this file is only
the instance the driver runs.  The correspondence check compares it with `crypto/sha1` on every
pre-image of every generated graph plus raw `SHA1` cases (all lengths around the block boundary).
-/
namespace SV.Sha1

abbrev Bytes := List UInt8

@[inline] def rotl (x : UInt32) (n : UInt32) : UInt32 := (x <<< n) ||| (x >>> (32 - n))

@[inline] def be32 (a b c d : UInt8) : UInt32 :=
  (a.toUInt32 <<< 24) ||| (b.toUInt32 <<< 16) ||| (c.toUInt32 <<< 8) ||| d.toUInt32

/-- big-endian 32-bit words of a byte string (a trailing group of fewer than 4 bytes is dropped;
the padded message always has a multiple of 64 bytes) -/
def wordsOf : Bytes → List UInt32
  | a :: b :: c :: d :: rest => be32 a b c d :: wordsOf rest
  | _ => []

/-- the 8-byte big-endian encoding of `n` (mod 2^64) -/
def be64 (n : Nat) : Bytes :=
  [56, 48, 40, 32, 24, 16, 8, 0].map fun s => UInt8.ofNat ((n >>> s) % 256)

/-- message ++ 0x80 ++ zeros ++ bit length, a multiple of 64 bytes -/
def pad (msg : Bytes) : Bytes :=
  let l := msg.length
  let z := (119 - l % 64) % 64     -- (l + 1 + z) % 64 = 56
  msg ++ [0x80] ++ List.replicate z 0 ++ be64 (l * 8)

structure State where
  h0 : UInt32
  h1 : UInt32
  h2 : UInt32
  h3 : UInt32
  h4 : UInt32

def init : State := ⟨0x67452301, 0xEFCDAB89, 0x98BADCFE, 0x10325476, 0xC3D2E1F0⟩

/-- message schedule: 16 words → 80 words -/
def schedule (w16 : Array UInt32) : Array UInt32 :=
  (List.range 64).foldl (fun w i =>
    let j := i + 16
    w.push (rotl (w.getD (j - 3) 0 ^^^ w.getD (j - 8) 0 ^^^ w.getD (j - 14) 0 ^^^ w.getD (j - 16) 0) 1))
    w16

def round (i : Nat) (wi : UInt32) (s : State) : State :=
  let ⟨a, b, c, d, e⟩ := s
  let (f, k) : UInt32 × UInt32 :=
    if i < 20 then ((b &&& c) ||| ((~~~ b) &&& d), 0x5A827999)
    else if i < 40 then (b ^^^ c ^^^ d, 0x6ED9EBA1)
    else if i < 60 then ((b &&& c) ||| (b &&& d) ||| (c &&& d), 0x8F1BBCDC)
    else (b ^^^ c ^^^ d, 0xCA62C1D6)
  let t := rotl a 5 + f + e + k + wi
  ⟨t, a, rotl b 30, c, d⟩

def compress (s : State) (block : List UInt32) : State :=
  let w := schedule block.toArray
  let r := (List.range 80).foldl (fun st i => round i (w.getD i 0) st) s
  ⟨s.h0 + r.h0, s.h1 + r.h1, s.h2 + r.h2, s.h3 + r.h3, s.h4 + r.h4⟩

/-- fold `compress` over consecutive groups of 16 words; `fuel` ≥ number of blocks -/
def blocksFold : Nat → State → List UInt32 → State
  | 0, s, _ => s
  | fuel + 1, s, ws =>
    if ws.length < 16 then s else blocksFold fuel (compress s (ws.take 16)) (ws.drop 16)

def word4 (w : UInt32) : Bytes :=
  [(w >>> 24).toUInt8, (w >>> 16).toUInt8, (w >>> 8).toUInt8, w.toUInt8]

/-- SHA-1 digest (20 bytes) -/
def sha1 (msg : Bytes) : Bytes :=
  let ws := wordsOf (pad msg)
  let s := blocksFold (ws.length / 16 + 1) init ws
  word4 s.h0 ++ word4 s.h1 ++ word4 s.h2 ++ word4 s.h3 ++ word4 s.h4

end SV.Sha1

/-
Model of /repo/orchestrator/plan/requestplan.go (`BuildTier1RequestPlan`, the segmenter constructors),
of the way /repo/orchestrator/stage/stages.go (`NewStages`, `initSegmentsOffset`, `NextJob`) turns the
plan's segmenters into unit ranges handed to jobs, of what a tier-2 job recomputes from
`(SegmentNumber, SegmentSize)` (/repo/pb/sf/substreams/intern/v2/service.go `StartBlock`/`StopBlock`,
clipped at the module's initial block as in /repo/service/tier2.go), and of the order in which
`Tier1Service.blocks` (/repo/service/tier1.go) chains prelude, `BuildRequestDetails`, the
`start == stop` rejection, `ValidateRequestStartBlock` and `BuildTier1RequestPlan`.

Core Lean only; executable; total.  Reuses `SV.Segmenter` (C13).
-/
import Model.Resolve
namespace SV.Plan
open SV SV.Resolve

structure Plan where
  buildStores  : Option Range
  writeExecOut : Option Range
  readExecOut  : Option Range
  linear       : Option Range    -- `LinearPipeline`; an end of 0 means "no end"
  seg          : Nat             -- segmentInterval
deriving DecidableEq, Repr, Inhabited

/-- Go's `Segmenter.LastIndex()`: `int((exclusiveEndBlock - 1) / interval)` computed in `uint64`; for an end
block of 0 the subtraction wraps (and for interval 1 the conversion to `int` then gives -1).  `Segmenter.lastIndex`
(C13's model) is the same number whenever the end block is positive. -/
def goLastIndex (s : Segmenter) : Int :=
  if s.end_ = 0 then
    (if s.interval = 1 then -1 else ((2 ^ 64 - 1 : Nat) / s.interval : Nat))
  else ((s.end_ - 1) / s.interval : Nat)

/-- Go's `Segmenter.Range(idx)` including the open-ended case (end block 0) that
`BuildTier1RequestPlan` runs into when the request has no stop block. -/
def goRange? (s : Segmenter) (idx : Nat) : Option Range :=
  let first := s.firstIndex
  if idx < first then none
  else if idx = first then s.firstRange
  else if (idx : Int) > goLastIndex s then none
  else some ⟨idx * s.interval, min (idx * s.interval + s.interval) s.end_⟩

/-- `BuildTier1RequestPlan(productionMode, segmentInterval, lowestInitialBlock, lowestStoreInitialBlock,
resolvedStartBlock, linearHandoffBlock, exclusiveEndBlock, scheduleStores)` -/
def buildTier1RequestPlan (production : Bool) (seg lowestInit lowestStoreInit start handoff stop : Nat)
    (scheduleStores : Bool) : Except Err Plan :=
  if start < lowestInit then .error .startBelowLowestInit
  else
    let segmenter : Segmenter := ⟨seg, lowestInit, stop⟩
    let linear : Option Range :=
      if handoff < stop ∨ stop = 0 ∨ handoff = 0 then some ⟨handoff, stop⟩ else none
    if start = handoff ∧ lowestInit = start then .ok ⟨none, none, none, linear, seg⟩
    else if production then
      let stores : Option Range :=
        if scheduleStores ∧ handoff > lowestStoreInit then some ⟨lowestStoreInit, handoff⟩ else none
      if start < handoff then
        let startExecOutAtBlock := max start lowestInit
        let startExecOutAtSegment := segmenter.indexForStartBlock startExecOutAtBlock
        match goRange? segmenter startExecOutAtSegment with
        | none => .error .writeRangeInvalid
        | some r =>
          let readEnd := if stop ≠ 0 ∧ stop < handoff then stop else handoff
          .ok ⟨stores, some ⟨r.start, handoff⟩, some ⟨start, readEnd⟩, linear, seg⟩
      else .ok ⟨stores, none, none, linear, seg⟩
    else
      let stores : Option Range :=
        if scheduleStores ∧ handoff > lowestStoreInit then some ⟨lowestStoreInit, handoff⟩ else none
      .ok ⟨stores, none, none, linear, seg⟩

namespace Plan

/-- `RequiresParallelProcessing` -/
def requiresParallelProcessing (p : Plan) : Bool := p.writeExecOut.isSome || p.buildStores.isSome

/-! ### segmenters derived from the plan (`none` = Go dereferences a nil range) -/

def storesSegmenter (p : Plan) : Option Segmenter := p.buildStores.map fun r => ⟨p.seg, r.start, r.stop⟩
def writeOutSegmenter (p : Plan) : Option Segmenter := p.writeExecOut.map fun r => ⟨p.seg, r.start, r.stop⟩

def backprocessSegmenter (p : Plan) : Option Segmenter :=
  match p.buildStores, p.writeExecOut with
  | none, _ => p.writeOutSegmenter
  | some _, none => p.storesSegmenter
  | some s, some w => some ⟨p.seg, min s.start w.start, max s.stop w.stop⟩

def moduleSegmenter (p : Plan) (modInit : Nat) : Option Segmenter :=
  p.buildStores.map fun r => ⟨p.seg, modInit, r.stop⟩

def readOutSegmenter (p : Plan) (outInit : Nat) : Option Segmenter :=
  p.writeExecOut.map fun w => ⟨p.seg, (if outInit > w.start then outInit else w.start), w.stop⟩

/-! ### unit ranges handed to jobs (`NewStages`, `initSegmentsOffset`, `NextJob`) -/

inductive StageKind
  | store | map
deriving DecidableEq, Repr, Inhabited

/-- `NewStages`: the segmenter a stage of this kind starts from -/
def kindSegmenter (p : Plan) : StageKind → Option Segmenter
  | .store => p.storesSegmenter
  | .map => p.writeOutSegmenter

/-- `segmenter.WithInitialBlock(stageLowestInitBlock)` (also the per-module segmenter of `NewModuleState`) -/
def stageSegmenter (p : Plan) (k : StageKind) (stageInit : Nat) : Option Segmenter :=
  (p.kindSegmenter k).map fun s => ⟨s.interval, stageInit, s.end_⟩

inductive UnitOutcome
  | noJob               -- outside the loop bounds, initially NoOp, or an empty unit
  | job (r : Range)     -- `NextJob` returns `(unit, r)`
  | nilRange            -- `stage.segmenter.Range(idx)` is nil and `r.Len()` dereferences it
deriving DecidableEq, Repr, Inhabited

/-- What `NextJob` hands out for unit `(idx, stage)` when it reaches it in state Pending with its
dependencies complete (the scheduling order itself is C05's subject). -/
def unitOutcome (p : Plan) (k : StageKind) (stageInit idx : Nat) : UnitOutcome :=
  match p.backprocessSegmenter, p.kindSegmenter k with
  | some g, some ks =>
    let st : Segmenter := ⟨ks.interval, stageInit, ks.end_⟩
    if idx < g.firstIndex ∨ idx > g.lastIndex then .noJob       -- loop bounds of `NextJob`
    else if idx < ks.firstIndex then .noJob                      -- `initSegmentsOffset`: NoOp
    else if idx < st.firstIndex then .noJob                      -- `getState` / the `continue`
    else if idx > st.lastIndex then .noJob                       -- the `break`
    else match st.range? idx with
      | none => .nilRange
      | some r => if r.stop = r.start then .noJob else .job r
  | _, _ => .noJob

/-- all units of one stage, in segment order (driver / oracle view) -/
def units (p : Plan) (k : StageKind) (stageInit : Nat) : List (Nat × UnitOutcome) :=
  match p.backprocessSegmenter with
  | none => []
  | some g =>
    ((List.range (g.lastIndex + 1 - g.firstIndex)).map fun i =>
      (g.firstIndex + i, p.unitOutcome k stageInit (g.firstIndex + i))).filter fun x =>
        x.2 ≠ .noJob

end Plan

/-! ### what tier 2 recomputes -/

/-- `ProcessRangeRequest.StartBlock()` -/
def tier2StartBlock (seg fsb segmentNumber : Nat) : Nat :=
  if segmentNumber * seg ≥ fsb then segmentNumber * seg else fsb

/-- `ProcessRangeRequest.StopBlock()` -/
def tier2StopBlock (seg segmentNumber : Nat) : Nat := segmentNumber * seg + seg

/-- the range of the files a tier-2 job writes for a module with raw initial block `modInit`
(`moduleStartBlock` / `writerStartBlock` in tier2.go) -/
def tier2Range (seg fsb segmentNumber modInit : Nat) : Range :=
  let s := tier2StartBlock seg fsb segmentNumber
  ⟨if modInit > s then modInit else s, tier2StopBlock seg segmentNumber⟩

/-- `work.NewRequest`: the segment number sent to tier 2 is derived from the unit range's start block -/
def segmentNumberOf (seg : Nat) (r : Range) : Nat := r.start / seg

/-! ### `Tier1Service.blocks` up to the plan -/

structure Outcome where
  d    : Details
  undo : Option Undo
  plan : Plan
deriving Repr, Inhabited

/-- the call of `BuildTier1RequestPlan` in tier1.go -/
def planOfDetails (env : Env) (m : Mods) (d : Details) : Except Err Plan :=
  buildTier1RequestPlan d.production env.seg (m.lowestInitBlock env.fsb)
    ((m.lowestStoresInitBlock env.fsb).getD 0) d.start d.handoff d.stop m.scheduleStores

def tier1 (env : Env) (m : Mods) (req : Request) : Except Err Outcome :=
  if !m.graphOk env.fsb then .error .graph          -- `Blocks`/`TestBlocks`: NewOutputModuleGraph
  else do
    let sn ← normalizeStart env.fsb req.startNum req.stop
    let (d, undo) ← buildRequestDetails env m { req with startNum := sn }
    if d.start = req.stop ∧ req.stop ≠ 0 then .error .startEqStop
    else do
      m.validateRequestStartBlock d.start
      let p ← planOfDetails env m d
      .ok ⟨d, undo, p⟩

end SV.Plan

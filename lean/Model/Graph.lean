/-
Model of the module-graph code of /repo:

  manifest/graph.go        NewModuleGraph (edges, `graph.Acyclic`), ModulesDownTo, StoresDownTo,
                           AncestorsOf / AncestorStoresOf
  manifest/reader.go       ValidateModules (only the part the staging relies on, see `validated`)
  pipeline/exec/graph.go   NewOutputModuleGraph / computeGraph, computeStages (layering loop + stage
                           grouping), computeLowestInitBlock, computeLowestStoresInitBlock,
                           computeSchedulableModules, computeSchedulableAncestors

Core Lean only; executable; total.

Conventions
* A module is identified by its name.  Go's `moduleIndex` map keeps the *last* module of a duplicated
  name; duplicates are rejected by `ValidateModules` (first check of `validated`), which every server
  entry point runs before `NewOutputModuleGraph`, so the model resolves a name with `find?`.
* External graph library (`yourbasic/graph`, fork streamingfast/graph): `graph.Acyclic` is modelled by
  the specified function `acyclicB` (a checked topological order), `graph.ShortestPaths(g, v)` with
  `d >= 0` by `reachable` (reflexive-transitive closure of the edge relation), `graph.TopSort` only
  fixes the order *inside* `usedModules`, `stores` and each layer; the model keeps the order of the
  request's module list instead and all comparisons with the real code are made on sets.
* Go `uint64` initial blocks are `Nat`; they are only compared, never subtracted.
* The unbounded Go loop `for i := 0; ; i++` of `computeStages` takes fuel; running out of fuel is the
  outcome `hang` (the Go code would spin forever).  `Lemmas/Graph.lean` proves `2·n+2` suffices.
* Module hashing (`hashModules`) is not part of this model (property C06); the harness only produces
  packages on which it cannot fail.
-/
namespace SV.Graph

inductive Kind where
  | map | store | index
deriving DecidableEq, Repr, Inhabited

/-- `Module_Input_Store_Mode`: UNSET = 0, GET = 1, DELTAS = 2 -/
inductive StoreMode where
  | unset | get | deltas
deriving DecidableEq, Repr, Inhabited

inductive Input where
  | source (type : String)
  | map (name : String)
  | store (name : String) (mode : StoreMode)
  | params (value : String)
deriving DecidableEq, Repr, Inhabited

structure Module where
  name         : String
  kind         : Kind
  inputs       : List Input
  blockFilter  : Option String
  initialBlock : Nat
deriving DecidableEq, Repr, Inhabited

def names (mods : List Module) : List String := mods.map (·.name)

def lookup (mods : List Module) (n : String) : Option Module := mods.find? (fun m => m.name == n)

def hasModule (mods : List Module) (n : String) : Bool := (names mods).contains n

def Module.isStore (m : Module) : Bool :=
  match m.kind with
  | .store => true
  | _ => false

/-! ### manifest.NewModuleGraph -/

/-- the module an input refers to: only map and store inputs refer to modules.  (`NewModuleGraph` also
derives a `moduleName` from a source *type* and a params *value*, for `inputOrderIndex`, but since the
fix "a params value or source type spelled like a module name is not a graph dependency" it adds an
edge only when `input.GetMap() != nil || input.GetStore() != nil`.) -/
def Input.dep? : Input → Option String
  | .map n => some n
  | .store n _ => some n
  | _ => none

/-- candidate edge targets of a module: the non-empty names of its map and store inputs
(`if moduleName == "" { continue }`) and the block filter's module (no emptiness test there). -/
def Module.edgeNames (m : Module) : List String :=
  (m.inputs.filterMap Input.dep?).filter (fun s => s != "") ++ m.blockFilter.toList

/-- edges actually added: `if j, found := g.moduleIndex[moduleName]; found { g.AddCost(i, j, 1) }` -/
def succ (mods : List Module) (m : Module) : List String := m.edgeNames.filter (hasModule mods)

def succOf (mods : List Module) (n : String) : List String :=
  match lookup mods n with
  | some m => succ mods m
  | none => []

/-- one round of peeling: a module all of whose successors are already removed can be removed -/
def peelRound (mods : List Module) (removed : List String) : List String :=
  removed ++ (names mods).filter (fun n => !removed.contains n && (succOf mods n).all removed.contains)

def peel (mods : List Module) : Nat → List String → List String
  | 0, r => r
  | k + 1, r => peel mods k (peelRound mods r)

/-- dependencies first -/
def topoOrder (mods : List Module) : List String := peel mods mods.length []

/-- Specified function standing for `graph.Acyclic`: the peeled order contains every module and every
edge points to a module strictly earlier in it (a checked certificate, so soundness is immediate). -/
def acyclicB (mods : List Module) : Bool :=
  let o := topoOrder mods
  (names mods).all fun n => o.contains n && (succOf mods n).all fun d => decide (o.idxOf d < o.idxOf n)

/-! ### reachability (`graph.ShortestPaths`, distance ≥ 0) -/

def closeStep (mods : List Module) (s : List String) : List String :=
  s ++ (s.flatMap (succOf mods)).filter (fun x => !s.contains x)

def closure (mods : List Module) (root : String) : Nat → List String
  | 0 => [root]
  | k + 1 => closeStep mods (closure mods root k)

/-- names reachable from `root` (itself included).  In an acyclic graph no path is longer than the
topological order, so that many rounds reach everything (`Lemmas.Graph.mem_reachable_iff`). -/
def reachable (mods : List Module) (root : String) : List String :=
  closure mods root (topoOrder mods).length

/-! ### ModulesDownTo / StoresDownTo / AncestorStoresOf -/

inductive Err where
  | validate | cycle | noModule | initBelowFirst | noInput
deriving DecidableEq, Repr

/-- `ModulesDownTo` (as a set; the real order is the reversed `TopSort`). -/
def modulesDownTo (mods : List Module) (out : String) : Except Err (List Module) :=
  if hasModule mods out then .ok (mods.filter fun m => (reachable mods out).contains m.name)
  else .error .noModule

/-- `AncestorStoresOf`: distance ≥ 1 and kind store -/
def ancestorStoresOf (mods : List Module) (n : String) : List Module :=
  mods.filter fun m => (reachable mods n).contains m.name && m.name != n && m.isStore

/-! ### the true dependencies (what `computeStages` waits for) -/

/-- map inputs, store inputs (get and deltas) and the block-filter module -/
def Module.deps (m : Module) : List String := m.inputs.filterMap Input.dep? ++ m.blockFilter.toList

/-! ### exec.computeStages -/

/-- the `switch mod.Kind.(type)` gate: stores on even iterations, maps and block indexes on odd ones -/
def wrongParity (i : Nat) (m : Module) : Bool :=
  match m.kind with
  | .store => i % 2 == 1
  | _ => i % 2 == 0

/-- The loop over `mod.Inputs`. `none` = `continue modLoop` (a dependency is not in `seen`);
`some v` = the loop ran to its end with `validInputsAtInitialBlock = v`. -/
def scanInputs (seen : List String) (init : String → Nat) (m : Module) : List Input → Bool → Option Bool
  | [], v => some v
  | .params _ :: rest, v => scanInputs seen init m rest (v || m.inputs.length == 1)
  | .source _ :: rest, _ => scanInputs seen init m rest true
  | .map n :: rest, v =>
      let v' := v || decide (init m.name ≥ init n)
      if seen.contains n then scanInputs seen init m rest v' else none
  | .store n _ :: rest, v =>
      let v' := v || decide (init m.name ≥ init n)
      if seen.contains n then scanInputs seen init m rest v' else none

inductive Verdict where
  | skip | noInput | place
deriving DecidableEq, Repr

/-- body of `modLoop` for one module in iteration `i` -/
def consider (i : Nat) (seen : List String) (init : String → Nat) (m : Module) : Verdict :=
  if wrongParity i m then .skip
  else if seen.contains m.name then .skip
  else match scanInputs seen init m m.inputs false with
    | none => .skip
    | some false => .noInput
    | some true =>
      match m.blockFilter with
      | some f => if seen.contains f then .place else .skip
      | none => .place

/-- one pass over `mods`; `none` = the error "has no input available at its initial block" -/
def buildLayer (i : Nat) (seen : List String) (init : String → Nat) : List Module → Option (List Module)
  | [] => some []
  | m :: rest =>
    match consider i seen init m with
    | .noInput => none
    | .skip => buildLayer i seen init rest
    | .place =>
      match buildLayer i seen init rest with
      | none => none
      | some l => some (m :: l)

inductive LoopResult where
  | ok (layers : List (List Module))
  | noInput
  | hang
deriving Repr

/-- `for i := 0; ; i++ { if len(seen) == len(mods) { break } … }`.  `seen` is a Go set; the list never
holds a name twice because the modules of `mods` have distinct names (ModulesDownTo's `alreadyAdded`)
and a module already in `seen` is skipped. -/
def stagesLoop (mods : List Module) (init : String → Nat) :
    Nat → Nat → List String → List (List Module) → LoopResult
  | 0, _, _, _ => .hang
  | fuel + 1, i, seen, layers =>
    if seen.length == mods.length then .ok layers
    else
      match buildLayer i seen init mods with
      | none => .noInput
      | some layer =>
        if layer.isEmpty then stagesLoop mods init fuel (i + 1) seen layers
        else stagesLoop mods init fuel (i + 1) (seen ++ layer.map (·.name)) (layers ++ [layer])

def stagesFuel (mods : List Module) : Nat := 2 * mods.length + 2

def computeLayers (mods : List Module) (init : String → Nat) : LoopResult :=
  stagesLoop mods init (stagesFuel mods) 0 [] []

/-- `LayerModules.IsStoreLayer`: `l[0].GetKindStore() != nil` (layers are never empty,
`Lemmas.Graph`; on `[]` Go would panic) -/
def isStoreLayer : List Module → Bool
  | m :: _ => m.isStore
  | [] => false

/-- second loop of `computeStages`: a stage is closed by a store layer or by the last layer -/
def groupStages : List (List Module) → List (List Module) → List (List (List Module))
  | [], _ => []
  | [l], cur => [cur ++ [l]]
  | l :: rest, cur =>
    if isStoreLayer l then (cur ++ [l]) :: groupStages rest [] else groupStages rest (cur ++ [l])

/-! ### exec.computeGraph -/

structure GraphOut where
  used             : List Module
  initBlocks       : List (String × Nat)
  layers           : List (List Module)
  stages           : List (List (List Module))
  lowestInit       : Nat
  lowestStoresInit : Option Nat
  stores           : List Module
  schedulable      : List Module
  ancestors        : List (String × List String)
deriving Repr

inductive Outcome where
  | ok (g : GraphOut)
  | error (e : Err)
  | hang
deriving Repr

def resolvedInit (fsb : Nat) (m : Module) : Nat := if m.initialBlock == 0 then fsb else m.initialBlock

def initTable (fsb : Nat) (used : List Module) : List (String × Nat) :=
  used.map fun m => (m.name, resolvedInit fsb m)

/-- Go map read: a missing key reads 0 -/
def initOf (tbl : List (String × Nat)) (n : String) : Nat := (tbl.lookup n).getD 0

def minList : List Nat → Option Nat
  | [] => none
  | a :: rest => match minList rest with
    | none => some a
    | some b => some (min a b)

/-- `computeLowestInitBlock`: lowest *raw* initial block of the non-index modules, not below `fsb` -/
def lowestInitBlock (used : List Module) (fsb : Nat) : Nat :=
  match minList ((used.filter fun m => m.kind != .index).map (·.initialBlock)) with
  | none => fsb
  | some l => if l < fsb then fsb else l

def lowestStoresInitBlock (used : List Module) (fsb : Nat) : Option Nat :=
  match minList ((used.filter Module.isStore).map (·.initialBlock)) with
  | none => none
  | some l => some (if l < fsb then fsb else l)

def schedulableModules (stores : List Module) (out : Option Module) (prod : Bool) : List Module :=
  if !prod then stores
  else match out with
    | none => stores
    | some o => if o.isStore then stores else stores ++ [o]

/-- `computeGraph` after a successful `NewModuleGraph` -/
def computeGraphAcyclic (mods : List Module) (out : String) (prod : Bool) (fsb : Nat) : Outcome :=
  match modulesDownTo mods out with
  | .error e => .error e
  | .ok used =>
    if used.any (fun m => m.initialBlock != 0 && decide (m.initialBlock < fsb)) then .error .initBelowFirst
    else
      let tbl := initTable fsb used
      match computeLayers used (initOf tbl) with
      | .hang => .hang
      | .noInput => .error .noInput
      | .ok layers =>
        let stores := used.filter Module.isStore
        let sched := schedulableModules stores (lookup used out) prod
        .ok { used := used, initBlocks := tbl, layers := layers, stages := groupStages layers [],
              lowestInit := lowestInitBlock used fsb, lowestStoresInit := lowestStoresInitBlock used fsb,
              stores := stores, schedulable := sched,
              ancestors := sched.map fun m => (m.name, names (ancestorStoresOf mods m.name)) }

/-- `exec.NewOutputModuleGraph` -/
def computeGraph (mods : List Module) (out : String) (prod : Bool) (fsb : Nat) : Outcome :=
  if acyclicB mods then computeGraphAcyclic mods out prod fsb else .error .cycle

/-! ### manifest.ValidateModules (the checks the staging relies on)

Not modelled here (property C17 owns the full validation): the 300 MB / 100 modules / 30 inputs
limits, the module-name regular expression beyond "not empty", absent kinds and absent input types
(not representable in `Module`). -/

def validInput (mods : List Module) (idx : Nat) : Input → Bool
  | .params _ => idx == 0
  | .source t => t != ""
  | .map n => match lookup mods n with
    | some d => d.kind == .map
    | none => false
  | .store n mode => match lookup mods n with
    | some d => d.kind == .store && mode != .unset
    | none => false

def validInputsFrom (mods : List Module) : Nat → List Input → Bool
  | _, [] => true
  | idx, i :: rest => validInput mods idx i && validInputsFrom mods (idx + 1) rest

def validFilter (mods : List Module) (m : Module) : Bool :=
  match m.blockFilter with
  | none => true
  | some f => match lookup mods f with
    | some fm => fm.kind == .index && decide (fm.initialBlock ≤ m.initialBlock)
    | none => false

def nodupB : List String → Bool
  | [] => true
  | a :: rest => !rest.contains a && nodupB rest

def validated (mods : List Module) : Bool :=
  nodupB (names mods) && !(names mods).contains "" &&
  mods.all fun m => validFilter mods m && validInputsFrom mods 0 m.inputs

/-- the production path: `ValidateModules` then `NewOutputModuleGraph` (service/tier1.go, tier2.go) -/
def validateThenGraph (mods : List Module) (out : String) (prod : Bool) (fsb : Nat) : Outcome :=
  if validated mods then computeGraph mods out prod fsb else .error .validate

/-! ### specification vocabulary used by the theorems (`Props/C14.lean`) -/

/-- reflexive-transitive closure -/
inductive Star (E : String → String → Prop) : String → String → Prop
  | refl (a : String) : Star E a a
  | step {a b c : String} : Star E a b → E b c → Star E a c

/-- `c` is a direct dependency of the module named `b`: a map input, a store input (get or deltas)
or its block-filter module, naming a module of the package -/
def DepEdge (mods : List Module) (b c : String) : Prop :=
  ∃ m, m ∈ mods ∧ m.name = b ∧ c ∈ m.deps ∧ hasModule mods c = true

/-- `Needs mods a b`: module `b` is `a` or a transitive dependency of `a` (the ancestor closure) -/
def Needs (mods : List Module) : String → String → Prop := Star (DepEdge mods)

/-- an edge of the graph `NewModuleGraph` builds -/
def GraphEdge (mods : List Module) (b c : String) : Prop := c ∈ succOf mods b

def GraphReach (mods : List Module) : String → String → Prop := Star (GraphEdge mods)

/-- does this input exist at the module's initial block, by the rule of `computeStages` -/
def inputAvailable (init : String → Nat) (m : Module) : Input → Bool
  | .source _ => true
  | .params _ => m.inputs.length == 1
  | .map n => decide (init m.name ≥ init n)
  | .store n _ => decide (init m.name ≥ init n)

def hasInputAt (init : String → Nat) (m : Module) : Bool := m.inputs.any (inputAvailable init m)

/-- every map / store / block-filter reference names a module of the package
(`ValidateModules`: checkValidInputs "… input named %q not found", checkValidBlockFilter "not found") -/
def refsResolve (mods : List Module) : Bool :=
  mods.all fun m => m.deps.all (hasModule mods)

end SV.Graph

import Model.Merge
import Model.Sqe
/-
The *linear specification* of a substreams request: one sequential execution of the module graph, block
after block (pipeline/process_block.go executeModules, pipeline/exec/module_executor.go RunModule,
pipeline/exec/baseexec.go canSkipExecution, mapexec/storeexec/indexexec), with module *code* given as
data (`ModSpec`: the script interpreted identically by the Go fake runtime harness/sys/runtime.go).

This is the specification that C01/C07 compare every execution strategy with.  Core Lean only.
-/
namespace SV.Lin
open SV

inductive IK | source | clock | params | map | get | deltas
deriving DecidableEq, Repr, Inhabited

structure InputSpec where
  kind : IK
  ref  : Bytes
deriving Repr, Inhabited

inductive TK | set | sine | app | del | sum | max | min | ssumset | ssumsum | burst
deriving DecidableEq, Repr, Inhabited

structure OpTmpl where
  kind    : TK
  ord     : Nat
  keyBase : Bytes
  keyMod  : Nat
  valMul  : Int
  valAdd  : Int
  mod     : Nat
  rem     : Nat
deriving Repr, Inhabited

structure KeyTmpl where
  key : Bytes
  mod : Nat
  rem : Nat
deriving Repr, Inhabited

inductive MK | map | store | index
deriving DecidableEq, Repr, Inhabited

structure ModSpec where
  name      : Bytes
  kind      : MK
  init      : Nat
  inputs    : List InputSpec
  filterMod : Bytes          -- [] = no block filter
  filterQ   : Bytes
  every     : Nat
  rem       : Nat
  skipEmpty : Bool
  failAt    : Option Nat
  policy    : Policy
  vt        : VT
  ops       : List OpTmpl
  keys      : List KeyTmpl
deriving Repr, Inhabited

abbrev World := List ModSpec

def findMod (w : World) (n : Bytes) : Option ModSpec := w.find? (fun m => m.name == n)

def acts (b mod rem : Nat) : Bool := b % (if mod = 0 then 1 else mod) == rem

def str (s : String) : Bytes := s.toUTF8.toList

def hexDigitB (n : Nat) : UInt8 := if n < 10 then UInt8.ofNat (48 + n) else UInt8.ofNat (87 + n)
/-- lowercase hex, "-" for the empty string (harness: hexv) -/
def hexv (b : Bytes) : Bytes :=
  if b = [] then [45] else b.flatMap fun c => [hexDigitB (c.toNat / 16), hexDigitB (c.toNat % 16)]

def joinB (sep : Bytes) : List Bytes → Bytes
  | [] => []
  | [x] => x
  | x :: rest => x ++ sep ++ joinB sep rest

/-! ### key universe of a store script -/

def insSorted (k : Bytes) : List Bytes → List Bytes
  | [] => [k]
  | x :: rest => if k = x then x :: rest else if bytesLe k x then k :: x :: rest else x :: insSorted k rest

def keyUniverse (m : ModSpec) : List Bytes :=
  m.ops.foldl (fun acc o =>
    if o.kind = .del ∨ o.kind = .burst then acc
    else if o.keyMod = 0 then insSorted o.keyBase acc
    else (List.range o.keyMod).foldl (fun acc i => insSorted (o.keyBase ++ renderNat i) acc) acc) []

/-! ### per-block state -/

/-- what a module produced on the current block: `none` = no output (not run, skipped, skipped output);
`some v` = an output (possibly empty) -/
abbrev Outputs := List (Bytes × Bytes)

structure LState where
  stores : List (Bytes × Store)      -- one per store module, by name
deriving Inhabited

def getStore (st : LState) (n : Bytes) : Store := ((st.stores.find? (fun p => p.1 == n)).map (·.2)).getD Store.empty
def setStore (st : LState) (n : Bytes) (s : Store) : LState :=
  if st.stores.any (fun p => p.1 == n) then ⟨st.stores.map fun p => if p.1 == n then (n, s) else p⟩
  else ⟨st.stores ++ [(n, s)]⟩

def cfgOf (m : ModSpec) : Cfg := ⟨m.policy, m.vt, 8388608, 1073741824, 10485760⟩

inductive LErr | moduleFailure (m : Bytes) (b : Nat) | store (e : SErr) | badFilter | badWorld
deriving Repr, Inhabited

def showOB (v : Option Bytes) : Bytes :=
  match v with
  | none => [126]   -- "~"
  | some b => hexv b

def showDelta (d : Delta) : Bytes :=
  (match d.op with | .create => ([67] : Bytes) | .update => [85] | .delete => [68]) ++ renderNat d.ord ++ [58] ++
    hexv d.key ++ [58] ++ hexv d.old ++ [62] ++ hexv d.new

/-- the digest a map module returns: its name, the block, and what it saw of each input; `extra` is the
total length of the present map inputs (store scripts add it to their values) -/
def digestInputs (w : World) (st : LState) (outs : Outputs) (deltasOut : List (Bytes × List Delta))
    (m : ModSpec) (b : Nat) : Bytes × Int :=
  m.inputs.foldl (fun (acc : Bytes × Int) inp =>
    let (d, extra) := acc
    let d := d ++ [124]  -- '|'
    match inp.kind with
    | .source => (d ++ [83], extra)
    | .clock => (d ++ [67], extra)
    | .params => (d ++ [80] ++ inp.ref, extra)
    | .map =>
      match outs.find? (fun p => p.1 == inp.ref) with
      | none => (d ++ [77] ++ inp.ref ++ str "=~", extra)
      | some p => (d ++ [77] ++ inp.ref ++ [61] ++ hexv p.2, extra + p.2.length)
    | .get =>
      match findMod w inp.ref with
      | none => (d, extra)
      | some sm =>
        let s := getStore st inp.ref
        let c := cfgOf sm
        let parts := (keyUniverse sm).map fun k =>
          k ++ [61] ++ showOB (stripTag c (s.getFirst k)) ++ [47] ++ showOB (stripTag c (s.getAt 1 k)) ++ [47] ++
            showOB (stripTag c (s.getLast k))
        (d ++ [71] ++ inp.ref ++ [123] ++ joinB [44] parts ++ [125], extra)
    | .deltas =>
      match deltasOut.find? (fun p => p.1 == inp.ref) with
      | none => (d ++ [68] ++ inp.ref ++ [126], extra)
      | some p => (d ++ [68] ++ inp.ref ++ [91] ++ joinB [59] (p.2.map showDelta) ++ [93], extra))
    (m.name ++ [64] ++ renderNat b, 0)

/-- `canSkipExecution` over the module's wasm arguments (a store module has one more argument, its
writer output, so "single params" never applies to it) -/
def canSkip (outs : Outputs) (deltasOut : List (Bytes × List Delta)) (m : ModSpec) : Bool :=
  let hasSingleParams := m.kind ≠ .store ∧ m.inputs.length = 1 ∧ (m.inputs.all fun i => i.kind = .params)
  if hasSingleParams then false
  else
    -- argValues: one entry per source / clock / map / deltas input (keyed by name: duplicates collapse)
    let vals : List (Bytes × Bool × Bool) := m.inputs.filterMap fun i =>   -- (name, isClock, present)
      match i.kind with
      | .source => some (str "src", false, true)
      | .clock => some (str "clk", true, true)
      | .map => some (77 :: i.ref, false, (outs.any fun p => p.1 == i.ref))
      | .deltas => some (68 :: i.ref, false, (deltasOut.any fun p => p.1 == i.ref))
      | _ => none
    let names := vals.map (·.1) |>.eraseDups
    if names.length = 1 ∧ (vals.any fun v => v.2.1 ∧ v.2.2) then false
    else if vals.any (fun v => !v.2.1 ∧ v.2.2) then false
    else true

def keysOfIndexOutput (out : Bytes) : List Bytes :=
  -- repeated string field 1: (0x0a len bytes)*
  let rec go (fuel : Nat) (b : Bytes) : List Bytes :=
    match fuel, b with
    | fuel + 1, 10 :: n :: rest => rest.take n.toNat :: go fuel (rest.drop n.toNat)
    | _, _ => []
  go out.length out

/-- how many keys a `burst` template writes in one block (more than the 32 deltas after which a recycled delta
slice would matter) -/
def burstN : Nat := 40

def storeOps (m : ModSpec) (b : Nat) (extra : Int) : List Op :=
  if !acts b m.every m.rem then [] else
  m.ops.flatMap fun o =>
    if !acts b o.mod o.rem then [] else
    let key := if o.keyMod > 0 then o.keyBase ++ renderNat (b % o.keyMod) else o.keyBase
    let v : Int := o.valMul * b + o.valAdd + extra
    let txt := renderInt v
    match o.kind with
    | .set => [⟨.set, o.ord, key, txt⟩]
    | .sine => [⟨.setIfNotExists, o.ord, key, txt⟩]
    | .app => [⟨.append, o.ord, key, txt ++ [59]⟩]
    | .del => [⟨.deletePrefix, o.ord, key, []⟩]
    | .sum => [⟨.sum m.vt, o.ord, key, if m.vt = .bigdecimal then txt ++ str ".5" else txt⟩]
    | .max => [⟨.max .int64, o.ord, key, txt⟩]
    | .min => [⟨.min .int64, o.ord, key, txt⟩]
    | .ssumset => [⟨.setSum .int64, o.ord, key, pfxSet ++ txt⟩]
    | .ssumsum => [⟨.setSum .int64, o.ord, key, pfxSum ++ txt⟩]
    -- a block that writes many keys at once: key_0 … key_39 (set policy only)
    | .burst => (List.range burstN).map fun i => ⟨.set, o.ord, key ++ [95] ++ renderNat i, renderInt (v + i)⟩

structure BlockAcc where
  st     : LState
  outs   : Outputs
  deltas : List (Bytes × List Delta)
  logs   : List (Bytes × List Op) := []   -- per store that ran: its operation log (what the output file caches)

/-- `skipFromIndex` on the fly: the module has a block filter and the index module's output of this block
does not satisfy it (or there is no such output) -/
def filterSkip (maxDepth : Nat) (acc : BlockAcc) (m : ModSpec) : Except LErr Bool :=
  if m.filterMod = [] then .ok false else
  match Sqe.parseBytes maxDepth m.filterQ with
  | .ok e =>
    match acc.outs.find? (fun p => p.1 == m.filterMod) with
    | none => .ok true
    | some p =>
      match Sqe.keysApply (some (keysOfIndexOutput p.2)) e with
      | .ok r => .ok (!r)
      | .error _ => .error .badFilter
  | _ => .error .badFilter

/-- the execution proper (`executor.run`): the no-input rule, the script, the store flush -/
def execModule (w : World) (b : Nat) (acc : BlockAcc) (m : ModSpec) : Except LErr BlockAcc :=
  if canSkip acc.outs acc.deltas m then .ok acc else
  if m.failAt = some b then .error (.moduleFailure m.name b) else
  let (digest, extra) := digestInputs w acc.st acc.outs acc.deltas m b
  match m.kind with
  | .map =>
    if acts b m.every m.rem then .ok { acc with outs := acc.outs ++ [(m.name, digest)] }
    else if m.skipEmpty then .ok acc
    else .ok { acc with outs := acc.outs ++ [(m.name, [])] }
  | .index =>
    let out : Bytes := if acts b m.every m.rem then
        m.keys.foldl (fun o k => if acts b k.mod k.rem then o ++ [10, UInt8.ofNat k.key.length] ++ k.key else o) []
      else []
    .ok { acc with outs := acc.outs ++ [(m.name, out)] }
  | .store =>
    let c := cfgOf m
    match (storeOps m b extra).mapM hostOp with
    | none => .error (.store .badValue)
    | some ops =>
      match execBlock c (stdSem c) (reset (getStore acc.st m.name)) ops with
      | .error e => .error (.store e)
      | .ok s' => .ok { acc with st := setStore acc.st m.name s', deltas := acc.deltas ++ [(m.name, s'.deltas)],
                                 logs := acc.logs ++ [(m.name, readOps s')] }

/-- one module on one block (`RunModule` without cached outputs) -/
def runModule (w : World) (maxDepth : Nat) (b : Nat) (acc : BlockAcc) (m : ModSpec) : Except LErr BlockAcc :=
  if b < m.init then .ok acc else
  match filterSkip maxDepth acc m with
  | .error e => .error e
  | .ok true => .ok acc
  | .ok false => execModule w b acc m

/-! ### blocks of a fork tree
Two blocks of different branches have the same number and different content.  The script world makes the
content a function of one number; for a block that is not on the canonical chain of the harness that number is
`e = b + salt(id)` (`Model/Forks.lean` `saltOf`), while everything the engine itself decides by block number
(initial blocks, the scripted failure) keeps using `b`. -/

def execModuleE (w : World) (b e : Nat) (acc : BlockAcc) (m : ModSpec) : Except LErr BlockAcc :=
  if canSkip acc.outs acc.deltas m then .ok acc else
  if m.failAt = some b then .error (.moduleFailure m.name b) else
  execModule w e acc { m with failAt := none }

def runModuleE (w : World) (maxDepth : Nat) (b e : Nat) (acc : BlockAcc) (m : ModSpec) : Except LErr BlockAcc :=
  if b < m.init then .ok acc else
  match filterSkip maxDepth acc m with
  | .error x => .error x
  | .ok true => .ok acc
  | .ok false => execModuleE w b e acc m

/-! ### cached outputs (`getCachedOutput` / `applyCachedOutput`) -/

/-- what an output file holds for a module on a block: a map/index output, or a store's operation log -/
inductive Cached
  | out (v : Bytes)
  | log (ops : List Op)
deriving Inhabited

/-- the cache files seen as a partial function (module, block) ↦ content -/
abbrev Cache := Bytes → Nat → Option Cached

/-- `RunModule`: after the index check, an existing cached output replaces the execution — a map's
output is taken as is, a store's operation log is replayed with `ApplyOps` -/
def runModuleC (w : World) (maxDepth : Nat) (cache : Cache) (b : Nat) (acc : BlockAcc) (m : ModSpec) :
    Except LErr BlockAcc :=
  if b < m.init then .ok acc else
  match filterSkip maxDepth acc m with
  | .error e => .error e
  | .ok true => .ok acc
  | .ok false =>
    match cache m.name b, m.kind with
    | some (.out v), .map => .ok { acc with outs := acc.outs ++ [(m.name, v)] }
    | some (.out v), .index => .ok { acc with outs := acc.outs ++ [(m.name, v)] }
    | some (.log ops), .store =>
      let c := cfgOf m
      match applyOps c (stdSem c) (reset (getStore acc.st m.name)) ops with
      | .error e => .error (.store e)
      | .ok s' => .ok { acc with st := setStore acc.st m.name s', deltas := acc.deltas ++ [(m.name, s'.deltas)],
                                 logs := acc.logs ++ [(m.name, readOps s')] }
    | _, _ => execModule w b acc m

/-- all modules on one block, in the (dependency) order of the module list; afterwards every store is
reset (`p.stores.resetStores()`) -/
def resetAll (st : LState) : LState := ⟨st.stores.map fun p => (p.1, reset p.2)⟩

/-- what a block leaves in the cache files: the outputs of maps/indexes, the operation logs of stores -/
structure BlockOut where
  outs : Outputs
  logs : List (Bytes × List Op)
deriving Inhabited

def runBlock (w : World) (maxDepth : Nat) (st : LState) (b : Nat) : Except LErr (LState × BlockOut) :=
  match w.foldlM (runModule w maxDepth b) ⟨st, [], [], []⟩ with
  | .error e => .error e
  | .ok acc => .ok (resetAll acc.st, ⟨acc.outs, acc.logs⟩)

/-- result of executing consecutive blocks: the state reached, the outputs of every module on every
completed block, and the block at which a module failed (execution stops there) -/
structure RunRes where
  st     : LState
  blocks : List (Nat × BlockOut)
  failed : Option Nat
deriving Inhabited

/-- the sequential execution of `n` blocks starting at block `b` from state `st` -/
def runBlocks (w : World) (maxDepth : Nat) : Nat → Nat → LState → RunRes
  | 0, _, st => ⟨st, [], none⟩
  | n + 1, b, st =>
    match runBlock w maxDepth st b with
    | .error _ => ⟨st, [], some b⟩
    | .ok (st', outs) =>
      let r := runBlocks w maxDepth n (b + 1) st'
      ⟨r.st, (b, outs) :: r.blocks, r.failed⟩

def runBlockC (w : World) (maxDepth : Nat) (cache : Cache) (st : LState) (b : Nat) : Except LErr (LState × BlockOut) :=
  match w.foldlM (runModuleC w maxDepth cache b) ⟨st, [], [], []⟩ with
  | .error e => .error e
  | .ok acc => .ok (resetAll acc.st, ⟨acc.outs, acc.logs⟩)

def runBlocksC (w : World) (maxDepth : Nat) (cache : Cache) : Nat → Nat → LState → RunRes
  | 0, _, st => ⟨st, [], none⟩
  | n + 1, b, st =>
    match runBlockC w maxDepth cache st b with
    | .error _ => ⟨st, [], some b⟩
    | .ok (st', outs) =>
      let r := runBlocksC w maxDepth cache n (b + 1) st'
      ⟨r.st, (b, outs) :: r.blocks, r.failed⟩

/-- the cache files a run leaves behind, restricted to any selection `sel` of (module, block) entries:
"any subset of the files of a complete run" -/
def cacheOf (blocks : List (Nat × BlockOut)) (sel : Bytes → Nat → Bool) : Cache := fun name b =>
  if sel name b then
    match blocks.find? (fun p => p.1 == b) with
    | none => none
    | some p =>
      match p.2.outs.find? (fun q => q.1 == name) with
      | some q => some (.out q.2)
      | none =>
        match p.2.logs.find? (fun q => q.1 == name) with
        | some q => some (.log q.2)
        | none => none
  else none

def outputOf (output : Bytes) (outs : Outputs) : Option Bytes := (outs.find? (fun p => p.1 == output)).map (·.2)

/-- names a module depends on: its map / store inputs and its block-filter module -/
def depsOf (m : ModSpec) : List Bytes :=
  (m.inputs.filterMap fun i => match i.kind with
    | .map | .get | .deltas => some i.ref
    | _ => none) ++ (if m.filterMod = [] then [] else [m.filterMod])

/-- the modules needed for `output` (its ancestor closure), in the order of the module list -/
def usedMods (w : World) (output : Bytes) : World :=
  let step (names : List Bytes) : List Bytes :=
    w.foldl (fun acc m => if acc.contains m.name then (depsOf m).foldl (fun a d => if a.contains d then a else a ++ [d]) acc else acc) names
  let names := (List.range w.length).foldl (fun acc _ => step acc) [output]
  w.filter (fun m => names.contains m.name)

/-- the linear specification: the modules needed for the output run from the lowest initial block
(stores must see every block from their initial block on), the client receives the output module's
outputs of `[start, stop)` — and the block at which a module failed, if any -/
def linearSpec (w : World) (maxDepth : Nat) (output : Bytes) (start stop : Nat) : (List (Nat × Option Bytes)) × Option Nat :=
  let u := usedMods w output
  let lowest := u.foldl (fun acc m => min acc m.init) start
  let r := runBlocks u maxDepth (stop - lowest) lowest ⟨[]⟩
  ((r.blocks.filter (fun p => start ≤ p.1)).map (fun p => (p.1, outputOf output p.2.outs)), r.failed)

end SV.Lin

import Model.Linear
/-
What the client of a request for `[start, stop)` receives, as a function of the linear specification and
of the resolved plan (C04): orchestrator/execout/execout_walker.go (`sendItems`: the items of the cached
output files, sorted by block number, clipped to `[start, min(handoff, stop))`) followed by the linear
pipeline from the hand-off (pipeline/process_block.go `handleStepNew` + pipeline/gate.go: every block from
the gate on, with an empty payload when the output module produced nothing).
-/
namespace SV.Lin

structure DReq where
  start   : Nat
  stop    : Nat
  handoff : Nat
deriving Repr, Inhabited

/-- one data message: block number, payload, and whether it came from a cached file -/
structure DMsg where
  num     : Nat
  payload : Bytes
deriving DecidableEq, Repr, Inhabited

/-- `lin`: the output module's output (or none) on every executed block, in block order -/
def deliver (lin : List (Nat × Option Bytes)) (r : DReq) : List DMsg :=
  lin.filterMap fun p =>
    if p.1 < r.start ∨ r.stop ≤ p.1 then none
    else if p.1 < r.handoff then
      -- back-filled part: the walker only finds blocks that have an item in the output file
      p.2.map (fun v => ⟨p.1, v⟩)
    else
      -- linear part: every block, an absent output is an empty payload
      some ⟨p.1, p.2.getD []⟩

end SV.Lin

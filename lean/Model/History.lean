import Model.Merge
/-
Histories of a full store as the pipeline and the squasher drive it (C11, C03):
blocks (NewCall's Reset, the calls, Flush), undo of the most recent applied block (pipeline/forkhandler.go
hands the block's recorded deltas to `ApplyDeltasReverse`), finality (the oldest applied block can no
longer be undone), merge of a partial store (squash), save + load.
-/
namespace SV

inductive Hist
  | block (calls : List Op)
  | undo
  | final
  | merge (p : Partial)
  | saveLoad
deriving Inhabited

/-- the store and the deltas of the applied, not yet final blocks (most recent first) -/
structure HState where
  s     : Store
  stack : List (List Delta)
  dead  : Bool := false       -- an error ended the request

def saveLoad (s : Store) : Store := { Store.empty with kv := s.kv, size := kvSize s.kv }

def stepHist (cfg : Cfg) (sem : Sem) (st : HState) (h : Hist) : HState :=
  if st.dead then st else
  match h with
  | .block calls =>
    match execBlock cfg sem (reset st.s) calls with
    | .error _ => { st with dead := true }
    | .ok s' => { st with s := s', stack := s'.deltas :: st.stack }
  | .undo =>
    match st.stack with
    | [] => st
    | ds :: rest => { st with s := applyDeltasReverse st.s ds, stack := rest }
  | .final => { st with stack := st.stack.dropLast }
  | .merge p =>
    -- squashing happens on stores at rest (no reversible block, nothing pending)
    if st.stack = [] then
      match merge cfg sem (reset st.s) p with
      | some (.ok s') => { st with s := s' }
      | _ => { st with dead := true }
    else st
  | .saveLoad => if st.stack = [] then { st with s := saveLoad st.s } else st

def runHist (cfg : Cfg) (sem : Sem) (st : HState) (hs : List Hist) : HState := hs.foldl (stepHist cfg sem) st

end SV

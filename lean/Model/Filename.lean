/-
Model of /repo/storage/store/filename.go (FullStateFileName, PartialFileName, parseFileName with its regular
expression) and of the walk in /repo/storage/store/config.go `ListSnapshotFiles`.

File names are `List Char` (ASCII in practice; the lexicographic order on code points is the byte order of Go
strings).  `fmt.Sprintf("%010d")`, `regexp` (leftmost-first semantics) and `strconv.Atoi` are modelled here and
exercised by the correspondence check.  Core Lean only; executable; total.
-/
namespace SV.Filename

abbrev Name := List Char

/-! ### `%010d` -/

def digitChar (d : Nat) : Char := Char.ofNat (48 + d)

/-- decimal digits, least significant first -/
def decimalRev (n : Nat) : List Char :=
  if n < 10 then [digitChar n] else digitChar (n % 10) :: decimalRev (n / 10)
termination_by n
decreasing_by omega

/-- `%d` -/
def decimal (n : Nat) : List Char := (decimalRev n).reverse

/-- `fmt.Sprintf("%010d", n)`: at least 10 characters, zero padded on the left -/
def pad10 (n : Nat) : List Char :=
  let d := decimal n
  List.replicate (10 - d.length) '0' ++ d

def kvSuffix : List Char := ['.', 'k', 'v']
def partialSuffix : List Char := ['.', 'p', 'a', 'r', 't', 'i', 'a', 'l']

/-- `FullStateFileName(r)`: `%010d-%010d.kv` of (exclusive end, start) -/
def fullName (start stop : Nat) : Name := pad10 stop ++ '-' :: pad10 start ++ kvSuffix

/-- `PartialFileName(r)` -/
def partialName (start stop : Nat) : Name := pad10 stop ++ '-' :: pad10 start ++ partialSuffix

def snapshotName (isPartial : Bool) (start stop : Nat) : Name :=
  if isPartial then partialName start stop else fullName start stop

/-! ### `stateFileRegex = ([\d]+)-([\d]+)(?:\.([^\.]+))?\.(kv|partial)`, unanchored, first match -/

def isDigit (c : Char) : Bool := '0' ≤ c && c ≤ '9'
def notDot (c : Char) : Bool := c != '.'

/-- `(kv|partial)` at the head of `s`: `some false` = kv, `some true` = partial (alternatives in order) -/
def kindPrefix : Name → Option Bool
  | 'k' :: 'v' :: _ => some false
  | 'p' :: 'a' :: 'r' :: 't' :: 'i' :: 'a' :: 'l' :: _ => some true
  | _ => none

structure Match where
  g1 : List Char      -- ([\d]+)   exclusive end block
  g2 : List Char      -- ([\d]+)   start block
  g3 : List Char      -- ([^\.]+)  trace id ("" when the optional group did not take part)
  isPartial : Bool
deriving DecidableEq, Repr

/-- The match the leftmost-first (Perl-like, greedy) semantics selects when the match must start at the head
of `s`.  `[\d]+` can only stop at the end of the digit run (the next pattern character is not a digit);
`[^\.]+` can only stop at the end of the dot-free run (the next pattern character is a dot); the optional
group is tried first. -/
def matchHere (s : Name) : Option Match :=
  let d1 := s.takeWhile isDigit
  if d1 = [] then none else
  match s.dropWhile isDigit with
  | '-' :: r2 =>
    let d2 := r2.takeWhile isDigit
    if d2 = [] then none else
    match r2.dropWhile isDigit with
    | '.' :: r4 =>
      let t := r4.takeWhile notDot
      let withTrace : Option Match :=
        if t = [] then none else
        match r4.dropWhile notDot with
        | '.' :: r6 => (kindPrefix r6).map fun k => ⟨d1, d2, t, k⟩
        | _ => none
      match withTrace with
      | some m => some m
      | none => (kindPrefix r4).map fun k => ⟨d1, d2, [], k⟩
    | _ => none
  | _ => none

/-- `FindAllStringSubmatch(filename, 1)`: the match at the leftmost position where one exists -/
def findMatch : Name → Option Match
  | [] => none
  | c :: cs =>
    match matchHere (c :: cs) with
    | some m => some m
    | none => findMatch cs

/-- value of a digit string read left to right -/
def atoiNat (s : List Char) : Nat := s.foldl (fun acc c => acc * 10 + (c.toNat - 48)) 0

def maxInt64 : Nat := 9223372036854775807

structure FileInfo where
  start : Nat
  stop : Nat
  isPartial : Bool
  withTraceID : Bool
deriving DecidableEq, Repr

inductive ParseResult where
  | noMatch                -- `nil, false`
  | panic                  -- `mustAtoi` panics: `strconv.Atoi` reports a range error above MaxInt64
  | ok (fi : FileInfo)
deriving DecidableEq, Repr

/-- `parseFileName` -/
def parseFileName (filename : Name) : ParseResult :=
  match findMatch filename with
  | none => .noMatch
  | some m =>
    let stop := atoiNat m.g1
    let start := atoiNat m.g2
    if stop > maxInt64 ∨ start > maxInt64 then .panic
    else .ok ⟨start, stop, m.isPartial, m.g3 ≠ []⟩

/-! ### `ListSnapshotFiles` -/

/-- Go string order (`<=`) -/
def nameLe : Name → Name → Bool
  | [], _ => true
  | _ :: _, [] => false
  | a :: as, b :: bs => if a < b then true else if b < a then false else nameLe as bs

/-- `dstore.Store.Walk` visits the objects in lexicographic order -/
def sortNames (names : List Name) : List Name := names.mergeSort nameLe

inductive ListResult where
  | panic
  | ok (files : List FileInfo)
deriving DecidableEq, Repr

/-- The `Walk` callback of `ListSnapshotFiles` folded over the ordered names: unparseable names and names with
a trace id are skipped; at the first file whose *start* block is `≥ below` the callback returns
`dstore.StopIteration`.  `stops` says what the store does with that: the documented contract (and the GCS, S3,
Azure and mock stores) stop the walk; `dstore.LocalStore.Walk` (v0.1.1-0.20241011152904) returns `nil` to
`filepath.Walk`, which merely goes on to the next file. -/
def walk (stops : Bool) (below : Nat) : List Name → List FileInfo → ListResult
  | [], acc => .ok acc
  | n :: rest, acc =>
    match parseFileName n with
    | .noMatch => walk stops below rest acc
    | .panic => .panic
    | .ok fi =>
      if fi.withTraceID then walk stops below rest acc
      else if fi.start ≥ below then (if stops then .ok acc else walk stops below rest acc)
      else walk stops below rest (acc ++ [fi])

/-- `(*Config).ListSnapshotFiles(ctx, below)` on a store holding the objects `names` -/
def listSnapshotFiles (stops : Bool) (below : Nat) (names : List Name) : ListResult :=
  if below = 0 then .ok [] else walk stops below (sortNames names) []

end SV.Filename

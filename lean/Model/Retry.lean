/-
Model of the job retry machine and of the two error-mapping tables (property C16).

  /repo/orchestrator/work/worker.go   RemoteWorker.work   -> `work`, `recvLoop`   (one attempt)
                                      RemoteWorker.Work   -> `loop`, `workLoop`   (the retry loop; includes
                                      derr.RetryContext and sethvargo/go-retry `Do` + `WithMaxRetries`)
  /repo/orchestrator/work/error.go    RetryableErr (no `Unwrap`: hides the cause chain) -> `Result.feat`
  /repo/service/tier2.go              toGRPCError         -> `mapErr` over an extracted `Table`
  /repo/service/tier1.go              toConnectError      -> `mapErr` over an extracted `Table`
  /repo/pipeline/exec/baseexec.go     wasmCall's error    -> `moduleFailure`

Core Lean only; executable; total.  The constants (720 retries, 3 execution time-outs), the set of
non-retryable status codes and the two tables are PARAMETERS here; `Generated/ConstsC16.lean` (written
by harness/cmd/extract_c16 from the current source on every run) instantiates them.

Not modelled (runtime, see checks/C16.json): the duration of the back-off sleeps (Fibonacci 1,1,2,3,5
capped at 5 s inside go-retry), goroutine scheduling, the gRPC transport.  A context cancellation is an
event at one of the points where the code looks at `ctx` (`CancelAt`).
-/
namespace SV.Retry

/-! ## Status codes -/

/-- `google.golang.org/grpc/codes` in numeric order (0 … 16).  `connectrpc.com/connect` codes have the
same numbers (1 … 16), so the same type is used for both tiers. -/
inductive Code
  | ok | canceled | unknown | invalidArgument | deadlineExceeded | notFound | alreadyExists
  | permissionDenied | resourceExhausted | failedPrecondition | aborted | outOfRange | unimplemented
  | internal | unavailable | dataLoss | unauthenticated
deriving DecidableEq, Repr, Inhabited

namespace Code
def all : List Code :=
  [ok, canceled, unknown, invalidArgument, deadlineExceeded, notFound, alreadyExists, permissionDenied,
   resourceExhausted, failedPrecondition, aborted, outOfRange, unimplemented, internal, unavailable,
   dataLoss, unauthenticated]
def num (c : Code) : Nat := all.idxOf c
def ofNum (n : Nat) : Code := all.getD n .unknown
end Code

/-- `ctx.Err()` of a dead context. -/
inductive CtxErr | canceled | deadline
deriving DecidableEq, Repr, Inhabited

/-! ## One attempt: `RemoteWorker.work` -/

/-- An error returned by `ProcessRange(...)` or by `stream.Recv()`, as far as `work`/`Work` look at it:
its gRPC status code (`none`: no error of the chain carries a status, `dgrpc.AsGRPCError` is nil) and
whether the description contains the two substrings `Work` searches for. -/
structure RpcErr where
  code : Option Code
  descOverloaded : Bool
  descDeadline : Bool
deriving DecidableEq, Repr, Inhabited

namespace RpcErr
/-- `dgrpc.AsGRPCError(err).Code()`: a nil status reads as `OK`. -/
def codeOrOk (e : RpcErr) : Code := e.code.getD .ok
/-- `strings.Contains(err.Error(), "service currently overloaded")` -/
def textOverloaded (e : RpcErr) : Bool := e.descOverloaded
/-- `strings.Contains(err.Error(), "DeadlineExceeded")`: the text of a status error is
`rpc error: code = <CodeName> desc = <desc>`, so the code name itself matches. -/
def textDeadline (e : RpcErr) : Bool := e.descDeadline || e.code == some .deadlineExceeded
end RpcErr

/-- `ProcessRangeResponse.Type` -/
inductive Msg | update | failed | completed | other
deriving DecidableEq, Repr

/-- one return of `stream.Recv()` before the end of the stream; the end of the list is `(nil, io.EOF)`,
i.e. the server handler returned `nil` (status OK). -/
inductive RecvEv
  | msg (m : Msg)
  | err (e : RpcErr)
deriving DecidableEq, Repr

/-- What the environment (client factory, tier-2 server, transport) does during one attempt. -/
inductive Attempt
  | factoryErr                                   -- `w.clientFactory()` fails
  | callErr (e : RpcErr)                         -- `grpcClient.ProcessRange(...)` fails
  | stream (headerErr : Bool) (evs : List RecvEv) -- stream opened; `Header()` fails or not; then the `Recv`s
deriving DecidableEq, Repr

/-- The points of one attempt at which the context may die (each is followed by a look at `ctx.Err()`
somewhere in the code): inside the factory call, inside `ProcessRange`, inside `Header`, inside the
`i`-th `Recv`, inside the deferred `closeFunc` (after the attempt's result is decided), during the
back-off sleep that follows a retryable attempt. -/
inductive CancelAt
  | factory | call | header | recv (i : Nat) | close | backoff
deriving DecidableEq, Repr

structure Step where
  att : Attempt
  cancel : Option (CancelAt × CtxErr)
deriving DecidableEq, Repr

/-- `*Result` of `work`, by the way `Work` classifies it (`switch err.(type)`). -/
inductive Outcome
  | ok (completedMsg : Bool)   -- `Error == nil` (a `Completed` message was seen, or clean end / cancel)
  | retryable (e : RpcErr)     -- `*RetryableErr`
  | fatalStatus (e : RpcErr)   -- a stream error passed through unchanged (its code is in `fatalCodes`)
  | fatalRemoteFailed          -- a `Failed` message
  | fatalFactory               -- "unable to create grpc client"
  | fatalCtx (c : CtxErr)      -- `Result{Error: ctx.Err()}`
deriving DecidableEq, Repr

structure Cfg where
  maxRetries : Nat          -- `maxRetries := 720`
  maxTimeouts : Nat         -- `maxExecutionTimeouts := 3`
  fatalCodes : List Code    -- `grpcErr.Code() == codes.InvalidArgument`
deriving Repr

/-- the context after passing cancellation point `p` -/
def fire (cancel : Option (CancelAt × CtxErr)) (p : CancelAt) (ctx : Option CtxErr) : Option CtxErr :=
  match ctx with
  | some c => some c
  | none =>
    match cancel with
    | some (q, c) => if q = p then some c else none
    | none => none

/-- the `for { resp, err := stream.Recv() … }` loop of `work`; returns the result and the context state -/
def recvLoop (cfg : Cfg) (cancel : Option (CancelAt × CtxErr)) :
    Nat → Option CtxErr → List RecvEv → Outcome × Option CtxErr
  | i, ctx, [] =>
    match fire cancel (.recv i) ctx with
    | some .canceled => (.ok false, some .canceled)        -- `if err == context.Canceled { return &Result{} }`
    | some c => (.fatalCtx c, some c)
    | none => (.ok false, none)                            -- `if err == io.EOF { return &Result{} }`
  | i, ctx, ev :: rest =>
    match fire cancel (.recv i) ctx with
    | some .canceled => (.ok false, some .canceled)
    | some c => (.fatalCtx c, some c)
    | none =>
      match ev with
      | .msg .update => recvLoop cfg cancel (i + 1) none rest
      | .msg .other => recvLoop cfg cancel (i + 1) none rest
      | .msg .failed => (.fatalRemoteFailed, none)
      | .msg .completed => (.ok true, none)
      | .err e => if e.codeOrOk ∈ cfg.fatalCodes then (.fatalStatus e, none) else (.retryable e, none)

/-- `RemoteWorker.work`, entered with a live context. -/
def work (cfg : Cfg) (s : Step) : Outcome × Option CtxErr :=
  let ctx := fire s.cancel .factory none
  match s.att with
  | .factoryErr => (.fatalFactory, ctx)
  | .callErr e =>
    match fire s.cancel .call ctx with
    | some c => (.fatalCtx c, some c)
    | none => (.retryable e, none)
  | .stream headerErr evs =>
    let ctx := fire s.cancel .header (fire s.cancel .call ctx)
    let r : Outcome × Option CtxErr :=
      match headerErr, ctx with
      | true, some c => (.fatalCtx c, some c)
      | _, _ => recvLoop cfg s.cancel 0 ctx evs
    (r.1, fire s.cancel .close r.2)        -- deferred `CloseSend` / `closeFunc`

/-! ## The retry loop: `RemoteWorker.Work` -/

/-- what `Work`'s loop sees of one attempt -/
structure OStep where
  out : Outcome
  ctxAfter : Option CtxErr      -- `ctx.Err()` once `work` has returned
  sleepCancel : Option CtxErr   -- the context dies during the back-off sleep after this attempt
deriving DecidableEq, Repr

def observe (cfg : Cfg) (s : Step) : OStep :=
  let r := work cfg s
  { out := r.1, ctxAfter := r.2,
    sleepCancel := match s.cancel with
      | some (.backoff, c) => some c
      | _ => none }

/-- the message returned by `Work` (`MsgJobSucceeded` / `MsgJobFailed{Error}`) -/
inductive Result
  | succeeded (completedMsg : Bool)
  | failedCtx (c : CtxErr)          -- Error = ctx.Err()
  | failedStatus (e : RpcErr)       -- Error = the stream's status error, unchanged
  | failedRemote                    -- "work failed on remote host"
  | failedFactory                   -- "unable to create grpc client"
  | failedTimeouts (e : RpcErr)     -- "… timed out N times, giving up" wrapping the last `*RetryableErr`
  | failedExhausted (e : RpcErr)    -- the last `*RetryableErr` once the retries are used up
  | stuck                           -- the script ran out (never happens on the real code)
deriving DecidableEq, Repr

structure Run where
  result : Result
  attempts : Nat      -- number of calls of `work`
deriving DecidableEq, Repr

/-- `executionTimeouts` after a retryable error: overload is looked at first, a time-out is counted only
when the text does not also say "overloaded". -/
def bumpTimeouts (t : Nat) (e : RpcErr) : Nat :=
  if e.textOverloaded then t else if e.textDeadline then t + 1 else t

/-- The loop of `retry.Do` around the closure of `Work`.  `r` = retries handed out by `WithMaxRetries`
so far, `t` = `executionTimeouts`, `n` = attempts so far.  (A dead context is noticed before the sleep or
during it — `ctxAfter` / `sleepCancel` — so the check at the top of `Do` only matters for the first
iteration: see `workLoop`.) -/
def loop (maxRetries maxTimeouts : Nat) : Nat → Nat → Nat → List OStep → Run
  | _, _, n, [] => ⟨.stuck, n⟩
  | r, t, n, s :: rest =>
    match s.out with
    | .ok m =>
      match s.ctxAfter with
      | some c => ⟨.failedCtx c, n + 1⟩          -- `if err := ctx.Err(); err != nil` after the loop
      | none => ⟨.succeeded m, n + 1⟩
    | .retryable e =>
      let t' := bumpTimeouts t e
      if maxTimeouts ≤ t' then ⟨.failedTimeouts e, n + 1⟩      -- derr.NewFatalError("… timed out …")
      else if maxRetries ≤ r then ⟨.failedExhausted e, n + 1⟩  -- `WithMaxRetries`: stop
      else
        match s.ctxAfter with
        | some c => ⟨.failedCtx c, n + 1⟩        -- `select { case <-ctx.Done(): return ctx.Err() …`
        | none =>
          match s.sleepCancel with
          | some c => ⟨.failedCtx c, n + 1⟩
          | none => loop maxRetries maxTimeouts (r + 1) t' (n + 1) rest
    | .fatalStatus e => ⟨.failedStatus e, n + 1⟩
    | .fatalRemoteFailed => ⟨.failedRemote, n + 1⟩
    | .fatalFactory => ⟨.failedFactory, n + 1⟩
    | .fatalCtx c => ⟨.failedCtx c, n + 1⟩

/-- `RemoteWorker.Work`'s command, run with initial context state `ctx0` against a scripted environment. -/
def workLoop (cfg : Cfg) (ctx0 : Option CtxErr) (steps : List Step) : Run :=
  match ctx0 with
  | some c => ⟨.failedCtx c, 0⟩                  -- `retry.Do`: "Return immediately if ctx is canceled"
  | none => loop cfg.maxRetries cfg.maxTimeouts 0 0 0 (steps.map (observe cfg))

/-! ## Error mapping: `tier2.toGRPCError`, `tier1.toConnectError` -/

/-- `context.Cause(ctx)` as far as the two functions look at it -/
inductive Cause | none | shuttingDown | other
deriving DecidableEq, Repr

/-- The features of a Go `error` value that the two functions test. -/
structure ErrFeat where
  grpc : Option Code := none       -- first error of the chain with a `GRPCStatus()` (dgrpc.AsGRPCError)
  connect : Option Code := none    -- first `*connect.Error` of the chain (errors.As)
  canceled : Bool := false         -- errors.Is(err, context.Canceled)
  deadline : Bool := false         -- errors.Is(err, context.DeadlineExceeded)
  storeMax : Bool := false         -- store.StoreAboveMaxSizeRegexp matches the text
  wasmDet : Bool := false          -- errors.Is(err, exec.ErrWasmDeterministicExec)
  invalidArg : Bool := false       -- a `*stream.ErrInvalidArg` in the chain
deriving DecidableEq, Repr, Inhabited

inductive Feature | deadline | storeMax | wasmDet | invalidArg
deriving DecidableEq, Repr

def ErrFeat.has (e : ErrFeat) : Feature → Bool
  | .deadline => e.deadline
  | .storeMax => e.storeMax
  | .wasmDet => e.wasmDet
  | .invalidArg => e.invalidArg

/-- One statement of `toGRPCError` / `toConnectError`, in source order (read by extract_c16). -/
inductive Rule
  /-- `if g := dgrpc.AsGRPCError(err); g != nil { return g.Err() }` -/
  | grpcPassthrough
  /-- `if g := dgrpc.AsGRPCError(err); g != nil { switch g.Code() { case X: return connect.NewError(Y, …) }; return g.Err() }` -/
  | grpcSwitch (tbl : List (Code × Code))
  /-- `if errors.As(err, &connectError) { switch connectError.Code() { case X: return status.Error(Y, …) } }` (falls through) -/
  | connectSwitch (tbl : List (Code × Code))
  /-- `if errors.Is(err, context.Canceled) { if cause == errShuttingDown { return S }; return C }` -/
  | canceled (shutdown other : Code)
  /-- `if <feature test> { return C }` -/
  | feature (f : Feature) (c : Code)
deriving Repr

structure Table where
  rules : List Rule
  default : Code
deriving Repr

/-- result of a mapping: the code carried by the returned error and whether the error is of the tier's
own kind (tier 2: always a status error; tier 1: a `*connect.Error` — a raw status error returned by
the `return grpcError.Err()` branch is not, and `connect.CodeOf` reads it as `unknown`). -/
structure Mapped where
  code : Code
  native : Bool
deriving DecidableEq, Repr

def applyRules (cause : Cause) (e : ErrFeat) (dflt : Code) : List Rule → Mapped
  | [] => ⟨dflt, true⟩
  | .grpcPassthrough :: rest =>
    match e.grpc with
    | some c => ⟨c, true⟩
    | none => applyRules cause e dflt rest
  | .grpcSwitch tbl :: rest =>
    match e.grpc with
    | some c =>
      match tbl.lookup c with
      | some c' => ⟨c', true⟩
      | none => ⟨c, false⟩
    | none => applyRules cause e dflt rest
  | .connectSwitch tbl :: rest =>
    match e.connect with
    | some c =>
      match tbl.lookup c with
      | some c' => ⟨c', true⟩
      | none => applyRules cause e dflt rest
    | none => applyRules cause e dflt rest
  | .canceled sd other :: rest =>
    if e.canceled then (if cause = .shuttingDown then ⟨sd, true⟩ else ⟨other, true⟩)
    else applyRules cause e dflt rest
  | .feature f c :: rest =>
    if e.has f then ⟨c, true⟩ else applyRules cause e dflt rest

def mapErr (t : Table) (cause : Cause) (e : ErrFeat) : Mapped := applyRules cause e t.default t.rules

/-- the code the tier-1 client sees: `connect.CodeOf(err)` -/
def Mapped.clientCode (m : Mapped) : Code := if m.native then m.code else .unknown

/-- `BaseExecutor.wasmCall`: a module that panicked (`call.Err()`, looked at first) failed deterministically
whatever the context; an execution that returned a runtime error is "deterministic" unless the executor's
context is dead, in which case the context's error is wrapped instead (and the marker is absent). -/
def moduleFailureP (panicked : Bool) (ctx : Option CtxErr) : ErrFeat :=
  if panicked then { wasmDet := true } else
  match ctx with
  | none => { wasmDet := true }
  | some .canceled => { canceled := true }
  | some .deadline => { deadline := true }

/-- a runtime error (no panic) -/
def moduleFailure (ctx : Option CtxErr) : ErrFeat := moduleFailureP false ctx

/-- a `Recv` error carrying the status tier 2 returned (the transport keeps the code) -/
def statusErr (c : Code) : RpcErr := ⟨some c, false, false⟩

/-- the features of `MsgJobFailed.Error` as `toConnectError` sees it after the scheduler's `%w` wrappers.
`*RetryableErr` has no `Unwrap`, so an exhausted / timed-out job shows none of its cause's features. -/
def Result.feat : Result → ErrFeat
  | .failedStatus e => { grpc := e.code }
  | .failedCtx .canceled => { canceled := true }
  | .failedCtx .deadline => { deadline := true }
  | _ => {}

/-! ## What crosses the gRPC boundary
ASSUMPTION on grpc-go (exercised by the BUF cases of the harness, not proved): an error returned by the
server handler that is a status error keeps its code; any other error — in particular the
`connect.NewError(...)` values that `ProcessRange` returns directly, without `toGRPCError` — reaches the
client as `Unknown` with its text preserved. -/

/-- what `Tier2Service.ProcessRange` returns -/
inductive Tier2Return
  | direct (connectCode : Code) (saysOverloaded : Bool)  -- `return connect.NewError(code, …)` (early returns)
  | mapped (cause : Cause) (f : ErrFeat)                 -- `return toGRPCError(ctx, err)`
deriving Repr

def transport (t2 : Table) : Tier2Return → RpcErr
  | .direct _ o => ⟨some .unknown, o, false⟩
  | .mapped cause f => ⟨some (mapErr t2 cause f).code, false, false⟩

/-! ## Back-off schedule (go-retry `NewFibonacci(1s)` under `WithCappedDuration(5s)`), seconds.
Only used to predict how long a script takes; no theorem depends on it. -/
def fibSleep : Nat → Nat × Nat → List Nat
  | 0, _ => []
  | n + 1, (a, b) => (min (a + b) 5) :: fibSleep n (b, a + b)
def backoffSeconds (retries : Nat) : List Nat := fibSleep retries (0, 1)

/-! ## Jobs and files (system level, abstract) -/

abbrev Files (N V : Type) := List (N × V)
abbrev Cache (N V : Type) := N → Option V

/-- write whole files into the cache (atomic per file: a name maps to a complete value or is absent) -/
def writeAll {N V : Type} [DecidableEq N] (c : Cache N V) (fs : Files N V) : Cache N V :=
  fun n => match fs.lookup n with
    | some v => some v
    | none => c n

/-- what one attempt did to the cache: the files it wrote, given the cache it started from -/
structure SysStep (N V : Type) where
  o : OStep
  wrote : Cache N V → Files N V

/-- the retry loop together with the files each executed attempt left behind -/
def sysLoop {N V : Type} [DecidableEq N] (maxRetries maxTimeouts : Nat) :
    Nat → Nat → Nat → Cache N V → List (SysStep N V) → Run × Cache N V
  | _, _, n, c, [] => (⟨.stuck, n⟩, c)
  | r, t, n, c, s :: rest =>
    let c' := writeAll c (s.wrote c)
    match s.o.out with
    | .retryable e =>
      let t' := bumpTimeouts t e
      if maxTimeouts ≤ t' then (⟨.failedTimeouts e, n + 1⟩, c')
      else if maxRetries ≤ r then (⟨.failedExhausted e, n + 1⟩, c')
      else
        match s.o.ctxAfter with
        | some k => (⟨.failedCtx k, n + 1⟩, c')
        | none =>
          match s.o.sleepCancel with
          | some k => (⟨.failedCtx k, n + 1⟩, c')
          | none => sysLoop maxRetries maxTimeouts (r + 1) t' (n + 1) c' rest
    | _ => (loop maxRetries maxTimeouts r t n [s.o], c')

/-! ## Text match used for the overload message -/
def hasInfix (needle : List Nat) : List Nat → Bool
  | [] => needle.isEmpty
  | x :: xs => needle.isPrefixOf (x :: xs) || hasInfix needle xs

end SV.Retry

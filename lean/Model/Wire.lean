/-
Model of the hand-written cache-file codecs of /repo and of the protobuf codecs they must agree with.

  storage/store/marshaller/vtproto.go        unmarshalVT, skip            (hand-copied vtproto loop + size)
  storage/store/marshaller/pb/store_vtproto.pb.go   MarshalVT, SizeVT, sov, encodeVarint
  storage/store/marshaller/protoing_fast.go  ProtoingFast.Marshal (size pre-computation + cursor writes)
  storage/store/marshaller/proto.go          Proto = proto.Marshal / proto.Unmarshal  (the *specification* codec)
  storage/store/marshaller/binary.go         Binary (length-prefixed), uvarintByteCount
  storage/execout/pb/noalloc_version.go      MarshalFast, UnmarshalFast, UnmarshalVTNoAlloc (Array, Item)
  storage/execout/pb/output_vtproto.pb.go    Array/Item MarshalVT, SizeVT

The standard library side (google.golang.org/protobuf v1.33 `proto.Marshal/Unmarshal`, `protowire`,
`encoding/binary.Uvarint`, `unicode/utf8.Valid`) is represented by the `pw…`/`spec…` definitions below, written
after internal/impl/decode.go, codec_map.go, codec_gen.go and encoding/protowire/wire.go: last value wins for
scalars and map keys, repeated fields append, embedded messages merge, unknown fields and fields with an
unexpected wire type are skipped, `string` fields must be valid UTF-8 (both when encoding and decoding).

Byte strings (Go `string` and `[]byte`) are `List UInt8`.  Core Lean only; executable; total.
Loops are structural recursions on a fuel argument that is initialised with (length of the input + 1): every
iteration consumes at least one byte.
-/
namespace SV.Wire

abbrev Bytes := List UInt8

/-! ## 1. varint encoding, size functions -/

/-- `binary.PutUvarint`, vtproto `encodeVarint`, `protowire.AppendVarint` (for `n < 2^64`). -/
def encVarint (n : Nat) : Bytes :=
  if n < 128 then [UInt8.ofNat n] else UInt8.ofNat (n % 128 + 128) :: encVarint (n / 128)
termination_by n
decreasing_by omega

/-- `uvarintByteCount` of marshaller/binary.go (loop `for x >= 0x80 { x >>= 7; i++ }; return i+1`). -/
def uvarintByteCount (x : Nat) : Nat :=
  if x < 128 then 1 else uvarintByteCount (x / 128) + 1
termination_by x
decreasing_by omega

/-- `bits.Len64`. -/
def len64 (x : Nat) : Nat := if x = 0 then 0 else Nat.log2 x + 1

/-- `sov` of the vtproto generated code: `(bits.Len64(x|1) + 6) / 7`. -/
def sov (x : Nat) : Nat := (len64 (x ||| 1) + 6) / 7

/-! ## 2. The vtproto-style decoders (hand-copied generated code) -/

inductive VTErr where
  | intOverflow          -- ErrIntOverflow
  | unexpectedEOF        -- io.ErrUnexpectedEOF
  | invalidLength        -- ErrInvalidLength
  | endGroupNonGroup     -- "wiretype end group for non-group"
  | illegalTag           -- "illegal tag %d (wire type %d)"
  | wrongWireType        -- "wrong wireType = %d for field …"
  | unexpectedEndOfGroup -- ErrUnexpectedEndOfGroup (skip)
  | illegalWireType      -- "illegal wireType %d" (skip)
  | nestedDecode         -- error of proto.Unmarshal on the nested Timestamp
  | nestedUTF8
deriving DecidableEq, Repr

def two63 : Nat := 9223372036854775808
def two64 : Nat := 18446744073709551616
def two32 : Nat := 4294967296
def two31 : Nat := 2147483648

/-- The inlined varint loop `for shift := uint(0); ; shift += 7 { if shift >= 64 {overflow}; if iNdEx >= l {EOF};
b := dAtA[iNdEx]; iNdEx++; v |= uint64(b&0x7F) << shift; if b < 0x80 {break} }`.  At most 10 bytes; bits shifted
beyond bit 63 are silently dropped (no check on the 10th byte).  `fuel` = iterations left before `shift >= 64`. -/
def vtVarintGo : Nat → Nat → Nat → Bytes → Except VTErr (Nat × Bytes)
  | 0, _, _, _ => .error .intOverflow
  | _ + 1, _, _, [] => .error .unexpectedEOF
  | f + 1, shift, acc, b :: rest =>
    let acc' := (acc + (b.toNat % 128) * 2 ^ shift) % two64
    if b.toNat < 128 then .ok (acc', rest) else vtVarintGo f (shift + 7) acc' rest

def vtVarint (bs : Bytes) : Except VTErr (Nat × Bytes) := vtVarintGo 10 0 0 bs

/-- The three checks after a length varint: `if len < 0`, `postIndex := iNdEx + len; if postIndex < 0`
(both `ErrInvalidLength`: `int` is 64 bit), `if postIndex > l` (`io.ErrUnexpectedEOF`).
`l` is `len(dAtA)` of the slice being decoded, `rest` is `dAtA[iNdEx:]`. -/
def vtCheckLen (l : Nat) (rest : Bytes) (len : Nat) : Except VTErr Unit :=
  if len ≥ two63 then .error .invalidLength
  else if (l - rest.length) + len ≥ two63 then .error .invalidLength
  else if len > rest.length then .error .unexpectedEOF
  else .ok ()

/-- `skip(dAtA)`: returns the index after one complete field (which may lie beyond `len(dAtA)` for fixed and
length-delimited fields: the caller checks).  State: `pos` = iNdEx, `rest` = `dAtA[iNdEx:]` (empty when
`iNdEx ≥ l`), `depth` of open groups. -/
def vtSkipGo : Nat → Nat → Bytes → Nat → Except VTErr Nat
  | 0, _, _, _ => .error .unexpectedEOF
  | f + 1, pos, rest, depth =>
    if rest = [] then .error .unexpectedEOF          -- `for iNdEx < l` ends: return 0, io.ErrUnexpectedEOF
    else
    match vtVarint rest with
    | .error e => .error e
    | .ok (wire, r1) =>
      let pos1 := pos + (rest.length - r1.length)
      let wt := wire % 8
      let next (pos' : Nat) (r' : Bytes) (depth' : Nat) : Except VTErr Nat :=
        if pos' ≥ two63 then .error .invalidLength     -- `if iNdEx < 0`
        else if depth' = 0 then .ok pos'
        else vtSkipGo f pos' r' depth'
      if wt = 0 then
        match vtVarint r1 with
        | .error e => .error e
        | .ok (_, r2) => next (pos1 + (r1.length - r2.length)) r2 depth
      else if wt = 1 then next (pos1 + 8) (r1.drop 8) depth
      else if wt = 2 then
        match vtVarint r1 with
        | .error e => .error e
        | .ok (len, r2) =>
          if len ≥ two63 then .error .invalidLength
          else
            let pos2 := pos1 + (r1.length - r2.length)
            -- `iNdEx += length` wraps to a negative int when the sum reaches 2^63
            next (pos2 + len) (r2.drop len) depth
      else if wt = 3 then next pos1 r1 (depth + 1)
      else if wt = 4 then
        if depth = 0 then .error .unexpectedEndOfGroup else next pos1 r1 (depth - 1)
      else if wt = 5 then next (pos1 + 4) (r1.drop 4) depth
      else .error .illegalWireType

def vtSkip (bs : Bytes) : Except VTErr Nat := vtSkipGo (bs.length + 1) 0 bs 0

/-- The caller side of `skip`: `if skippy < 0 || iNdEx+skippy < 0 {ErrInvalidLength}; if iNdEx+skippy > limit
{EOF}; iNdEx += skippy`.  `avail` = limit − iNdEx.  Returns the bytes after the skipped field. -/
def vtSkipField (l : Nat) (rest : Bytes) (avail : Nat) : Except VTErr Bytes :=
  match vtSkip rest with
  | .error e => .error e
  | .ok n =>
    if (l - rest.length) + n ≥ two63 then .error .invalidLength
    else if n > avail then .error .unexpectedEOF
    else .ok (rest.drop n)

/-- `int32(wire >> 3)` as an unsigned 32-bit pattern (`≤ 0` ⇔ `= 0 ∨ ≥ 2^31`). -/
def fieldNum32 (wire : Nat) : Nat := (wire / 8) % two32

/-! ### StoreData (`map<string,bytes> kv = 1; repeated string delete_prefixes = 2`) -/

abbrev KV := List (Bytes × Bytes)

/-- Go map assignment `m[k] = v` on an association list (insertion order kept, value replaced). -/
def kvInsert : KV → Bytes → Bytes → KV
  | [], k, v => [(k, v)]
  | (k', v') :: t, k, v => if k' = k then (k, v) :: t else (k', v') :: kvInsert t k v

structure StoreData where
  kv : KV := []
  dp : List Bytes := []
deriving DecidableEq, Repr

/-- Σ (len key + len value) -/
def kvSize (kv : KV) : Nat := (kv.map fun e => e.1.length + e.2.length).sum

/-- The inner loop over one map entry `for iNdEx < postIndex`.  `stop` is the number of bytes of the buffer after
`postIndex`, so `iNdEx < postIndex` ⇔ `rest.length > stop`.  Quirks kept: the wire type of entry fields 1 and 2 is
not looked at; key and value lengths are checked against the end of the *buffer* (`l`), not of the entry. -/
def vtEntryLoop (l stop : Nat) : Nat → Bytes → Bytes → Bytes → Except VTErr (Bytes × Bytes)
  | 0, _, key, val => .ok (key, val)
  | f + 1, rest, key, val =>
    if rest.length ≤ stop then .ok (key, val)
    else
    match vtVarint rest with
    | .error e => .error e
    | .ok (wire, r1) =>
      let fn := fieldNum32 wire
      if fn = 1 then
        match vtVarint r1 with
        | .error e => .error e
        | .ok (len, r2) =>
          match vtCheckLen l r2 len with
          | .error e => .error e
          | .ok _ => vtEntryLoop l stop f (r2.drop len) (r2.take len) val
      else if fn = 2 then
        match vtVarint r1 with
        | .error e => .error e
        | .ok (len, r2) =>
          match vtCheckLen l r2 len with
          | .error e => .error e
          | .ok _ => vtEntryLoop l stop f (r2.drop len) key (r2.take len)
      else
        match vtSkipField l rest (rest.length - stop) with
        | .error e => .error e
        | .ok r' => vtEntryLoop l stop f r' key val

/-- Main loop of `unmarshalVT`; state = decoded data and the running `dataSize`. -/
def unmarshalVTLoop (l : Nat) : Nat → Bytes → StoreData → Nat → Except VTErr (StoreData × Nat)
  | 0, _, d, s => .ok (d, s)
  | f + 1, rest, d, s =>
    if rest = [] then .ok (d, s)
    else
    match vtVarint rest with
    | .error e => .error e
    | .ok (wire, r1) =>
      let fn := fieldNum32 wire
      let wt := wire % 8
      if wt = 4 then .error .endGroupNonGroup
      else if fn = 0 ∨ fn ≥ two31 then .error .illegalTag
      else if fn = 1 then
        if wt ≠ 2 then .error .wrongWireType
        else
        match vtVarint r1 with
        | .error e => .error e
        | .ok (msglen, r2) =>
          match vtCheckLen l r2 msglen with
          | .error e => .error e
          | .ok _ =>
            match vtEntryLoop l (r2.length - msglen) (r2.length + 1) r2 [] [] with
            | .error e => .error e
            | .ok (k, v) =>
              unmarshalVTLoop l f (r2.drop msglen) { d with kv := kvInsert d.kv k v }
                ((s + (k.length + v.length)) % two64)
      else if fn = 2 then
        if wt ≠ 2 then .error .wrongWireType
        else
        match vtVarint r1 with
        | .error e => .error e
        | .ok (len, r2) =>
          match vtCheckLen l r2 len with
          | .error e => .error e
          | .ok _ => unmarshalVTLoop l f (r2.drop len) { d with dp := d.dp ++ [r2.take len] } s
      else
        match vtSkipField l rest rest.length with
        | .error e => .error e
        | .ok r' => unmarshalVTLoop l f r' d s

/-- `unmarshalVT(m, dAtA)` on a fresh message: decoded data and `dataSize`.
(The trailing `if iNdEx > l` of the Go code is unreachable: every branch checks its end index against `l`.) -/
def unmarshalVT (bs : Bytes) : Except VTErr (StoreData × Nat) :=
  unmarshalVTLoop bs.length (bs.length + 1) bs {} 0

/-! ### StoreData encoders -/

/-- one map entry as `MarshalToSizedBufferVT` lays it out (the entry length is the number of bytes written) -/
def vtEncEntryBody (k v : Bytes) : Bytes :=
  [0x0a] ++ encVarint k.length ++ k ++ ([0x12] ++ encVarint v.length ++ v)

def vtEncEntry (e : Bytes × Bytes) : Bytes :=
  let body := vtEncEntryBody e.1 e.2
  [0x0a] ++ encVarint body.length ++ body

def vtEncPrefix (p : Bytes) : Bytes := [0x12] ++ encVarint p.length ++ p

/-- Bytes of `StoreData.MarshalVT` when the map entries end up in the order `kv` in the buffer (the buffer is
filled from the end, map iteration order is arbitrary), followed by the delete prefixes in slice order. -/
def vtEncStoreData (kv : KV) (dp : List Bytes) : Bytes :=
  kv.flatMap vtEncEntry ++ dp.flatMap vtEncPrefix

/-- `SizeVT` -/
def sizeVTStoreData (kv : KV) (dp : List Bytes) : Nat :=
  (kv.map fun e =>
    let lv := 1 + e.2.length + sov e.2.length
    let mapEntrySize := 1 + e.1.length + sov e.1.length + lv
    mapEntrySize + 1 + sov mapEntrySize).sum
  + (dp.map fun s => 1 + s.length + sov s.length).sum

inductive EncResult where
  | ok (bs : Bytes)
  | sizeMismatch      -- the pre-computed buffer size differs from what is written (Go: panic or garbage)
  | invalidUTF8       -- proto.Marshal: "string field contains invalid UTF-8"
deriving DecidableEq, Repr

/-- `VTproto.Marshal` = `MarshalVT`: allocate `SizeVT()` bytes, fill from the end. -/
def marshalVT (kv : KV) (dp : List Bytes) : EncResult :=
  let bs := vtEncStoreData kv dp
  if sizeVTStoreData kv dp = bs.length then .ok bs else .sizeMismatch

/-- `kvEntryByteSize` of protoing_fast.go -/
def kvEntryByteSize (k v : Bytes) : Nat :=
  1 + uvarintByteCount k.length + k.length + 1 + uvarintByteCount v.length + v.length

def pfEncEntry (e : Bytes × Bytes) : Bytes :=
  [0x0a] ++ encVarint (kvEntryByteSize e.1 e.2) ++ [0x0a] ++ encVarint e.1.length ++ e.1
    ++ [0x12] ++ encVarint e.2.length ++ e.2

def pfEncStoreData (kv : KV) (dp : List Bytes) : Bytes :=
  kv.flatMap pfEncEntry ++ dp.flatMap vtEncPrefix

def pfSize (kv : KV) (dp : List Bytes) : Nat :=
  (kv.map fun e => let es := kvEntryByteSize e.1 e.2; 1 + uvarintByteCount es + es).sum
  + (dp.map fun s => 1 + uvarintByteCount s.length + s.length).sum

/-- `ProtoingFast.Marshal`: `make([]byte, kvByteSize+listByteSize)` then cursor writes in map order. -/
def marshalPF (kv : KV) (dp : List Bytes) : EncResult :=
  let bs := pfEncStoreData kv dp
  if pfSize kv dp = bs.length then .ok bs else .sizeMismatch

/-! ## 3. The specification codec (google.golang.org/protobuf) -/

inductive SpecErr where
  | decode   -- errDecode "cannot parse invalid wire-format data" / unexpected EOF
  | utf8     -- "string field contains invalid UTF-8"
deriving DecidableEq, Repr

/-- `utf8.Valid` -/
def validUTF8 : Bytes → Bool
  | [] => true
  | b0 :: rest =>
    let c (b : UInt8) : Bool := 0x80 ≤ b.toNat && b.toNat ≤ 0xBF
    let n := b0.toNat
    if n < 0x80 then validUTF8 rest
    else if 0xC2 ≤ n && n ≤ 0xDF then
      match rest with
      | b1 :: r => c b1 && validUTF8 r
      | _ => false
    else if 0xE0 ≤ n && n ≤ 0xEF then
      match rest with
      | b1 :: b2 :: r =>
        let lo := if n = 0xE0 then 0xA0 else 0x80
        let hi := if n = 0xED then 0x9F else 0xBF
        (lo ≤ b1.toNat && b1.toNat ≤ hi) && c b2 && validUTF8 r
      | _ => false
    else if 0xF0 ≤ n && n ≤ 0xF4 then
      match rest with
      | b1 :: b2 :: b3 :: r =>
        let lo := if n = 0xF0 then 0x90 else 0x80
        let hi := if n = 0xF4 then 0x8F else 0xBF
        (lo ≤ b1.toNat && b1.toNat ≤ hi) && c b2 && c b3 && validUTF8 r
      | _ => false
    else false

/-- `protowire.ConsumeVarint`: at most 10 bytes, the 10th must be 0 or 1. `i` = index of the byte. -/
def pwVarintGo : Nat → Nat → Nat → Bytes → Except SpecErr (Nat × Bytes)
  | 0, _, _, _ => .error .decode
  | _ + 1, _, _, [] => .error .decode
  | f + 1, shift, acc, b :: rest =>
    if f = 0 then (if b.toNat < 2 then .ok (acc + b.toNat * 2 ^ shift, rest) else .error .decode)
    else if b.toNat < 128 then .ok (acc + b.toNat * 2 ^ shift, rest)
    else pwVarintGo f (shift + 7) (acc + (b.toNat % 128) * 2 ^ shift) rest

def pwVarint (bs : Bytes) : Except SpecErr (Nat × Bytes) := pwVarintGo 10 0 0 bs

def maxValidNumber : Nat := 536870911   -- 2^29 - 1
def maxInt32 : Nat := 2147483647

/-- `protowire.ConsumeTag` (field numbers 1 … MaxInt32) -/
def pwTag (bs : Bytes) : Except SpecErr (Nat × Nat × Bytes) :=
  match pwVarint bs with
  | .error e => .error e
  | .ok (v, r) =>
    let num := v / 8
    if num > maxInt32 ∨ num < 1 then .error .decode else .ok (num, v % 8, r)

/-- `protowire.ConsumeBytes` -/
def pwBytes (bs : Bytes) : Except SpecErr (Bytes × Bytes) :=
  match pwVarint bs with
  | .error e => .error e
  | .ok (m, r) => if m > r.length then .error .decode else .ok (r.take m, r.drop m)

mutual
/-- `protowire.ConsumeFieldValue(num, typ, b)`: the bytes after the value. (The recursion limit of 10000 nested
groups is not modelled.) -/
def pwSkipValue : Nat → Nat → Nat → Bytes → Except SpecErr Bytes
  | 0, _, _, _ => .error .decode
  | f + 1, num, typ, b =>
    if typ = 0 then
      match pwVarint b with
      | .error e => .error e
      | .ok (_, r) => .ok r
    else if typ = 5 then (if b.length < 4 then .error .decode else .ok (b.drop 4))
    else if typ = 1 then (if b.length < 8 then .error .decode else .ok (b.drop 8))
    else if typ = 2 then
      match pwBytes b with
      | .error e => .error e
      | .ok (_, r) => .ok r
    else if typ = 3 then pwSkipGroup f num b
    else .error .decode
/-- the `for` loop of the StartGroup case -/
def pwSkipGroup : Nat → Nat → Bytes → Except SpecErr Bytes
  | 0, _, _ => .error .decode
  | f + 1, num, b =>
    match pwTag b with
    | .error e => .error e
    | .ok (num2, typ2, r) =>
      if typ2 = 4 then (if num ≠ num2 then .error .decode else .ok r)
      else
        match pwSkipValue f num2 typ2 r with
        | .error e => .error e
        | .ok r' => pwSkipGroup f num r'
end

/-- The table-driven message loop `MessageInfo.unmarshalPointer` (top level: `groupTag = 0`).  `h s num wtyp b`
is the field coder: `none` = `errUnknown` (no such field, or unexpected wire type) ⇒ the value is skipped. -/
def pwMsgLoop {σ : Type} (h : σ → Nat → Nat → Bytes → Except SpecErr (Option (σ × Bytes))) :
    Nat → Bytes → σ → Except SpecErr σ
  | 0, _, s => .ok s
  | f + 1, b, s =>
    if b = [] then .ok s
    else
    match pwVarint b with
    | .error e => .error e
    | .ok (tag, r) =>
      let num := tag / 8
      let wtyp := tag % 8
      if num < 1 ∨ num > maxValidNumber then .error .decode
      else if wtyp = 4 then .error .decode          -- end group with `num ≠ groupTag`
      else
        match h s num wtyp r with
        | .error e => .error e
        | .ok (some (s', r')) => pwMsgLoop h f r' s'
        | .ok none =>
          match pwSkipValue (r.length + 1) num wtyp r with
          | .error e => .error e
          | .ok r' => pwMsgLoop h f r' s

def pwMsg {σ : Type} (h : σ → Nat → Nat → Bytes → Except SpecErr (Option (σ × Bytes))) (b : Bytes) (s : σ) :
    Except SpecErr σ := pwMsgLoop h (b.length + 1) b s

/-- a length-delimited field with the given continuation on the payload -/
def pwLenField {α : Type} (wtyp : Nat) (b : Bytes) (k : Bytes → Except SpecErr α) :
    Except SpecErr (Option (α × Bytes)) :=
  if wtyp ≠ 2 then .ok none
  else
    match pwBytes b with
    | .error e => .error e
    | .ok (v, r) =>
      match k v with
      | .error e => .error e
      | .ok a => .ok (some (a, r))

def pwString (v : Bytes) : Except SpecErr Bytes := if validUTF8 v then .ok v else .error .utf8

/-- map entry coder (`consumeMap`): key `string` (validated), value `bytes` -/
def specEntryField (s : Bytes × Bytes) (num wtyp : Nat) (b : Bytes) :
    Except SpecErr (Option ((Bytes × Bytes) × Bytes)) :=
  if num = 1 then pwLenField wtyp b (fun v => (pwString v).map fun k => (k, s.2))
  else if num = 2 then pwLenField wtyp b (fun v => .ok (s.1, v))
  else .ok none

def specStoreField (d : StoreData) (num wtyp : Nat) (b : Bytes) :
    Except SpecErr (Option (StoreData × Bytes)) :=
  if num = 1 then
    pwLenField wtyp b fun v =>
      (pwMsg specEntryField v ([], [])).map fun e => { d with kv := kvInsert d.kv e.1 e.2 }
  else if num = 2 then
    pwLenField wtyp b fun v => (pwString v).map fun p => { d with dp := d.dp ++ [p] }
  else .ok none

/-- `proto.Unmarshal(bs, &pbstore.StoreData{})` -/
def specDecodeStoreData (bs : Bytes) : Except SpecErr StoreData := pwMsg specStoreField bs {}

/-! generic field encoders (protowire.AppendTag/AppendVarint/AppendBytes) -/
def encTag (num typ : Nat) : Bytes := encVarint (num * 8 + typ)
def encLenField (num : Nat) (payload : Bytes) : Bytes := encTag num 2 ++ encVarint payload.length ++ payload
def encVarintField (num v : Nat) : Bytes := encTag num 0 ++ encVarint v

def specEncStoreDataBytes (kv : KV) (dp : List Bytes) : Bytes :=
  kv.flatMap (fun e => encLenField 1 (encLenField 1 e.1 ++ encLenField 2 e.2)) ++ dp.flatMap (encLenField 2)

/-- `proto.Marshal(&pbstore.StoreData{…})` with the map entries emitted in the order `kv`: fields in field-number
order, both entry fields always present; refuses strings that are not UTF-8. -/
def specEncStoreData (kv : KV) (dp : List Bytes) : EncResult :=
  if kv.all (fun e => validUTF8 e.1) && dp.all validUTF8 then .ok (specEncStoreDataBytes kv dp)
  else .invalidUTF8

/-! ## 4. execout `Item` / `Array` / `Map` with the nested `google.protobuf.Timestamp` -/

/-- `secs` = `uint64(Seconds)` (two's complement of the int64), `nanos` = `uint32(Nanos)`. -/
structure Timestamp where
  secs : Nat := 0
  nanos : Nat := 0
deriving DecidableEq, Repr

structure Item where
  blockNum : Nat := 0
  blockId : Bytes := []
  payload : Bytes := []
  timestamp : Option Timestamp := none
  cursor : Bytes := []
deriving DecidableEq, Repr

/-- `uint64(int64(int32 nanos))`: sign extension -/
def nanosToU64 (n : Nat) : Nat := if n ≥ two31 then n + (two64 - two32) else n

/-- `proto.Marshal(*timestamppb.Timestamp)` -/
def encTimestamp (t : Timestamp) : Bytes :=
  (if t.secs ≠ 0 then encVarintField 1 t.secs else []) ++
  (if t.nanos ≠ 0 then encVarintField 2 (nanosToU64 t.nanos) else [])

def specTsField (t : Timestamp) (num wtyp : Nat) (b : Bytes) : Except SpecErr (Option (Timestamp × Bytes)) :=
  if num = 1 then
    if wtyp ≠ 0 then .ok none else
    match pwVarint b with
    | .error e => .error e
    | .ok (v, r) => .ok (some ({ t with secs := v }, r))
  else if num = 2 then
    if wtyp ≠ 0 then .ok none else
    match pwVarint b with
    | .error e => .error e
    | .ok (v, r) => .ok (some ({ t with nanos := v % two32 }, r))
  else .ok none

/-- merge-decode a Timestamp into `t` -/
def specDecodeTimestampInto (t : Timestamp) (bs : Bytes) : Except SpecErr Timestamp := pwMsg specTsField bs t

/-- `Item.MarshalToSizedBufferVT` read front to back: zero values are omitted; a non-nil Timestamp is always
written (possibly with length 0). -/
def vtEncItemBody (it : Item) : Bytes :=
  (if it.blockNum ≠ 0 then [0x08] ++ encVarint it.blockNum else []) ++
  (if it.blockId.length > 0 then [0x12] ++ encVarint it.blockId.length ++ it.blockId else []) ++
  (if it.payload.length > 0 then [0x1a] ++ encVarint it.payload.length ++ it.payload else []) ++
  (match it.timestamp with
   | some t => let e := encTimestamp t; [0x22] ++ encVarint e.length ++ e
   | none => []) ++
  (if it.cursor.length > 0 then [0x2a] ++ encVarint it.cursor.length ++ it.cursor else [])

def vtEncItem (it : Item) : Bytes :=
  let body := vtEncItemBody it
  [0x0a] ++ encVarint body.length ++ body

def vtEncArray (items : List Item) : Bytes := items.flatMap vtEncItem

/-- `proto.Size(timestamp)` -/
def sizeTimestamp (t : Timestamp) : Nat :=
  (if t.secs ≠ 0 then 1 + sov t.secs else 0) + (if t.nanos ≠ 0 then 1 + sov (nanosToU64 t.nanos) else 0)

/-- `Item.SizeVT` -/
def sizeVTItem (it : Item) : Nat :=
  (if it.blockNum ≠ 0 then 1 + sov it.blockNum else 0) +
  (if it.blockId.length > 0 then 1 + it.blockId.length + sov it.blockId.length else 0) +
  (if it.payload.length > 0 then 1 + it.payload.length + sov it.payload.length else 0) +
  (match it.timestamp with
   | some t => let l := sizeTimestamp t; 1 + l + sov l
   | none => 0) +
  (if it.cursor.length > 0 then 1 + it.cursor.length + sov it.cursor.length else 0)

/-- `Array.SizeVT` -/
def sizeVTArray (items : List Item) : Nat :=
  (items.map fun it => let l := sizeVTItem it; 1 + l + sov l).sum

/-- `Array.MarshalVT` (what `Map.MarshalFast` calls after collecting the map values in iteration order) -/
def marshalArrayVT (items : List Item) : EncResult :=
  let bs := vtEncArray items
  if sizeVTArray items = bs.length then .ok bs else .sizeMismatch

/-- `Item.UnmarshalVTNoAlloc` main loop -/
def vtItemLoop (l : Nat) : Nat → Bytes → Item → Except VTErr Item
  | 0, _, it => .ok it
  | f + 1, rest, it =>
    if rest = [] then .ok it
    else
    match vtVarint rest with
    | .error e => .error e
    | .ok (wire, r1) =>
      let fn := fieldNum32 wire
      let wt := wire % 8
      let lenField (k : Bytes → Except VTErr Item) : Except VTErr Item :=
        if wt ≠ 2 then .error .wrongWireType
        else
        match vtVarint r1 with
        | .error e => .error e
        | .ok (len, r2) =>
          match vtCheckLen l r2 len with
          | .error e => .error e
          | .ok _ =>
            match k (r2.take len) with
            | .error e => .error e
            | .ok it' => vtItemLoop l f (r2.drop len) it'
      if wt = 4 then .error .endGroupNonGroup
      else if fn = 0 ∨ fn ≥ two31 then .error .illegalTag
      else if fn = 1 then
        if wt ≠ 0 then .error .wrongWireType
        else
        match vtVarint r1 with
        | .error e => .error e
        | .ok (v, r2) => vtItemLoop l f r2 { it with blockNum := v }
      else if fn = 2 then lenField fun v => .ok { it with blockId := v }
      else if fn = 3 then lenField fun v => .ok { it with payload := v }
      else if fn = 4 then
        lenField fun v =>
          -- `proto.Unmarshal(bytes, m.Timestamp)` resets the message first: the last occurrence wins
          match specDecodeTimestampInto {} v with
          | .error .decode => .error .nestedDecode
          | .error .utf8 => .error .nestedUTF8
          | .ok t => .ok { it with timestamp := some t }
      else if fn = 5 then lenField fun v => .ok { it with cursor := v }
      else
        match vtSkipField l rest rest.length with
        | .error e => .error e
        | .ok r' => vtItemLoop l f r' it

def unmarshalItemVT (bs : Bytes) : Except VTErr Item := vtItemLoop bs.length (bs.length + 1) bs {}

/-- `Array.UnmarshalVTNoAlloc` main loop -/
def vtArrayLoop (l : Nat) : Nat → Bytes → List Item → Except VTErr (List Item)
  | 0, _, items => .ok items
  | f + 1, rest, items =>
    if rest = [] then .ok items
    else
    match vtVarint rest with
    | .error e => .error e
    | .ok (wire, r1) =>
      let fn := fieldNum32 wire
      let wt := wire % 8
      if wt = 4 then .error .endGroupNonGroup
      else if fn = 0 ∨ fn ≥ two31 then .error .illegalTag
      else if fn = 1 then
        if wt ≠ 2 then .error .wrongWireType
        else
        match vtVarint r1 with
        | .error e => .error e
        | .ok (msglen, r2) =>
          match vtCheckLen l r2 msglen with
          | .error e => .error e
          | .ok _ =>
            match unmarshalItemVT (r2.take msglen) with
            | .error e => .error e
            | .ok it => vtArrayLoop l f (r2.drop msglen) (items ++ [it])
      else
        match vtSkipField l rest rest.length with
        | .error e => .error e
        | .ok r' => vtArrayLoop l f r' items

def unmarshalArrayVT (bs : Bytes) : Except VTErr (List Item) :=
  vtArrayLoop bs.length (bs.length + 1) bs []

/-- the output-cache map `block id ↦ Item` as an association list -/
abbrev ItemMap := List (Bytes × Item)

def itemInsert : ItemMap → Bytes → Item → ItemMap
  | [], k, v => [(k, v)]
  | (k', v') :: t, k, v => if k' = k then (k, v) :: t else (k', v') :: itemInsert t k v

/-- `Map.UnmarshalFast`: decode as `Array`, then `m.Kv[item.BlockId] = item` in order. -/
def unmarshalFast (bs : Bytes) : Except VTErr ItemMap :=
  match unmarshalArrayVT bs with
  | .error e => .error e
  | .ok items => .ok (items.foldl (fun m it => itemInsert m it.blockId it) [])

/-- `Map.MarshalFast` when map iteration yields the entries in the order `m`. -/
def marshalFast (m : ItemMap) : EncResult := marshalArrayVT (m.map (·.2))

/-! specification codec for `Item` / `Array` -/

def specItemField (it : Item) (num wtyp : Nat) (b : Bytes) : Except SpecErr (Option (Item × Bytes)) :=
  if num = 1 then
    if wtyp ≠ 0 then .ok none else
    match pwVarint b with
    | .error e => .error e
    | .ok (v, r) => .ok (some ({ it with blockNum := v }, r))
  else if num = 2 then pwLenField wtyp b fun v => (pwString v).map fun s => { it with blockId := s }
  else if num = 3 then pwLenField wtyp b fun v => .ok { it with payload := v }
  else if num = 4 then
    pwLenField wtyp b fun v =>
      -- embedded message: allocate if nil, then *merge*
      (specDecodeTimestampInto (it.timestamp.getD {}) v).map fun t => { it with timestamp := some t }
  else if num = 5 then pwLenField wtyp b fun v => (pwString v).map fun s => { it with cursor := s }
  else .ok none

def specDecodeItem (bs : Bytes) : Except SpecErr Item := pwMsg specItemField bs {}

def specArrayField (items : List Item) (num wtyp : Nat) (b : Bytes) :
    Except SpecErr (Option (List Item × Bytes)) :=
  if num = 1 then pwLenField wtyp b fun v => (specDecodeItem v).map fun it => items ++ [it]
  else .ok none

/-- `proto.Unmarshal(bs, &pboutput.Array{})` -/
def specDecodeArray (bs : Bytes) : Except SpecErr (List Item) := pwMsg specArrayField bs []

def specEncItemBody (it : Item) : Bytes :=
  (if it.blockNum ≠ 0 then encVarintField 1 it.blockNum else []) ++
  (if it.blockId ≠ [] then encLenField 2 it.blockId else []) ++
  (if it.payload ≠ [] then encLenField 3 it.payload else []) ++
  (match it.timestamp with
   | some t => encLenField 4 (encTimestamp t)
   | none => []) ++
  (if it.cursor ≠ [] then encLenField 5 it.cursor else [])

def specEncArrayBytes (items : List Item) : Bytes := items.flatMap fun it => encLenField 1 (specEncItemBody it)

/-- `proto.Marshal(&pboutput.Array{Items: items})` -/
def specEncArray (items : List Item) : EncResult :=
  if items.all (fun it => validUTF8 it.blockId && validUTF8 it.cursor) then .ok (specEncArrayBytes items)
  else .invalidUTF8

/-! ## 5. The `Binary` marshaller (count, then length-prefixed key/value pairs; no delete prefixes) -/

def binEncEntry (e : Bytes × Bytes) : Bytes :=
  encVarint e.1.length ++ e.1 ++ (encVarint e.2.length ++ e.2)

def binEnc (kv : KV) : Bytes := encVarint kv.length ++ kv.flatMap binEncEntry

def binSize (kv : KV) : Nat :=
  uvarintByteCount kv.length +
  (kv.map fun e => uvarintByteCount e.1.length + e.1.length + uvarintByteCount e.2.length + e.2.length).sum

/-- `Binary.Marshal` = `writeMapStringBytes` -/
def marshalBinary (kv : KV) : EncResult :=
  let bs := binEnc kv
  if binSize kv = bs.length then .ok bs else .sizeMismatch

inductive UvarintResult where
  | ok (v : Nat) (rest : Bytes)
  | tooSmall     -- n == 0
  | overflow     -- n < 0
deriving DecidableEq, Repr

/-- `encoding/binary.Uvarint`; `i` = index of the current byte -/
def uvarintGo : Nat → Nat → Nat → Bytes → UvarintResult
  | _, _, _, [] => .tooSmall
  | i, shift, acc, b :: rest =>
    if i = 10 then .overflow
    else if b.toNat < 128 then
      if i = 9 ∧ b.toNat > 1 then .overflow else .ok (acc + b.toNat * 2 ^ shift) rest
    else uvarintGo (i + 1) (shift + 7) (acc + (b.toNat % 128) * 2 ^ shift) rest

def uvarint (bs : Bytes) : UvarintResult := uvarintGo 0 0 0 bs

inductive BinErr where
  | err      -- a returned error
  | panic    -- `cursor = cursor[n:]` with the negative `n` that Uvarint returns on overflow
deriving DecidableEq, Repr

/-- the `for i := uint64(0); i < entries; i++` loop of `readMapStringBytes` -/
def binReadLoop : Nat → Bytes → KV → Except BinErr KV
  | 0, _, out => .ok out
  | n + 1, cursor, out =>
    match uvarint cursor with
    | .tooSmall => .error .err
    | .overflow => .error .panic
    | .ok keyLen c1 =>
      if c1.length < keyLen then .error .err
      else
        match uvarint (c1.drop keyLen) with
        | .tooSmall => .error .err
        | .overflow => .error .panic
        | .ok valLen c2 =>
          if c2.length < valLen then .error .err
          else binReadLoop n (c2.drop valLen) (kvInsert out (c1.take keyLen) (c2.take valLen))

/-- `Binary.Unmarshal` = `readMapStringBytes` -/
def unmarshalBinary (bs : Bytes) : Except BinErr KV :=
  match uvarint bs with
  | .tooSmall => .error .err
  | .overflow => .error .panic
  | .ok entries c => binReadLoop entries c []

end SV.Wire

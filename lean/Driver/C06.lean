import Model.Hash
import Driver.Common
/-! Driver for C06: one case per line in, one canonical line out (compared with the Go harness).

Graph encoding (tokens separated by blanks, byte strings in hex, `-` = empty):

    B <nb> {<type> <content>}  M <nm> {<name> <initialBlock> <kind> <binIdx> <entrypoint> <nin> {<input>} <filter>}
    kind   := m:<outputType> | s:<policy>:<valueType> | i:<outputType> | u
    input  := S:<type> | P:<value> | M:<module> | T:<module>:<mode> | U
    filter := - | Q:<module>:<query> | F:<module> | N:<module>
-/
open SV.Hash SVD

abbrev Toks := List String

def pBytes (s : String) : Bytes := unhex s

def pKind (s : String) : Kind :=
  match s.splitOn ":" with
  | ["m", t] => .map (pBytes t)
  | ["s", p, v] => .store (nat! p) (pBytes v)
  | ["i", t] => .blockIndex (pBytes t)
  | _ => .unset

def pInput (s : String) : Input :=
  match s.splitOn ":" with
  | ["S", t] => .source (pBytes t)
  | ["P", v] => .params (pBytes v)
  | ["M", m] => .map (pBytes m)
  | ["T", m, mode] => .store (pBytes m) (nat! mode)
  | _ => .unset

def pFilter (s : String) : Option Filter :=
  match s.splitOn ":" with
  | ["Q", m, q] => some ⟨pBytes m, .str (pBytes q)⟩
  | ["F", m] => some ⟨pBytes m, .fromParams⟩
  | ["N", m] => some ⟨pBytes m, .unset⟩
  | _ => none

def pBinaries : Nat → Toks → List Binary × Toks
  | 0, ts => ([], ts)
  | n + 1, t :: c :: ts => let (bs, rest) := pBinaries n ts; (⟨pBytes t, pBytes c⟩ :: bs, rest)
  | _, ts => ([], ts)

def pModule : Toks → Option (Module × Toks)
  | name :: ib :: kind :: bi :: entry :: nin :: ts =>
    let n := nat! nin
    let ins := (ts.take n).map pInput
    match ts.drop n with
    | f :: rest =>
      some (⟨pBytes name, nat! ib, pKind kind, nat! bi, pBytes entry, ins, pFilter f⟩, rest)
    | [] => none
  | _ => none

def pModules : Nat → Toks → List Module × Toks
  | 0, ts => ([], ts)
  | n + 1, ts =>
    match pModule ts with
    | none => ([], ts)
    | some (m, rest) => let (ms, rest') := pModules n rest; (m :: ms, rest')

def pGraph : Toks → Option (Modules × Toks)
  | "B" :: nb :: ts =>
    let (bins, rest) := pBinaries (nat! nb) ts
    match rest with
    | "M" :: nm :: ts' =>
      let (mods, rest') := pModules (nat! nm) ts'
      some (⟨mods, bins⟩, rest')
    | _ => none
  | _ => none

def pPairs : Nat → Toks → List (String × String) × Toks
  | 0, ts => ([], ts)
  | n + 1, a :: b :: ts => let (ps, rest) := pPairs n ts; ((a, b) :: ps, rest)
  | _, ts => ([], ts)

def sha := SV.Sha1.sha1

def showHash (P : Modules) (n : Bytes) : String :=
  match hashModule sha P n with
  | .ok h => hex h
  | .error e => "E:" ++ e.toString

/-- the hash (or error) of every module, in module-list order -/
def showAll (P : Modules) : String :=
  if P.modules.isEmpty then "none" else " ".intercalate (P.modules.map fun m => showHash P m.name)

def tableFn (tbl : List (Bytes × Bytes)) (n : Bytes) : Bytes :=
  match tbl.find? (·.1 = n) with
  | some (_, v) => v
  | none => n

def natTableFn (tbl : List (Nat × Nat)) (n : Nat) : Nat :=
  match tbl.find? (·.1 = n) with
  | some (_, v) => v
  | none => n

def step (line : String) : String :=
  match words line with
  | "SHA1" :: [h] => hex (sha (unhex h))
  | "HASH" :: ts =>
    match pGraph ts with
    | some (P, _) => showAll P
    | none => "bad-graph"
  | "RENAME" :: n :: ts =>
    let (ps, rest) := pPairs (nat! n) ts
    match pGraph rest with
    | some (P, _) => showAll (rename (tableFn (ps.map fun (a, b) => (unhex a, unhex b))) P)
    | none => "bad-graph"
  | "IMPORT" :: alias :: ts | "READER" :: alias :: ts =>
    match pGraph ts with
    | some (src, rest) =>
      match pGraph rest with
      | some (dest, _) => showAll (importPkg (unhex alias) src dest)
      | none => "bad-graph"
    | none => "bad-graph"
  | "REINDEX" :: nb :: ts =>
    let (bins, rest) := pBinaries (nat! nb) ts
    match rest with
    | ns :: rest' =>
      let (ps, rest'') := pPairs (nat! ns) rest'
      match pGraph rest'' with
      | some (P, _) => showAll (reindexBinaries (natTableFn (ps.map fun (a, b) => (nat! a, nat! b))) bins P)
      | none => "bad-graph"
    | [] => "bad-graph"
  | "DIR" :: h :: [which] =>
    let u : Option CacheUse := match which with
      | "store-states" => some .storeStates
      | "store-outputs" => some .storeOutputs
      | "execout-map" => some .execoutMap
      | "execout-index" => some .execoutIndex
      | "index" => some .index
      | _ => none
    match u with
    | some u => hex (cacheDir (unhex h) u)
    | none => "bad-op"
  | "MUT" :: _tag :: k :: ts =>
    match pGraph (ts.drop (nat! k)) with
    | some (A, rest) =>
      match pGraph rest with
      | some (B, _) => showAll A ++ " | " ++ showAll B
      | none => "bad-graph"
    | none => "bad-graph"
  | "SAME" :: _tag :: ts =>
    match pGraph ts with
    | some (A, rest) =>
      match pGraph rest with
      | some (B, _) => showAll A ++ " | " ++ showAll B
      | none => "bad-graph"
    | none => "bad-graph"
  | _ => "bad-op"

def main : IO Unit := runLines step

import Model.Merge
import Driver.Common
/-!
Line protocol for store histories (shared by svd_c08, svd_c09, svd_c11, svd_c02).

  <policy> <vt> <appendLimit> <totalLimit> <itemLimit> ; step ; step ; …

steps (S names a store: F, G full stores; P partial store):
  blk S op,op,…     NewCall (Reset) + the host calls + Flush; prints the deltas or `err`
  rd S ord keyhex   the six readers
  st S              sorted content + reported size (+ deleted prefixes for P)
  ty S              typed content (tags stripped) — C02's comparison
  rp S              replay: ApplyOps(ReadOps(S)) onto a copy of S's pre-block state; prints deltas+state
  undo S            ApplyDeltasReverse(deltas of the last block)
  new P             fresh partial store
  sl S              save + load round trip (content, size, prefixes survive; deltas/ops do not)
  mrg S             merge P into full store S
op: kind:ord:keyhex:valhex   kind ∈ set sine app del max min sum ssum
-/
open SV SVD

namespace StoreProto

def parsePolicy : String → Policy
  | "set" => .set | "sine" => .setIfNotExists | "add" => .add | "min" => .min | "max" => .max
  | "append" => .append | "setsum" => .setSum | _ => .unset

def parseVT : String → VT
  | "int64" => .int64 | "bigint" => .bigint | "bigdecimal" => .bigdecimal | "float64" => .float64 | _ => .bytes

def parseKind (vt : VT) : String → Option OpKind
  | "set" => some .set | "sine" => some .setIfNotExists | "app" => some .append | "del" => some .deletePrefix
  | "max" => some (.max vt) | "min" => some (.min vt) | "sum" => some (.sum vt) | "ssum" => some (.setSum vt)
  | _ => none

def parseOp (vt : VT) (s : String) : Option Op :=
  match s.splitOn ":" with
  | [k, o, key, v] => (parseKind vt k).map fun kind => ⟨kind, nat! o, unhex key, unhex v⟩
  | _ => none

def parseOps (vt : VT) (s : String) : List Op :=
  if s == "-" then [] else (s.splitOn ",").filterMap (parseOp vt)

def showDOp : DOp → String
  | .create => "C" | .update => "U" | .delete => "D"

def showDelta (d : Delta) : String := s!"{showDOp d.op}{d.ord}:{hex d.key}:{hex d.old}>{hex d.new}"
def showDeltas (ds : List Delta) : String := "[" ++ ",".intercalate (ds.map showDelta) ++ "]"

def showKV (kv : KV) : String :=
  "{" ++ ",".intercalate ((sortByKey kv).map fun p => s!"{hex p.1}={hex p.2}") ++ "}"

def showOB : Option Bytes → String
  | none => "_"
  | some b => hex b

def showErr : SErr → String
  | .reservedKey => "reserved" | .itemTooBig => "item" | .emptyKey => "emptykey" | .ffKey => "ffkey"
  | .tooBig => "toobig" | .appendLimit => "applimit" | .badValue => "badvalue"

structure St where
  cfg  : Cfg
  f    : Store := Store.empty
  g    : Store := Store.empty
  p    : Partial := Partial.empty
  preF : Store := Store.empty     -- pre-block copies for `rp`
  preG : Store := Store.empty
  preP : Partial := Partial.empty
  dead : Bool := false            -- a store errored: the Go harness stops the history there too

def getS (st : St) : String → Store
  | "F" => st.f | "G" => st.g | _ => st.p.store
def setS (st : St) (n : String) (s : Store) : St :=
  match n with
  | "F" => { st with f := s } | "G" => { st with g := s } | _ => { st with p := { st.p with store := s } }
def getPre (st : St) : String → Store
  | "F" => st.preF | "G" => st.preG | _ => st.preP.store

def sortBytes (l : List Bytes) : List Bytes :=
  (sortByKey (l.map fun b => (b, ([] : Bytes)))).map (·.1)

def showState (st : St) (n : String) : String :=
  let s := getS st n
  -- float texts (and so their lengths) are outside the model: the harness prints `~` too
  let size := if st.cfg.vt == .float64 then "~" else toString s.size
  let base := s!"{showKV s.kv} size={size}"
  if n == "P" then base ++ " dp=[" ++ ",".intercalate ((sortBytes st.p.deletedPrefixes).map hex) ++ "]" else base

/-- the typed value of a stored text: tag stripped, numbers re-rendered canonically ("007" = "7", "1.50" = "1.5") -/
def canonTyped (cfg : Cfg) (v : Bytes) : Bytes :=
  let b := (stripTag cfg (some v)).getD []
  match cfg.vt with
  | .int64 | .bigint => match parseInt b with | some i => renderInt i | none => b
  | .bigdecimal => match Dec.parse b with | some d => d.render | none => b
  | _ => b

def typedKV (cfg : Cfg) (kv : KV) : KV := kv.map fun p => (p.1, canonTyped cfg p.2)

def hostOps (ops : List Op) : Option (List Op) := ops.mapM hostOp

def step (st : St) (w : List String) : St × String :=
  if st.dead then (st, "skipped") else
  let sem := stdSem st.cfg
  match w with
  | ["blk", n, opsS] =>
    match hostOps (parseOps st.cfg.vt opsS) with
    | none => ({ st with dead := true }, "hosterr")
    | some ops =>
      if n == "P" then
        let p0 : Partial := { st.p with store := reset st.p.store }
        match Partial.execBlock st.cfg sem p0 ops with
        | .error e => ({ st with dead := true }, "err:" ++ showErr e)
        | .ok p' => ({ st with p := p', preP := p0 }, showDeltas p'.store.deltas)
      else
        let s0 := reset (getS st n)
        match execBlock st.cfg sem s0 ops with
        | .error e => ({ st with dead := true }, "err:" ++ showErr e)
        | .ok s' =>
          let st' := setS st n s'
          let st' := if n == "F" then { st' with preF := s0 } else { st' with preG := s0 }
          (st', showDeltas s'.deltas)
  | ["rd", n, o, key] =>
    let s := getS st n
    let k := unhex key
    let ord := nat! o
    let gf := stripTag st.cfg (s.getFirst k)
    let gl := stripTag st.cfg (s.getLast k)
    let ga := stripTag st.cfg (s.getAt ord k)
    (st, s!"gf={showOB gf} gl={showOB gl} ga={showOB ga} hf={s.hasFirst k} hl={s.hasLast k} ha={s.hasAt ord k}")
  | ["st", n] => (st, showState st n)
  | ["ty", n] => (st, showKV (typedKV st.cfg (getS st n).kv))
  | ["rp", n] =>
    let log := readOps (getS st n)
    if n == "P" then
      match Partial.applyOps st.cfg sem st.preP log with
      | .error e => (st, "err:" ++ showErr e)
      | .ok p' =>
        let tmp : St := { st with p := p' }
        (st, showDeltas p'.store.deltas ++ " " ++ showState tmp "P")
    else
      match applyOps st.cfg sem (getPre st n) log with
      | .error e => (st, "err:" ++ showErr e)
      | .ok s' =>
        let tmp := setS st n s'
        (st, showDeltas s'.deltas ++ " " ++ showState tmp n)
  | ["undo", n] =>
    let s := getS st n
    let s' := applyDeltasReverse s s.deltas
    (setS st n (reset s'), "ok")
  | ["new", _] => ({ st with p := Partial.empty, preP := Partial.empty }, "ok")
  | ["sl", n] =>
    let s := getS st n
    let s' : Store := { Store.empty with kv := s.kv, size := kvSize s.kv }
    (setS st n s', "ok")
  | ["mrg", n] =>
    match merge st.cfg sem (getS st n) st.p with
    | none => ({ st with dead := true }, "panic")
    | some (.error e) => ({ st with dead := true }, "err:" ++ showErr e)
    | some (.ok s') => (setS st n s', "ok")
  | _ => (st, "bad-step")

def runHistory (line : String) : String :=
  match line.splitOn " ; " with
  | hdr :: steps =>
    match (words hdr).take 5 with
    | [pol, vt, al, tl, il] =>
      let cfg : Cfg := ⟨parsePolicy pol, parseVT vt, nat! al, nat! tl, nat! il⟩
      let (_, outs) := steps.foldl (fun (acc : St × List String) s =>
        let (st', o) := step acc.1 (words s)
        (st', o :: acc.2)) (({ cfg := cfg } : St), [])
      " | ".intercalate outs.reverse
    | _ => "bad-header"
  | [] => "bad-line"

end StoreProto

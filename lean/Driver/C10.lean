import Model.Snapshot
import Driver.Common
/-! Driver for C10: one case per line in, one canonical line out (compared with harness/cmd/vh_c10). -/
open SV.Wire SV.Filename SV.Snapshot SVD

namespace C10D

def bytesLe : Bytes → Bytes → Bool
  | [], _ => true
  | _ :: _, [] => false
  | a :: as, b :: bs => if a < b then true else if b < a then false else bytesLe as bs

def parseKV (s : String) : KV :=
  if s == "_" then [] else
  (s.splitOn ",").map fun p =>
    match p.splitOn ":" with
    | [k, v] => (unhex k, unhex v)
    | _ => ([], [])

def parseList (s : String) : List Bytes :=
  if s == "_" then [] else (s.splitOn ",").map unhex

def showKV (kv : KV) : String :=
  ",".intercalate ((kv.mergeSort fun a b => bytesLe a.1 b.1).map fun e => s!"{hex e.1}:{hex e.2}")

def showList (l : List Bytes) : String := ",".intercalate (l.map hex)

/-- file names travel as hex of their bytes (ASCII) -/
def nameOfHex (h : String) : Name := (unhex h).map fun b => Char.ofNat b.toNat
def hexOfName (n : Name) : String := hex (n.map fun c => UInt8.ofNat c.toNat)

def showVTErr : VTErr → String
  | .intOverflow => "overflow"
  | .unexpectedEOF => "eof"
  | .invalidLength => "invalid-length"
  | .endGroupNonGroup => "end-group"
  | .illegalTag => "illegal-tag"
  | .wrongWireType => "wrong-wiretype"
  | .unexpectedEndOfGroup => "unexpected-end-group"
  | .illegalWireType => "illegal-wiretype"
  | .nestedDecode => "nested-decode"
  | .nestedUTF8 => "nested-utf8"

def showLoaded : Except Err Loaded → String
  | .ok l => s!"ok/size={l.totalSizeBytes}/kv={showKV l.kv}/dp={showList l.deletedPrefixes}"
  | .error .notFound => "err:not-found"
  | .error .marshal => "err:marshal"
  | .error (.unmarshal e) => s!"err:unmarshal:{showVTErr e}"

def showFileInfo (fi : FileInfo) : String :=
  s!"{fi.start}-{fi.stop}:{if fi.isPartial then "p" else "f"}"

def hasDup : List Bytes → Bool
  | [] => false
  | k :: t => t.contains k || hasDup t

def step (line : String) : String :=
  match words line with
  | ["NAME", a, b] =>
    let a := nat! a
    let b := nat! b
    s!"full={String.ofList (fullName a b)} partial={String.ofList (partialName a b)}"
  | ["PARSE", h] =>
    match parseFileName (nameOfHex h) with
    | .noMatch => "none"
    | .panic => "panic"
    | .ok fi => s!"ok {fi.start} {fi.stop} partial={fi.isPartial} trace={fi.withTraceID}"
  | ["LIST", mode, below, names] =>
    let names := if names == "_" then [] else (names.splitOn ",").map nameOfHex
    match listSnapshotFiles (mode == "contract") (nat! below) names with
    | .panic => "panic"
    | .ok l => "ok " ++ ";".intercalate (l.map showFileInfo)
  | ["RT", kind, a, b, kv, dp] =>
    let kv := parseKV kv
    if hasDup (kv.map (·.1)) then "dup-keys" else
    if kind == "full" then
      match saveFull [] (nat! a) (nat! b) kv with
      | .ok (name, fs) =>
        s!"name={String.ofList name} exists={existsFullKV fs (nat! a) (nat! b)} content=ok:{hex ((fs.read name).getD [])} {showLoaded (loadFull fs name)}"
      | .error _ => "err:save"
    else
      match savePartial [] (nat! a) (nat! b) kv (parseList dp) with
      | .ok (name, fs) =>
        s!"name={String.ofList name} exists={existsPartialKV fs (nat! a) (nat! b)} content=ok:{hex ((fs.read name).getD [])} {showLoaded (loadPartial fs name)}"
      | .error _ => "err:save"
  | ["RT", kind, a, b, kv, dp, faults] =>
    -- transient write failures before the successful attempt: 0 / h / a leave nothing, g leaves half of the content
    let kv := parseKV kv
    if hasDup (kv.map (·.1)) then "dup-keys" else
    let content : Bytes := match marshalVT kv (if kind == "full" then [] else parseList dp) with | .ok c => c | _ => []
    let att : List WriteAttempt := ((faults.drop 2).toString.toList).map fun c =>
      if c == 'g' then .fail (some (content.take (content.length / 2))) else .fail none
    if kind == "full" then
      match saveFullR [] (nat! a) (nat! b) kv att with
      | .ok (name, some fs) =>
        s!"name={String.ofList name} exists={existsFullKV fs (nat! a) (nat! b)} content=ok:{hex ((fs.read name).getD [])} {showLoaded (loadFull fs name)}"
      | .ok (_, none) => "err:write"
      | .error _ => "err:save"
    else
      match savePartialR [] (nat! a) (nat! b) kv (parseList dp) att with
      | .ok (name, some fs) =>
        s!"name={String.ofList name} exists={existsPartialKV fs (nat! a) (nat! b)} content=ok:{hex ((fs.read name).getD [])} {showLoaded (loadPartial fs name)}"
      | .ok (_, none) => "err:write"
      | .error _ => "err:save"
  | ["RT2", kind, a, e1, e2, kv1, kv2, dp, _order] =>
    -- two Saves of the same store, both writes pending, written in either order: each Save froze its own content
    let kv1 := parseKV kv1
    let kv2 := parseKV kv2
    if hasDup (kv1.map (·.1)) || hasDup (kv2.map (·.1)) then "dup-keys" else
    if kind == "full" then
      match saveFull [] (nat! a) (nat! e1) kv1 with
      | .ok (n1, fs1) =>
        match saveFull fs1 (nat! a) (nat! e2) kv2 with
        | .ok (n2, fs2) => s!"first={showLoaded (loadFull fs2 n1)} second={showLoaded (loadFull fs2 n2)}"
        | .error _ => "err:save"
      | .error _ => "err:save"
    else
      match savePartial [] (nat! a) (nat! e1) kv1 (parseList dp) with
      | .ok (n1, fs1) =>
        match savePartial fs1 (nat! a) (nat! e2) kv2 (parseList dp) with
        | .ok (n2, fs2) => s!"first={showLoaded (loadPartial fs2 n1)} second={showLoaded (loadPartial fs2 n2)}"
        | .error _ => "err:save"
      | .error _ => "err:save"
  | ["LOAD", kind, h] =>
    let fs : Files := Files.write [] ['x'] (unhex h)
    if kind == "full" then showLoaded (loadFull fs ['x']) else showLoaded (loadPartial fs ['x'])
  | _ => "bad-op"

end C10D

def main : IO Unit := SVD.runLines C10D.step

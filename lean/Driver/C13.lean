import Model.Segmenter
import Driver.Common
/-! Driver for C13: one case per line in, one canonical line out (compared with the Go harness). -/
open SV SVD

def showRange (r : Range) : String := s!"[{r.start},{r.stop})"
def showORange : Option Range → String
  | none => "nil"
  | some r => showRange r
def showRanges (l : List Range) : String := ";".intercalate (l.map showRange)

def parseRanges (s : String) : List Range :=
  if s == "-" then [] else
  (s.splitOn ",").map fun p =>
    match p.splitOn "-" with
    | [a, b] => ⟨nat! a, nat! b⟩
    | _ => ⟨0, 0⟩

def step (line : String) : String :=
  match words line with
  | ["SEG", k, i, e, idx] =>
    let s : Segmenter := ⟨nat! k, nat! i, nat! e⟩
    let ix := nat! idx
    let eoi := match s.endsOnInterval ix with
      | none => "panic"
      | some b => toString b
    s!"first={s.firstIndex} last={s.lastIndex} count={s.count} range={showORange (s.range? ix)} eoi={eoi}"
  | ["SEGS", k, i, e] =>
    let s : Segmenter := ⟨nat! k, nat! i, nat! e⟩
    let segs := s.segments
    showRanges segs ++ " blocks=" ++ ",".intercalate ((segs.map Range.blocks).flatten.map toString)
  | ["IDX", k, b] =>
    let s : Segmenter := ⟨nat! k, 0, 0⟩
    s!"start={s.indexForStartBlock (nat! b)} end={s.indexForEndBlock (nat! b)}"
  | ["SPLIT", a, b, c] => showRanges ((⟨nat! a, nat! b⟩ : Range).split (nat! c))
  | ["MERGED", rs] => showRanges (merged (parseRanges rs))
  | ["BUCKETS", m, rs] => showRanges (mergedBuckets (nat! m) (parseRanges rs))
  | _ => "bad-op"

def main : IO Unit := runLines step

import Model.Sched
import Driver.Common
/-! Driver for C05: one case (configuration + initial files + schedule) per line in, one canonical answer
line out, computed by the model's own `init` / `step`.  Format mirrors harness/cmd/vh_c05. -/
open SV SV.Stg SV.Stg.Stages SV.Sch SVD

namespace C05D

def kv (toks : List String) (key : String) : String :=
  match toks.find? (fun t => t.startsWith (key ++ "=")) with
  | some t => (t.drop (key.length + 1)).toString
  | none => ""

def parseRange (s : String) : Option Range :=
  if s == "nil" || s == "" then none else
  match s.splitOn "-" with
  | [a, b] => some ⟨nat! a, nat! b⟩
  | _ => none

/-- `S5,7;S25;M25` -/
def parseGraph (s : String) : List StageCfg :=
  if s == "-" || s == "" then [] else
  (s.splitOn ";").map fun t =>
    let kind := if t.startsWith "M" then Kind.map else Kind.store
    let rest := (t.drop 1).toString
    ⟨kind, (rest.splitOn ",").map nat!⟩

def parseFiles (s : String) : Files :=
  if s == "-" || s == "" then ⟨[], []⟩ else
  (s.splitOn ",").foldl (fun (acc : Files) t =>
    match t.splitOn ":" with
    | [hd, rng] =>
      match rng.splitOn "-" with
      | [a, b] =>
        if hd == "O" then { acc with outputs := acc.outputs ++ [⟨nat! a, nat! b⟩] }
        else
          let isP := hd.startsWith "P"
          match ((hd.drop 1).toString).splitOn "." with
          | [j, i] => { acc with stores := acc.stores ++ [⟨nat! j, nat! i, isP, nat! a, nat! b⟩] }
          | _ => acc
      | _ => acc
    | _ => acc) ⟨[], []⟩

/-- schedule: comma separated choices `<idx>` or `<idx>e` (ramp-up delay seen as elapsed) -/
def parseSched (s : String) : List (Nat × Bool) :=
  if s == "-" || s == "" then [] else
  (s.splitOn ",").map fun t =>
    if t.endsWith "e" then (nat! (t.dropEnd 1).toString, true) else (nat! t, false)

/-! ### rendering -/

def stChar : UnitState → Char
  | .pending => '.' | .partialPresent => 'P' | .scheduled => 'S' | .merging => 'M'
  | .completed => 'C' | .noOp => 'N' | .shadowed => 'Z'

def statesString (s : Stages) : String :=
  "/".intercalate <| (List.range s.nStages).map fun i =>
    let st := s.stageAt i
    (if st.kind = .map then "M:" else "S:") ++ String.ofList (s.states.map fun row => stChar (row.getD i .pending))

def fingerprint (s : Stages) : String :=
  s!"off={s.offset} sh={s.shadowable}" ++ String.join (s.stages.map fun st =>
    let k := if st.kind = .store then "S" else "M"
    s!" {k}[{st.seg.firstIndex}..{st.seg.lastIndex}]c={(st.next : Int) - 1}" ++
      String.join (st.mods.map fun m => s!",{(modSeg st m).firstIndex}:{m.lastBlock}:{if m.cached then 1 else 0}"))

def poolString (p : Pool) : String :=
  String.ofList (p.workers.map fun w => match w with | .free => 'F' | .working => 'W' | .initialWait => 'I')
    ++ (if p.rampup then "+r" else "")

def walkString : Option Walker → String
  | none => "-"
  | some w => s!"{w.seg.firstIndex}/{w.cur}/{w.seg.lastIndex}" ++ (if w.working then "w" else "")

def cmdTag : Cmd → Char
  | .batch _ => 'B' | .scheduleNextJob => 'N' | .allStoresCompleted => 'A' | .mergeNotReady _ => 'R'
  | .merge _ => 'G' | .downloadSegment => 'D' | .downloadCurrent _ => 'L' | .walkerCompleted => 'K'
  | .shutdown => 'Q' | .quit _ => 'X' | .tick => 'T' | .job _ _ _ => 'J'

def bagString (b : List Cmd) : String := if b.isEmpty then "-" else String.ofList (b.map cmdTag)

def insertKey (x : Nat × Nat × Nat) : List (Nat × Nat × Nat) → List (Nat × Nat × Nat)
  | [] => [x]
  | y :: ys =>
    if x.1 < y.1 || (x.1 == y.1 && (x.2.1 < y.2.1 || (x.2.1 == y.2.1 && x.2.2 < y.2.2))) then x :: y :: ys
    else y :: insertKey x ys
def sort3 (l : List (Nat × Nat × Nat)) : List (Nat × Nat × Nat) := l.foldl (fun acc x => insertKey x acc) []

def fullsString (f : Files) : String :=
  let l := sort3 ((f.stores.filter (!·.partial_)).map fun x => (x.stage, x.mod, x.stop))
  if l.isEmpty then "-" else ",".intercalate (l.map fun x => s!"{x.1}.{x.2.1}@{x.2.2}")

def outsString (f : Files) : String :=
  let l := sort3 (f.outputs.map fun x => (x.start, x.stop, 0))
  if l.isEmpty then "-" else ",".intercalate (l.map fun x => s!"{x.1}-{x.2.1}")

def record (st : State) : String :=
  match st.ended with
  | some (.panic _) => "PANIC"
  | _ =>
    s!"{statesString st.stages} {fingerprint st.stages} pool={poolString st.pool} walk={walkString st.walker} " ++
    s!"flags={if st.outDone then 1 else 0},{if st.storesDone then 1 else 0} bag={bagString st.bag} " ++
    s!"full={fullsString st.files} out={outsString st.files}"

def msgKind : Msg → String
  | .jobSucceeded u _ => s!"jobOK({u.seg},{u.stage})"
  | .jobFailed => "jobFailed"
  | .scheduleNextJob => "schedNext"
  | .mergeFinished u => s!"mergeFinished({u.seg},{u.stage})"
  | .mergeFailed u => s!"mergeFailed({u.seg},{u.stage})"
  | .mergeNotReady u => s!"mergeNotReady({u.seg},{u.stage})"
  | .allStoresCompleted => "allStores"
  | .fileNotPresent => "fileNotPresent"
  | .fileDownloaded => "fileDownloaded"
  | .downloadSegment => "dlSegment"
  | .walkerCompleted => "walkerCompleted"

/-- the description of a step, as the harness prints it -/
def stepKind (st : State) (idx : Nat) (elapsed : Bool) (st' : State) : String :=
  match st.bag[idx]? with
  | none => "noop"
  | some c =>
    match (exec { st with bag := st.bag.eraseIdx idx } c).2 with
    | .batch l => s!"batch{l.length}"
    | .quit e => if e then "quit:err" else "quit:nil"
    | .msg m =>
      let pre := (match c with | .tick => "tick" | _ => "") ++ msgKind m ++
        (match m with | .scheduleNextJob => (if elapsed then "+e" else "") | _ => "")
      match st'.ended with
      | some (.panic _) => pre ++ "!panic"
      | _ => pre ++ (if st'.bag.length > (st.bag.length - 1) then ">1" else ">0")

/-! ### FNV-1a 64 chained over the step lines -/
def fnvStep (h : UInt64) (s : String) : UInt64 :=
  s.toUTF8.foldl (fun h b => (h ^^^ b.toUInt64) * 1099511628211) h

def hexU64 (h : UInt64) : String :=
  String.ofList ((List.range 16).map fun i => hexChar ((h >>> (UInt64.ofNat (60 - 4 * i))).toNat % 16))

/-! ### the property's predicates evaluated on the model run (the harness evaluates them on the real code) -/

/-- full snapshots a tier2 job (graph stage `t`, segment start block `start`) loads and that do not exist -/
def missingDeps (c : Cfg) (f : Files) (t start : Nat) : List String :=
  ((List.range (min t c.graph.length)).flatMap fun j =>
    match c.graph[j]? with
    | some sc =>
      if sc.kind = .store then
        ((List.range sc.mods.length).filterMap fun i =>
          let init := sc.mods.getD i 0
          if init < start && !f.hasFull j i start init then some s!"{j}.{i}@{start}" else none)
      else []
    | none => [])

def newJob (st st' : State) : Option (WorkUnit × Nat) :=
  match st'.bag.getLast? with
  | some (.batch (.job u sb _ :: _)) => if st'.bag.length = st.bag.length then some (u, sb) else none
  | _ => none

structure Acc where
  st     : State
  h      : UInt64
  n      : Nat
  jobs   : List String
  merges : List String
  trace  : List String
  last   : String

def runSched (verbose : Bool) : List (Nat × Bool) → Acc → Acc
  | [], a => a
  | (idx, e) :: rest, a =>
    if a.st.ended.isSome || idx ≥ a.st.bag.length then a
    else
      let st' := step a.st idx e
      let kind := stepKind a.st idx e st'
      let rec_ := record st'
      let line := kind ++ " " ++ rec_
      let jobs := match a.st.bag[idx]? with
        | some .scheduleNextJob | some .tick =>
          (match newJob a.st st' with
           | some (u, sb) =>
             let seg := sb / a.st.cfg.interval
             let miss := missingDeps a.st.cfg a.st.files u.stage (seg * a.st.cfg.interval)
             a.jobs ++ [s!"({u.seg},{u.stage})" ++ (if miss.isEmpty then "ok" else "KO[" ++ "+".intercalate miss ++ "]")]
           | none => a.jobs)
        | _ => a.jobs
      let merges := if kind.startsWith "mergeFinished" then a.merges ++ [((kind.drop 13).toString.splitOn ">").headD ""] else a.merges
      runSched verbose rest
        { st := st', h := fnvStep a.h (line ++ "\n"), n := a.n + 1, jobs := jobs, merges := merges,
          trace := if verbose then a.trace ++ [line] else [], last := rec_ }

def endString (st : State) : String :=
  match st.ended with
  | none => if st.bag.isEmpty then "stuck" else "open"
  | some .quitNil => "quit:nil"
  | some .quitErr => "quit:err"
  | some (.panic _) => "panic"

def listOr (l : List String) : String := if l.isEmpty then "-" else ",".intercalate l

def runCase (toks : List String) : String :=
  let cfg : Cfg := {
    interval := nat! (kv toks "k"), buildStores := parseRange (kv toks "bs"), writeExecOut := parseRange (kv toks "we"),
    readExecOut := parseRange (kv toks "re"), graph := parseGraph (kv toks "st"), start := nat! (kv toks "start"),
    outIsIndex := kv toks "idx" == "1", outIsMap := kv toks "idx" != "1", outInit := nat! (kv toks "xi"),
    workers := nat! (kv toks "w") }
  let fix := kv toks "fix" == "1"
  let verbose := kv toks "v" == "1"
  match init cfg fix (parseFiles (kv toks "files")) with
  | .error _ => "steps=0 end=panic:init"
  | .ok st0 =>
    let r0 := record st0
    let a := runSched verbose (parseSched (kv toks "sched"))
      { st := st0, h := fnvStep 14695981039346656037 (r0 ++ "\n"), n := 0, jobs := [], merges := [], trace := [r0], last := r0 }
    s!"steps={a.n} end={endString a.st} h={hexU64 a.h} jobs={listOr a.jobs} merges={listOr a.merges} last={a.last}" ++
      (if verbose then " trace=" ++ " || ".intercalate a.trace else "")

def step (line : String) : String :=
  match words line with
  | "RUN" :: toks => runCase toks
  | _ => "bad-op"

end C05D

def main : IO Unit := SVD.runLines C05D.step

import Model.Sched
import Driver.Common
import Std.Data.HashMap
/-! Driver for C05: one case (configuration + initial files + schedule) per line in, one canonical answer
line out, computed by the model's own `init` / `step`.  Format mirrors harness/cmd/vh_c05. -/
open SV SV.Stg SV.Stg.Stages SV.Sch SVD

namespace C05D

def kv (toks : List String) (key : String) : String :=
  match toks.find? (fun t => t.startsWith (key ++ "=")) with
  | some t => (t.drop (key.length + 1)).toString
  | none => ""

/-- fix = sum of: 1 fix of dependenciesCompleted (d60dce44), 2 fix of markShadowedUnits (9da4cc23), 4 graph stage index in the
tier2 request (7 = the repository at HEAD, 0 = the code before the three fixes) -/
def parseFix (s : String) : Patch := let n := nat! s; ⟨n % 2 == 1, (n / 2) % 2 == 1, (n / 4) % 2 == 1⟩

def parseRange (s : String) : Option Range :=
  if s == "nil" || s == "" then none else
  match s.splitOn "-" with
  | [a, b] => some ⟨nat! a, nat! b⟩
  | _ => none

/-- `S5,7;S25;M25` -/
def parseGraph (s : String) : List StageCfg :=
  if s == "-" || s == "" then [] else
  (s.splitOn ";").map fun t =>
    let kind := if t.startsWith "M" then Kind.map else Kind.store
    let rest := (t.drop 1).toString
    ⟨kind, (rest.splitOn ",").map nat!⟩

def parseFiles (s : String) : Files :=
  if s == "-" || s == "" then ⟨[], []⟩ else
  (s.splitOn ",").foldl (fun (acc : Files) t =>
    match t.splitOn ":" with
    | [hd, rng] =>
      match rng.splitOn "-" with
      | [a, b] =>
        if hd == "O" then { acc with outputs := acc.outputs ++ [⟨nat! a, nat! b⟩] }
        else
          let isP := hd.startsWith "P"
          match ((hd.drop 1).toString).splitOn "." with
          | [j, i] => { acc with stores := acc.stores ++ [⟨nat! j, nat! i, isP, nat! a, nat! b⟩] }
          | _ => acc
      | _ => acc
    | _ => acc) ⟨[], []⟩

/-- schedule: comma separated choices `<idx>` or `<idx>e` (ramp-up delay seen as elapsed) -/
def parseSched (s : String) : List (Nat × Bool) :=
  if s == "-" || s == "" then [] else
  (s.splitOn ",").map fun t =>
    if t.endsWith "e" then (nat! (t.dropEnd 1).toString, true) else (nat! t, false)

/-! ### rendering -/

def stChar : UnitState → Char
  | .pending => '.' | .partialPresent => 'P' | .scheduled => 'S' | .merging => 'M'
  | .completed => 'C' | .noOp => 'N' | .shadowed => 'Z'

def statesString (s : Stages) : String :=
  "/".intercalate <| (List.range s.nStages).map fun i =>
    let st := s.stageAt i
    (if st.kind = .map then "M:" else "S:") ++ String.ofList (s.states.map fun row => stChar (row.getD i .pending))

def fingerprint (s : Stages) : String :=
  s!"off={s.offset} sh={s.shadowable}" ++ String.join (s.stages.map fun st =>
    let k := if st.kind = .store then "S" else "M"
    s!" {k}[{st.seg.firstIndex}..{st.seg.lastIndex}]c={(st.next : Int) - 1}" ++
      String.join (st.mods.map fun m => s!",{(modSeg st m).firstIndex}:{m.lastBlock}:{if m.cached then 1 else 0}"))

def poolString (p : Pool) : String :=
  String.ofList (p.workers.map fun w => match w with | .free => 'F' | .working => 'W' | .initialWait => 'I')
    ++ (if p.rampup then "+r" else "")

def walkString : Option Walker → String
  | none => "-"
  | some w => s!"{w.seg.firstIndex}/{w.cur}/{w.seg.lastIndex}" ++ (if w.working then "w" else "")

def cmdTag : Cmd → Char
  | .batch _ => 'B' | .scheduleNextJob => 'N' | .allStoresCompleted => 'A' | .mergeNotReady _ => 'R'
  | .merge _ => 'G' | .downloadSegment => 'D' | .downloadCurrent _ => 'L' | .walkerCompleted => 'K'
  | .shutdown => 'Q' | .quit _ => 'X' | .tick => 'T' | .job _ _ _ => 'J'

def bagString (b : List Cmd) : String := if b.isEmpty then "-" else String.ofList (b.map cmdTag)

def insertKey (x : Nat × Nat × Nat) : List (Nat × Nat × Nat) → List (Nat × Nat × Nat)
  | [] => [x]
  | y :: ys =>
    if x.1 < y.1 || (x.1 == y.1 && (x.2.1 < y.2.1 || (x.2.1 == y.2.1 && x.2.2 < y.2.2))) then x :: y :: ys
    else y :: insertKey x ys
def sort3 (l : List (Nat × Nat × Nat)) : List (Nat × Nat × Nat) := l.foldl (fun acc x => insertKey x acc) []

def fullsString (f : Files) : String :=
  let l := sort3 ((f.stores.filter (!·.partial_)).map fun x => (x.stage, x.mod, x.stop))
  if l.isEmpty then "-" else ",".intercalate (l.map fun x => s!"{x.1}.{x.2.1}@{x.2.2}")

def outsString (f : Files) : String :=
  let l := sort3 (f.outputs.map fun x => (x.start, x.stop, 0))
  if l.isEmpty then "-" else ",".intercalate (l.map fun x => s!"{x.1}-{x.2.1}")

def record (st : State) : String :=
  match st.ended with
  | some (.panic _) => "PANIC"
  | _ =>
    s!"{statesString st.stages} {fingerprint st.stages} pool={poolString st.pool} walk={walkString st.walker} " ++
    s!"flags={if st.outDone then 1 else 0},{if st.storesDone then 1 else 0} bag={bagString st.bag} " ++
    s!"full={fullsString st.files} out={outsString st.files}"

def msgKind : Msg → String
  | .jobSucceeded u _ => s!"jobOK({u.seg},{u.stage})"
  | .jobFailed => "jobFailed"
  | .scheduleNextJob => "schedNext"
  | .mergeFinished u => s!"mergeFinished({u.seg},{u.stage})"
  | .mergeFailed u => s!"mergeFailed({u.seg},{u.stage})"
  | .mergeNotReady u => s!"mergeNotReady({u.seg},{u.stage})"
  | .allStoresCompleted => "allStores"
  | .fileNotPresent => "fileNotPresent"
  | .fileDownloaded => "fileDownloaded"
  | .downloadSegment => "dlSegment"
  | .walkerCompleted => "walkerCompleted"

/-- the description of a step, as the harness prints it -/
def stepKind (st : State) (idx : Nat) (elapsed : Bool) (st' : State) : String :=
  match st.bag[idx]? with
  | none => "noop"
  | some c =>
    match (exec { st with bag := st.bag.eraseIdx idx } c).2 with
    | .batch l => s!"batch{l.length}"
    | .quit e => if e then "quit:err" else "quit:nil"
    | .msg m =>
      let pre := (match c with | .tick => "tick" | _ => "") ++ msgKind m ++
        (match m with | .scheduleNextJob => (if elapsed then "+e" else "") | _ => "")
      match st'.ended with
      | some (.panic _) => pre ++ "!panic"
      | _ => pre ++ (if st'.bag.length > (st.bag.length - 1) then ">1" else ">0")

/-! ### FNV-1a 64 chained over the step lines -/
def fnvStep (h : UInt64) (s : String) : UInt64 :=
  s.toUTF8.foldl (fun h b => (h ^^^ b.toUInt64) * 1099511628211) h

def hexU64 (h : UInt64) : String :=
  String.ofList ((List.range 16).map fun i => hexChar ((h >>> (UInt64.ofNat (60 - 4 * i))).toNat % 16))

/-! ### the property's predicates evaluated on the model run (the harness evaluates them on the real code) -/

/-- full snapshots a tier2 job (graph stage `t`, segment start block `start`) loads and that do not exist -/
def missingDeps (c : Cfg) (f : Files) (t start : Nat) : List String :=
  ((List.range (min t c.graph.length)).flatMap fun j =>
    match c.graph[j]? with
    | some sc =>
      if sc.kind = .store then
        ((List.range sc.mods.length).filterMap fun i =>
          let init := sc.mods.getD i 0
          if init < start && !f.hasFull j i start init then some s!"{j}.{i}@{start}" else none)
      else []
    | none => [])

def newJob (st st' : State) : Option (WorkUnit × Nat) :=
  match st'.bag.getLast? with
  | some (.batch (.job u sb _ :: _)) => if st'.bag.length = st.bag.length then some (u, sb) else none
  | _ => none

structure Acc where
  st     : State
  h      : UInt64
  n      : Nat
  jobs   : List String
  merges : List String
  trace  : List String
  last   : String

def runSched (verbose : Bool) : List (Nat × Bool) → Acc → Acc
  | [], a => a
  | (idx, e) :: rest, a =>
    if a.st.ended.isSome || idx ≥ a.st.bag.length then a
    else
      let st' := step a.st idx e
      let kind := stepKind a.st idx e st'
      let rec_ := record st'
      let line := kind ++ " " ++ rec_
      let jobs := match a.st.bag[idx]? with
        | some .scheduleNextJob | some .tick =>
          (match newJob a.st st' with
           | some (u, sb) =>
             let seg := sb / a.st.cfg.interval
             let t := if a.st.fix.stageIdx then (a.st.stages.stageAt u.stage).idx else u.stage
             let miss := missingDeps a.st.cfg a.st.files t (seg * a.st.cfg.interval)
             a.jobs ++ [s!"({u.seg},{u.stage})" ++ (if miss.isEmpty then "ok" else "KO[" ++ "+".intercalate miss ++ "]")]
           | none => a.jobs)
        | _ => a.jobs
      let merges := if kind.startsWith "mergeFinished" then a.merges ++ [((kind.drop 13).toString.splitOn ">").headD ""] else a.merges
      runSched verbose rest
        { st := st', h := fnvStep a.h (line ++ "\n"), n := a.n + 1, jobs := jobs, merges := merges,
          trace := if verbose then a.trace ++ [line] else [], last := rec_ }

def endString (st : State) : String :=
  match st.ended with
  | none => if st.bag.isEmpty then "stuck" else "open"
  | some .quitNil => "quit:nil"
  | some .quitErr => "quit:err"
  | some (.panic _) => "panic"

def listOr (l : List String) : String := if l.isEmpty then "-" else ",".intercalate l

def runCase (toks : List String) : String :=
  let cfg : Cfg := {
    interval := nat! (kv toks "k"), buildStores := parseRange (kv toks "bs"), writeExecOut := parseRange (kv toks "we"),
    readExecOut := parseRange (kv toks "re"), graph := parseGraph (kv toks "st"), start := nat! (kv toks "start"),
    outIsIndex := kv toks "idx" == "1", outIsMap := kv toks "idx" != "1", outInit := nat! (kv toks "xi"),
    workers := nat! (kv toks "w") }
  let fix := parseFix (kv toks "fix")
  let verbose := kv toks "v" == "1"
  match init cfg fix (parseFiles (kv toks "files")) with
  | .error _ => "steps=0 end=panic:init"
  | .ok st0 =>
    let r0 := record st0
    let a := runSched verbose (parseSched (kv toks "sched"))
      { st := st0, h := fnvStep 14695981039346656037 (r0 ++ "\n"), n := 0, jobs := [], merges := [], trace := [r0], last := r0 }
    s!"steps={a.n} end={endString a.st} h={hexU64 a.h} jobs={listOr a.jobs} merges={listOr a.merges} last={a.last}" ++
      (if verbose then " trace=" ++ " || ".intercalate a.trace else "")

/-! ### exhaustive exploration of the model (all interleavings; visited set on the state) -/

partial def cmdKey : Cmd → String
  | .batch l => "B[" ++ ",".intercalate (l.map cmdKey) ++ "]"
  | .scheduleNextJob => "N" | .allStoresCompleted => "A"
  | .mergeNotReady _ => "R"
  | .merge u => s!"G({u.seg},{u.stage})"
  | .downloadSegment => "D" | .downloadCurrent seg => s!"L{seg}" | .walkerCompleted => "K"
  | .shutdown => "Q" | .quit e => if e then "X1" else "X0" | .tick => "T"
  | .job u sb w => s!"J({u.seg},{u.stage},{sb},{w})"

def insertStr (x : String) : List String → List String
  | [] => [x]
  | y :: ys => if x < y then x :: y :: ys else y :: insertStr x ys

def partialsString (f : Files) : String :=
  ",".intercalate ((sort3 ((f.stores.filter (·.partial_)).map fun x => (x.stage * 16 + x.mod, x.start, x.stop))).map
    fun x => s!"{x.1}@{x.2.1}-{x.2.2}")

/-- state identity used by the explorers (same abstraction as the harness, which cannot look inside a closure):
the bag as a multiset of command kinds -/
def stateKey (st : State) : String :=
  match st.ended with
  | some (.panic _) => "PANIC"
  | _ =>
  let bag := (st.bag.map fun c => String.singleton (cmdTag c)).foldl (fun acc x => insertStr x acc) []
  s!"{statesString st.stages} {fingerprint st.stages} {poolString st.pool} {walkString st.walker} " ++
  s!"{st.outDone},{st.storesDone} {"".intercalate bag} {fullsString st.files} {outsString st.files} " ++
  s!"{endString st}"

/-- Exploration order.  Commands that answer at once (batch, schedule-next-job, merge-not-ready, all-stores,
download-segment, walker-completed, shutdown, quit) are executed first, oldest first; the explored
nondeterminism is which LONG-RUNNING command answers next: a job, a merge, a file download, a timer.  The
ramp-up clock is part of the explored state: it may elapse at the start or at any timer event. -/
def isImmediate (c : Cmd) : Bool :=
  match c with
  | .job _ _ _ | .merge _ | .downloadCurrent _ | .tick => false
  | _ => true

def choicesOf (st : State) (clock : Bool) : List (Nat × Bool) :=
  match st.bag.findIdx? isImmediate with
  | some i => [(i, clock)]
  | none =>
    (List.range st.bag.length).flatMap fun i =>
      match st.bag[i]? with
      | some Cmd.tick => if clock then [(i, true)] else [(i, false), (i, true)]
      | some _ => [(i, clock)]
      | none => []

/-- lower-stage units of the previous segment that are neither Completed nor NoOp -/
def prevIncomplete (s : Stages) (u : WorkUnit) : List Nat :=
  (List.range u.stage).filter fun i => !s.previousUnitComplete ⟨u.seg, i⟩

partial def flatCmds : List Cmd → List Cmd
  | [] => []
  | .batch l :: rest => flatCmds l ++ flatCmds rest
  | c :: rest => c :: flatCmds rest

def stName : UnitState → String
  | .pending => "Pending" | .partialPresent => "PartialPresent" | .scheduled => "Scheduled" | .merging => "Merging"
  | .completed => "Completed" | .noOp => "NoOp" | .shadowed => "Shadowed"

def errClass : Err → String
  | .invalidTransition f t => s!"C05/invalid-transition/{stName f}-to-{stName t}"
  | .indexOutOfRange => "C05/panic/index-out-of-range"
  | .nilRange => "C05/panic/nil-dereference"
  | .mergeNotAfterComplete => "C05/panic/merge-before-previous-complete"
  | .noFreeWorker => "C05/panic/no-free-worker"
  | .workerAlreadyFree => "C05/panic/worker-returned-twice"
  | _ => "C05/panic/other"

/-- violations of the property's predicates caused by one step (same classes as the harness oracle) -/
def stepViolations (st : State) (idx : Nat) (st' : State) : List String :=
  let c := st.bag[idx]?
  let v1 := match st'.ended with
    | some (.panic e) => [errClass e]
    | some .quitErr => ["C05/quit-with-error"]
    | _ => []
  let v2 := match c with
    | some .scheduleNextJob | some .tick =>
      (match newJob st st' with
       | some (u, sb) =>
         let seg := sb / st.cfg.interval
         let t := if st.fix.stageIdx then (st.stages.stageAt u.stage).idx else u.stage
         let miss := missingDeps st.cfg st.files t (seg * st.cfg.interval)
         (if miss.isEmpty then [] else
           [if u.seg ≤ (st.stages.stageAt u.stage).seg.firstIndex then "C05/job-before-lower-stage-complete/first-segment-of-stage"
            else "C05/job-before-lower-stage-complete/lower-stage-previous-segment-incomplete"]) ++
         (if !st.fix.stageIdx && (st.stages.stageAt u.stage).idx ≠ u.stage then ["C05/stage-index-shift-when-store-stage-skipped"] else [])
       | none => [])
    | _ => []
  let v3 := match c with
    | some (.merge u) =>
      -- MsgMergeFinished(u) for a unit that is already Completed: the segment has been merged before
      (match (runMerge st.stages u st.files) with
       | some _ =>
         if st.stages.getState u.seg u.stage = .completed then ["C05/merge-twice"]
         else if u.seg ≠ (st.stages.stageAt u.stage).next then ["C05/merge-out-of-order"] else []
       | none => [])
    | _ => []
  let v4 := if st'.ended.isNone && st'.bag.isEmpty then ["C05/deadlock"] else []
  let v5 := match st'.ended with
    | some .quitNil =>
      (if st'.stages.allStoresCompleted then [] else ["C05/final/stores-not-completed"]) ++
      -- every requested output file is there: the walker's range; for a block-index output (no walker) the same
      -- range, `ReadOutSegmenter(initial block of the output module)`, of `.index` files
      (let outSeg : Option Segmenter := match st'.walker with
         | some w => some w.seg
         | none => match st'.cfg.readExecOut, st'.cfg.writeExecOut with
           | some _, some w => some ⟨st'.cfg.interval, max w.start st'.cfg.outInit, w.stop⟩
           | _, _ => none
       match outSeg with
       | some sg => if (List.range' sg.firstIndex (sg.lastIndex + 1 - sg.firstIndex)).all
            (fun i => match sg.range? i with | some r => st'.files.hasOutput r.start r.stop | none => true) then [] else ["C05/final/output-missing"]
       | none => []) ++
      (match st'.cfg.buildStores with
       | some b => if st'.stages.stages.all (fun sg => sg.kind != .store ||
            (List.range sg.mods.length).all fun i => let m := sg.mods.getD i default
              (m.lastBlock == b.stop && m.cached) || !(m.init < b.stop) || st'.files.hasFull sg.idx i b.stop m.init) then [] else ["C05/final/stores-not-at-handoff"]
       | none => [])
    | _ => []
  v1 ++ v2 ++ v3 ++ v4 ++ v5

/-- diagnostics that are not part of the property (model only, shown with v=1) -/
def stepDiagnostics (st : State) (idx : Nat) (st' : State) : List String :=
  match st.bag[idx]? with
  | some .scheduleNextJob | some .tick =>
    (match newJob st st' with
     | some (u, _) => if (prevIncomplete st'.stages u).isEmpty then [] else ["diag/job-with-previous-lower-unit-not-Completed"]
     | none => [])
  | some (.merge u) =>
    (if st.stages.getState u.seg u.stage ≠ .merging then ["diag/merge-finished-on-non-merging-unit"] else []) ++
    (if ((flatCmds st.bag).filter fun c => match c with | .merge u' => u' == u | _ => false).length > 1 then ["diag/two-merges-of-one-unit-in-flight"] else [])
  | _ => []

/-- candidate invariants for the progress proof, checked on every explored state (diagnostics, v=1) -/
def liveInvariants (st : State) : List String :=
  if st.ended.isSome then [] else
  let F := flatCmds st.bag
  let s := st.stages
  let nSt := s.nStages
  let segs := List.range' s.offset s.states.length
  let cells := segs.flatMap fun seg => (List.range nSt).map fun k => (seg, k)
  let hasJob := fun (seg k : Nat) => F.any fun c => match c with | .job u _ _ => u.seg == seg && u.stage == k | _ => false
  let hasMerge := fun (seg k : Nat) => F.any fun c => match c with | .merge u => u.seg == seg && u.stage == k | _ => false
  let c1 := if cells.all (fun p => s.getState p.1 p.2 != .scheduled || hasJob p.1 p.2) then [] else ["inv/C1-scheduled-without-job"]
  let c2 := if cells.all (fun p => s.getState p.1 p.2 != .merging || hasMerge p.1 p.2) then [] else ["inv/C2-merging-without-merge"]
  let c3 := if (List.range st.pool.workers.length).all (fun w => st.pool.workers.getD w .free != .working ||
      F.any fun c => match c with | .job _ _ w' => w' == w | _ => false) then [] else ["inv/C3-working-without-job"]
  let z := if cells.all (fun p => s.getState p.1 p.2 != .shadowed ||
      (p.2 + 1 < nSt && (let nx := s.getState p.1 (p.2 + 1); nx == .pending || nx == .scheduled || nx == .shadowed))) then []
    else ["inv/Z-shadow-chain-broken"]
  let m := if st.storesDone then [] else
    if (List.range nSt).all (fun i => match s.cmdTryMerge i with | .ok (_, .merge _) => false | _ => true) then []
    else ["inv/M-mergeable-stage-at-rest"]
  let hasN := F.any fun c => match c with | .scheduleNextJob => true | .tick => true | .job _ _ _ => true | _ => false
  let n := if hasN then [] else
    match s.nextJob st.fix with
    | .ok (_, none) => []
    | _ => ["inv/N-schedulable-without-token"]
  let nx := if (List.range nSt).all (fun i =>
      let sg := s.stageAt i
      sg.kind != .store || (decide (sg.seg.firstIndex ≤ sg.next) &&
        (List.range' sg.seg.firstIndex (sg.next - sg.seg.firstIndex)).all fun seg => s.getState seg i == .completed || s.getState seg i == .noOp)) then []
    else ["inv/next-prefix-not-complete"]
  let w3 := if st.storesDone then [] else
    if (F.any fun c => match c with | .allStoresCompleted => true | _ => false) || !s.allStoresCompleted then [] else ["inv/W3-all-complete-without-A"]
  let w2 := if st.outDone && st.storesDone && !(F.any fun c => match c with | .shutdown => true | .quit _ => true | _ => false) then ["inv/W2-both-flags-no-shutdown"] else []
  let w1 := match st.walker with
    | none => if st.outDone then [] else ["inv/W1-no-walker-not-done"]
    | some w => if st.outDone then [] else
      if w.working then (if F.any (fun c => match c with | .downloadCurrent _ => true | .walkerCompleted => true | _ => false) then [] else ["inv/W1a"])
      else (if F.any (fun c => match c with | .downloadSegment => true | _ => false) then [] else ["inv/W1b"])
  let idem := match s.nextJob st.fix with
    | .ok (s1, none) => (match s1.nextJob st.fix with | .ok (_, none) => [] | _ => ["inv/nextJob-not-idempotent"])
    | _ => []
  c1 ++ c2 ++ c3 ++ z ++ m ++ n ++ nx ++ w3 ++ w2 ++ w1 ++ idem

structure XState where
  visited : Std.HashMap String Nat := {}
  edges   : Array (List (Nat × Bool)) := #[]      -- (target, poll edge)
  term    : Array String := #[]
  viol    : List (String × List (Nat × Bool)) := []   -- class, first witness schedule
  trunc   : Bool := false
  diag    : Bool := false

def schedStr (p : List (Nat × Bool)) : String :=
  if p.isEmpty then "-" else ",".intercalate (p.map fun c => toString c.1 ++ (if c.2 then "e" else ""))

/-- unwrap every batch first (a batch hides its content from the state key) -/
partial def unwrapBatches (st : State) (clock : Bool) (path : List (Nat × Bool)) : State × List (Nat × Bool) :=
  if st.ended.isSome then (st, path) else
  match st.bag.findIdx? (fun c => match c with | .batch _ => true | _ => false) with
  | some i => unwrapBatches (step st i clock) clock (path ++ [(i, clock)])
  | none => (st, path)

partial def exploreFrom (budget : Nat) (st0 : State) (clock : Bool) (path0 : List (Nat × Bool)) (x : XState) : XState × Nat :=
  let (st, path) := unwrapBatches st0 clock path0
  let key := match st.ended with
    | some (.panic _) => "PANIC"
    | _ => stateKey st ++ (if clock then " clk" else "")
  match x.visited[key]? with
  | some id => (x, id)
  | none =>
    let id := x.edges.size
    let x := { x with visited := x.visited.insert key id, edges := x.edges.push [], term := x.term.push "" }
    let x := if x.diag then (liveInvariants st).foldl (fun (x : XState) v => if x.viol.any (·.1 == v) then x else { x with viol := x.viol ++ [(v, path)] }) x else x
    if st.ended.isSome || st.bag.isEmpty then ({ x with term := x.term.set! id (endString st) }, id)
    else if x.edges.size > budget then ({ x with trunc := true }, id)
    else
      let x := (choicesOf st clock).foldl (fun (x : XState) (c : Nat × Bool) =>
        let st' := step st c.1 c.2
        let p' := path ++ [c]
        let vs := stepViolations st c.1 st' ++ (if x.diag then stepDiagnostics st c.1 st' else [])
        let x := vs.foldl (fun (x : XState) v => if x.viol.any (·.1 == v) then x else { x with viol := x.viol ++ [(v, p')] }) x
        let kind := stepKind st c.1 c.2 st'
        let poll := kind.startsWith "fileNotPresent" ||
          ((kind.startsWith "schedNext>" || kind.startsWith "tickschedNext>") && !c.2 && kind.endsWith ">1" && st'.pool.rampup)
        let (x, to) := exploreFrom budget st' (clock || c.2) p' x
        { x with edges := x.edges.modify id (fun l => (to, poll) :: l) }) x
      (x, id)

/-- graph checks: a quit state is reachable from every state; no cycle of non-poll edges -/
def graphViolations (x : XState) : List String :=
  let n := x.edges.size
  -- backward reachability from quit:nil by fixpoint iteration
  let good0 : Array Bool := (Array.range n).map fun i => x.term[i]! == "quit:nil"
  let iter (good : Array Bool) : Array Bool := (Array.range n).map fun i =>
    good[i]! || (x.edges[i]!).any fun e => good[e.1]!
  let rec fix (k : Nat) (good : Array Bool) : Array Bool :=
    match k with
    | 0 => good
    | k + 1 => let g' := iter good; if g' == good then good else fix k g'
  let good := fix n good0
  let v1 := if (Array.range n).any (fun i => !good[i]! && x.term[i]! == "") then ["C05/no-termination/quit-unreachable"] else []
  -- cycle of non-poll edges: repeatedly remove nodes without non-poll successors among the remaining ones
  let rec peel (k : Nat) (alive : Array Bool) : Array Bool :=
    match k with
    | 0 => alive
    | k + 1 =>
      let a' := (Array.range n).map fun i => alive[i]! && (x.edges[i]!).any fun e => !e.2 && alive[e.1]!
      if a' == alive then alive else peel k a'
  let alive := peel n ((Array.range n).map fun _ => true)
  let v2 := if alive.any id then ["C05/no-termination/cycle-without-poll"] else []
  v1 ++ v2

def exploreCase (toks : List String) : String :=
  let cfg : Cfg := {
    interval := nat! (kv toks "k"), buildStores := parseRange (kv toks "bs"), writeExecOut := parseRange (kv toks "we"),
    readExecOut := parseRange (kv toks "re"), graph := parseGraph (kv toks "st"), start := nat! (kv toks "start"),
    outIsIndex := kv toks "idx" == "1", outIsMap := kv toks "idx" != "1", outInit := nat! (kv toks "xi"),
    workers := nat! (kv toks "w") }
  let fix := parseFix (kv toks "fix")
  let budget := if kv toks "budget" == "" then 200000 else nat! (kv toks "budget")
  match init cfg fix (parseFiles (kv toks "files")) with
  | .error e => s!"states=0 trunc=false viol={errClass e}/at-init"
  | .ok st0 =>
    let (x, _) := exploreFrom budget st0 false [] { diag := kv toks "v" == "1" }
    let (x, _) := if cfg.workers > 1 then exploreFrom budget st0 true [] x else (x, 0)
    let gv := if x.trunc then [] else graphViolations x
    let classes := (x.viol.map (·.1) ++ gv).foldl (fun acc v => insertStr v acc) []
    let detail := if kv toks "v" == "1" then " witness=" ++ ";".intercalate (x.viol.map fun p => p.1 ++ ":" ++ schedStr p.2) else ""
    s!"states={x.edges.size} trunc={x.trunc} viol={listOr classes}" ++ detail

def step (line : String) : String :=
  match words line with
  | "RUN" :: toks => runCase toks
  | "EXPLORE" :: toks => exploreCase toks
  | _ => "bad-op"
end C05D

def main : IO Unit := SVD.runLines C05D.step

import Driver.StoreProto
def main : IO Unit := SVD.runLines StoreProto.runHistory

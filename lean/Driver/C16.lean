import Model.Retry
import Generated.ConstsC16
import Driver.Common
import Driver.SysProto
/-! Driver for C16: one case per line in, one canonical line out (compared with harness/cmd/vh_c16).
The answers are computed by the model's own definitions at the constants / tables extracted from the
current source (`Generated/ConstsC16.lean`). -/
open SV.Retry SVD
namespace C16D

def parseCode? (s : String) : Option Code :=
  if s == "x" || s == "-" then none else some (Code.ofNum (nat! s))

def showCode? : Option Code → String
  | none => "x"
  | some c => toString c.num

/-- `<code|x>.<flags>`: bit 0 = the description says "service currently overloaded", bit 1 = it mentions
"DeadlineExceeded" -/
def parseErr (s : String) : RpcErr :=
  match s.splitOn "." with
  | [c, f] => let n := nat! f; ⟨parseCode? c, n % 2 == 1, (n / 2) % 2 == 1⟩
  | _ => ⟨none, false, false⟩

def parseEv (s : String) : Option RecvEv :=
  if s == "u" then some (.msg .update)
  else if s == "f" then some (.msg .failed)
  else if s == "c" then some (.msg .completed)
  else if s == "n" then some (.msg .other)
  else if s.startsWith "e" then some (.err (parseErr (s.drop 1).toString))
  else none

def parseEvs (s : String) : List RecvEv :=
  if s.isEmpty then [] else (s.splitOn ",").filterMap parseEv

def parseCtx (s : String) : Option CtxErr :=
  if s == "C" then some .canceled else if s == "D" then some .deadline else none

def parseCancel (s : String) : Option (CancelAt × CtxErr) :=
  match s.toList with
  | [] => none
  | p :: rest =>
    match rest.reverse with
    | [] => none
    | k :: midRev =>
      let mid := String.ofList midRev.reverse
      match parseCtx (String.singleton k) with
      | none => none
      | some c =>
        if p == 'f' then some (.factory, c)
        else if p == 'p' then some (.call, c)
        else if p == 'h' then some (.header, c)
        else if p == 'r' then some (.recv (nat! mid), c)
        else if p == 'x' then some (.close, c)
        else if p == 'b' then some (.backoff, c)
        else none

def parseAttempt (s : String) : Attempt :=
  if s == "F" then .factoryErr
  else if s.startsWith "C:" then .callErr (parseErr (s.drop 2).toString)
  else if s.startsWith "SH:" then .stream true (parseEvs (s.drop 3).toString)
  else if s.startsWith "S:" then .stream false (parseEvs (s.drop 2).toString)
  else .factoryErr

def parseStep (s : String) : Step :=
  match s.splitOn "@" with
  | [a, c] => ⟨parseAttempt a, parseCancel c⟩
  | _ => ⟨parseAttempt s, none⟩

def showResult : Result → String
  | .succeeded _ => "ok"
  | .failedCtx .canceled => "ctx:C"
  | .failedCtx .deadline => "ctx:D"
  | .failedStatus e => s!"status:{showCode? e.code}"
  | .failedRemote => "remote-failed"
  | .failedFactory => "factory"
  | .failedTimeouts _ => "timeouts"
  | .failedExhausted _ => "exhausted"
  | .stuck => "stuck"

def showMapped (m : Mapped) : String := s!"{m.code.num}/{m.native}"

def showRun (r : Run) : String :=
  let t1 := match r.result with
    | .succeeded _ => "-"
    | .stuck => "-"
    | res => showMapped (mapErr SV.C16.Gen.tier1Table .none res.feat)
  s!"{showResult r.result} attempts={r.attempts} tier1={t1}"

def parseFeat (g k bits : String) : ErrFeat :=
  let b := bits.toList.map (· == '1')
  { grpc := parseCode? (g.drop 1).toString, connect := parseCode? (k.drop 1).toString,
    canceled := b.getD 0 false, deadline := b.getD 1 false, storeMax := b.getD 2 false,
    wasmDet := b.getD 3 false, invalidArg := b.getD 4 false }

def parseCause (s : String) : Cause :=
  if s == "s" then .shuttingDown else if s == "o" then .other else .none

def plainFault : OStep := ⟨.retryable ⟨none, false, false⟩, none, none⟩

def step (line : String) : String :=
  match words line with
  | "W" :: c0 :: steps =>
    showRun (workLoop SV.C16.Gen.cfg (parseCtx c0) (steps.map parseStep))
  | ["R", n, k, fin] =>
    -- derr.RetryContext(ctx, n, f) with f failing k times and then ending with `fin`
    let final : OStep := if fin == "ok" then ⟨.ok false, none, none⟩ else ⟨.fatalFactory, none, none⟩
    let r := loop (nat! n) 1 0 0 0 ((List.replicate (nat! k) plainFault) ++ [final])
    let res := match r.result with
      | .succeeded _ => "ok"
      | .failedExhausted _ => "exhausted"
      | .failedFactory => "fatal"
      | _ => "other"
    s!"{res} attempts={r.attempts}"
  | ["T2", g, k, bits, cause] =>
    let m := mapErr SV.C16.Gen.tier2Table (parseCause cause) (parseFeat g k bits)
    s!"code={m.code.num} native={m.native}"
  | ["T1", g, k, bits, cause] =>
    let m := mapErr SV.C16.Gen.tier1Table (parseCause cause) (parseFeat g k bits)
    s!"code={m.code.num} native={m.native} client={m.clientCode.num}"
  | ["E2E", t2ctx, nf] =>
    -- a module fails on tier 2 (its context alive / dead), after `nf` transient faults
    -- t2ctx: "-" | "C" | "D" (runtime error) or "p-" | "pC" | "pD" (the module panicked)
    let panicked := t2ctx.startsWith "p"
    let c2 := (mapErr SV.C16.Gen.tier2Table .none (moduleFailureP panicked (parseCtx (if panicked then (t2ctx.drop 1).toString else t2ctx)))).code
    let fault : Step := ⟨.stream false [.err (statusErr .unavailable)], none⟩
    let failing : Step := ⟨.stream false [.msg .update, .err (statusErr c2)], none⟩
    let fine : Step := ⟨.stream false [.msg .update], none⟩
    let r := workLoop SV.C16.Gen.cfg none (List.replicate (nat! nf) fault ++ [failing, fine])
    s!"t2={c2.num} {showRun r}"
  | ["BUF", scenario, n] =>
    -- the real ProcessRange behind a real gRPC server; the same answer on every attempt, the harness ends the
    -- job when attempt n+1 starts
    let ret : Option Tier2Return :=
      if scenario == "missing-modules" then some (.direct .invalidArgument false)
      else if scenario == "invalid-request" then some (.direct .invalidArgument false)
      else if scenario == "bad-init-block" then some (.mapped .none { invalidArg := true })
      else if scenario == "bad-store-url" then some (.mapped .none {})
      else if scenario == "overloaded" then
        some (.direct SV.C16.Gen.overloadCode (hasInfix SV.C16.Gen.overloadNeedle SV.C16.Gen.overloadMessage))
      else none
    match ret with
    | none => "bad-scenario"
    | some ret =>
      let e := transport SV.C16.Gen.tier2Table ret
      let k := nat! n
      let stop : Step := ⟨.factoryErr, some (.factory, .canceled)⟩
      let r := workLoop SV.C16.Gen.cfg none (List.replicate k ⟨.stream false [.err e], none⟩ ++ [stop])
      let seen := s!"seen={showCode? e.code}/{e.textOverloaded}"
      if r.result == .failedFactory && r.attempts == k + 1 then s!"{seen} still-retrying attempts={k} tier1=-"
      else s!"{seen} {showRun r}"
  | ["SLEEP", n] => " ".intercalate ((backoffSeconds (nat! n)).map toString)
  | _ => "bad-op"

end C16D

def main : IO Unit := runLines fun line => if line.startsWith "LIN " then SysProto.step line else C16D.step line

import Model.Validate
import Driver.Common
/-! Driver for C17: one wire-level request per line in, the model's verdict out.

Line: `REQ bt=<s> fs=<n> seg=<n> fin=<n|e> head=<n|e> rc=<e|n|j<n>> out=<s> start=<int> stop=<n> prod=<0|1>
cur=<-|b<s>|c<step>.<block>.<lib>> dbg=<-|s+s+…> bins=<x|-|type~len|…> M=<-|module|module|…>`
module = `name,kind,binaryIndex,initialBlock,filter,inputs`, kind `-|m|s|i`, filter `-` or `<module>~<n|s|p>`,
inputs `-` or `/`-separated `n | p<value> | r<type> | m<name> | t<mode>~<name>`.
Strings: bytes outside `[A-Za-z0-9_:.]` are written `%XX`. -/
open SV.Val SVD

def decStr (s : String) : Str :=
  let rec go : List Char → Str
    | '%' :: a :: b :: r => UInt8.ofNat (hexDigit a * 16 + hexDigit b) :: go r
    | c :: r => UInt8.ofNat c.toNat :: go r
    | [] => []
  go s.toList

def encByte (b : UInt8) : List Char :=
  let c := Char.ofNat b.toNat
  if c.isAlphanum || c == '_' || c == ':' || c == '.' then [c]
  else ['%', (hexChar (b.toNat / 16)).toUpper, (hexChar (b.toNat % 16)).toUpper]

def encStr (s : Str) : String := String.ofList (s.flatMap encByte)

def int! (s : String) : Int := s.toInt?.getD 0

def parseInput (s : String) : Option InputK :=
  match s.toList with
  | 'n' :: _ => none
  | 'p' :: r => some (.params (decStr (String.ofList r)))
  | 'r' :: r => some (.source (decStr (String.ofList r)))
  | 'm' :: r => some (.map (decStr (String.ofList r)))
  | 't' :: r =>
    match (String.ofList r).splitOn "~" with
    | [mode, nm] => some (.store (decStr nm) (int! mode))
    | _ => none
  | _ => none

def parseFilter (s : String) : Option BlockFilter :=
  if s == "-" then none else
  match s.splitOn "~" with
  | [m, q] => some ⟨decStr m, if q == "s" then some .str else if q == "p" then some .fromParams else none⟩
  | _ => none

def parseModule (s : String) : Module :=
  match s.splitOn "," with
  | [nm, k, bi, ib, f, ins] =>
    { name := decStr nm
      kind := if k == "m" then some .map else if k == "s" then some .store else if k == "i" then some .blockIndex else none
      binaryIndex := nat! bi
      initialBlock := nat! ib
      blockFilter := parseFilter f
      inputs := if ins == "-" then [] else (ins.splitOn "/").map parseInput }
  | _ => ⟨[], none, 0, [], 0, none⟩

def parseBinary (s : String) : Binary :=
  match s.splitOn "~" with
  | [t, l] => ⟨decStr t, nat! l⟩
  | _ => ⟨[], 0⟩

def parseCursor (s : String) : Cursor :=
  match s.toList with
  | 'c' :: r =>
    match (String.ofList r).splitOn "." with
    | [a, b, c] => .valid (nat! a) (nat! b) (nat! c)
    | _ => .invalid
  | 'b' :: _ => .invalid
  | _ => .none

def field (kv : List (String × String)) (k : String) : String :=
  match kv.find? (·.1 == k) with
  | some p => p.2
  | none => ""

def parseLine (ws : List String) : Request × Cfg :=
  let kv := ws.map fun w => match w.splitOn "=" with
    | k :: rest => (k, "=".intercalate rest)
    | [] => ("", "")
  let f := field kv
  let optNat (s : String) : Option Nat := if s == "e" then none else some (nat! s)
  let cfg : Cfg :=
    { blockType := decStr (f "bt"), firstStreamable := nat! (f "fs"), segmentSize := nat! (f "seg")
      recentFinal := optNat (f "fin"), headBlock := optNat (f "head")
      resolve := match (f "rc").toList with
        | 'j' :: r => .junction (nat! (String.ofList r))
        | 'n' :: _ => .noJunction
        | _ => .err }
  let bins := f "bins"
  let mods : Option Modules :=
    if bins == "x" then none
    else some
      { binaries := if bins == "-" then [] else (bins.splitOn "|").map parseBinary
        modules := if f "M" == "-" then [] else ((f "M").splitOn "|").map parseModule }
  let req : Request :=
    { modules := mods, outputModule := decStr (f "out"), startBlockNum := int! (f "start")
      stopBlockNum := nat! (f "stop"), startCursor := parseCursor (f "cur")
      productionMode := f "prod" == "1"
      debugSnapshots := if f "dbg" == "-" then [] else ((f "dbg").splitOn "+").map decStr }
  (req, cfg)

def showStage : Stage → String
  | .validate => "validate" | .graph => "graph" | .details => "details"
  | .checks => "checks" | .plan => "plan" | .upto => "upto" | .done => "done"

def sortStrs (l : List String) : List String := l.mergeSort (fun a b => decide (a ≤ b))

def showNames (ms : List Module) : String := "+".intercalate (sortStrs (ms.map fun m => encStr m.name))

def showRange : Option (Nat × Nat) → String
  | none => "nil"
  | some (a, b) => s!"{a}-{b}"

def showOptNat : Option Nat → String
  | none => "nil"
  | some a => toString a

def showSummary (s : Summary) : String :=
  let stages := ";".intercalate (s.graph.stages.map fun st => ",".intercalate (st.map showNames))
  s!"ok used={showNames s.graph.used} stages={stages} low={s.graph.lowestInit} lows={showOptNat s.graph.lowestStoresInit} start={s.details.start} handoff={s.details.handoff} stores={showRange s.plan.buildStores} write={showRange s.plan.writeExecOut} read={showRange s.plan.readExecOut} linear={showRange s.plan.linear}"

def step (line : String) : String :=
  match words line with
  | "REQ" :: rest =>
    let (req, cfg) := parseLine rest
    match pipelineStaged req cfg with
    | (_, .ok s) => showSummary s
    | (st, .error) => s!"error@{showStage st}"
    | (st, .panic) => s!"panic@{showStage st}"
    | (st, .hang) => s!"hang@{showStage st}"
  | "T2" :: rest =>
    -- T2 bt= fs= seg= segnum= stage= stopnum= mc= ss= mbs= out= bins= M=
    let kv := rest.map fun w => match w.splitOn "=" with
      | k :: r => (k, "=".intercalate r)
      | [] => ("", "")
    let f := field kv
    let (req, _) := parseLine rest
    let r : T2Request :=
      { modules := req.modules, outputModule := req.outputModule, blockType := decStr (f "bt"), stage := nat! (f "stage")
        segmentSize := nat! (f "seg"), segmentNumber := nat! (f "segnum"), firstStreamable := nat! (f "fs")
        stopBlockNum := nat! (f "stopnum"), meteringConfig := f "mc" == "1", stateStore := f "ss" == "1"
        mergedBlocksStore := f "mbs" == "1" }
    match pipelineTier2Staged r with
    | (_, .ok s) =>
      let stages := ";".intercalate (s.graph.stages.map fun st => ",".intercalate (st.map showNames))
      s!"ok used={showNames s.graph.used} stages={stages} upto={showNames s.upTo}"
    | (st, .error) => s!"error@{showStage st}"
    | (st, .panic) => s!"panic@{showStage st}"
    | (st, .hang) => s!"hang@{showStage st}"
  | _ => "bad-op"

def main : IO Unit := runLines step

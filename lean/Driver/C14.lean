import Model.Graph
import Driver.Common
/-!
Driver for C14.  Case line:

    <op> <output module> <production 0|1> <firstStreamableBlock> <modules>

`op` = `V` (ValidateModules, then NewOutputModuleGraph) or `R` (NewOutputModuleGraph alone).
`modules` = `-` or `;`-separated `name:kind:init:filter:inputs`, kind ∈ M S I, filter = `-` or a module
name, inputs = `-` or `,`-separated `s=<type>` `m=<map>` `g=<store get>` `d=<store deltas>`
`u=<store, mode unset>` `p=<params value>`.

Answer: `err:<kind>`, `hang`, or the canonical rendering of the graph; every list is printed in the
order of the request's module list (the harness sorts the real code's lists the same way).
-/
open SV.Graph SVD

def parseInput (s : String) : Input :=
  match s.splitOn "=" with
  | [k, v] =>
    if k == "s" then .source v
    else if k == "m" then .map v
    else if k == "g" then .store v .get
    else if k == "d" then .store v .deltas
    else if k == "u" then .store v .unset
    else .params v
  | _ => .params s

def parseModule (s : String) : Module :=
  match s.splitOn ":" with
  | [n, k, i, f, ins] =>
    { name := n
      kind := if k == "S" then .store else if k == "I" then .index else .map
      initialBlock := nat! i
      blockFilter := if f == "-" then none else some f
      inputs := if ins == "-" then [] else (ins.splitOn ",").map parseInput }
  | _ => { name := s, kind := .map, inputs := [], blockFilter := none, initialBlock := 0 }

def parseModules (s : String) : List Module :=
  if s == "-" then [] else (s.splitOn ";").map parseModule

def showNames (l : List String) : String := if l.isEmpty then "-" else ",".intercalate l
def showMods (l : List Module) : String := showNames (names l)

def showErr : Err → String
  | .validate => "err:validate"
  | .cycle => "err:cycle"
  | .noModule => "err:no-module"
  | .initBelowFirst => "err:init-below-first"
  | .noInput => "err:no-input"

def showOutcome : Outcome → String
  | .hang => "hang"
  | .error e => showErr e
  | .ok g =>
    let stages := "/".intercalate (g.stages.map fun st => "|".intercalate (st.map showMods))
    let init := ",".intercalate (g.initBlocks.map fun (n, b) => s!"{n}:{b}")
    let ls := match g.lowestStoresInit with
      | none => "nil"
      | some b => toString b
    let anc := ";".intercalate (g.ancestors.map fun (n, a) => s!"{n}:{showNames a}")
    s!"ok used={showMods g.used} init={init} stages={stages} lowest={g.lowestInit} lowestStores={ls} stores={showMods g.stores} sched={showMods g.schedulable} anc={if g.ancestors.isEmpty then "-" else anc}"

def step (line : String) : String :=
  match words line with
  | [op, out, prod, fsb, ms] =>
    let mods := parseModules ms
    if op == "V" then showOutcome (validateThenGraph mods out (prod == "1") (nat! fsb))
    else if op == "R" then showOutcome (computeGraph mods out (prod == "1") (nat! fsb))
    else "bad-op"
  | _ => "bad-op"

def main : IO Unit := runLines step

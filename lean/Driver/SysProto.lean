import Model.Linear
import Model.Deliver
import Driver.Common
/-! Protocol of the system-level checks (C01, C07, …): the world (module scripts) travels as the text the
Go harness also puts into the package's binary (harness/sys/spec.go Encode). -/
open SV SV.Lin SVD

namespace SysProto

def bytesOf (s : String) : Bytes := s.toUTF8.toList
def unhexS (s : String) : Bytes := unhex s

def parseIK : String → IK
  | "source" => .source | "clock" => .clock | "params" => .params | "map" => .map | "get" => .get | _ => .deltas

def parseTK : String → TK
  | "set" => .set | "sine" => .sine | "app" => .app | "del" => .del | "sum" => .sum | "max" => .max
  | "min" => .min | "ssumset" => .ssumset | _ => .ssumsum

def parsePolicy : String → Policy
  | "set" => .set | "sine" => .setIfNotExists | "add" => .add | "min" => .min | "max" => .max
  | "append" => .append | "setsum" => .setSum | _ => .unset
def parseVT : String → VT
  | "int64" => .int64 | "bigint" => .bigint | "bigdecimal" => .bigdecimal | "float64" => .float64 | _ => .bytes

def int! (s : String) : Int := s.toInt?.getD 0

def listOf (s : String) : List String := if s == "-" then [] else s.splitOn ","

def parseMod (s : String) : Option ModSpec :=
  match s.splitOn ":" with
  | [name, kind, ini, ins, filter, er, skip, fail, pol, ops, keys] =>
    let inputs := (listOf ins).filterMap fun i => match i.splitOn "=" with
      | [k, r] => some (⟨parseIK k, unhexS r⟩ : InputSpec)
      | _ => none
    let (fm, fq) : Bytes × Bytes := match filter.splitOn "=" with
      | [m, q] => (bytesOf m, unhexS q)
      | _ => ([], [])
    let (every, rem) : Nat × Nat := match er.splitOn "/" with
      | [a, b] => (nat! a, nat! b)
      | _ => (1, 0)
    let (policy, vt) : Policy × VT := match pol.splitOn "/" with
      | [a, b] => (parsePolicy a, parseVT b)
      | _ => (.unset, .bytes)
    let opl := (listOf ops).filterMap fun o => match o.splitOn "/" with
      | [k, ord, kb, km, mul, add, m, r] => some (⟨parseTK k, nat! ord, unhexS kb, nat! km, int! mul, int! add, nat! m, nat! r⟩ : OpTmpl)
      | _ => none
    let keyl := (listOf keys).filterMap fun k => match k.splitOn "/" with
      | [key, m, r] => some (⟨unhexS key, nat! m, nat! r⟩ : KeyTmpl)
      | _ => none
    some { name := bytesOf name, kind := (match kind with | "map" => .map | "store" => .store | _ => .index),
           init := nat! ini, inputs := inputs, filterMod := fm, filterQ := fq, every := every, rem := rem,
           skipEmpty := skip == "1", failAt := (if fail.startsWith "-" then none else some (nat! fail)),
           policy := policy, vt := vt, ops := opl, keys := keyl }
  | _ => none

def parseWorld (s : String) : World := (s.splitOn ";").filterMap parseMod

/-- the harness normalises the `set:`/`sum:` tag that raw set_sum values show in the digest of a deltas
input (known finding C01/set_sum-tag-visible-in-deltas): "7365743a" ↦ "73756d3a" in the payload text -/
def normTag : Bytes → Bytes
  | 55 :: 51 :: 54 :: 53 :: 55 :: 52 :: 51 :: 97 :: rest => [55, 51, 55, 53, 54, 100, 51, 97] ++ normTag rest
  | c :: rest => c :: normTag rest
  | [] => []

def showStream (l : List (Nat × Option Bytes)) : String :=
  " ".intercalate (l.filterMap fun p => match p.2 with
    | some v => if v.isEmpty then none else some s!"{p.1}={hex (normTag v)}"
    | none => none)

/-- `LIN <maxDepth> <world> <output> <start> <stop> …` → the non-empty outputs of the linear specification -/
def step (line : String) : String :=
  match words line with
  | "LIN" :: md :: world :: output :: start :: stop :: _ =>
    let (l, failed) := linearSpec (parseWorld world) (nat! md) (bytesOf output) (nat! start) (nat! stop)
    showStream l ++ (match failed with | some b => s!" fail@{b}" | none => "")
  | "DLV" :: md :: world :: output :: start :: stop :: handoff :: rest =>
    -- delivered data messages of the request: `num` or `num e` (empty payload) plus the payloads' digest
    let (l, failed) := linearSpec (parseWorld world) (nat! md) (bytesOf output) (nat! start) (nat! stop)
    let msgs := deliver l ⟨nat! start, nat! stop, nat! handoff⟩
    -- a failing production request delivers some prefix of this (whole segments only): the harness checks
    -- the prefix property on the real messages, the correspondence compares the failing block
    if failed.isSome && rest.contains "prod=true" then (match failed with | some b => s!"fail@{b}" | none => "") else
    " ".intercalate (msgs.map fun m => if m.payload.isEmpty then s!"{m.num}e" else s!"{m.num}={hex (normTag m.payload)}") ++
      (match failed with | some b => s!" fail@{b}" | none => "")
  | _ => "bad-op"

end SysProto

import Model.Linear
import Model.Deliver
import Model.Forks
import Driver.Common
/-! Protocol of the system-level checks (C01, C07, …): the world (module scripts) travels as the text the
Go harness also puts into the package's binary (harness/sys/spec.go Encode). -/
open SV SV.Lin SV.Fk SVD

namespace SysProto

def bytesOf (s : String) : Bytes := s.toUTF8.toList
def unhexS (s : String) : Bytes := unhex s

def parseIK : String → IK
  | "source" => .source | "clock" => .clock | "params" => .params | "map" => .map | "get" => .get | _ => .deltas

def parseTK : String → TK
  | "set" => .set | "sine" => .sine | "app" => .app | "del" => .del | "sum" => .sum | "max" => .max
  | "min" => .min | "ssumset" => .ssumset | "burst" => .burst | _ => .ssumsum

def parsePolicy : String → Policy
  | "set" => .set | "sine" => .setIfNotExists | "add" => .add | "min" => .min | "max" => .max
  | "append" => .append | "setsum" => .setSum | _ => .unset
def parseVT : String → VT
  | "int64" => .int64 | "bigint" => .bigint | "bigdecimal" => .bigdecimal | "float64" => .float64 | _ => .bytes

def int! (s : String) : Int := s.toInt?.getD 0

def listOf (s : String) : List String := if s == "-" then [] else s.splitOn ","

def parseMod (s : String) : Option ModSpec :=
  match s.splitOn ":" with
  | [name, kind, ini, ins, filter, er, skip, fail, pol, ops, keys] =>
    let inputs := (listOf ins).filterMap fun i => match i.splitOn "=" with
      | [k, r] => some (⟨parseIK k, unhexS r⟩ : InputSpec)
      | _ => none
    let (fm, fq) : Bytes × Bytes := match filter.splitOn "=" with
      | [m, q] => (bytesOf m, unhexS q)
      | _ => ([], [])
    let (every, rem) : Nat × Nat := match er.splitOn "/" with
      | [a, b] => (nat! a, nat! b)
      | _ => (1, 0)
    let (policy, vt) : Policy × VT := match pol.splitOn "/" with
      | [a, b] => (parsePolicy a, parseVT b)
      | _ => (.unset, .bytes)
    let opl := (listOf ops).filterMap fun o => match o.splitOn "/" with
      | [k, ord, kb, km, mul, add, m, r] => some (⟨parseTK k, nat! ord, unhexS kb, nat! km, int! mul, int! add, nat! m, nat! r⟩ : OpTmpl)
      | _ => none
    let keyl := (listOf keys).filterMap fun k => match k.splitOn "/" with
      | [key, m, r] => some (⟨unhexS key, nat! m, nat! r⟩ : KeyTmpl)
      | _ => none
    some { name := bytesOf name, kind := (match kind with | "map" => .map | "store" => .store | _ => .index),
           init := nat! ini, inputs := inputs, filterMod := fm, filterQ := fq, every := every, rem := rem,
           skipEmpty := skip == "1", failAt := (if fail.startsWith "-" then none else some (nat! fail)),
           policy := policy, vt := vt, ops := opl, keys := keyl }
  | _ => none

def parseWorld (s : String) : World := (s.splitOn ";").filterMap parseMod

/-! the harness normalises the `set:`/`sum:` tag that raw set_sum values show in the digest of a deltas
input (known finding C01/set_sum-tag-visible-in-deltas): hex^k("set:") ↦ hex^k("sum:") in the payload text -/

/-- replace every (left-most, non-overlapping) occurrence of `pat` by `rep`; `skip` = bytes of a match still to drop -/
def replaceAllB (pat rep : Bytes) : Nat → Bytes → Bytes
  | _, [] => []
  | skip + 1, _ :: rest => replaceAllB pat rep skip rest
  | 0, c :: rest =>
    if pat ≠ [] ∧ pat.isPrefixOf (c :: rest) then rep ++ replaceAllB pat rep (pat.length - 1) rest
    else c :: replaceAllB pat rep 0 rest

/-- hex^k of a byte string (the digest renders values in hex, and embeds digests in hex again) -/
def hexK : Nat → Bytes → Bytes
  | 0, b => b
  | k + 1, b => hexK k (hexv b)

/-- every nesting level 6 … 1 of the tag, deepest first (as `sys.NormTag` of the harness) -/
def normTag (p : Bytes) : Bytes :=
  [6, 5, 4, 3, 2, 1].foldl (fun acc k => replaceAllB (hexK k pfxSet) (hexK k pfxSum) 0 acc) p

def showStream (l : List (Nat × Option Bytes)) : String :=
  " ".intercalate (l.filterMap fun p => match p.2 with
    | some v => if v.isEmpty then none else some s!"{p.1}={hex (normTag v)}"
    | none => none)

/-- `LIN <maxDepth> <world> <output> <start> <stop> …` → the non-empty outputs of the linear specification -/
def step (line : String) : String :=
  match words line with
  | "LIN" :: md :: world :: output :: start :: stop :: rest =>
    let (l, failed) := linearSpec (parseWorld world) (nat! md) (bytesOf output) (nat! start) (nat! stop)
    -- "failonly": a failing production request delivers whole segments only; the harness checks the prefix on the
    -- real messages, the correspondence compares the failing block
    if failed.isSome && rest.contains "failonly" then (match failed with | some b => s!"fail@{b}" | none => "") else
    showStream l ++ (match failed with | some b => s!" fail@{b}" | none => "")
  | "DLV" :: md :: world :: output :: start :: stop :: handoff :: rest =>
    -- delivered data messages of the request: `num` or `num e` (empty payload) plus the payloads' digest
    let (l, failed) := linearSpec (parseWorld world) (nat! md) (bytesOf output) (nat! start) (nat! stop)
    let msgs := deliver l ⟨nat! start, nat! stop, nat! handoff⟩
    -- a failing production request delivers some prefix of this (whole segments only): the harness checks
    -- the prefix property on the real messages, the correspondence compares the failing block
    if failed.isSome && rest.contains "prod=true" then (match failed with | some b => s!"fail@{b}" | none => "") else
    " ".intercalate (msgs.map fun m => if m.payload.isEmpty then s!"{m.num}e" else s!"{m.num}={hex (normTag m.payload)}") ++
      (match failed with | some b => s!" fail@{b}" | none => "")
  | "FRK" :: md :: world :: output :: handoff :: gate :: stop :: steps =>
    -- steps: kind:num:idhex:jnum:jidhex …  answer: the stores after every step, then the messages
    let w := parseWorld world
    let cfg : FCfg := ⟨w, nat! md, bytesOf output, nat! gate, nat! stop⟩
    let used := usedMods w (bytesOf output)
    let parseStep (s : String) : Option FStep := match s.splitOn ":" with
      | [k, n, i, jn, ji] =>
        let kind : StepKind := match k with
          | "new" => .new | "newfinal" => .newFinal | "undo" => .undo | "stalled" => .stalled | _ => .final
        some ⟨kind, nat! n, unhexS i, nat! jn, unhexS ji⟩
      | _ => none
    let showStores (st : LState) : String :=
      ",".intercalate ((used.filter (fun m => m.kind == .store)).map fun m =>
        let s := getStore st m.name
        (String.ofList (m.name.map fun c => Char.ofNat c.toNat)) ++ "{" ++
          ",".intercalate ((sortByKey s.kv).map fun q =>
            let v := if isPrefix pfxSet q.2 then pfxSum ++ q.2.drop 4 else q.2   -- tag normalised as in the harness
            s!"{hex q.1}={hex v}") ++ "}#" ++ toString s.size)
    -- the stores as back-filled up to the hand-off: the linear execution of the blocks below it
    let lowest := used.foldl (fun acc m => min acc m.init) (nat! handoff)
    let st0 := (runBlocks used (nat! md) (nat! handoff - lowest) lowest ⟨[]⟩).st
    let init : FState := ⟨st0, [], none, false, [], false⟩
    let (fs, outs) := (steps.filterMap parseStep).foldl (fun (acc : FState × List String) s =>
      let fs' := stepF cfg acc.1 s
      (fs', (if fs'.ended then "end" else showStores fs'.st) :: acc.2)) (init, [])
    let showMsg : FMsg → String
      | .data n i p => s!"{n}:{hex i}=" ++ (if p.isEmpty then "-" else hex (normTag p))
      | .undo n i => s!"U{n}:{hex i}"
    " | ".intercalate outs.reverse ++ " || " ++ " ".intercalate (fs.msgs.map showMsg)
  | _ => "bad-op"

end SysProto

import Model.Plan
import Driver.Common
/-!
Driver for C12: one case per line in, one canonical line out (compared with the Go harness vh_c12).

    P <mode p|d> <seg> <fsb> <start int> <stop> <final n|-> <head n|-> <outInit> <stores a,b,c|->
      <cursor -|bad|step:bn.bi:ln.li:hn.hi> <resolver -|err|nil:hn.hi|jn.ji:hn.hi> [ignored layout tokens]
-/
open SV SVD SV.Resolve SV.Plan

def showRange (r : Range) : String := s!"[{r.start},{r.stop})"
def showORange : Option Range → String
  | none => "nil"
  | some r => showRange r

def showRef (b : BlockRef) : String := s!"{b.num}.{b.id}"
def showStep : Step → String
  | .new => "n" | .undo => "u" | .irreversible => "i" | .newIrreversible => "ni"
def showCursor (c : Cursor) : String :=
  s!"{showStep c.step}:{showRef c.block}:{showRef c.lib}:{showRef c.head}"
def showOCursor : Option Cursor → String
  | none => "-"
  | some c => showCursor c
def showUndo : Option Undo → String
  | none => "-"
  | some u => s!"{showRef u.lastValid}@{showCursor u.cursor}"

def optNat (s : String) : Option Nat := if s == "-" then none else s.toNat?

def parseRef (s : String) : BlockRef :=
  match s.splitOn "." with
  | [a, b] => ⟨nat! a, nat! b⟩
  | _ => ⟨0, 0⟩

def parseStep (s : String) : Step :=
  if s == "n" then .new else if s == "u" then .undo else if s == "i" then .irreversible else .newIrreversible

def parseCursor (s : String) : CursorArg :=
  if s == "-" then .none
  else if s == "bad" then .malformed
  else match s.splitOn ":" with
    | [st, b, l, h] => .some ⟨parseStep st, parseRef b, parseRef l, parseRef h⟩
    | _ => .malformed

def parseResolver (s : String) : ResolverAnswer :=
  if s == "-" || s == "err" then .error
  else match s.splitOn ":" with
    | [j, h] => .ok (if j == "nil" then none else some (parseRef j)) (parseRef h)
    | _ => .error

def parseStores (s : String) : List Nat :=
  if s == "-" then [] else (s.splitOn ",").map nat!

def showUnit : Nat × Plan.UnitOutcome → String
  | (i, .job r) => s!"{i}{showRange r}"
  | (i, .nilRange) => s!"{i}!nil"
  | (i, .noJob) => s!"{i}-"

/-- count, first and last unit of a stage -/
def showUnits (l : List (Nat × Plan.UnitOutcome)) : String :=
  match l, l.getLast? with
  | f :: _, some la => s!"{l.length}:{showUnit f}..{showUnit la}"
  | _, _ => "0"

def showSegmenter : Option Segmenter → String
  | none => "nil"
  | some s => s!"{s.init}-{s.end_}"

def showReadOut : Option Segmenter → String
  | none => "nil"
  | some s => s!"{s.firstIndex}-{s.lastIndex}:{showORange (s.range? s.firstIndex)}:{showORange (s.range? s.lastIndex)}"

/-- output token: `<n>` a mapper with initial block n, `s<n>` a store -/
def parseOut (s : String) : Nat × Bool :=
  if s.startsWith "s" then (nat! (s.drop 1).toString, true) else (nat! s, false)

def showOutcome (env : Env) (m : Mods) (o : Outcome) : String :=
  let d := o.d
  let p := o.plan
  -- first store stage: the ancestor stores (one layer), or the output store alone when there is none
  let storeInits := m.stores.map (mapInit env.fsb)
  let outInit := mapInit env.fsb m.out
  let stageInit := (lowestOf (if storeInits.isEmpty then (m.reqStores.map (mapInit env.fsb)) else storeInits)).getD 0
  let ms := ";".intercalate ((m.reqStores.map (mapInit env.fsb)).map fun i => showUnits (p.units .store i))
  s!"start={d.start} handoff={d.handoff} gate={d.gate} stop={d.stop} cur={showOCursor d.cursor} undo={showUndo o.undo} rp={d.rpath.name} hp={d.hpath.name} | stores={showORange p.buildStores} write={showORange p.writeExecOut} read={showORange p.readExecOut} linear={showORange p.linear} | bp={showSegmenter p.backprocessSegmenter} SS={showUnits (p.units .store stageInit)} MS={if ms.isEmpty then "-" else ms} MP={if m.outIsStore then "0" else showUnits (p.units .map outInit)} RD={if m.outIsStore then "nil" else showReadOut (p.readOutSegmenter outInit)}"

/-- what the real `Tier1Service.blocks` lets the harness observe (slice T1) -/
def showTier1 (o : Outcome) : String :=
  let d := o.d
  let p := o.plan
  let stream :=
    if p.requiresParallelProcessing then "after-backprocess"
    else match p.linear with
      | none => "none"
      | some _ => s!"{d.handoff},{d.stop},{showOCursor d.cursor},{decide (d.start ≠ d.handoff)}"
  s!"start={d.start} handoff={d.handoff} | stores={showORange p.buildStores} write={showORange p.writeExecOut} read={showORange p.readExecOut} linear={showORange p.linear} | stream={stream}"

def step (line : String) : String :=
  match words line with
  | "T1" :: mode :: seg :: fsb :: start :: stop :: final :: head :: out :: stores :: cur :: res :: _ =>
    let env : Env := ⟨nat! seg, nat! fsb, optNat final, optNat head, parseResolver res⟩
    let m : Mods := ⟨parseStores stores, (parseOut out).1, (parseOut out).2⟩
    let req : Request := ⟨start.toInt?.getD 0, parseCursor cur, nat! stop, mode == "p"⟩
    match tier1 env m req with
    | .error e => s!"err={e.name}"
    | .ok o => showTier1 o
  | "P" :: mode :: seg :: fsb :: start :: stop :: final :: head :: out :: stores :: cur :: res :: _ =>
    let env : Env := ⟨nat! seg, nat! fsb, optNat final, optNat head, parseResolver res⟩
    let m : Mods := ⟨parseStores stores, (parseOut out).1, (parseOut out).2⟩
    let req : Request := ⟨start.toInt?.getD 0, parseCursor cur, nat! stop, mode == "p"⟩
    match tier1 env m req with
    | .error e => s!"err={e.name}"
    | .ok o => showOutcome env m o
  | _ => "bad-op"

def main : IO Unit := runLines step

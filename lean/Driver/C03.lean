import Driver.SysProto
def main : IO Unit := SVD.runLines SysProto.step

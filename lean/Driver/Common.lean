/-! Line-protocol plumbing shared by the per-property drivers (`svd_cXX`).  Not part of the model. -/
namespace SVD

partial def loop (h : IO.FS.Stream) (out : IO.FS.Stream) (f : String → String) : IO Unit := do
  let line ← h.getLine
  if line.isEmpty then return ()
  let l := if line.endsWith "\n" then (line.dropEnd 1).toString else line
  out.putStrLn (f l)
  loop h out f

/-- run `f` on every input line, one output line per input line -/
def runLines (f : String → String) : IO Unit := do
  let stdin ← IO.getStdin
  let stdout ← IO.getStdout
  loop stdin stdout f
  stdout.flush

def words (s : String) : List String := (s.splitOn " ").filter (· ≠ "")

def nat! (s : String) : Nat := s.toNat?.getD 0

def hexDigit (c : Char) : Nat :=
  if '0' ≤ c ∧ c ≤ '9' then c.toNat - '0'.toNat
  else if 'a' ≤ c ∧ c ≤ 'f' then c.toNat - 'a'.toNat + 10
  else if 'A' ≤ c ∧ c ≤ 'F' then c.toNat - 'A'.toNat + 10
  else 0

/-- hex string → bytes ("-" and "" are the empty byte string) -/
def unhex (s : String) : List UInt8 :=
  if s == "-" then [] else
  let rec go : List Char → List UInt8
    | a :: b :: rest => (UInt8.ofNat (hexDigit a * 16 + hexDigit b)) :: go rest
    | _ => []
  go s.toList

def hexChar (n : Nat) : Char :=
  if n < 10 then Char.ofNat (n + '0'.toNat) else Char.ofNat (n - 10 + 'a'.toNat)

def hex (bs : List UInt8) : String :=
  if bs.isEmpty then "-" else
  String.ofList (bs.flatMap fun b => [hexChar (b.toNat / 16), hexChar (b.toNat % 16)])

end SVD

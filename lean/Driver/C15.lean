import Model.Sqe
import Driver.Common
/-! Driver for C15: one case per line in, one canonical line out (compared with the Go harness
`harness/cmd/vh_c15`).  Everything is computed by the definitions of `Model/Sqe.lean`. -/
open SV.Sqe SVD

namespace C15D

/-! ### canonical text of tokens, expressions, errors, sets -/

def showTok : Tok → String
  | .quoting c => "Q" ++ hex [c]
  | .notOp => "M"
  | .orOp => "O"
  | .andOp => "A"
  | .lpar => "L"
  | .rpar => "R"
  | .name v => "N" ++ hex v
  | .space v => "S" ++ hex v

def showToks (ts : List Tok) : String :=
  if ts.isEmpty then "-" else ",".intercalate (ts.map showTok)

partial def showExpr : Expr → String
  | .key v q => s!"K({hex v},{hex q})"
  | .and cs => "A(" ++ ",".intercalate (cs.map showExpr) ++ ")"
  | .or cs => "O(" ++ ",".intercalate (cs.map showExpr) ++ ")"
  | .paren c => "P(" ++ showExpr c ++ ")"
  | .not c => "N(" ++ showExpr c ++ ")"

def showWrap : Wrap → String
  | .implicitAnd => "iand"
  | .and => "and"
  | .or => "or"
  | .paren => "paren"
  | .rhs => "rhs"

def showKind : ErrKind → String
  | .tooDeep => "too-deep"
  | .unexpectedRParen => "rparen"
  | .unaryEof => "unary-eof"
  | .unaryGot t => "unary-got-" ++ t
  | .notUnsupported => "not"
  | .parenEof => "paren-eof"
  | .parenGot t => "paren-got-" ++ t
  | .quoteEof => "quote-eof"
  | .emptyString => "empty-string"
  | .keyTermGot t => "keyterm-got-" ++ t
  | .rhsInvalid t => "rhs-invalid-" ++ t

def showErr (e : PErr) : String :=
  "err:" ++ ">".intercalate (e.wraps.map showWrap ++ [showKind e.kind])

def showParse : ParseResult → String
  | .ok e => showExpr e
  | .err e => showErr e
  | .fuel => "fuel"

def sortDedup (l : List Nat) : List Nat :=
  let a := (l.toArray.qsort (· < ·)).toList
  let rec go : List Nat → List Nat
    | x :: y :: rest => if x == y then go (y :: rest) else x :: go (y :: rest)
    | l => l
  go a

def showSet (l : List Nat) : String :=
  let s := sortDedup l
  if s.isEmpty then "-" else ",".intercalate (s.map toString)

def showBm : Except Fault Bitmap → String
  | .ok b => showSet b
  | .error _ => "panic"

/-! ### reading expressions, items, indexes -/

/-- recursive-descent reader of the canonical expression text; returns the rest -/
partial def readExpr (cs : List Char) : Option (Expr × List Char) :=
  match cs with
  | 'K' :: '(' :: rest =>
    let (a, rest) := rest.span (· != ',')
    match rest with
    | ',' :: rest =>
      let (b, rest) := rest.span (· != ')')
      match rest with
      | ')' :: rest => some (.key (unhex (String.ofList a)) (unhex (String.ofList b)), rest)
      | _ => none
    | _ => none
  | 'A' :: '(' :: rest => (readList rest []).map fun (l, r) => (.and l, r)
  | 'O' :: '(' :: rest => (readList rest []).map fun (l, r) => (.or l, r)
  | 'P' :: '(' :: rest =>
    match readExpr rest with
    | some (e, ')' :: r) => some (.paren e, r)
    | _ => none
  | 'N' :: '(' :: rest =>
    match readExpr rest with
    | some (e, ')' :: r) => some (.not e, r)
    | _ => none
  | _ => none
where
  readList (cs : List Char) (acc : List Expr) : Option (List Expr × List Char) :=
    match cs with
    | ')' :: rest => some (acc.reverse, rest)
    | ',' :: rest => readList rest acc
    | _ =>
      match readExpr cs with
      | some (e, rest) => readList rest (e :: acc)
      | none => none

def expr! (s : String) : Expr :=
  match readExpr s.toList with
  | some (e, _) => e
  | none => .and []

def keys! (s : String) : List Key :=
  if s == "" then [] else (s.splitOn ",").map unhex

/-- `blk:key,key;blk:;…` (`-` = no item; `blk:` = no key; key `-` = the empty key) -/
def items! (s : String) : List Item :=
  if s == "-" then [] else
  (s.splitOn ";").map fun p =>
    match p.splitOn ":" with
    | [b, ks] => ⟨nat! b, keys! ks⟩
    | _ => ⟨0, []⟩

/-- `key=1,2;key=;…` -/
def index! (s : String) : Index :=
  if s == "-" then [] else
  (s.splitOn ";").map fun p =>
    match p.splitOn "=" with
    | [k, bs] => (unhex k, if bs == "" then [] else (bs.splitOn ",").map nat!)
    | _ => ([], [])

def showSkip : Except Fault Bool → String
  | .ok true => "1"
  | .ok false => "0"
  | .error _ => "p"

def evalKeys (e : Expr) (items : List Item) : String :=
  let rs := items.map fun it => (it.block, keysApply (some it.keys) e)
  if rs.any (fun r => match r.2 with | .error _ => true | _ => false) then "panic"
  else showSet (rs.filterMap fun r => match r.2 with | .ok true => some r.1 | _ => none)

def step (line : String) : String :=
  match words line with
  | ["PARSE", md, input] =>
    let toks := lex (unhex input)
    s!"toks={showToks toks} res={showParse (parse (nat! md) toks)}"
  | ["OPT", e] => showExpr (optimize (expr! e))
  | ["EVAL", e, its] =>
    let e := expr! e
    let items := items! its
    s!"bm={showBm (bitmapApply (buildIndex items) e)} ks={evalKeys e items}"
  | ["EVAL", e, its, _faults] =>
    -- the index file written through transient write failures: a save that reports success wrote the whole file
    let e := expr! e
    let items := items! its
    s!"bm={showBm (bitmapApply (buildIndex items) e)} ks={evalKeys e items}"
  | ["EVALIDX", e, idx] => s!"bm={showBm (bitmapApply (index! idx) (expr! e))}"
  | ["KNIL", e] =>
    match keysApply none (expr! e) with
    | .ok b => toString b
    | .error _ => "panic"
  | ["SKIP", e, lo, hi, its] =>
    let e := expr! e
    let items := items! its
    let lo := nat! lo
    let hi := nat! hi
    let blocks := List.range' lo (hi - lo)
    let out (b : Nat) : Option (List Key) := (items.reverse.find? (·.block == b)).map (·.keys)
    let pre := newBlockIndex e (some (buildIndex items))
    let fly := newBlockIndex e none
    let run (bi : Except Fault BlockIndex) : String :=
      match bi with
      | .error _ => "panic"
      | .ok bi => String.join (blocks.map fun b => showSkip (skipFromIndex (some bi) b (out b)))
    let excl := match pre with
      | .ok bi => toString (excludesAllBlocks (some bi))
      | .error _ => "panic"
    s!"pre={run pre} fly={run fly} excl={excl}"
  | ["SYS", md, q, lo, hi, its] =>
    -- Tier1, development mode, no index file: one on-the-fly decision per block, in order; a panic ends the stream
    match parseBytes (nat! md) (unhex q) with
    | .ok e =>
      let items := items! its
      let lo := nat! lo
      let hi := nat! hi
      let out (b : Nat) : Option (List Key) := (items.reverse.find? (·.block == b)).map (·.keys)
      match newBlockIndex e none with
      | .error _ => "panic"
      | .ok bi =>
        let rec go : List Nat → String
          | [] => ""
          | b :: rest =>
            match skipFromIndex (some bi) b (out b) with
            | .ok true => "0" ++ go rest
            | .ok false => "1" ++ go rest
            | .error _ => "p"
        go (List.range' lo (hi - lo))
    | _ => "parse-error"
  | _ => "bad-op"

end C15D

def main : IO Unit := runLines C15D.step

import Model.Wire
import Driver.Common
/-! Driver for C18: one case per line in, one canonical line out (compared with harness/cmd/vh_c18). -/
open SV.Wire SVD

namespace C18D

def bytesLe : Bytes → Bytes → Bool
  | [], _ => true
  | _ :: _, [] => false
  | a :: as, b :: bs => if a < b then true else if b < a then false else bytesLe as bs

def parseKV (s : String) : KV :=
  if s == "_" then [] else
  (s.splitOn ",").map fun p =>
    match p.splitOn ":" with
    | [k, v] => (unhex k, unhex v)
    | _ => ([], [])

def parseList (s : String) : List Bytes :=
  if s == "_" then [] else (s.splitOn ",").map unhex

def showKV (kv : KV) : String :=
  ",".intercalate ((kv.mergeSort fun a b => bytesLe a.1 b.1).map fun e => s!"{hex e.1}:{hex e.2}")

def showList (l : List Bytes) : String := ",".intercalate (l.map hex)

def showVTErr : VTErr → String
  | .intOverflow => "err:overflow"
  | .unexpectedEOF => "err:eof"
  | .invalidLength => "err:invalid-length"
  | .endGroupNonGroup => "err:end-group"
  | .illegalTag => "err:illegal-tag"
  | .wrongWireType => "err:wrong-wiretype"
  | .unexpectedEndOfGroup => "err:unexpected-end-group"
  | .illegalWireType => "err:illegal-wiretype"
  | .nestedDecode => "err:nested-decode"
  | .nestedUTF8 => "err:nested-utf8"

def showSpecErr : SpecErr → String
  | .decode => "err:decode"
  | .utf8 => "err:utf8"

def showEnc : EncResult → String
  | .ok bs => s!"ok:{hex bs}"
  | .sizeMismatch => "size-mismatch"
  | .invalidUTF8 => "invalid-utf8"

def parseTs (s : String) : Option Timestamp :=
  if s == "n" then none else
  match s.splitOn "." with
  | [a, b] => some ⟨nat! a, nat! b⟩
  | _ => none

def parseItem (s : String) : Item :=
  match s.splitOn "/" with
  | [n, id, p, ts, c] => ⟨nat! n, unhex id, unhex p, parseTs ts, unhex c⟩
  | _ => {}

def parseItems (s : String) : List Item :=
  if s == "_" then [] else (s.splitOn ";").map parseItem

def showTs : Option Timestamp → String
  | none => "n"
  | some t => s!"{t.secs}.{t.nanos}"

def showItem (it : Item) : String :=
  s!"{it.blockNum}/{hex it.blockId}/{hex it.payload}/{showTs it.timestamp}/{hex it.cursor}"

def showItems (l : List Item) : String := if l.isEmpty then "_" else ";".intercalate (l.map showItem)

def showItemMap (m : ItemMap) : String :=
  if m.isEmpty then "_" else
  ";".intercalate ((m.mergeSort fun a b => bytesLe a.1 b.1).map fun e => s!"{hex e.1}={showItem e.2}")

def hasDup : List Bytes → Bool
  | [] => false
  | k :: t => t.contains k || hasDup t

def step (line : String) : String :=
  match words line with
  | ["VARINT", n] =>
    let n := nat! n
    s!"enc={hex (encVarint n)} ubc={uvarintByteCount n} sov={sov n}"
  | ["DVARINT", h] =>
    let bs := unhex h
    let uv := match uvarint bs with
      | .ok v r => s!"{v}/{r.length}"
      | .tooSmall => "small"
      | .overflow => "overflow"
    let pw := match pwVarint bs with
      | .ok (v, r) => s!"{v}/{r.length}"
      | .error _ => "err"
    let vt := match unmarshalItemVT (0x08 :: bs) with
      | .ok it => s!"{it.blockNum}"
      | .error e => showVTErr e
    s!"uv={uv} pw={pw} vt={vt}"
  | ["UTF8", h] => toString (validUTF8 (unhex h))
  | ["STORE", kv, dp] =>
    let kv := parseKV kv
    let dp := parseList dp
    if hasDup (kv.map (·.1)) then "dup-keys" else
    s!"vt={showEnc (marshalVT kv dp)} pf={showEnc (marshalPF kv dp)} pb={showEnc (specEncStoreData kv dp)} bin={showEnc (marshalBinary kv)}"
  | ["SDEC", h] =>
    let bs := unhex h
    let vt := match unmarshalVT bs with
      | .ok (d, size) => s!"ok/size={size}/kv={showKV d.kv}/dp={showList d.dp}"
      | .error e => showVTErr e
    let pb := match specDecodeStoreData bs with
      | .ok d => s!"ok/kv={showKV d.kv}/dp={showList d.dp}"
      | .error e => showSpecErr e
    s!"vt={vt} pb={pb}"
  | ["BDEC", h] =>
    -- convention of the harness: inputs announcing more than 2^22 entries are not run on the real code
    -- (`make(map, entries)` would allocate)
    if (match uvarint (unhex h) with | .ok c _ => decide (c > 4194304) | _ => false) then "skipped-huge-count" else
    match unmarshalBinary (unhex h) with
    | .ok kv => s!"ok/kv={showKV kv}"
    | .error .err => "err"
    | .error .panic => "panic"
  | ["ITEMS", items] =>
    let items := parseItems items
    let fast := if hasDup (items.map (·.blockId)) then "dup"
      else showEnc (marshalFast (items.map fun it => (it.blockId, it)))
    s!"vt={showEnc (marshalArrayVT items)} pb={showEnc (specEncArray items)} fast={fast}"
  | ["ADEC", h] =>
    let bs := unhex h
    let vt := match unmarshalArrayVT bs with
      | .ok items => s!"ok/{showItems items}"
      | .error e => showVTErr e
    let fast := match unmarshalFast bs with
      | .ok m => s!"ok/{showItemMap m}"
      | .error e => showVTErr e
    let pb := match specDecodeArray bs with
      | .ok items => s!"ok/{showItems items}"
      | .error e => showSpecErr e
    s!"vt={vt} fast={fast} pb={pb}"
  | _ => "bad-op"

end C18D

def main : IO Unit := SVD.runLines C18D.step

import Lemmas.Sqe
/-!
# C15 — Block-index filtering never changes results

Property theorems only (helper lemmas: `Lemmas/Sqe.lean`; model: `Model/Sqe.lean`).

Vocabulary.  `Expr` is the filter AST; `accepted e` (decidable) says `e` has no NOT and no empty AND/OR —
`parse_accepted` shows everything the parser returns satisfies it (and more: `shape`).  An assignment of
keys to the blocks of a segment is a list of `Item`s (block number, keys the index module emitted on it)
with pairwise different block numbers; `buildIndex items` is the key → bitmap map that
`Engine.EndOfStream` writes into the index file.  `holds ks e` is the plain boolean meaning of `e` on
the key set `ks`.  All statements are for every expression, every assignment, every block (no bound).

Where the hypotheses come from:
* `accepted e` — `sqe.Parse` is the only producer of filter expressions (`pipeline.BuildModuleExecutors`),
  and `parse_accepted` proves its results are accepted;
* `(items.map Item.block).Nodup` — `Engine.HandleFinal` is called once per final block number of the
  segment (one output of the index module per block);
* `it ∈ items` — the block is one the index module produced an output for (possibly with no key at all);
  `selected_subset` / `skip_without_output` / `skip_agree_all` cover the blocks it produced nothing for.
-/
namespace SV.C15
open SV.Sqe

/-! ## The core: the two evaluators agree -/

/-- **Evaluation on a block's keys is the boolean meaning of the filter** (`KeysApply`): it never
panics on an accepted expression and returns `holds`. -/
theorem keys_eval_spec (e : Expr) (ha : accepted e = true) (ks : List Key) :
    keysApply (some ks) e = .ok (holds ks e) :=
  keysApply_holds ks e ha

/-- **Evaluation over the pre-computed index is the boolean meaning, block by block**
(`RoaringBitmapsApply` on the index `EndOfStream` wrote): it never panics on an accepted expression and
a block of the assignment is selected exactly when the filter holds on that block's own keys. -/
theorem bitmap_eval_spec (e : Expr) (ha : accepted e = true) (items : List Item)
    (hnd : (items.map Item.block).Nodup) (it : Item) (hit : it ∈ items) :
    ∃ r, bitmapApply (buildIndex items) e = .ok r ∧ (it.block ∈ r ↔ holds it.keys e = true) :=
  bitmapApply_holds _ _ _ (linked_buildIndex items hnd it hit) e ha

/-- **`eval_agree` (the statement of C15)**: for every accepted filter expression and every assignment
of keys to the blocks of a segment, evaluating the filter against the pre-computed index selects
exactly the blocks on which evaluating it against that block's own keys is true. -/
theorem eval_agree (e : Expr) (ha : accepted e = true) (items : List Item)
    (hnd : (items.map Item.block).Nodup) (it : Item) (hit : it ∈ items) :
    ∃ r v, bitmapApply (buildIndex items) e = .ok r ∧ keysApply (some it.keys) e = .ok v ∧
      (it.block ∈ r ↔ v = true) := by
  obtain ⟨r, hr, hm⟩ := bitmap_eval_spec e ha items hnd it hit
  exact ⟨r, _, hr, keys_eval_spec e ha it.keys, hm⟩

/-- `eval_agree` with the assignment given as a function `keysAt` on the (duplicate-free) list of the
segment's blocks. -/
theorem eval_agree_fun (e : Expr) (ha : accepted e = true) (blocks : List Nat) (hnd : blocks.Nodup)
    (keysAt : Nat → List Key) (b : Nat) (hb : b ∈ blocks) :
    ∃ r v, bitmapApply (buildIndex (blocks.map fun b => ⟨b, keysAt b⟩)) e = .ok r ∧
      keysApply (some (keysAt b)) e = .ok v ∧ (b ∈ r ↔ v = true) := by
  have hnd' : ((blocks.map fun b => (⟨b, keysAt b⟩ : Item)).map Item.block).Nodup := by
    simpa [List.map_map, Function.comp_def] using hnd
  exact eval_agree e ha _ hnd' ⟨b, keysAt b⟩ (List.mem_map.2 ⟨b, hb, rfl⟩)

/-- **Nothing outside the assignment is ever selected**: a block the index module produced no output
for (or a block of another segment) is in no result bitmap — the filtered module is not run there. -/
theorem selected_subset (e : Expr) (ha : accepted e = true) (items : List Item) (r : Bitmap)
    (hr : bitmapApply (buildIndex items) e = .ok r) (b : Nat) (hb : b ∈ r) :
    ∃ it ∈ items, it.block = b := by
  apply Classical.byContradiction
  intro hne
  have habs : ∀ it ∈ items, it.block ≠ b := fun it hit heq => hne ⟨it, hit, heq⟩
  obtain ⟨r', hr', hm⟩ := bitmapApply_holds _ _ _ (linked_buildIndex_absent items b habs) e ha
  rw [hr] at hr'
  injection hr' with hr'
  subst hr'
  rw [holds_nil e ha] at hm
  exact absurd (hm.1 hb) (by simp)

/-- **NOT is rejected for a reason**: with a NOT the two evaluators disagree (the bitmaps of a segment
only know the blocks between the first and the last indexed key).  Witness: `-a` over a segment where
block 5 carries `a` and block 6 carries no key: the bitmap evaluation does not select 6, the key
evaluation accepts it. -/
theorem not_breaks_agreement :
    ∃ (e : Expr) (items : List Item) (it : Item) (r : Bitmap),
      (items.map Item.block).Nodup ∧ it ∈ items ∧
      bitmapApply (buildIndex items) e = .ok r ∧ keysApply (some it.keys) e = .ok true ∧
      it.block ∉ r :=
  ⟨.not (.key [97] []), [⟨5, [[97]]⟩, ⟨6, []⟩], ⟨6, []⟩, [], by decide, by simp, by rfl, by rfl, by simp⟩

/-! ## The parser -/

/-- **The parser only returns accepted expressions** (`parse_notfree`): a successful `Parse` yields an
expression without NOT in which every AND/OR has at least two children (`shape`), hence an accepted one.
Holds for every token stream and every value of `MaxRecursionDeepness`. -/
theorem parse_accepted (maxDepth : Nat) (toks : List Tok) (e : Expr)
    (h : parse maxDepth toks = .ok e) : shape e = true ∧ accepted e = true := by
  unfold parse at h
  have hg := (parse_inv maxDepth (parseFuel toks)).1 0 ⟨toks, 0⟩
  revert h hg
  generalize parseExpression maxDepth (parseFuel toks) 0 ⟨toks, 0⟩ = r
  intro h hg
  cases r with
  | ok e0 st =>
    simp only [Res.GoodLt] at hg
    injection h with h
    subst h
    have := shape_optimize e0 hg.1
    exact ⟨this, shape_accepted _ this⟩
  | err e => cases h
  | fuel => cases h

/-- the same from the input bytes (`sqe.Parse(ctx, input)`), through the model of the lexer -/
theorem parseBytes_accepted (maxDepth : Nat) (input : Bytes) (e : Expr)
    (h : parseBytes maxDepth input = .ok e) : accepted e = true :=
  (parse_accepted maxDepth (lex input) e h).2

/-- **The parser is total**: on every token stream the recursive descent terminates within the fuel
`parse` gives it (3·tokens + 2 calls deep), with an expression or an error — never the model's
out-of-fuel outcome.  The depth limit is one of the errors (`ErrKind.tooDeep`, the recovered panic). -/
theorem parse_total (maxDepth : Nat) (toks : List Tok) : parse maxDepth toks ≠ .fuel := by
  unfold parse
  have := (parse_fuel maxDepth (parseFuel toks)).1 0 ⟨toks, 0⟩ (Nat.le_refl _)
  revert this
  generalize parseExpression maxDepth (parseFuel toks) 0 ⟨toks, 0⟩ = r
  intro h
  cases r with
  | ok e st => simp
  | err e => simp
  | fuel => exact absurd rfl h

/-- **The depth limit only ever rejects**: raising `MaxRecursionDeepness` never changes the expression
(or the error) an input yields, it only turns the "expression is too long" error into a result.  So the
limit protects the stack without affecting the meaning of any accepted filter. -/
theorem depth_limit_only_rejects (maxDepth maxDepth' : Nat) (h : maxDepth ≤ maxDepth') (toks : List Tok) :
    (∃ e, parse maxDepth toks = .err e ∧ e.kind = .tooDeep) ∨
      parse maxDepth' toks = parse maxDepth toks := by
  unfold parse
  rcases (depth_mono maxDepth maxDepth' h (parseFuel toks)).1 0 ⟨toks, 0⟩ with hd | hd
  · revert hd
    generalize parseExpression maxDepth (parseFuel toks) 0 ⟨toks, 0⟩ = r
    intro hd
    cases r with
    | ok a s => simp [Res.tooDeep] at hd
    | fuel => simp [Res.tooDeep] at hd
    | err e => exact Or.inl ⟨e, rfl, hd⟩
  · rw [hd]; exact Or.inr rfl

/-- **The minus sign is rejected wherever an operand is expected**: `parseUnaryExpression` answers the
"NOT operator is not supported" error on `-`, whatever follows. -/
theorem unary_rejects_not (maxDepth fuel depth : Nat) (rest : List Tok) (look : Nat) :
    parseUnary maxDepth (fuel + 1) depth ⟨.notOp :: rest, look⟩ = .err ⟨[], .notUnsupported⟩ := by
  simp [parseUnary, skipSpaces, leaf]

/-- **The lexer loses nothing**: the texts of the tokens, concatenated, are the input — every byte of a
query ends up in exactly one token (in particular a quoted key is rebuilt from its tokens byte for
byte by `parseQuotedString`). -/
theorem lex_text (input : Bytes) : (lex input).flatMap Tok.text = input := by
  simpa [lex, LexSt.acc] using lexGo_text .none input

/-! ## The optimizer -/

/-- **The optimizer keeps expressions accepted.** -/
theorem optimize_accepted (e : Expr) (ha : accepted e = true) : accepted (optimize e) = true :=
  accepted_optimize e ha

/-- **The optimizer preserves the boolean meaning** (of every expression, NOT included). -/
theorem optimize_holds (e : Expr) (ks : List Key) : holds ks (optimize e) = holds ks e :=
  holds_optimize ks e

/-- **The optimizer preserves evaluation on a block's keys.** -/
theorem optimize_keys (e : Expr) (ha : accepted e = true) (ks : List Key) :
    keysApply (some ks) (optimize e) = keysApply (some ks) e := by
  rw [keysApply_holds ks e ha, keysApply_holds ks _ (accepted_optimize e ha), holds_optimize]

/-- **The optimizer preserves evaluation over bitmaps**, for every index whatsoever: both evaluations
succeed and select the same set of blocks. -/
theorem optimize_bitmap (e : Expr) (ha : accepted e = true) (idx : Index) :
    ∃ r r', bitmapApply idx (optimize e) = .ok r ∧ bitmapApply idx e = .ok r' ∧
      ∀ b, b ∈ r ↔ b ∈ r' := by
  obtain ⟨r', hr', _⟩ := bitmapApply_holds idx (idx.keysAt 0) 0 (linked_keysAt idx 0) e ha
  obtain ⟨r, hr, _⟩ := bitmapApply_holds idx (idx.keysAt 0) 0 (linked_keysAt idx 0) _
    (accepted_optimize e ha)
  refine ⟨r, r', hr, hr', fun b => ?_⟩
  obtain ⟨r1', h1', m1'⟩ := bitmapApply_holds idx (idx.keysAt b) b (linked_keysAt idx b) e ha
  obtain ⟨r1, h1, m1⟩ := bitmapApply_holds idx (idx.keysAt b) b (linked_keysAt idx b) _
    (accepted_optimize e ha)
  rw [hr'] at h1'; rw [hr] at h1
  injection h1' with h1'; injection h1 with h1
  subst h1' h1
  rw [m1, m1', holds_optimize]

/-! ## The skip decision: index present vs absent -/

/-- **`skip_agree`**: for the index that `EndOfStream` writes, the skip decision taken from the
pre-computed bitmap (an index file existed: `newBlockIndex e (some idx)`) equals the decision taken on
the fly from the block's own index-module output (no index file: `newBlockIndex e none`), on every block
the index module produced an output for; both are "skip iff the filter does not hold on the block's
keys".  Hence a filtered module runs on the same blocks whether the index file exists, is being built,
or is absent. -/
theorem skip_agree (e : Expr) (ha : accepted e = true) (items : List Item)
    (hnd : (items.map Item.block).Nodup) (it : Item) (hit : it ∈ items) :
    ∃ pre fly, newBlockIndex e (some (buildIndex items)) = .ok pre ∧ newBlockIndex e none = .ok fly ∧
      skipFromIndex (some pre) it.block (some it.keys) = .ok (!holds it.keys e) ∧
      skipFromIndex (some fly) it.block (some it.keys) = .ok (!holds it.keys e) := by
  obtain ⟨r, hr, hm⟩ := bitmap_eval_spec e ha items hnd it hit
  refine ⟨⟨e, some r⟩, ⟨e, none⟩, by simp [newBlockIndex, hr, bind, Except.bind], rfl, ?_, ?_⟩
  · simp only [skipFromIndex, BlockIndex.precomputed, Option.isSome_some, if_true, BlockIndex.skip]
    congr 1
    cases hh : holds it.keys e
    · have : it.block ∉ r := fun h => by simpa [hh] using hm.1 h
      simp [this]
    · have : it.block ∈ r := hm.2 hh
      simp [this]
  · simp [skipFromIndex, BlockIndex.precomputed, BlockIndex.skipFromKeys, keysApply_holds _ e ha,
      bind, Except.bind]

/-- **Blocks without an index-module output** (all the index module's inputs were skipped there): the
filtered module is skipped both ways — with the index file present (the block is in no bitmap) and
without it (`ErrNotFound` from the buffer means "no key", since the fix; it used to be a panic). -/
theorem skip_without_output (e : Expr) (ha : accepted e = true) (items : List Item) (b : Nat)
    (hb : ∀ it ∈ items, it.block ≠ b) :
    ∃ pre fly, newBlockIndex e (some (buildIndex items)) = .ok pre ∧ newBlockIndex e none = .ok fly ∧
      (∀ out, skipFromIndex (some pre) b out = .ok true) ∧
      skipFromIndex (some fly) b none = .ok true := by
  obtain ⟨r, hr, hm⟩ := bitmapApply_holds _ _ _ (linked_buildIndex_absent items b hb) e ha
  refine ⟨⟨e, some r⟩, ⟨e, none⟩, by simp [newBlockIndex, hr, bind, Except.bind], rfl, ?_, rfl⟩
  intro out
  rw [holds_nil e ha] at hm
  have : b ∉ r := fun h => by simpa using hm.1 h
  simp [skipFromIndex, BlockIndex.precomputed, BlockIndex.skip, this]

/-- **`skip_agree_all` — the skip decision does not depend on the index file, on any block**: for every
accepted filter, every assignment (one index-module output per block number) and **every** block `b` —
whether the index module produced an output on it or not — the decision from the pre-computed bitmap of
the index `EndOfStream` writes (index file present) equals the decision taken on the fly from what the
block's buffer holds (index file absent, or being built by this very run: the writer only collects the
outputs, decisions are on the fly).  Both are: skip iff the block has no index output or the filter
does not hold on its keys.  No panic either way. -/
theorem skip_agree_all (e : Expr) (ha : accepted e = true) (items : List Item)
    (hnd : (items.map Item.block).Nodup) (b : Nat) :
    ∃ pre fly, newBlockIndex e (some (buildIndex items)) = .ok pre ∧ newBlockIndex e none = .ok fly ∧
      skipFromIndex (some pre) b (outputOf items b) = skipFromIndex (some fly) b (outputOf items b) ∧
      skipFromIndex (some fly) b (outputOf items b) =
        .ok (match outputOf items b with
             | none => true
             | some ks => !holds ks e) := by
  cases hf : items.find? (fun it => it.block == b) with
  | none =>
    have hb : ∀ it ∈ items, it.block ≠ b := by
      intro it hit heq
      have := List.find?_eq_none.1 hf it hit
      simp [heq] at this
    obtain ⟨pre, fly, h1, h2, h3, h4⟩ := skip_without_output e ha items b hb
    refine ⟨pre, fly, h1, h2, ?_, ?_⟩
    · simp only [outputOf, hf, Option.map_none]; rw [h3 none, h4]
    · simp only [outputOf, hf, Option.map_none]; exact h4
  | some it =>
    have hit : it ∈ items := List.mem_of_find?_eq_some hf
    have hblk : it.block = b := by
      have := List.find?_some hf
      simpa using this
    obtain ⟨pre, fly, h1, h2, h3, h4⟩ := skip_agree e ha items hnd it hit
    refine ⟨pre, fly, h1, h2, ?_, ?_⟩
    · simp only [outputOf, hf, Option.map_some]; rw [← hblk, h3, h4]
    · simp only [outputOf, hf, Option.map_some]; rw [← hblk]; exact h4

/-- **Skipping a whole segment is sound** (`ExcludesAllBlocks`, tier 2): when the pre-computed bitmap
is empty, the filter holds on no block of the assignment. -/
theorem excludes_all_sound (e : Expr) (ha : accepted e = true) (items : List Item)
    (hnd : (items.map Item.block).Nodup) (pre : BlockIndex)
    (hp : newBlockIndex e (some (buildIndex items)) = .ok pre)
    (hx : excludesAllBlocks (some pre) = true) (it : Item) (hit : it ∈ items) :
    holds it.keys e = false := by
  obtain ⟨r, hr, hm⟩ := bitmap_eval_spec e ha items hnd it hit
  simp only [newBlockIndex, hr, bind, Except.bind] at hp
  injection hp with hp
  subst hp
  simp only [excludesAllBlocks, List.isEmpty_iff] at hx
  subst hx
  cases hh : holds it.keys e
  · rfl
  · exact absurd (hm.2 hh) (by simp)

/-- No filter (`index == nil`): never skipped. -/
theorem no_filter_never_skips (b : Nat) (out : Option (List Key)) :
    skipFromIndex none b out = .ok false := rfl

/-! ## Non-vacuity: concrete instances -/

/-- `a b || "c d"` lexes and parses to `Or[And[a,b], "c d"]`, which is accepted. -/
example : parseBytes 2501 [97, 32, 98, 32, 124, 124, 32, 34, 99, 32, 100, 34] =
    .ok (.or [.and [.key [97] [], .key [98] []], .key [99, 32, 100] [34]]) := by rfl

example : accepted (.or [.and [.key [97] [], .key [98] []], .key [99, 32, 100] [34]]) = true := by rfl

/-- nested ORs are flattened by the optimizer -/
example : parseBytes 2501 [97, 32, 124, 124, 32, 98, 32, 124, 124, 32, 99] =
    .ok (.or [.key [97] [], .key [98] [], .key [99] []]) := by rfl

/-- `a -b` is rejected (NOT), `a )` is rejected, depth limit 1 rejects any parenthesis -/
example : parseBytes 2501 [97, 32, 45, 98] = .err ⟨[.implicitAnd], .notUnsupported⟩ := by rfl
example : parseBytes 2501 [97, 32, 41] = .err ⟨[], .unexpectedRParen⟩ := by rfl
example : parseBytes 1 [40, 97, 41] = .err ⟨[], .tooDeep⟩ := by rfl

/-- a three-block segment: `a && (b || c)` selects blocks 10 and 12 through the index, and these are
the blocks whose own keys satisfy it (hypotheses of `eval_agree` met by a non-trivial instance) -/
example :
    let e : Expr := .and [.key [97] [], .paren (.or [.key [98] [], .key [99] []])]
    let items : List Item := [⟨10, [[97], [98]]⟩, ⟨11, [[97]]⟩, ⟨12, [[99], [97]]⟩, ⟨13, []⟩]
    accepted e = true ∧ (items.map Item.block).Nodup ∧
    bitmapApply (buildIndex items) e = .ok [10, 12] ∧
    items.map (fun it => keysApply (some it.keys) e) = [.ok true, .ok false, .ok true, .ok false] := by
  refine ⟨rfl, by decide, rfl, rfl⟩

end SV.C15

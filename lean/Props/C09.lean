import Lemmas.StoreHist
/-!
# C09 — Replaying a store's cached operation log reproduces its deltas and state

`readOps` is the operation log as `Flush` leaves it (sorted in place), `applyOps` replaces the store's
log by a given one and flushes.  For **every** configuration, value semantics, pre-block state (as
`NewCall` leaves it: `Clean`, empty log) and list of calls (arbitrary ordinals, `delete_prefix`
included): replaying the log recorded for a block on a store in the same pre-block state gives
*exactly* the same store — content, deltas, size and log — for full stores, for partial stores (whose
remembered deleted prefixes are the same set), and along chains of blocks.
-/
namespace SV.C09
open SV

variable {cfg : Cfg} {sem : Sem}

/-- two stores are in the same pre-block state: same content, size, pending deltas and last ordinal
(their operation logs may differ: `applyOps` overwrites the log) -/
def SameState (a b : Store) : Prop :=
  a.kv = b.kv ∧ a.size = b.size ∧ a.deltas = b.deltas ∧ a.lastOrd = b.lastOrd

/-- the log recorded for a block is the stably sorted list of the module's calls -/
theorem recorded_log {pre p : Store} {calls : List Op} (hc : Clean pre) (hlog : pre.ops = [])
    (hp : execBlock cfg sem pre calls = .ok p) : readOps p = sortOps calls := by
  obtain ⟨_, _, i2⟩ := execBlock_inv hc hp
  rw [hlog, List.nil_append] at i2
  exact i2

/-- **Replay = execute** (full store): the log recorded for a block, applied to any store in the same
pre-block state, yields the very same post-block store as the original execution. -/
theorem replay_full {pre pre' p : Store} {calls : List Op} (hc : Clean pre) (hlog : pre.ops = [])
    (hsame : SameState pre' pre) (hp : execBlock cfg sem pre calls = .ok p) :
    applyOps cfg sem pre' (readOps p) = .ok p := by
  rw [recorded_log hc hlog hp]
  obtain ⟨h1, h2, h3, h4⟩ := hsame
  unfold execBlock at hp
  rw [record_fold_eq, hlog, List.nil_append] at hp
  unfold applyOps
  have e : ({ pre' with ops := sortOps calls } : Store) =
      { ({ pre with ops := calls } : Store) with ops := sortOps ({ pre with ops := calls } : Store).ops } := by
    cases pre'; cases pre; simp_all
  rw [e, flush_sorted_log]
  exact hp

/-- Chains of several blocks (each block starts with `Reset`, as `NewCall` does). -/
def execChain (cfg : Cfg) (sem : Sem) (s : Store) : List (List Op) → Except SErr (List Store)
  | [] => .ok []
  | calls :: rest =>
    match execBlock cfg sem (reset s) calls with
    | .error e => .error e
    | .ok p =>
      match execChain cfg sem p rest with
      | .error e => .error e
      | .ok ps => .ok (p :: ps)

def replayChain (cfg : Cfg) (sem : Sem) (s : Store) : List (List Op) → Except SErr (List Store)
  | [] => .ok []
  | log :: rest =>
    match applyOps cfg sem (reset s) log with
    | .error e => .error e
    | .ok p =>
      match replayChain cfg sem p rest with
      | .error e => .error e
      | .ok ps => .ok (p :: ps)

/-- a block leaves a store whose `Reset` is clean again -/
theorem clean_after_block {pre p : Store} {calls : List Op} (hc : Clean pre)
    (hp : execBlock cfg sem pre calls = .ok p) : Clean (reset p) := by
  obtain ⟨b, i1, _⟩ := execBlock_inv hc hp
  exact ⟨i1.nodup, rfl, i1.size⟩

/-- The sequence of post-block stores obtained by replaying the recorded logs block after block is
the sequence obtained by executing the module. -/
theorem replay_chain (blocks : List (List Op)) : ∀ (s : Store) (posts : List Store),
    Clean (reset s) →
    execChain cfg sem s blocks = .ok posts →
    replayChain cfg sem s (posts.map readOps) = .ok posts := by
  induction blocks with
  | nil => intro s posts _ h; simp [execChain] at h; cases h; rfl
  | cons calls rest ih =>
    intro s posts hc h
    unfold execChain at h
    cases hb : execBlock cfg sem (reset s) calls with
    | error e => rw [hb] at h; simp at h
    | ok p =>
      rw [hb] at h
      dsimp only at h
      cases hr : execChain cfg sem p rest with
      | error e => rw [hr] at h; simp at h
      | ok ps =>
        rw [hr] at h
        dsimp only at h
        injection h with h; subst h
        simp only [List.map_cons, replayChain]
        rw [replay_full (cfg := cfg) (sem := sem) hc rfl ⟨rfl, rfl, rfl, rfl⟩ hb]
        dsimp only
        rw [ih p ps (clean_after_block hc hb) hr]

/-- **Partial stores**: the replay also reproduces the remembered deleted prefixes, as a set (the
replayed log is sorted by ordinal, the original calls are in call order; `Merge` applies all of them
before merging any key, so only the set matters — see `C02`). -/
theorem replay_partial {pre p : Partial} {calls : List Op} (hc : Clean pre.store) (hlog : pre.store.ops = [])
    (hp : Partial.execBlock cfg sem pre calls = .ok p) :
    ∃ p', Partial.applyOps cfg sem pre (readOps p.store) = .ok p' ∧ p'.store = p.store ∧
      ∀ x, x ∈ p'.deletedPrefixes ↔ x ∈ p.deletedPrefixes := by
  unfold Partial.execBlock at hp
  rw [partial_record_fold] at hp
  dsimp only at hp
  cases hf : flush cfg sem (calls.foldl record pre.store) with
  | error e => rw [hf] at hp; simp at hp
  | ok s =>
    rw [hf] at hp
    dsimp only at hp
    injection hp with hp; subst hp
    have hfull := replay_full (cfg := cfg) (sem := sem) (pre' := pre.store) hc hlog ⟨rfl, rfl, rfl, rfl⟩ hf
    have hlogeq := recorded_log (cfg := cfg) (sem := sem) hc hlog hf
    unfold applyOps at hfull
    unfold Partial.applyOps
    simp only [hfull]
    refine ⟨_, rfl, rfl, ?_⟩
    intro x
    simp only [mem_foldl_addPfx, hlogeq]
    have hperm := sortOps_perm calls
    constructor
    · rintro (h | ⟨o, ho, h⟩)
      · exact Or.inl h
      · exact Or.inr ⟨o, hperm.mem_iff.1 ho, h⟩
    · rintro (h | ⟨o, ho, h⟩)
      · exact Or.inl h
      · exact Or.inr ⟨o, hperm.mem_iff.2 ho, h⟩

/-! ### Non-vacuity -/

def demoCfg : Cfg := ⟨.set, .bytes, 100, 1000, 100⟩
def demoSem : Sem := fun _ _ v => .ok v
def demoCalls : List Op := [⟨.set, 3, [97], [1]⟩, ⟨.deletePrefix, 2, [97], []⟩, ⟨.set, 1, [97, 98], [2]⟩]

example : ∃ p, execBlock demoCfg demoSem Store.empty demoCalls = .ok p ∧ p.deltas.length = 3 ∧
    readOps p ≠ demoCalls := by
  refine ⟨_, rfl, ?_⟩
  decide
example : Clean Store.empty := ⟨by unfold NodupKeys; decide, rfl, rfl⟩

end SV.C09

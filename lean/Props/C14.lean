import Model.Graph
import Lemmas.Graph
/-!
# C14 — Execution stages respect every module dependency

Property (properties.jsonl): *for any valid module graph, each module needed for the requested output
is placed in exactly one execution layer, strictly after the layers of every map, store and
block-index module it reads from, and modules not needed for that output are left out.  A layer
contains only stores or only non-stores, every store layer closes a stage, a module is never given an
initial block at which none of its inputs exists, and staging terminates.*

The theorems are about `SV.Graph.computeGraph mods out prod fsb`, the model of
`exec.NewOutputModuleGraph(out, prod, &Modules{mods}, fsb)` (`lean/Model/Graph.lean`), for **every**
module list `mods`, output name `out`, mode and first streamable block — no bound on sizes.

## Hypotheses, and the Go check that establishes each

* `validated mods = true` — `manifest.ValidateModules`, run by `service.ValidateTier1Request` /
  `ValidateTier2Request` before `NewOutputModuleGraph`.  The theorems use three consequences
  (`validated_spec`):
  - module names are pairwise distinct        — "module %q: duplicate module name";
  - no module is named `""`                    — the module-name regular expression;
  - every map input, store input and block filter names a module of the package
    (`refsResolve`)                            — checkValidInputs "… input named %q not found",
                                                 checkValidBlockFilter "block filter module %q not found".
* the module graph is acyclic (`acyclicB`)     — `NewModuleGraph`: "modules graph has a cycle".  It is
  not a hypothesis below: `computeGraph` answers `error cycle` itself, so an `ok` answer implies it.
* the output module exists                     — `ModulesDownTo`: "could not find module"; likewise
  implied by an `ok` answer.
No other hypothesis is needed.  (Before the commit "fix: a params value or source type spelled like
a module name is not a graph dependency" `NewModuleGraph` also added an edge when a *source type* or a
*params value* was spelled like a module name, and "modules not needed are left out" needed an extra
hypothesis no Go check provided; the two former counterexamples are kept at the end of this file as
kernel-checked regression examples, and the harness keeps the oracle class
`C14/input-value-taken-as-module-ref`.)

External library behaviour assumed (checks/C14.json): `graph.Acyclic` decides acyclicity,
`graph.ShortestPaths` distance ≥ 0 is reachability, `graph.TopSort` only orders lists (the theorems
are about sets of modules per layer).
-/
namespace SV.C14
open SV.Graph

variable {mods : List Module} {out : String} {prod : Bool} {fsb : Nat} {g : GraphOut}

/-! ## staging terminates -/

/-- *staging terminates*, at the level of the loop: on the module list `ModulesDownTo` returns, the
layering loop of `computeStages` stops (with layers or with the "no input" error) within the
`2·n+2` iterations the model grants it, whatever the initial blocks. -/
theorem layering_terminates (hv : validated mods = true) (ha : acyclicB mods = true)
    (ho : out ∈ names mods) (init : String → Nat) :
    computeLayers (usedOf mods out) init ≠ .hang := by
  obtain ⟨hu, hr⟩ := used_facts hv ha ho
  exact loop_no_hang hu hr _ 0 [] [] (Inv.init _ _) (by simp only [stagesFuel, List.length_nil]; omega)

/-- *the fuel suffices*: any larger number of iterations gives the same answer, so the model's answer
is the answer of Go's unbounded `for i := 0; ; i++`. -/
theorem fuel_suffices (hv : validated mods = true) (ha : acyclicB mods = true)
    (ho : out ∈ names mods) (init : String → Nat) (extra : Nat) :
    stagesLoop (usedOf mods out) init (stagesFuel (usedOf mods out) + extra) 0 [] [] =
      computeLayers (usedOf mods out) init :=
  loop_fuel_mono _ extra 0 [] [] (layering_terminates hv ha ho init)

/-- *staging terminates*: on a validated package `NewOutputModuleGraph` returns (a graph or an error);
it never spins. -/
theorem stages_terminate (hv : validated mods = true) : computeGraph mods out prod fsb ≠ .hang := by
  intro h
  unfold computeGraph at h
  by_cases ha : acyclicB mods = true
  · simp only [ha, if_true] at h
    by_cases ho : hasModule mods out = true
    · have ho' : out ∈ names mods := by simpa [hasModule] using ho
      by_cases hi : ∀ m ∈ usedOf mods out, m.initialBlock = 0 ∨ fsb ≤ m.initialBlock
      · have h' : computeGraph mods out prod fsb = .hang := by unfold computeGraph; simp [ha, h]
        rcases computeGraph_eq prod ha ho' hi with ⟨g, hg⟩ | ⟨_, hl⟩ | ⟨hg, _⟩
        · rw [hg] at h'; cases h'
        · exact layering_terminates hv ha ho' _ hl
        · rw [hg] at h'; cases h'
      · unfold computeGraphAcyclic modulesDownTo at h
        simp only [ho, if_true] at h
        split at h
        · cases h
        · rename_i hany
          apply hi
          intro m hm
          simp only [List.any_eq_true, not_exists, not_and, Bool.and_eq_true, bne_iff_ne,
            decide_eq_true_eq] at hany
          have := hany m hm
          by_cases h0 : m.initialBlock = 0
          · exact .inl h0
          · right; have := this h0; omega
    · unfold computeGraphAcyclic modulesDownTo at h
      simp [ho] at h
  · simp [ha] at h

/-- the production path (`ValidateModules`, then `NewOutputModuleGraph`) always returns -/
theorem validate_then_graph_terminates (mods : List Module) (out : String) (prod : Bool) (fsb : Nat) :
    validateThenGraph mods out prod fsb ≠ .hang := by
  unfold validateThenGraph
  by_cases hv : validated mods = true
  · simp only [hv, if_true]; exact stages_terminate hv
  · simp [hv]

/-! ## what an accepted graph looks like -/

/-- `UsedModules()` is the set of modules reachable from the output module in the graph
`NewModuleGraph` builds. -/
theorem used_eq_graph_closure (h : computeGraph mods out prod fsb = .ok g) (m : Module) :
    m ∈ g.used ↔ m ∈ mods ∧ GraphReach mods out m.name := by
  obtain ⟨ha, ho, hused, _⟩ := computeGraph_ok h
  rw [hused, usedOf, List.mem_filter]
  simp only [List.contains_iff_mem]
  rw [mem_reachable_iff ha ho]

/-- *each module needed for the requested output is staged*: every transitive map / store /
block-filter dependency of the output module is in `UsedModules()`. -/
theorem needed_subset_used (hv : validated mods = true) (h : computeGraph mods out prod fsb = .ok g)
    {m : Module} (hm : m ∈ mods) (hneed : Needs mods out m.name) : m ∈ g.used := by
  obtain ⟨hn, he, _⟩ := validated_spec hv
  exact (used_eq_graph_closure h m).2 ⟨hm, Star.mono (depEdge_graphEdge hn he) hneed⟩

/-- *…and modules not needed for that output are left out*: `UsedModules()` is exactly the ancestor
closure of the output module under map, store (get / deltas) and block-filter references. -/
theorem used_eq_needed (hv : validated mods = true)
    (h : computeGraph mods out prod fsb = .ok g) (m : Module) :
    m ∈ g.used ↔ m ∈ mods ∧ Needs mods out m.name := by
  constructor
  · intro hm
    obtain ⟨hm, hr⟩ := (used_eq_graph_closure h m).1 hm
    exact ⟨hm, Star.mono graphEdge_depEdge hr⟩
  · rintro ⟨hm, hneed⟩
    exact needed_subset_used hv h hm hneed

/-- *each module needed for the requested output is placed in exactly one execution layer … and
modules not needed for that output are left out*: the layers contain exactly the modules of the
ancestor closure of the output module, each name once over all layers (so a module is in one layer
and occurs once in it). -/
theorem each_used_once (hv : validated mods = true)
    (h : computeGraph mods out prod fsb = .ok g) :
    (∀ m, (∃ l ∈ g.layers, m ∈ l) ↔ (m ∈ mods ∧ Needs mods out m.name)) ∧
    (names g.layers.flatten).Nodup := by
  obtain ⟨hinv, hall⟩ := accepted hv h
  refine ⟨fun m => ?_, hinv.nodup⟩
  rw [← used_eq_needed hv h m, ← List.mem_flatten]
  exact ⟨hinv.sub m, hall m⟩

/-- the same in terms of the accessor: the layers partition `UsedModules()`. -/
theorem layers_partition_used (hv : validated mods = true) (h : computeGraph mods out prod fsb = .ok g) :
    (∀ m, (∃ l ∈ g.layers, m ∈ l) ↔ m ∈ g.used) ∧ (names g.layers.flatten).Nodup := by
  obtain ⟨hinv, hall⟩ := accepted hv h
  refine ⟨fun m => ?_, hinv.nodup⟩
  rw [← List.mem_flatten]
  exact ⟨hinv.sub m, hall m⟩

/-- *exactly one layer*, in index form: a module name occurring in layers `j` and `k` forces `j = k`. -/
theorem in_one_layer (hv : validated mods = true) (h : computeGraph mods out prod fsb = .ok g)
    {j k : Nat} {a b : List Module} {n : String} (hj : g.layers[j]? = some a) (hk : g.layers[k]? = some b)
    (ha : n ∈ names a) (hb : n ∈ names b) : j = k :=
  layer_unique (accepted hv h).1.nodup hj hk ha hb

/-- *strictly after the layers of every map, store and block-index module it reads from*: for a
module `m` of layer `j`, every module named by a map input, a store input in `get` or `deltas` mode,
or the block filter of `m` sits in a layer `k < j`. -/
theorem deps_strictly_earlier (hv : validated mods = true) (h : computeGraph mods out prod fsb = .ok g)
    {j : Nat} {l : List Module} (hj : g.layers[j]? = some l) {m : Module} (hm : m ∈ l) {d : String}
    (hd : Input.map d ∈ m.inputs ∨ Input.store d .get ∈ m.inputs ∨ Input.store d .deltas ∈ m.inputs ∨
          m.blockFilter = some d) :
    ∃ (k : Nat) (l' : List Module), k < j ∧ g.layers[k]? = some l' ∧ ∃ m' ∈ l', m'.name = d := by
  have hdep : d ∈ m.deps := by
    rcases hd with hd | hd | hd | hd
    · exact mem_deps.2 (.inl (.inl hd))
    · exact mem_deps.2 (.inl (.inr ⟨_, hd⟩))
    · exact mem_deps.2 (.inl (.inr ⟨_, hd⟩))
    · exact mem_deps.2 (.inr hd)
  obtain ⟨k, l', hk, hl', hdl⟩ := (accepted hv h).1.ordered j l hj m hm d hdep
  exact ⟨k, l', hk, hl', mem_names.1 hdl⟩

/-- *a layer contains only stores or only non-stores* (and is never empty, so Go's
`IsStoreLayer() = l[0].GetKindStore() != nil` is well defined and speaks for the whole layer). -/
theorem layer_homogeneous (hv : validated mods = true) (h : computeGraph mods out prod fsb = .ok g)
    {l : List Module} (hl : l ∈ g.layers) :
    l ≠ [] ∧ ((∀ m ∈ l, m.kind = .store) ∨ (∀ m ∈ l, m.kind ≠ .store)) ∧
    (isStoreLayer l = true ↔ ∀ m ∈ l, m.kind = .store) := by
  have hinv := (accepted hv h).1
  have hne := hinv.nonempty l hl
  have hh := hinv.homog l hl
  have hst : ∀ m : Module, m.isStore = true ↔ m.kind = .store := by
    intro m; unfold Module.isStore; cases m.kind <;> simp
  have hns : ∀ m : Module, m.isStore = false ↔ m.kind ≠ .store := by
    intro m; unfold Module.isStore; cases m.kind <;> simp
  refine ⟨hne, ?_, ?_⟩
  · rcases hh with hh | hh
    · exact .inl fun m hm => (hst m).1 (hh m hm)
    · exact .inr fun m hm => (hns m).1 (hh m hm)
  · rw [isStoreLayer_iff hne hh]
    exact ⟨fun hx m hm => (hst m).1 (hx m hm), fun hx m hm => (hst m).2 (hx m hm)⟩

/-- *every store layer closes a stage*: the stages are the layers, in order, cut after each store
layer — concatenating the stages gives back the layers, no stage is empty, a store layer is always
the last layer of its stage, and every stage except the last one ends with a store layer. -/
theorem store_layer_closes_stage (h : computeGraph mods out prod fsb = .ok g) :
    g.stages.flatten = g.layers ∧
    (∀ st ∈ g.stages, st ≠ []) ∧
    (∀ st ∈ g.stages, ∀ (k : Nat) (l : List Module), st[k]? = some l → isStoreLayer l = true →
        k + 1 = st.length) ∧
    (∀ (j : Nat) (st : List (List Module)), g.stages[j]? = some st → j + 1 < g.stages.length →
        ∃ l, st.getLast? = some l ∧ isStoreLayer l = true) := by
  obtain ⟨_, _, _, _, _, _, hst⟩ := computeGraph_ok h
  obtain ⟨hok, hfl⟩ := groupStages_ok g.layers [] (by simp)
  rw [hst]
  refine ⟨?_, hok.nonempty, hok.storeLast, hok.closed⟩
  by_cases hl : g.layers = []
  · rw [hl]; simp [groupStages]
  · simpa using hfl hl

/-! ## the initial-block rule

What `computeStages` enforces, read off the code: a module is accepted when **at least one** of its
inputs exists at the module's initial block, where a source always exists, a params input counts only
when it is the module's sole input, and a map / store input exists when the initial block of the
module it names is not above the module's own; initial block 0 means "first streamable block".  A
module without any input, or with params plus only later-starting modules, is refused. -/

/-- the rule as a proposition -/
def InputExistsAt (init : String → Nat) (m : Module) (i : Input) : Prop :=
  match i with
  | .source _ => True
  | .params _ => m.inputs.length = 1
  | .map d => init d ≤ init m.name
  | .store d _ => init d ≤ init m.name

theorem hasInputAt_iff (init : String → Nat) (m : Module) :
    hasInputAt init m = true ↔ ∃ i ∈ m.inputs, InputExistsAt init m i := by
  unfold hasInputAt
  rw [List.any_eq_true]
  constructor <;> rintro ⟨i, hi, h⟩ <;> refine ⟨i, hi, ?_⟩ <;>
    cases i <;> simp_all [inputAvailable, InputExistsAt]

/-- *a module is never given an initial block at which none of its inputs exists*: in an accepted
graph every staged module starts at or after the first streamable block (0 resolved to it) and has an
input that exists at its resolved initial block. -/
theorem init_block_has_input (hv : validated mods = true) (h : computeGraph mods out prod fsb = .ok g)
    {m : Module} (hm : m ∈ g.used) :
    initOf g.initBlocks m.name = resolvedInit fsb m ∧ fsb ≤ resolvedInit fsb m ∧
    ∃ i ∈ m.inputs, InputExistsAt (initOf g.initBlocks) m i := by
  obtain ⟨hinv, hall⟩ := accepted hv h
  obtain ⟨_, _, hused, hinit, htbl, _, _⟩ := computeGraph_ok h
  obtain ⟨hn, _, _⟩ := validated_spec hv
  have hu : (names g.used).Nodup := by rw [hused]; exact used_nodup hn _
  refine ⟨by rw [htbl]; exact initOf_table fsb hu hm, ?_, ?_⟩
  · unfold resolvedInit
    rcases hinit m hm with h0 | h0
    · simp [h0]
    · by_cases hz : m.initialBlock = 0 <;> simp [hz]; exact h0
  · exact (hasInputAt_iff _ m).1 (hinv.valid m (hall m hm))

/-- …*else an error is returned*: on a validated, acyclic package with an existing output module,
`NewOutputModuleGraph` succeeds **iff** every module of `ModulesDownTo(out)` starts at or after the
first streamable block and has an input existing at its initial block; otherwise it returns
`initBelowFirst` ("initial block smaller than first streamable block") or `noInput` ("has no input
available at its initial block"). -/
theorem accepted_iff (hv : validated mods = true) (ha : acyclicB mods = true) (ho : out ∈ names mods) :
    (∃ g, computeGraph mods out prod fsb = .ok g) ↔
      ∀ m ∈ usedOf mods out, (m.initialBlock = 0 ∨ fsb ≤ m.initialBlock) ∧
        ∃ i ∈ m.inputs, InputExistsAt (initOf (initTable fsb (usedOf mods out))) m i := by
  constructor
  · rintro ⟨g, h⟩ m hm
    obtain ⟨_, _, hused, hinit, htbl, _, _⟩ := computeGraph_ok h
    rw [← hused] at hm ⊢
    rw [← htbl]
    exact ⟨hinit m hm, (init_block_has_input hv h hm).2.2⟩
  · intro hall
    rcases computeGraph_eq prod ha ho (fun m hm => (hall m hm).1) with hg | ⟨_, hl⟩ | ⟨_, hl⟩
    · exact hg
    · exact absurd hl (layering_terminates hv ha ho _)
    · obtain ⟨m, hm, hno⟩ := loop_noInput _ _ _ _ hl
      have := (hasInputAt_iff _ m).2 (hall m hm).2
      rw [hno] at this; cases this

/-! ## the hypotheses are satisfiable: concrete instances (kernel-evaluated) -/

def src : Input := .source "sf.test.v1.Block"

/-- seventh graph of pipeline/exec/graph_test.go with real initial blocks: an index `a`, maps filtered
by it, stores read in both modes, a params-only module and a clock-only module -/
def sample : List Module := [
  ⟨"a", .index, [src], none, 0⟩,
  ⟨"b", .map, [src], none, 5⟩,
  ⟨"d", .map, [src, .store "c" .get], some "a", 5⟩,
  ⟨"c", .store, [.map "b"], none, 5⟩,
  ⟨"e", .map, [.store "c" .deltas, .map "p"], none, 7⟩,
  ⟨"f", .map, [.map "e", .store "g" .get], some "a", 9⟩,
  ⟨"g", .store, [.map "d", .map "e", .map "k"], none, 7⟩,
  ⟨"p", .map, [.params "x=1"], none, 0⟩,
  ⟨"k", .map, [.source "sf.substreams.v1.Clock"], none, 0⟩,
  ⟨"z", .store, [src], none, 0⟩]

example : validated sample = true := by decide
example : acyclicB sample = true := by decide
/-- it is accepted, in 5 layers / 3 stages; `z` is left out -/
example : (match computeGraph sample "f" true 2 with
    | .ok g => g.stages.map (fun st => st.map names)
    | _ => []) = [[["a", "b", "p", "k"], ["c"]], [["d", "e"], ["g"]], [["f"]]] := by decide
/-- the init-block rule rejects: `e` starts at 3, before everything it reads (`c` at 5, `p` … ) -/
example : (match computeGraph [⟨"b", .map, [src], none, 5⟩, ⟨"e", .map, [.map "b"], none, 3⟩] "e" true 2 with
    | .error .noInput => true
    | _ => false) = true := by decide

/-! ## regression examples: a params value / source type spelled like a module name

Before the fix in `manifest/graph.go` these two packages were the counterexamples: in the first the
store `b` was staged (in a stage of its own) although nothing reads it, the second — a valid
single-module package — was refused with "modules graph has a cycle". -/

/-- `a` takes the *string* "b" as its params value and has a source whose type is spelled "b"; the
store `b` is not read by anything -/
def collision : List Module := [
  ⟨"a", .map, [.params "b", src, .source "b"], none, 0⟩,
  ⟨"b", .store, [src], none, 0⟩]

/-- the package passes validation and only `a` is staged -/
example : validated collision = true ∧
    (match computeGraph collision "a" true 0 with
      | .ok g => g.stages.map (fun st => st.map names)
      | _ => []) = [[["a"]]] := by
  refine ⟨by decide, by decide⟩

/-- `a` indeed does not need `b` (so `used_eq_needed` leaves `b` out) -/
example : ¬ Needs collision "a" "b" := by
  have key : ∀ x, Needs collision "a" x → x = "a" := by
    intro x hx
    induction hx with
    | refl => rfl
    | step _ he ih =>
      subst ih
      obtain ⟨m, hm, hn, hd, _⟩ := he
      simp only [collision, List.mem_cons, List.not_mem_nil, or_false] at hm
      rcases hm with rfl | rfl
      · simp [Module.deps, Input.dep?, src] at hd
      · simp at hn
  intro h
  exact absurd (key _ h) (by decide)

/-- a module whose params value is its own name is accepted (it used to be "a cycle") -/
example : (match validateThenGraph [⟨"a", .map, [.params "a", src], none, 0⟩] "a" true 0 with
    | .ok g => g.stages.map (fun st => st.map names)
    | _ => []) = [[["a"]]] := by decide

/-- without `ValidateModules` a dangling reference makes `computeStages` spin: the model runs out of
fuel (why the harness never feeds such a package to `NewOutputModuleGraph` directly) -/
example : (match computeGraph [⟨"x", .map, [.map "ghost"], none, 0⟩] "x" false 0 with
    | .hang => true
    | _ => false) = true := by decide

end SV.C14

import Lemmas.Store
/-!
# C08 — Store reads honour ordinals: get_first/get_last/get_at/has_* match the deltas

All theorems are about one block executed on a store (`execBlock` = the host calls recorded in call
order, then `Flush`), for **every** configuration, **every** value semantics `sem` of the numeric
policies (so for every policy and value type), **every** pre-block state that `NewCall` can leave
(`Clean`: no pending deltas, distinct keys, consistent size) and **every** list of calls with arbitrary
(non-monotonic, repeated) ordinals, every key and every query ordinal.  A block that ends in an error
ends the request; the theorems are about blocks that complete (`= .ok post`).
-/
namespace SV.C08
open SV

variable {cfg : Cfg} {sem : Sem} {pre post : Store} {calls : List Op}

/-- "Within a block, a store's operations take effect in stable ordinal order": `Flush` folds
`flushOp` over the log sorted by ordinal (this is the definition of `flush`), the sorted log is ordered
by ordinal, is a permutation of the calls, and operations with the same ordinal keep their call order. -/
theorem ops_in_stable_ordinal_order (h : Clean pre) (hp : execBlock cfg sem pre calls = .ok post) :
    post.ops = sortOps (pre.ops ++ calls) ∧ OrdSorted post.ops ∧ post.ops.Perm (pre.ops ++ calls) ∧
    ∀ n, post.ops.filter (fun a => a.ord == n) = (pre.ops ++ calls).filter (fun a => a.ord == n) := by
  obtain ⟨b, _, i2⟩ := execBlock_inv h hp
  rw [i2]
  exact ⟨rfl, sortOps_sorted _, sortOps_perm _, sortOps_stable _⟩

theorem flush_is_fold_over_sorted_log (s : Store) :
    flush cfg sem s = (sortOps s.ops).foldlM (flushOp cfg sem) { s with ops := sortOps s.ops } := rfl

/-- The deltas reported for the block are in non-decreasing ordinal order. -/
theorem deltas_sorted (h : Clean pre) (hp : execBlock cfg sem pre calls = .ok post) :
    post.deltas.Pairwise (fun a b => a.ord ≤ b.ord) := by
  obtain ⟨b, i1, _⟩ := execBlock_inv h hp
  exact i1.sorted

/-- "The deltas reported for the block, applied in order to the pre-block content, give the post-block
content" -/
theorem deltas_give_post (h : Clean pre) (hp : execBlock cfg sem pre calls = .ok post) (k : Bytes) :
    look (applyDeltas pre.kv post.deltas) k = look post.kv k := by
  obtain ⟨b, i1, _⟩ := execBlock_inv h hp
  rw [look_applyDeltas, i1.kvpost]

/-- "… and each delta's old value is the value just before it" (a CREATE delta finds the key absent). -/
theorem delta_old_value (h : Clean pre) (hp : execBlock cfg sem pre calls = .ok post)
    (l1 : List Delta) (d : Delta) (l2 : List Delta) (hd : post.deltas = l1 ++ d :: l2) :
    look (applyDeltas pre.kv l1) d.key = (if d.op = .create then none else some d.old) := by
  obtain ⟨b, i1, _⟩ := execBlock_inv h hp
  have hw := chain_split l1 d l2 (look pre.kv) (by rw [← hd]; exact i1.chain)
  rw [look_applyDeltas]
  unfold WFd at hw
  cases hop : d.op <;> simp [hop] at hw ⊢ <;> exact hw

/-- "get_first returns the value before the block" -/
theorem getFirst_spec (h : Clean pre) (hp : execBlock cfg sem pre calls = .ok post) (k : Bytes) :
    post.getFirst k = look pre.kv k := by
  obtain ⟨b, i1, _⟩ := execBlock_inv h hp
  exact getFirstIn_spec post.deltas (look pre.kv) post.kv k i1.chain (by rw [i1.kvpost])

/-- "get_last the value after it" -/
theorem getLast_spec (h : Clean pre) (hp : execBlock cfg sem pre calls = .ok post) (k : Bytes) :
    post.getLast k = look post.kv k := by
  obtain ⟨b, i1, _⟩ := execBlock_inv h hp
  exact i1.getLast k

/-- "get_at(ord) the value after all operations with ordinal ≤ ord": the pre-block content with
exactly the deltas of ordinal `≤ ord` applied. -/
theorem getAt_spec (h : Clean pre) (hp : execBlock cfg sem pre calls = .ok post) (ord : Nat) (k : Bytes) :
    post.getAt ord k = look (applyDeltas pre.kv (post.deltas.filter (fun d => decide (d.ord ≤ ord)))) k := by
  obtain ⟨b, i1, _⟩ := execBlock_inv h hp
  unfold Store.getAt
  rw [i1.getLast k, i1.kvpost, walkBack_spec (look pre.kv) ord k post.deltas i1.chain,
    keepUpTo_eq_filter ord post.deltas i1.sorted, look_applyDeltas]

/-- "has_first, has_last and has_at answer exactly whether the corresponding get finds the key"
(these three hold for every store state, not only after a completed block). -/
theorem hasFirst_iff (s : Store) (k : Bytes) : s.hasFirst k = (s.getFirst k).isSome :=
  hasFirstIn_eq _ _ _

theorem hasLast_iff (s : Store) (k : Bytes) : s.hasLast k = (s.getLast k).isSome :=
  hasLastIn_eq _ _ _

theorem hasAt_iff (s : Store) (ord : Nat) (k : Bytes) : s.hasAt ord k = (s.getAt ord k).isSome :=
  walkBackHas_eq _ _ _ _

/-- The exported readers only strip the 4-byte tag of `set_sum` stores from a found value; they find
the key exactly when the raw reader does. -/
theorem stripTag_isSome (v : Option Bytes) : (stripTag cfg v).isSome = v.isSome := by
  unfold stripTag
  cases v with
  | none => rfl
  | some b => dsimp only; split <;> rfl

/-! ### Non-vacuity: a concrete block with repeated, non-monotonic ordinals and a deletion -/

def demoCfg : Cfg := ⟨.set, .bytes, 100, 1000, 100⟩
def demoSem : Sem := fun _ _ v => .ok v
def demoCalls : List Op :=
  [⟨.set, 3, [97], [1]⟩, ⟨.set, 1, [97], [2]⟩, ⟨.deletePrefix, 2, [97], []⟩, ⟨.set, 3, [98], [3]⟩, ⟨.set, 1, [98], [4]⟩]
def demoPre : Store := { Store.empty with kv := [([98], [9])], size := 2 }

example : Clean demoPre := ⟨by unfold NodupKeys; decide, rfl, by decide⟩
example : ∃ post, execBlock demoCfg demoSem demoPre demoCalls = .ok post ∧
    post.deltas.length = 5 ∧ post.getAt 1 [97] = some [2] ∧ post.getAt 2 [97] = none ∧
    post.getAt 3 [97] = some [1] ∧ post.getFirst [98] = some [9] ∧ post.getAt 1 [98] = some [4] ∧
    post.getLast [98] = some [3] := by
  refine ⟨_, rfl, ?_⟩
  decide

end SV.C08

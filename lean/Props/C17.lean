import Lemmas.Validate
/-!
# C17 — Malformed requests are rejected with an error, never with a crash or a hang

Property theorems only.  The model (`Model/Validate.lean`) is the request path of tier1 as it is at
/repo HEAD: `Request.Validate → validateBinaryTypes → ValidateModules → validateModuleGraph →
NewOutputModuleGraph (graph, acyclicity, ancestor closure, initial blocks, staging, hashing) →
[first lines of blocks()] → BuildRequestDetails → [start/stop checks] → BuildTier1RequestPlan`,
over the **wire-level** request type: every oneof may be absent, every reference may dangle, names may
be duplicated or empty, numbers are arbitrary.  Every Go partial operation on that path is an
`Outcome.panic` branch of the model, the two constructs without a static bound (the `for i := 0; ; i++`
of `computeStages`, the recursion of `hashModule`) take fuel and return `Outcome.hang` when it runs out.

All theorems quantify over **every** request (no well-formedness hypothesis) and every server
configuration; the only hypothesis anywhere is `0 < cfg.segmentSize` (a server flag, not part of the
request; with segment size 0 the Go code divides by zero, see `segment_size_zero_panics`).
-/
namespace SV.C17
open SV.Val

/-! ## Stage 1: ValidateTier1Request -/

/-- Stage 1 never panics or hangs, whatever the request: `ModuleKind()` is only reached behind the
`kind == nil` check, the block filter module is looked up among modules that all have a kind, edges
added to the graph are in range, ancestors are looked up at indexes in range. -/
theorem validate_total (r : Request) (blockType : Str) :
    validateTier1Request r blockType ≠ .panic ∧ validateTier1Request r blockType ≠ .hang :=
  (good_iff _).1 (validateTier1Request_spec r blockType).1

/-- **The validated invariant.**  What an accepted request is known to satisfy — exactly the facts the
later stages need: module names pairwise distinct and non-empty, every module has a kind, every input
oneof is present, every map/store input and every block filter names an existing module, at most 100
modules with at most 30 inputs each. -/
theorem validated_invariant (r : Request) (blockType : Str) (ms : Modules)
    (h : validateTier1Request r blockType = .ok ms) :
    r.modules = some ms ∧
    (ms.modules.map (·.name)).Nodup ∧
    (∀ m ∈ ms.modules, m.name ≠ [] ∧ m.kind ≠ none ∧ m.inputs.length ≤ 30 ∧
      (∀ i ∈ m.inputs, i ≠ none) ∧
      (∀ nm ∈ depNames m, ∃ m' ∈ ms.modules, m'.name = nm)) ∧
    ms.modules.length ≤ 100 := by
  obtain ⟨h1, h2⟩ := (validateTier1Request_spec r blockType).2 ms h
  exact ⟨h1, h2.nodup,
    fun m hm => ⟨h2.nameNe m hm, h2.kinds m hm, h2.inputCount m hm, h2.present m hm, h2.refs m hm⟩, h2.count⟩

/-! ## Stage 2: NewOutputModuleGraph -/

/-- If validation returned ok, graph construction does not panic: `indexIndex[i]` is only read at
indexes in range, `computeStages` never meets an absent input oneof (its `panic(...)`), no layer is
empty (`l[0]`), the output module is among the used modules (`computeOutputModule`'s `panic(...)`). -/
theorem graph_no_panic (r : Request) (cfg : Cfg) (ms : Modules)
    (h : validateTier1Request r cfg.blockType = .ok ms) : stageGraph r ms cfg ≠ .panic := by
  have hM := ((validateTier1Request_spec r cfg.blockType).2 ms h).2
  exact ((good_iff _).1 (computeGraph_spec hM r.outputModule r.productionMode cfg.firstStreamable).1).1

/-- **Termination of the two unbounded constructs.**  If validation returned ok, the fuel given to
`computeStages`' endless `for` (2·#used + 1 iterations) and to the recursion of `hashModule`
(depth #modules + 1) is never exhausted: every two iterations place at least one module (the unplaced
module of lowest rank in the acyclic graph has all its dependencies placed), and the recursion descends
along the rank. -/
theorem graph_no_hang (r : Request) (cfg : Cfg) (ms : Modules)
    (h : validateTier1Request r cfg.blockType = .ok ms) : stageGraph r ms cfg ≠ .hang := by
  have hM := ((validateTier1Request_spec r cfg.blockType).2 ms h).2
  exact ((good_iff _).1 (computeGraph_spec hM r.outputModule r.productionMode cfg.firstStreamable).1).2

/-- The staging loop alone, for any set of modules with distinct names, present inputs, dependencies
inside the set and a rank decreasing along dependencies: within `2·n + 1` iterations it returns (an
error or layers), and the layers are non-empty sublists of the modules. -/
theorem stages_fuel_suffices (used : List Module) (rk : Str → Nat) (hU : UsedOK used rk)
    (tbl : List (Str × Nat)) :
    computeStages used tbl ≠ .hang ∧ computeStages used tbl ≠ .panic ∧
    ∀ ss, computeStages used tbl = .ok ss →
      (used ≠ [] → ss ≠ []) ∧ ∀ st ∈ ss, st ≠ [] ∧ ∀ l ∈ st, l ≠ [] ∧ l.Sublist used := by
  obtain ⟨hg, hok⟩ := computeStages_spec hU tbl
  refine ⟨((good_iff _).1 hg).2, ((good_iff _).1 hg).1, ?_⟩
  intro ss hss
  have := hok ss hss
  exact ⟨this.ne, fun st hst => ⟨this.stageNe st hst, fun l hl => ⟨this.layerNe st hst l hl, this.sub st hst l hl⟩⟩⟩

/-! ## Stages 3–5: BuildRequestDetails, the start/stop checks, BuildTier1RequestPlan -/

/-- Resolution of the start block and of the linear hand-off never panics (the only partial operation
is `% segmentSize`) nor hangs, for any request, validated or not. -/
theorem details_total (r : Request) (cfg : Cfg) (ms : Modules) (hseg : 0 < cfg.segmentSize) :
    stageDetails r ms cfg ≠ .panic ∧ stageDetails r ms cfg ≠ .hang :=
  (good_iff _).1 (stageDetails_good r ms cfg hseg)

theorem checks_total (r : Request) (eg : ExecGraph) (d : Details) :
    stageChecks r eg d ≠ .panic ∧ stageChecks r eg d ≠ .hang :=
  (good_iff _).1 (stageChecks_good r eg d)

/-- If the earlier stages returned ok, planning does not panic: `StagedUsedModules()[0]`,
`.LastLayer()`, `.IsStoreLayer()` find a stage, a layer, a module, and `*LowestStoresInitBlock()` is
only dereferenced when a used module is a store. -/
theorem plan_total (r : Request) (cfg : Cfg) (ms : Modules) (eg : ExecGraph) (d : Details)
    (hseg : 0 < cfg.segmentSize)
    (h : validateTier1Request r cfg.blockType = .ok ms) (hg : stageGraph r ms cfg = .ok eg) :
    stagePlan r eg d cfg ≠ .panic ∧ stagePlan r eg d cfg ≠ .hang := by
  have hM := ((validateTier1Request_spec r cfg.blockType).2 ms h).2
  have hE := (computeGraph_spec hM r.outputModule r.productionMode cfg.firstStreamable).2 eg hg
  exact (good_iff _).1 (stagePlan_good r hE d cfg hseg)

/-! ## The whole pipeline -/

/-- The five stage lemmas chained in the order of `Tier1Service.Blocks`: each stage is entered only
when the previous ones returned ok, with the validated invariant / the invariant of the execution graph
as hypothesis. -/
theorem pipeline_total (r : Request) (cfg : Cfg) (hseg : 0 < cfg.segmentSize) :
    Good (pipeline r cfg) := by
  unfold pipeline pipelineStaged
  obtain ⟨hv, hvok⟩ := validateTier1Request_spec r cfg.blockType
  cases h1 : validateTier1Request r cfg.blockType with
  | error => simp
  | panic => rw [h1] at hv; simp at hv
  | hang => rw [h1] at hv; simp at hv
  | ok ms =>
    simp only
    have hM := (hvok ms h1).2
    obtain ⟨hg, hgok⟩ := computeGraph_spec hM r.outputModule r.productionMode cfg.firstStreamable
    cases h2 : stageGraph r ms cfg with
    | error => simp
    | panic => unfold stageGraph at h2; rw [h2] at hg; simp at hg
    | hang => unfold stageGraph at h2; rw [h2] at hg; simp at hg
    | ok eg =>
      simp only
      have hE := hgok eg (by unfold stageGraph at h2; exact h2)
      have hd := stageDetails_good r ms cfg hseg
      cases h3 : stageDetails r ms cfg with
      | error => simp
      | panic => rw [h3] at hd; simp at hd
      | hang => rw [h3] at hd; simp at hd
      | ok d =>
        simp only
        have hc := stageChecks_good r eg d
        cases h4 : stageChecks r eg d with
        | error => simp
        | panic => rw [h4] at hc; simp at hc
        | hang => rw [h4] at hc; simp at hc
        | ok u =>
          simp only
          have hp := stagePlan_good r hE d cfg hseg
          cases h5 : stagePlan r eg d cfg with
          | error => simp
          | panic => rw [h5] at hp; simp at hp
          | hang => rw [h5] at hp; simp at hp
          | ok p => simp

/-- **No crash.**  For every wire-level request — absent kinds, absent input oneofs, dangling
references, duplicate or empty names, out-of-range binary indexes, self references, cycles, arbitrary
numbers, any cursor — and every server configuration with a non-zero segment size, validation, graph
construction, hashing, staging, request resolution and planning end with `ok` or `error`, never with a
panic. -/
theorem no_panic (r : Request) (cfg : Cfg) (hseg : 0 < cfg.segmentSize) : pipeline r cfg ≠ .panic :=
  ((good_iff _).1 (pipeline_total r cfg hseg)).1

/-- **No hang.**  Same quantification: neither the staging loop nor the hash recursion runs out of
fuel; every other loop of the model is structural recursion (Lean's termination check). -/
theorem no_hang (r : Request) (cfg : Cfg) (hseg : 0 < cfg.segmentSize) : pipeline r cfg ≠ .hang :=
  ((good_iff _).1 (pipeline_total r cfg hseg)).2

/-- Every request is either accepted or rejected with an error. -/
theorem accepted_or_rejected (r : Request) (cfg : Cfg) (hseg : 0 < cfg.segmentSize) :
    (∃ s, pipeline r cfg = .ok s) ∨ pipeline r cfg = .error := by
  have h1 := no_panic r cfg hseg
  have h2 := no_hang r cfg hseg
  cases h : pipeline r cfg with
  | ok s => exact Or.inl ⟨s, rfl⟩
  | error => exact Or.inr rfl
  | panic => exact absurd h h1
  | hang => exact absurd h h2

/-! ## tier2: ValidateTier2Request and the first steps of processRange

`ProcessRangeRequest.Validate` does not check `stage` against the number of stages of the graph;
`processRange` used to index the stages with it (`execGraph.UsedModulesUpToStage(int(request.Stage))`)
right after `NewOutputModuleGraph` and panicked with "index out of range" for a stage beyond the last
one (found by this check, class `C17/panic/tier2-processRange/index-out-of-range`, fixed by 84ed6b1e:
the stage is now checked first).  The model is the model of the repaired code. -/

/-- the stage check and the indexing that follows it: never a panic, whatever the stage number -/
theorem stage_check_guards_indexing (eg : ExecGraph) (stage : Nat) :
    ((checkStage eg stage).bind fun _ => usedModulesUpToStage eg stage) ≠ .panic ∧
    ((checkStage eg stage).bind fun _ => usedModulesUpToStage eg stage) ≠ .hang := by
  unfold checkStage usedModulesUpToStage
  by_cases h : eg.stages.length ≤ stage
  · simp [h]
  · have h' : stage < eg.stages.length := by omega
    simp [h, h']

/-- **tier2: no crash, no hang**, for every wire-level internal request, whatever its stage number. -/
theorem tier2_total (r : T2Request) : Good (pipelineTier2 r) := by
  unfold pipelineTier2 pipelineTier2Staged
  obtain ⟨hv, hvok⟩ := validateTier2Request_spec r
  cases h1 : validateTier2Request r with
  | error => simp
  | panic => rw [h1] at hv; simp at hv
  | hang => rw [h1] at hv; simp at hv
  | ok ms =>
    simp only
    obtain ⟨hg, _⟩ := computeGraph_spec (hvok ms h1) r.outputModule true r.firstStreamable
    cases h2 : computeGraph r.outputModule true ms r.firstStreamable with
    | error => simp
    | panic => rw [h2] at hg; simp at hg
    | hang => rw [h2] at hg; simp at hg
    | ok eg =>
      simp only
      have hs := stage_check_guards_indexing eg r.stage
      cases h3 : (checkStage eg r.stage).bind fun _ => usedModulesUpToStage eg r.stage with
      | error => simp
      | panic => exact absurd h3 hs.1
      | hang => exact absurd h3 hs.2
      | ok l => simp

theorem tier2_no_panic (r : T2Request) : pipelineTier2 r ≠ .panic :=
  ((good_iff _).1 (tier2_total r)).1

theorem tier2_no_hang (r : T2Request) : pipelineTier2 r ≠ .hang :=
  ((good_iff _).1 (tier2_total r)).2

/-! ## Bounded allocation -/

theorem edgesOf_length_le (ms : List Module) (m : Module) : (edgesOf ms m).length ≤ m.inputs.length + 1 := by
  unfold edgesOf
  rw [List.length_append]
  have h1 := List.length_filterMap_le (inputEdge ms) m.inputs
  cases m.blockFilter with
  | none => simp only [List.length_nil]; omega
  | some bf =>
    simp only
    cases lookupIdx bf.module ms <;> simp <;> omega

/-- **Sizes of the intermediate structures** of an accepted request are bounded by small polynomials
in the two validated limits (100 modules, 30 inputs): the module graph has at most 100 vertices with
at most 31 out-edges each; at most 100 modules are used; there are at most 100 stages, every layer has
at most 100 modules; the staging loop is given 2·#used + 1 ≤ 201 iterations and the hash recursion depth
#modules + 1 ≤ 101, and by `graph_no_hang` neither bound is reached.  (The byte size of a hash pre-image
— it contains the module's binary — is C06's model; here the 300 MB limit on the sum of binaries
bounds it.) -/
theorem alloc_bounded (r : Request) (cfg : Cfg) (ms : Modules) (eg : ExecGraph)
    (h : validateTier1Request r cfg.blockType = .ok ms) (hg : stageGraph r ms cfg = .ok eg) :
    ms.modules.length ≤ 100 ∧
    (∀ m ∈ ms.modules, (edgesOf ms.modules m).length ≤ 31) ∧
    eg.used.length ≤ 100 ∧
    eg.stages.length ≤ 100 ∧
    (∀ st ∈ eg.stages, ∀ l ∈ st, l.length ≤ 100) ∧
    stagesFuel eg.used ≤ 201 ∧
    sumCode ms.binaries ≤ 300000000 := by
  have hM := ((validateTier1Request_spec r cfg.blockType).2 ms h).2
  have hE := (computeGraph_spec hM r.outputModule r.productionMode cfg.firstStreamable).2 eg hg
  have hcount := hM.count
  have hused : eg.used.length ≤ 100 := Nat.le_trans hE.usedLen hcount
  refine ⟨hcount, ?_, hused, Nat.le_trans hE.stages.len hused, ?_, ?_, ?_⟩
  · intro m hm
    have := edgesOf_length_le ms.modules m
    have := hM.inputCount m hm
    omega
  · intro st hst l hl
    exact Nat.le_trans (hE.stages.sub st hst l hl).length_le hused
  · unfold stagesFuel; omega
  · -- validateModules returned ok, so the size check passed
    obtain ⟨ms', h1, h'⟩ := bind_eq_ok.1 (show (requestValidate r).bind _ = .ok ms from h)
    obtain ⟨u, h2, h'⟩ := bind_eq_ok.1 h'
    injection h' with h'; subst h'
    obtain ⟨_, _, h2⟩ := bind_eq_ok.1 (show (validateBinaryTypes ms'.binaries).bind _ = .ok u from h2)
    obtain ⟨_, h3, _⟩ := bind_eq_ok.1 h2
    unfold validateModules at h3
    split at h3
    · cases h3
    · omega

/-! ## Non-vacuity: an accepted request, one request per rejection class, and the live panic / hang
branches of the model (all kernel-checked by evaluation) -/

section Examples

private def nT : Str := [84]
private def nA : Str := [97]
private def nS : Str := [115]
private def nC : Str := [99]

private def cfg0 : Cfg := ⟨nT, 0, 10, some 100, some 200, .noJunction⟩

/-- a: map(source T) ; s: store(map a) from block 3 ; c: map(store s get, map a) -/
private def mods0 : List Module :=
  [⟨nA, some .map, 0, [some (.source nT)], 0, none⟩,
   ⟨nS, some .store, 0, [some (.map nA)], 3, none⟩,
   ⟨nC, some .map, 0, [some (.store nS 1), some (.map nA)], 0, none⟩]

private def req0 (ms : List Module) : Request :=
  ⟨some ⟨ms, [⟨typeRustV1, 3⟩]⟩, nC, 5, 50, .none, true, []⟩

/-- accepted: two stages `[[a],[s]]`, `[[c]]`, stores built over [3,50), output written from block 0 -/
example : (pipelineStaged (req0 mods0) cfg0).1 = .done ∧ (pipeline (req0 mods0) cfg0).isOk = true := by decide

private def summaryIs (o : Outcome Summary) (stages : List (List (List Str))) (stores write : Option (Nat × Nat))
    (handoff : Nat) : Bool :=
  match o with
  | .ok s => s.graph.stages.map (·.map (·.map (·.name))) == stages && s.plan.buildStores == stores &&
      s.plan.writeExecOut == write && s.details.handoff == handoff
  | _ => false

example : summaryIs (pipeline (req0 mods0) cfg0) [[[nA], [nS]], [[nC]]] (some (3, 50)) (some (0, 50)) 50 = true := by
  decide

/-- absent kind (F10's shape): rejected by validation -/
example : (pipelineStaged (req0 [⟨nA, none, 0, [some (.source nT)], 0, none⟩,
    ⟨nC, some .map, 0, [some (.map nA)], 0, none⟩]) cfg0).1 = .validate ∧
    (pipeline (req0 [⟨nA, none, 0, [some (.source nT)], 0, none⟩,
    ⟨nC, some .map, 0, [some (.map nA)], 0, none⟩]) cfg0).isError = true := by decide

/-- absent input oneof (F12's shape) -/
example : (pipelineStaged (req0 [⟨nC, some .map, 0, [none], 0, none⟩]) cfg0).1 = .validate ∧
    (pipeline (req0 [⟨nC, some .map, 0, [none], 0, none⟩]) cfg0).isError = true := by decide

/-- dangling map reference -/
example : (pipeline (req0 [⟨nC, some .map, 0, [some (.map nA)], 0, none⟩]) cfg0).isError = true := by decide

/-- duplicate names -/
example : (pipeline (req0 [⟨nC, some .map, 0, [some (.source nT)], 0, none⟩,
    ⟨nC, some .map, 0, [some (.source nT)], 0, none⟩]) cfg0).isError = true := by decide

/-- a 2-cycle a ⇄ c: rejected by validateModuleGraph ("modules graph has a cycle") -/
example : (pipelineStaged (req0 [⟨nA, some .map, 0, [some (.map nC)], 0, none⟩,
    ⟨nC, some .map, 0, [some (.map nA)], 0, none⟩]) cfg0).1 = .validate ∧
    (pipeline (req0 [⟨nA, some .map, 0, [some (.map nC)], 0, none⟩,
    ⟨nC, some .map, 0, [some (.map nA)], 0, none⟩]) cfg0).isError = true := by decide

/-- a self reference -/
example : (pipeline (req0 [⟨nC, some .map, 0, [some (.map nC)], 0, none⟩]) cfg0).isError = true := by decide

/-- binary index out of range (F11's shape): passes validation, rejected while hashing -/
example : (pipelineStaged (req0 [⟨nC, some .map, 7, [some (.source nT)], 0, none⟩]) cfg0).1 = .graph ∧
    (pipeline (req0 [⟨nC, some .map, 7, [some (.source nT)], 0, none⟩]) cfg0).isError = true := by decide

/-- an unparsable cursor: rejected by BuildRequestDetails -/
example : (pipelineStaged { req0 mods0 with startCursor := .invalid } cfg0).1 = .details ∧
    (pipeline { req0 mods0 with startCursor := .invalid } cfg0).isError = true := by decide

/-- start block = stop block -/
example : (pipelineStaged { req0 mods0 with stopBlockNum := 5 } cfg0).1 = .checks ∧
    (pipeline { req0 mods0 with stopBlockNum := 5 } cfg0).isError = true := by decide

/-- a cursor on block 1 of a chain whose first streamable block is 5: rejected by the planner -/
example : (pipelineStaged { req0 [⟨nC, some .map, 0, [some (.source nT)], 0, none⟩] with startCursor := .valid 1 1 1 }
      { cfg0 with firstStreamable := 5 }).1 = .plan ∧
    (pipeline { req0 [⟨nC, some .map, 0, [some (.source nT)], 0, none⟩] with startCursor := .valid 1 1 1 }
      { cfg0 with firstStreamable := 5 }).isError = true := by
  decide

/-- The hypothesis of `no_panic` is needed: with segment size 0 (a server flag) the hand-off
computation divides by zero. -/
theorem segment_size_zero_panics :
    (pipelineStaged (req0 mods0) { cfg0 with segmentSize := 0 }).1 = .details ∧
    (pipeline (req0 mods0) { cfg0 with segmentSize := 0 }).isPanic = true := by decide

/-- The panic branches of the model are live — they are excluded by the validated invariant, not by the
shape of the model: `computeStages` on a module with an absent input oneof panics (F12 before the fix),
`ModuleKind()` of a module without kind panics (F10). -/
example : (computeStages [⟨nC, some .map, 0, [none], 0, none⟩] []).isPanic = true := by decide
example : (⟨nC, none, 0, [], 0, none⟩ : Module).moduleKind.isPanic = true := by decide

/-- … and so is the hang branch: with two modules of the same name the staging loop never reaches
`len(seen) == len(mods)` (duplicate names are rejected by validation). -/
example : (computeStages [⟨nC, some .map, 0, [some (.source nT)], 0, none⟩,
    ⟨nC, some .map, 0, [some (.source nT)], 0, none⟩] []).isHang = true := by decide

/-- … and a dependency outside the set of used modules is never placed (the ancestor closure is what
excludes it). -/
example : (computeStages [⟨nC, some .map, 0, [some (.map nA)], 0, none⟩] []).isHang = true := by decide

/-- The former tier2 witness: one map module reading the block source, stage 1 (the graph has the
single stage 0).  Validation and graph construction accept it; it is now rejected with an error at the
stage check … -/
example : (pipelineTier2Staged ⟨some ⟨[⟨nA, some .map, 0, [some (.source nT)], 0, none⟩], [⟨typeRustV1, 0⟩]⟩,
      nA, nT, 1, 10, 0, 0, 0, true, true, true⟩).1 = .upto ∧
    (pipelineTier2 ⟨some ⟨[⟨nA, some .map, 0, [some (.source nT)], 0, none⟩], [⟨typeRustV1, 0⟩]⟩,
      nA, nT, 1, 10, 0, 0, 0, true, true, true⟩).isError = true := by decide

/-- … with stage 0 the same request is accepted … -/
example : (pipelineTier2 ⟨some ⟨[⟨nA, some .map, 0, [some (.source nT)], 0, none⟩], [⟨typeRustV1, 0⟩]⟩,
      nA, nT, 0, 10, 0, 0, 0, true, true, true⟩).isOk = true := by decide

/-- … and the indexing itself still panics when it is not guarded (what the code did before 84ed6b1e). -/
example : (usedModulesUpToStage ⟨[], [[[⟨nA, some .map, 0, [], 0, none⟩]]], 0, none,
    ⟨nA, some .map, 0, [], 0, none⟩, []⟩ 1).isPanic = true := by decide

end Examples

end SV.C17

import Lemmas.Snapshot
/-!
# C10 — Store snapshots round-trip through save/load and are found by block range

Property theorems only (helper lemmas: `Lemmas/Wire.lean`, `Lemmas/Filename.lean`, `Lemmas/Snapshot.lean`; models:
`Model/Wire.lean`, `Model/Filename.lean`, `Model/Snapshot.lean`).

Hypotheses that recur, and where they come from:

* `(kv.map (·.1)).Nodup` — the store content is a Go `map[string][]byte`: keys are distinct.  The list order is
  the (arbitrary) order in which the map iteration emits the entries; every theorem holds for every order.
* `(vtEncStoreData kv dp).length < 2^63` — the marshalled content is a Go `[]byte`; `len` is an `int`.
* block numbers `< 2^63` for parsing a name back: `parseFileName` uses `strconv.Atoi` (an `int`) and panics above.
* block numbers `< 10^10` for the order/listing theorems: `%010d` pads to ten digits, beyond that the
  lexicographic order of the names is no longer the numeric order (the property is stated for ≤ 10 digits).

Keys and values are arbitrary byte strings (including empty ones); nothing asks for UTF-8 here, because
save/load both go through the default marshaller `VTproto` (see C18 for the other codecs).
-/
namespace SV.C10
open SV.Wire SV.Filename SV.Snapshot

/-- **Full store: load ∘ save = id.**  Saving the content `kv` of a full store whose module starts at
`init`, at boundary `stop`, into any object store `fs` succeeds, writes the object `fullName init stop`, and
loading that object into a fresh store gives the same keys and values and `totalSizeBytes` = Σ (len key + len
value).  (A full store has no deleted prefixes.) -/
theorem load_save_full (fs : Files) (init stop : Nat) (kv : KV)
    (hnd : (kv.map (·.1)).Nodup) (hlen : (vtEncStoreData kv []).length < two63) :
    ∃ fs', saveFull fs init stop kv = .ok (fullName init stop, fs') ∧
      existsFullKV fs' init stop = true ∧
      loadFull fs' (fullName init stop) = .ok ⟨kv, [], kvSize kv⟩ := by
  refine ⟨fs.write (fullName init stop) (vtEncStoreData kv []), ?_, ?_, ?_⟩
  · simp only [saveFull, marshalVT_eq]
  · simp only [existsFullKV, Files.exists, read_write_same, Option.isSome_some]
  · simp only [loadFull, read_write_same, unmarshalVT_enc kv [] hnd hlen]

/-- **Partial store: load ∘ save = id**, including the deleted-prefix list (order and duplicates kept) and the
size. -/
theorem load_save_partial (fs : Files) (init stop : Nat) (kv : KV) (dp : List Bytes)
    (hnd : (kv.map (·.1)).Nodup) (hlen : (vtEncStoreData kv dp).length < two63) :
    ∃ fs', savePartial fs init stop kv dp = .ok (partialName init stop, fs') ∧
      existsPartialKV fs' init stop = true ∧
      loadPartial fs' (partialName init stop) = .ok ⟨kv, dp, kvSize kv⟩ := by
  refine ⟨fs.write (partialName init stop) (vtEncStoreData kv dp), ?_, ?_, ?_⟩
  · simp only [savePartial, marshalVT_eq]
  · simp only [existsPartialKV, Files.exists, read_write_same, Option.isSome_some]
  · simp only [loadPartial, read_write_same, unmarshalVT_enc kv dp hnd hlen]

/-- the retry loop of `saveStore`: when it reports success, the object is the whole content, whatever the failed
attempts left behind, and every other object is untouched -/
theorem writeRetry_spec (name : Name) (content : Bytes) : ∀ (budget : Nat) (att : List WriteAttempt) (fs fs' : Files),
    writeRetry fs name content budget att = some fs' →
    fs'.read name = some content ∧ ∀ other, other ≠ name → fs'.read other = fs.read other := by
  intro budget
  induction budget with
  | zero => intro att fs fs' h; simp [writeRetry] at h
  | succ k ih =>
    intro att fs fs' h
    cases att with
    | nil =>
      simp only [writeRetry, Option.some.injEq] at h; subst h
      exact ⟨read_write_same _ _ _, fun o ho => read_write_other _ _ _ _ ho⟩
    | cons a rest =>
      cases a with
      | ok =>
        simp only [writeRetry, Option.some.injEq] at h; subst h
        exact ⟨read_write_same _ _ _, fun o ho => read_write_other _ _ _ _ ho⟩
      | fail g =>
        simp only [writeRetry] at h
        obtain ⟨h1, h2⟩ := ih rest _ fs' h
        refine ⟨h1, fun o ho => ?_⟩
        rw [h2 o ho]
        cases g with
        | none => rfl
        | some x => exact read_write_other _ _ _ _ ho

/-- with fewer failed attempts than the retry budget the write succeeds -/
theorem writeRetry_succeeds (name : Name) (content : Bytes) : ∀ (budget : Nat) (att : List WriteAttempt) (fs : Files),
    att.length < budget → ∃ fs', writeRetry fs name content budget att = some fs' := by
  intro budget
  induction budget with
  | zero => intro att fs h; omega
  | succ k ih =>
    intro att fs h
    cases att with
    | nil => exact ⟨_, rfl⟩
    | cons a rest =>
      cases a with
      | ok => exact ⟨_, rfl⟩
      | fail g =>
        simp only [writeRetry]
        exact ih rest _ (by simpa using h)

/-- **load ∘ save = id under transient write failures.**  Whatever up to `saveRetries` (10) failed write attempts
did — consumed none, part or all of the payload, left nothing or any garbage under the object's name — a `Save`
that reports success wrote the whole snapshot: it exists, loads back to the same keys, values, deleted prefixes and
size, and every other object is as before. -/
theorem load_save_under_write_faults (fs : Files) (init stop : Nat) (kv : KV) (dp : List Bytes)
    (att : List WriteAttempt) (hatt : att.length ≤ saveRetries)
    (hnd : (kv.map (·.1)).Nodup)
    (hlenF : (vtEncStoreData kv []).length < two63) (hlenP : (vtEncStoreData kv dp).length < two63) :
    (∃ fs', saveFullR fs init stop kv att = .ok (fullName init stop, some fs') ∧
      existsFullKV fs' init stop = true ∧
      loadFull fs' (fullName init stop) = .ok ⟨kv, [], kvSize kv⟩ ∧
      ∀ other, other ≠ fullName init stop → fs'.read other = fs.read other) ∧
    (∃ fs', savePartialR fs init stop kv dp att = .ok (partialName init stop, some fs') ∧
      existsPartialKV fs' init stop = true ∧
      loadPartial fs' (partialName init stop) = .ok ⟨kv, dp, kvSize kv⟩ ∧
      ∀ other, other ≠ partialName init stop → fs'.read other = fs.read other) := by
  constructor
  · obtain ⟨fs', h⟩ := writeRetry_succeeds (fullName init stop) (vtEncStoreData kv []) (saveRetries + 1) att fs (by omega)
    obtain ⟨h1, h2⟩ := writeRetry_spec _ _ _ _ _ _ h
    refine ⟨fs', ?_, ?_, ?_, h2⟩
    · simp only [saveFullR, marshalVT_eq, h]
    · simp only [existsFullKV, Files.exists, h1, Option.isSome_some]
    · simp only [loadFull, h1, unmarshalVT_enc kv [] hnd hlenF]
  · obtain ⟨fs', h⟩ := writeRetry_succeeds (partialName init stop) (vtEncStoreData kv dp) (saveRetries + 1) att fs (by omega)
    obtain ⟨h1, h2⟩ := writeRetry_spec _ _ _ _ _ _ h
    refine ⟨fs', ?_, ?_, ?_, h2⟩
    · simp only [savePartialR, marshalVT_eq, h]
    · simp only [existsPartialKV, Files.exists, h1, Option.isSome_some]
    · simp only [loadPartial, h1, unmarshalVT_enc kv dp hnd hlenP]

/-- Saving a snapshot leaves every other object of the store as it was (so earlier snapshots still load). -/
theorem save_preserves_others (fs : Files) (init stop : Nat) (kv : KV) (dp : List Bytes) (other : Name)
    (fs' : Files) (name : Name)
    (h : saveFull fs init stop kv = .ok (name, fs') ∨ savePartial fs init stop kv dp = .ok (name, fs'))
    (hne : other ≠ name) : fs'.read other = fs.read other := by
  rcases h with h | h
  · simp only [saveFull, marshalVT_eq] at h
    injection h with h
    injection h with h1 h2
    subst h1; subst h2
    exact read_write_other fs _ other _ hne
  · simp only [savePartial, marshalVT_eq] at h
    injection h with h
    injection h with h1 h2
    subst h1; subst h2
    exact read_write_other fs _ other _ hne

/-- **The file name encodes range and kind: parsing returns them**, for all block numbers an `int` can hold
(also beyond ten digits). -/
theorem parse_name (isPartial : Bool) (start stop : Nat) (hs : start < 2 ^ 63) (he : stop < 2 ^ 63) :
    parseFileName (snapshotName isPartial start stop) = .ok ⟨start, stop, isPartial, false⟩ :=
  parse_snapshotName isPartial start stop (by unfold maxInt64; omega) (by unfold maxInt64; omega)

/-- Distinct (range, kind) give distinct file names (below 2^63). -/
theorem name_injective (p p' : Bool) (a b a' b' : Nat)
    (ha : a < 2 ^ 63) (hb : b < 2 ^ 63) (ha' : a' < 2 ^ 63) (hb' : b' < 2 ^ 63)
    (h : snapshotName p a b = snapshotName p' a' b') : p = p' ∧ a = a' ∧ b = b' := by
  have h1 := parse_name p a b ha hb
  have h2 := parse_name p' a' b' ha' hb'
  rw [h, h2] at h1
  injection h1 with h1
  injection h1 with e1 e2 e3 _
  exact ⟨e3.symm, e1.symm, e2.symm⟩

/-- **A later Save does not disturb an earlier one** (the squasher keeps the write of a merged snapshot pending while
it saves the next): two Saves of the same full store at different boundaries, written in any order — a `Save` freezes its
content — leave two objects that load back to the state of their own Save. -/
theorem two_saves_full (fs : Files) (init e1 e2 : Nat) (kv1 kv2 : KV)
    (hi : init < 2 ^ 63) (h1 : e1 < 2 ^ 63) (h2 : e2 < 2 ^ 63) (hne : e1 ≠ e2)
    (hnd1 : (kv1.map (·.1)).Nodup) (hlen1 : (vtEncStoreData kv1 []).length < two63)
    (hnd2 : (kv2.map (·.1)).Nodup) (hlen2 : (vtEncStoreData kv2 []).length < two63) :
    ∃ fs1 fs2, saveFull fs init e1 kv1 = .ok (fullName init e1, fs1) ∧
      saveFull fs1 init e2 kv2 = .ok (fullName init e2, fs2) ∧
      loadFull fs2 (fullName init e1) = .ok ⟨kv1, [], kvSize kv1⟩ ∧
      loadFull fs2 (fullName init e2) = .ok ⟨kv2, [], kvSize kv2⟩ := by
  obtain ⟨fs1, hs1, _, hl1⟩ := load_save_full fs init e1 kv1 hnd1 hlen1
  obtain ⟨fs2, hs2, _, hl2⟩ := load_save_full fs1 init e2 kv2 hnd2 hlen2
  refine ⟨fs1, fs2, hs1, hs2, ?_, hl2⟩
  have hname : fullName init e1 ≠ fullName init e2 := by
    intro h
    have := name_injective false false init e1 init e2 hi h1 hi h2 (by simpa [snapshotName] using h)
    exact hne this.2.2
  have hkeep := save_preserves_others fs1 init e2 kv2 [] (fullName init e1) fs2 (fullName init e2) (Or.inl hs2) hname
  simp only [loadFull, hkeep]
  simpa only [loadFull] using hl1

/-- **`%010d` preserves order below 10^10**: the Go string order (`nameLe`) of the padded numbers is the numeric
order. -/
theorem pad10_order {a b : Nat} (ha : a < 10 ^ 10) (hb : b < 10 ^ 10) :
    nameLe (pad10 a) (pad10 b) = true ↔ a ≤ b :=
  nameLe_pad10 ha hb

/-- strict version: `pad10 a` sorts strictly before `pad10 b` iff `a < b` -/
theorem pad10_order_strict {a b : Nat} (ha : a < 10 ^ 10) (hb : b < 10 ^ 10) :
    nameLe (pad10 b) (pad10 a) = false ↔ a < b := by
  have h := nameLe_pad10 hb ha
  constructor
  · intro hf
    apply Nat.lt_of_not_le
    intro hle
    rw [h.2 hle] at hf
    exact Bool.noConfusion hf
  · intro hlt
    cases hc : nameLe (pad10 b) (pad10 a) with
    | false => rfl
    | true => exact absurd (h.1 hc) (by omega)

/-- a saved snapshot: block range and kind -/
structure Snap where
  start : Nat
  stop : Nat
  isPartial : Bool
deriving DecidableEq, Repr

def Snap.name (s : Snap) : Name := snapshotName s.isPartial s.start s.stop

/-- what `names` may contain besides snapshot names: objects `ListSnapshotFiles` skips -/
def Skipped (n : Name) : Prop :=
  parseFileName n = .noMatch ∨ ∃ fi, parseFileName n = .ok fi ∧ fi.withTraceID = true

/-- **Listing is complete.**  Let the object store hold the names `names` (in any order; `ListSnapshotFiles`
sees them in lexicographic order), each of which is the name of a saved snapshot with a non-empty range
(`start < stop`: segments are never empty, C13) and an end block of at most ten digits, or an object the walk
skips (unparseable, or carrying a trace id).  Then for every saved snapshot that ends at or below `below`, the
listing returns it, with its range and its full/partial kind — whether the store honours `StopIteration`
(`stops = true`: GCS, S3, Azure, the documented contract) or ignores it (`stops = false`: the local store).

What the early stop (`start ≥ below ⇒ stop`) needs is exactly: every non-skipped name that sorts before the
wanted one starts below `below`.  That follows from `start < stop`, `stop ≤ stop'` (names sort by end block,
`pad10_order`, hence the ten-digit bound) and `stop' ≤ below`. -/
theorem list_complete (stops : Bool) (below : Nat) (names : List Name) (snaps : List Snap)
    (hvalid : ∀ s ∈ snaps, s.start < s.stop ∧ s.stop < 10 ^ 10)
    (hnames : ∀ n ∈ names, (∃ s ∈ snaps, n = s.name) ∨ Skipped n)
    (s : Snap) (hs : s ∈ snaps) (hin : s.name ∈ names) (hend : s.stop ≤ below) :
    ∃ l, listSnapshotFiles stops below names = .ok l ∧ (⟨s.start, s.stop, s.isPartial, false⟩ : FileInfo) ∈ l := by
  have hparse : ∀ t ∈ snaps, parseFileName t.name = .ok ⟨t.start, t.stop, t.isPartial, false⟩ := by
    intro t ht
    have := hvalid t ht
    exact parse_name t.isPartial t.start t.stop (by omega) (by omega)
  have hsv := hvalid s hs
  unfold listSnapshotFiles
  rw [if_neg (by omega)]
  apply walk_finds stops below s.name _ (sortNames names) [] (sortNames_pairwise names)
    (mem_sortNames.2 hin) _ (hparse s hs) rfl
  · -- what the early stop needs
    intro n hn fi hp htr hle
    rcases hnames n (mem_sortNames.1 hn) with ⟨t, ht, rfl⟩ | hsk
    · rw [hparse t ht] at hp
      injection hp with hp
      subst hp
      have htv := hvalid t ht
      obtain ⟨r1, e1⟩ := snapshotName_split t.isPartial t.start t.stop
      obtain ⟨r2, e2⟩ := snapshotName_split s.isPartial s.start s.stop
      change nameLe (snapshotName t.isPartial t.start t.stop) (snapshotName s.isPartial s.start s.stop) = true at hle
      rw [e1, e2] at hle
      have hpre := nameLe_prefix (pad10 t.stop) (pad10 s.stop) r1 r2
        (by rw [pad10_length htv.2, pad10_length hsv.2]) hle
      have := (nameLe_pad10 htv.2 hsv.2).1 hpre
      show t.start < below
      omega
    · rcases hsk with hnm | ⟨fi', hp', ht'⟩
      · rw [hnm] at hp; exact ParseResult.noConfusion hp
      · rw [hp'] at hp
        injection hp with hp
        subst hp
        rw [ht'] at htr
        exact Bool.noConfusion htr
  · -- nothing in the directory makes `mustAtoi` panic
    intro n hn
    rcases hnames n (mem_sortNames.1 hn) with ⟨t, ht, rfl⟩ | hsk
    · rw [hparse t ht]; exact fun h => ParseResult.noConfusion h
    · rcases hsk with hnm | ⟨fi', hp', _⟩
      · rw [hnm]; exact fun h => ParseResult.noConfusion h
      · rw [hp']; exact fun h => ParseResult.noConfusion h

/-- The listing returns only what is in the store with the kind its name says: every returned file info is the
parse of one of the names, carries no trace id and starts below `below`. -/
theorem list_sound (stops : Bool) (below : Nat) (names : List Name) (l : List FileInfo)
    (h : listSnapshotFiles stops below names = .ok l) :
    ∀ fi ∈ l, fi.withTraceID = false ∧ fi.start < below ∧ ∃ n ∈ names, parseFileName n = .ok fi := by
  unfold listSnapshotFiles at h
  by_cases hb : below = 0
  · rw [if_pos hb] at h
    injection h with h
    subst h
    intro fi hfi
    simp at hfi
  · rw [if_neg hb] at h
    have key : ∀ (ns : List Name) (acc l : List FileInfo),
        (∀ fi ∈ acc, fi.withTraceID = false ∧ fi.start < below ∧ ∃ n ∈ names, parseFileName n = .ok fi) →
        (∀ n ∈ ns, n ∈ names) →
        walk stops below ns acc = .ok l →
        ∀ fi ∈ l, fi.withTraceID = false ∧ fi.start < below ∧ ∃ n ∈ names, parseFileName n = .ok fi := by
      intro ns
      induction ns with
      | nil =>
        intro acc l hacc _ hw
        unfold walk at hw
        injection hw with hw
        subst hw
        exact hacc
      | cons n rest ih =>
        intro acc l hacc hsub hw
        have hrest : ∀ m ∈ rest, m ∈ names := fun m hm => hsub m (by simp [hm])
        unfold walk at hw
        cases hp : parseFileName n with
        | noMatch => rw [hp] at hw; exact ih acc l hacc hrest hw
        | panic => rw [hp] at hw; exact ListResult.noConfusion hw
        | ok fi =>
          rw [hp] at hw
          simp only [] at hw
          by_cases ht : fi.withTraceID = true
          · rw [if_pos ht] at hw; exact ih acc l hacc hrest hw
          · rw [if_neg ht] at hw
            by_cases hge : fi.start ≥ below
            · rw [if_pos hge] at hw
              cases stops
              · simp only [Bool.false_eq_true, if_false] at hw; exact ih acc l hacc hrest hw
              · simp only [if_true] at hw
                injection hw with hw
                subst hw
                exact hacc
            · rw [if_neg hge] at hw
              apply ih (acc ++ [fi]) l _ hrest hw
              intro x hx
              simp only [List.mem_append, List.mem_singleton] at hx
              rcases hx with hx | hx
              · exact hacc x hx
              · subst hx
                exact ⟨by simpa using ht, by omega, n, hsub n (by simp), hp⟩
    exact key (sortNames names) [] l (by simp) (fun n hn => mem_sortNames.1 hn) h

/-! ### non-vacuity: the hypotheses are met by concrete, non-trivial instances -/

/-- a partial store with a binary key (not UTF-8), an empty value, the empty key and two deleted prefixes
satisfies the hypotheses of `load_save_partial` -/
example :
    let kv : KV := [([0x6b, 0xff, 0xfe], [1, 2, 3]), ([0x61], []), ([], [9])]
    let dp : List Bytes := [[0x70], [0xff]]
    (kv.map (·.1)).Nodup ∧ (vtEncStoreData kv dp).length < two63 := by
  refine ⟨by decide, ?_⟩
  simp [vtEncStoreData, vtEncEntry, vtEncEntryBody, vtEncPrefix, encVarint, two63]

/-- … and this is what the model computes on it, bytes included (evaluated by the kernel) -/
example :
    vtEncStoreData [([0x6b, 0xff, 0xfe], [1, 2, 3]), ([], [9])] [[0x70]]
      = [0x0a, 0x0a, 0x0a, 0x03, 0x6b, 0xff, 0xfe, 0x12, 0x03, 1, 2, 3, 0x0a, 0x05, 0x0a, 0x00, 0x12, 0x01, 9,
         0x12, 0x01, 0x70] := by
  simp [vtEncStoreData, vtEncEntry, vtEncEntryBody, vtEncPrefix, encVarint]
example :
    loadPartial [(partialName 100 200,
      [0x0a, 0x0a, 0x0a, 0x03, 0x6b, 0xff, 0xfe, 0x12, 0x03, 1, 2, 3, 0x0a, 0x05, 0x0a, 0x00, 0x12, 0x01, 9,
       0x12, 0x01, 0x70])] (partialName 100 200)
      = .ok ⟨[([0x6b, 0xff, 0xfe], [1, 2, 3]), ([], [9])], [[0x70]], 7⟩ := by
  simp only [loadPartial, Files.read, if_true]
  rfl

/-- two failed attempts (nothing left, then half of the payload left under the name), third attempt succeeds: the
object is the whole snapshot -/
example :
    writeRetry [] (partialName 100 200) [10, 20, 30, 40] (saveRetries + 1) [.fail none, .fail (some [10, 20])]
      = some [(partialName 100 200, [10, 20, 30, 40])] := by
  simp [writeRetry, Files.write, saveRetries]

/-- eleven failed attempts use up the ten retries: the Save reports the error -/
example :
    writeRetry [] (partialName 100 200) [1] (saveRetries + 1) (List.replicate 11 (.fail none)) = none := by
  simp [writeRetry, saveRetries, List.replicate]

/-- names: the literal strings; beyond ten digits the name still parses back -/
example : partialName 1000 2000 = "0000002000-0000001000.partial".toList := by
  simp [partialName, pad10, decimal, decimalRev, digitChar, partialSuffix]
example : fullName 5 12345678901 = "12345678901-0000000005.kv".toList := by
  simp [fullName, pad10, decimal, decimalRev, digitChar, kvSuffix]
example : parseFileName "12345678901-0000000005.kv".toList = .ok ⟨5, 12345678901, false, false⟩ := by decide
example : parseFileName "0000003000-0000002000.abcdef.partial".toList = .ok ⟨2000, 3000, true, true⟩ := by decide
example : parseFileName "x0000000010-0000000005.kvx".toList = .ok ⟨5, 10, false, false⟩ := by decide  -- unanchored
example : parseFileName "9223372036854775808-0000000000.kv".toList = .panic := by decide

/-- a directory with two full snapshots, two partials, a trace-id file and a foreign file satisfies the
hypotheses of `list_complete` -/
example :
    let snaps : List Snap := [⟨0, 1000, false⟩, ⟨1000, 2000, true⟩, ⟨0, 3000, false⟩, ⟨2000, 3000, true⟩]
    let names : List Name := snaps.map Snap.name ++
      ["0000003000-0000002000.abcdef.partial".toList, "foo".toList]
    (∀ s ∈ snaps, s.start < s.stop ∧ s.stop < 10 ^ 10) ∧
    (∀ n ∈ names, (∃ s ∈ snaps, n = s.name) ∨ Skipped n) := by
  refine ⟨by decide, ?_⟩
  intro n hn
  simp only [List.map_cons, List.map_nil, List.cons_append, List.nil_append, List.mem_cons, List.mem_nil_iff,
    or_false] at hn
  rcases hn with h | h | h | h | h | h
  · exact Or.inl ⟨_, by simp, h⟩
  · exact Or.inl ⟨_, by simp, h⟩
  · exact Or.inl ⟨_, by simp, h⟩
  · exact Or.inl ⟨_, by simp, h⟩
  · subst h; exact Or.inr (Or.inr ⟨⟨2000, 3000, true, true⟩, by decide, rfl⟩)
  · subst h; exact Or.inr (Or.inl (by decide))

/-- the walk on that directory (names in lexicographic order), `below = 2000` -/
example :
    walk true 2000
      ["0000001000-0000000000.kv".toList, "0000002000-0000001000.partial".toList,
       "0000003000-0000000000.kv".toList, "0000003000-0000002000.abcdef.partial".toList,
       "0000003000-0000002000.partial".toList, "foo".toList] []
      = .ok [⟨0, 1000, false, false⟩, ⟨1000, 2000, true, false⟩, ⟨0, 3000, false, false⟩] := by decide

/-- Beyond ten digits the early stop hides a snapshot (why `list_complete` asks for `stop < 10^10`; the property
is stated for block numbers of at most ten digits): `[9600000000, 10000000000)` sorts first. -/
example :
    ["10000000000-9600000000.kv".toList, "9000000000-0000000000.kv".toList].Pairwise (fun a b => nameLe a b = true) ∧
    walk true 9500000000 ["10000000000-9600000000.kv".toList, "9000000000-0000000000.kv".toList] [] = .ok [] := by
  decide

/-- … and a snapshot with an empty range ending at `below` is not listed (why `start < stop`): -/
example : walk true 20 ["0000000020-0000000020.partial".toList] [] = .ok [] := by decide

end SV.C10

import Lemmas.WireItemsSpec
/-!
# C18 — Hand-written cache-file codecs are wire-compatible with their protobuf schemas

Property theorems only (helper lemmas: `Lemmas/Wire.lean`, `Lemmas/WireItems.lean`, `Lemmas/WireItemsSpec.lean`;
model: `Model/Wire.lean`).

Cast: `marshalVT`/`unmarshalVT` = `VTproto` (the default store marshaller: generated `MarshalVT`, hand-copied
`unmarshalVT` with the byte counter); `marshalPF` = `ProtoingFast.Marshal`; `specEncStoreData`/`specDecodeStoreData`
= `proto.Marshal`/`proto.Unmarshal` of `pbstore.StoreData` (= marshaller `Proto`, and `ProtoingFast.Unmarshal`);
`marshalBinary`/`unmarshalBinary` = `Binary`; `marshalFast`/`unmarshalFast` = `pboutput.Map.MarshalFast` /
`UnmarshalFast` (the execout file), `unmarshalArrayVT` = `Array.UnmarshalVTNoAlloc`, `specEncArray`/`specDecodeArray`
= `proto.Marshal`/`proto.Unmarshal` of `pboutput.Array`.

Hypotheses that recur, and where they come from:

* `(kv.map (·.1)).Nodup` — a Go map has distinct keys; the list order is the arbitrary order in which the map
  iteration emits the entries: every theorem holds for every order.
* `bs.length < 2^63` — the encoded message is a Go `[]byte` (`len` is an `int`).
* `Item.WellTyped` — `BlockNum` is a `uint64`, `Seconds` an `int64`, `Nanos` an `int32`.
* `ValidUTF8 k` (decidable) on store keys, delete prefixes, block ids and cursors **only in the theorems that
  involve the standard protobuf codec**: these fields are declared `string`, and `proto.Marshal`/`Unmarshal`
  refuse a `string` that is not UTF-8.  Store keys are raw bytes handed over by the WASM module, so this
  hypothesis is *not* guaranteed by the code: that is the known finding F18 (DESIGN §9), whose witness is
  kernel-checked below (`f18_witness`).  The same-codec round trips (`VTproto`, `Binary`, `MarshalFast`/
  `UnmarshalFast`) are proved for arbitrary bytes.  Block ids come out of a proto3 `string` field (`Clock.id`).
-/
namespace SV.C18
open SV.Wire

/-- `utf8.Valid`, as a decidable proposition -/
def ValidUTF8 (b : Bytes) : Prop := validUTF8 b = true
instance (b : Bytes) : Decidable (ValidUTF8 b) := inferInstanceAs (Decidable (validUTF8 b = true))

/-! ## varints -/

/-- **varint round trip**, for all `n < 2^64` and every decoder in play: the inlined loop of the vtproto code,
`protowire.ConsumeVarint`, `binary.Uvarint` all read `PutUvarint n` back and leave the rest untouched. -/
theorem varint_roundtrip (n : Nat) (h : n < 2 ^ 64) (rest : Bytes) :
    vtVarint (encVarint n ++ rest) = .ok (n, rest) ∧
    pwVarint (encVarint n ++ rest) = .ok (n, rest) ∧
    uvarint (encVarint n ++ rest) = .ok n rest :=
  ⟨vtVarint_enc (by unfold two64; omega) rest, pwVarint_enc (by unfold two64; omega) rest,
   uvarint_enc (by unfold two64; omega) rest⟩

/-- the two size functions (`sov` = `(bits.Len64(x|1)+6)/7`, `uvarintByteCount`) are the number of bytes written -/
theorem varint_sizes (n : Nat) : sov n = (encVarint n).length ∧ uvarintByteCount n = (encVarint n).length :=
  ⟨sov_eq n, uvarintByteCount_eq n⟩

/-! ## store snapshots (`StoreData`) -/

/-- The pre-computed buffer sizes (`SizeVT`, `kvByteSize + listByteSize`, the Binary size loop) are exact, so the
marshallers never fail or leave garbage; and the three protobuf-format encoders write the same bytes for the same
entry order. -/
theorem store_encoders_total_and_agree (kv : KV) (dp : List Bytes) :
    marshalVT kv dp = .ok (vtEncStoreData kv dp) ∧
    marshalPF kv dp = .ok (vtEncStoreData kv dp) ∧
    marshalBinary kv = .ok (binEnc kv) ∧
    (specEncStoreData kv dp = .ok (vtEncStoreData kv dp) ∨ specEncStoreData kv dp = .invalidUTF8) := by
  refine ⟨marshalVT_eq kv dp, marshalPF_eq kv dp, marshalBinary_eq kv, ?_⟩
  unfold specEncStoreData
  split
  · left; rw [specEncStoreDataBytes_eq]
  · right; rfl

/-- the standard encoder accepts exactly the contents whose keys and prefixes are UTF-8 -/
theorem spec_enc_ok_iff (kv : KV) (dp : List Bytes) :
    (∃ bs, specEncStoreData kv dp = .ok bs) ↔ ((∀ e ∈ kv, ValidUTF8 e.1) ∧ ∀ p ∈ dp, ValidUTF8 p) := by
  unfold specEncStoreData ValidUTF8
  constructor
  · rintro ⟨bs, h⟩
    split at h
    · rename_i hv
      simp only [Bool.and_eq_true, List.all_eq_true] at hv
      exact hv
    · exact EncResult.noConfusion h
  · intro hv
    have : (kv.all (fun e => validUTF8 e.1) && dp.all validUTF8) = true := by
      simp only [Bool.and_eq_true, List.all_eq_true]; exact hv
    rw [if_pos this]
    exact ⟨_, rfl⟩

/-- **Fast decoder ∘ fast encoder = identity, and the reported size is exact** (`VTproto` reads back what it
wrote; arbitrary binary keys and values, any entry order): keys, values, deleted prefixes, and
`dataSize = Σ (len key + len value)`. -/
theorem fast_dec_of_fast_enc (kv : KV) (dp : List Bytes) (bs : Bytes)
    (hnd : (kv.map (·.1)).Nodup) (henc : marshalVT kv dp = .ok bs) (hlen : bs.length < 2 ^ 63) :
    unmarshalVT bs = .ok (⟨kv, dp⟩, kvSize kv) := by
  rw [marshalVT_eq] at henc
  injection henc with henc
  subst henc
  exact unmarshalVT_enc kv dp hnd (by unfold two63; omega)

/-- the fast decoder also reads `ProtoingFast`'s bytes (same size) -/
theorem fast_dec_of_protoingfast_enc (kv : KV) (dp : List Bytes) (bs : Bytes)
    (hnd : (kv.map (·.1)).Nodup) (henc : marshalPF kv dp = .ok bs) (hlen : bs.length < 2 ^ 63) :
    unmarshalVT bs = .ok (⟨kv, dp⟩, kvSize kv) := by
  rw [marshalPF_eq] at henc
  injection henc with henc
  subst henc
  exact unmarshalVT_enc kv dp hnd (by unfold two63; omega)

/-- **The standard decoder reads the fast encoder's bytes** (both fast encoders), to the same content — for
UTF-8 keys and prefixes (F18 otherwise). -/
theorem spec_dec_of_fast_enc (kv : KV) (dp : List Bytes) (bs : Bytes)
    (hnd : (kv.map (·.1)).Nodup) (henc : marshalVT kv dp = .ok bs ∨ marshalPF kv dp = .ok bs)
    (hlen : bs.length < 2 ^ 63)
    (hk : ∀ e ∈ kv, ValidUTF8 e.1) (hp : ∀ p ∈ dp, ValidUTF8 p) :
    specDecodeStoreData bs = .ok ⟨kv, dp⟩ := by
  have : bs = vtEncStoreData kv dp := by
    rcases henc with henc | henc
    · rw [marshalVT_eq] at henc; injection henc with henc; exact henc.symm
    · rw [marshalPF_eq] at henc; injection henc with henc; exact henc.symm
  subst this
  exact specDecode_enc kv dp hnd (by unfold two64; omega) hk hp

/-- **The fast decoder reads the standard encoder's bytes**, with the exact size.  (The standard encoder only
produces bytes for UTF-8 keys, `spec_enc_ok_iff`.) -/
theorem fast_dec_of_spec_enc (kv : KV) (dp : List Bytes) (bs : Bytes)
    (hnd : (kv.map (·.1)).Nodup) (henc : specEncStoreData kv dp = .ok bs) (hlen : bs.length < 2 ^ 63) :
    unmarshalVT bs = .ok (⟨kv, dp⟩, kvSize kv) := by
  have hb : bs = vtEncStoreData kv dp := by
    unfold specEncStoreData at henc
    split at henc
    · injection henc with henc; rw [← henc, specEncStoreDataBytes_eq]
    · exact EncResult.noConfusion henc
  subst hb
  exact unmarshalVT_enc kv dp hnd (by unfold two63; omega)

/-- `Proto` and `ProtoingFast` read back what they wrote — for UTF-8 keys and prefixes (F18 otherwise: `Proto`
cannot even write, `ProtoingFast` writes but cannot read). -/
theorem standard_marshallers_roundtrip (kv : KV) (dp : List Bytes) (bs : Bytes)
    (hnd : (kv.map (·.1)).Nodup)
    (henc : specEncStoreData kv dp = .ok bs ∨ marshalPF kv dp = .ok bs) (hlen : bs.length < 2 ^ 63)
    (hk : ∀ e ∈ kv, ValidUTF8 e.1) (hp : ∀ p ∈ dp, ValidUTF8 p) :
    specDecodeStoreData bs = .ok ⟨kv, dp⟩ := by
  rcases henc with henc | henc
  · have hb : bs = vtEncStoreData kv dp := by
      unfold specEncStoreData at henc
      split at henc
      · injection henc with henc; rw [← henc, specEncStoreDataBytes_eq]
      · exact EncResult.noConfusion henc
    subst hb
    exact specDecode_enc kv dp hnd (by unfold two64; omega) hk hp
  · exact spec_dec_of_fast_enc kv dp bs hnd (Or.inr henc) hlen hk hp

/-- **Binary marshaller round trip** (arbitrary binary keys and values; the format carries no delete prefixes). -/
theorem binary_roundtrip (kv : KV) (bs : Bytes) (hnd : (kv.map (·.1)).Nodup)
    (henc : marshalBinary kv = .ok bs) (hlen : bs.length < 2 ^ 63) :
    unmarshalBinary bs = .ok kv := by
  rw [marshalBinary_eq] at henc
  injection henc with henc
  subst henc
  exact unmarshalBinary_enc kv hnd (by unfold two64; omega)

/-! ## cached outputs (`Map` / `Array` / `Item` with nested `Timestamp`) -/

/-- `Array.MarshalVT` never fails (`SizeVT` is exact, including `proto.Size` of the nested Timestamp) and the
standard encoder writes the same bytes (zero values omitted, a present Timestamp always written). -/
theorem array_encoders_total_and_agree (items : List Item) :
    marshalArrayVT items = .ok (vtEncArray items) ∧
    (specEncArray items = .ok (vtEncArray items) ∨ specEncArray items = .invalidUTF8) := by
  refine ⟨marshalArrayVT_eq items, ?_⟩
  unfold specEncArray
  split
  · left; rw [specEncArrayBytes_eq]
  · right; rfl

/-- **`UnmarshalFast ∘ MarshalFast = id`** on the output-cache map (keyed by block id, as `File.SetItem` builds
it): block number, id, payload, timestamp (absent / zero / any int64, int32), cursor; arbitrary bytes in every
field, empty fields, any iteration order. -/
theorem fast_dec_of_fast_enc_items (m : ItemMap) (bs : Bytes)
    (hnd : (m.map (·.1)).Nodup) (hkey : ∀ e ∈ m, e.2.blockId = e.1) (hwt : ∀ e ∈ m, e.2.WellTyped)
    (henc : marshalFast m = .ok bs) (hlen : bs.length < 2 ^ 63) :
    unmarshalFast bs = .ok m := by
  unfold marshalFast at henc
  rw [marshalArrayVT_eq] at henc
  injection henc with henc
  subst henc
  exact unmarshalFast_enc m hnd hkey hwt (by unfold two63; omega)

/-- **The standard decoder reads `MarshalFast`'s bytes** as the `Array` of the same items, in the same order. -/
theorem spec_dec_of_fast_enc_items (m : ItemMap) (bs : Bytes)
    (hwt : ∀ e ∈ m, e.2.WellTyped)
    (hutf : ∀ e ∈ m, ValidUTF8 e.2.blockId ∧ ValidUTF8 e.2.cursor)
    (henc : marshalFast m = .ok bs) (hlen : bs.length < 2 ^ 63) :
    specDecodeArray bs = .ok (m.map (·.2)) := by
  unfold marshalFast at henc
  rw [marshalArrayVT_eq] at henc
  injection henc with henc
  subst henc
  apply specDecodeArray_enc _ _ (by unfold two64; omega)
  intro it hit
  simp only [List.mem_map] at hit
  obtain ⟨e, he, rfl⟩ := hit
  exact ⟨hwt e he, (hutf e he).1, (hutf e he).2⟩

/-- **The fast decoder reads the standard encoder's bytes**: `Array.UnmarshalVTNoAlloc`, and hence
`Map.UnmarshalFast` for a map keyed by block id. -/
theorem fast_dec_of_spec_enc_items (m : ItemMap) (bs : Bytes)
    (hnd : (m.map (·.1)).Nodup) (hkey : ∀ e ∈ m, e.2.blockId = e.1) (hwt : ∀ e ∈ m, e.2.WellTyped)
    (henc : specEncArray (m.map (·.2)) = .ok bs) (hlen : bs.length < 2 ^ 63) :
    unmarshalArrayVT bs = .ok (m.map (·.2)) ∧ unmarshalFast bs = .ok m := by
  have hb : bs = vtEncArray (m.map (·.2)) := by
    unfold specEncArray at henc
    split at henc
    · injection henc with henc; rw [← henc, specEncArrayBytes_eq]
    · exact EncResult.noConfusion henc
  subst hb
  refine ⟨?_, unmarshalFast_enc m hnd hkey hwt (by unfold two63; omega)⟩
  apply unmarshalArrayVT_enc _ _ (by unfold two63; omega)
  intro it hit
  simp only [List.mem_map] at hit
  obtain ⟨e, he, rfl⟩ := hit
  exact hwt e he

/-! ## F18 — the excluded point, kernel-checked

Key `"k\xff\xfe"` (not UTF-8), value `"v"`: `VTproto` writes 10 bytes and reads them back (size 4), the
standard decoder rejects the very same bytes, and the standard encoder refuses the content. -/
theorem f18_witness :
    marshalVT [([0x6b, 0xff, 0xfe], [0x76])] [] = .ok [0x0a, 0x08, 0x0a, 0x03, 0x6b, 0xff, 0xfe, 0x12, 0x01, 0x76] ∧
    unmarshalVT [0x0a, 0x08, 0x0a, 0x03, 0x6b, 0xff, 0xfe, 0x12, 0x01, 0x76]
      = .ok (⟨[([0x6b, 0xff, 0xfe], [0x76])], []⟩, 4) ∧
    specDecodeStoreData [0x0a, 0x08, 0x0a, 0x03, 0x6b, 0xff, 0xfe, 0x12, 0x01, 0x76] = .error .utf8 ∧
    specEncStoreData [([0x6b, 0xff, 0xfe], [0x76])] [] = .invalidUTF8 ∧
    ¬ ValidUTF8 [0x6b, 0xff, 0xfe] := by
  refine ⟨?_, rfl, rfl, rfl, by decide⟩
  rw [marshalVT_eq]
  simp [vtEncStoreData, vtEncEntry, vtEncEntryBody, encVarint]

/-! ## outside the property: streams that no encoder produces

DESIGN §6 lists a stretch goal `fast_eq_spec_on_valid : specDecode bs = ok d → unmarshalVT bs ≈ ok d` for
arbitrary well-formed bytes.  It is **not** a theorem of the code as it is: the hand-copied decoders and the
standard decoder differ on well-formed streams that none of the encoders emits (the correspondence run shows the
real decoders behave exactly like the model here).  Kernel-checked: -/

/-- a known field with an unexpected wire type: the standard decoder skips it, the fast decoder fails -/
example : specDecodeStoreData [0x08, 0x01] = .ok {} ∧ unmarshalVT [0x08, 0x01] = .error .wrongWireType :=
  ⟨rfl, rfl⟩
/-- a repeated key: same content, but the fast decoder's running size counts both occurrences -/
example :
    specDecodeStoreData [0x0a, 0x06, 0x0a, 0x01, 0x6b, 0x12, 0x01, 1, 0x0a, 0x06, 0x0a, 0x01, 0x6b, 0x12, 0x01, 2]
      = .ok ⟨[([0x6b], [2])], []⟩ ∧
    unmarshalVT [0x0a, 0x06, 0x0a, 0x01, 0x6b, 0x12, 0x01, 1, 0x0a, 0x06, 0x0a, 0x01, 0x6b, 0x12, 0x01, 2]
      = .ok (⟨[([0x6b], [2])], []⟩, 4) := ⟨rfl, rfl⟩
/-- a Timestamp field occurring twice: the standard decoder merges (7 s, 9 ns), the fast decoder resets (0 s, 9 ns) -/
example :
    specDecodeArray [0x0a, 0x08, 0x22, 0x02, 0x08, 0x07, 0x22, 0x02, 0x10, 0x09]
      = .ok [⟨0, [], [], some ⟨7, 9⟩, []⟩] ∧
    unmarshalArrayVT [0x0a, 0x08, 0x22, 0x02, 0x08, 0x07, 0x22, 0x02, 0x10, 0x09]
      = .ok [⟨0, [], [], some ⟨0, 9⟩, []⟩] := ⟨rfl, rfl⟩

/-! ## non-vacuity: the hypotheses are met by concrete, non-trivial instances -/

/-- a store content with a multi-byte UTF-8 key (`"é"`), an empty value, the empty key and a prefix: all
hypotheses of the cross-codec theorems hold -/
example :
    let kv : KV := [([0xc3, 0xa9], [1, 2]), ([0x61], []), ([], [9])]
    let dp : List Bytes := [[0x70, 0x3a]]
    (kv.map (·.1)).Nodup ∧ (∀ e ∈ kv, ValidUTF8 e.1) ∧ (∀ p ∈ dp, ValidUTF8 p) ∧
    (vtEncStoreData kv dp).length < 2 ^ 63 := by
  refine ⟨by decide, by decide, by decide, ?_⟩
  simp [vtEncStoreData, vtEncEntry, vtEncEntryBody, vtEncPrefix, encVarint]

/-- the bytes of that content, and both decoders on them (evaluated by the kernel) -/
example :
    vtEncStoreData [([0xc3, 0xa9], [1, 2]), ([], [9])] [[0x70]]
      = [0x0a, 0x08, 0x0a, 0x02, 0xc3, 0xa9, 0x12, 0x02, 1, 2, 0x0a, 0x05, 0x0a, 0x00, 0x12, 0x01, 9, 0x12, 0x01, 0x70] := by
  simp [vtEncStoreData, vtEncEntry, vtEncEntryBody, vtEncPrefix, encVarint]
example :
    unmarshalVT [0x0a, 0x08, 0x0a, 0x02, 0xc3, 0xa9, 0x12, 0x02, 1, 2, 0x0a, 0x05, 0x0a, 0x00, 0x12, 0x01, 9, 0x12, 0x01, 0x70]
      = .ok (⟨[([0xc3, 0xa9], [1, 2]), ([], [9])], [[0x70]]⟩, 5) := rfl
example :
    specDecodeStoreData [0x0a, 0x08, 0x0a, 0x02, 0xc3, 0xa9, 0x12, 0x02, 1, 2, 0x0a, 0x05, 0x0a, 0x00, 0x12, 0x01, 9, 0x12, 0x01, 0x70]
      = .ok ⟨[([0xc3, 0xa9], [1, 2]), ([], [9])], [[0x70]]⟩ := rfl

/-- duplicate keys in a stream (never produced by an encoder): content keeps the last value, the running size
counts both — why the theorems speak about encoder output with distinct keys -/
example :
    unmarshalVT [0x0a, 0x06, 0x0a, 0x01, 0x6b, 0x12, 0x01, 1, 0x0a, 0x06, 0x0a, 0x01, 0x6b, 0x12, 0x01, 2]
      = .ok (⟨[([0x6b], [2])], []⟩, 4) := rfl

/-- an output-cache item with a large block number, a negative-nanos timestamp and an empty payload is well
typed; its bytes; both decoders -/
example : (⟨2 ^ 63, [0x61, 0x62], [], some ⟨1700000000, 4294967295⟩, []⟩ : Item).WellTyped := by
  refine ⟨by decide, ?_⟩
  intro x hx
  injection hx with hx
  subst hx
  exact ⟨by decide, by decide⟩
example :
    unmarshalFast [0x0a, 0x0a, 0x08, 0x05, 0x12, 0x02, 0x61, 0x62, 0x22, 0x02, 0x08, 0x07, 0x0a, 0x02, 0x22, 0x00]
      = .ok [([0x61, 0x62], ⟨5, [0x61, 0x62], [], some ⟨7, 0⟩, []⟩), ([], ⟨0, [], [], some ⟨0, 0⟩, []⟩)] := rfl
example :
    specDecodeArray [0x0a, 0x0a, 0x08, 0x05, 0x12, 0x02, 0x61, 0x62, 0x22, 0x02, 0x08, 0x07, 0x0a, 0x02, 0x22, 0x00]
      = .ok [⟨5, [0x61, 0x62], [], some ⟨7, 0⟩, []⟩, ⟨0, [], [], some ⟨0, 0⟩, []⟩] := rfl

/-- the Binary format on a two-entry map -/
example : unmarshalBinary [0x02, 0x01, 0x6b, 0x01, 0x76, 0x00, 0x00] = .ok [([0x6b], [0x76]), ([], [])] := rfl

end SV.C18

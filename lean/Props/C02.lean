import Lemmas.SquashRefine
import Lemmas.Compose
/-!
# C02 — Squashing per-segment partial stores equals sequential store execution

**Layer A (this file, proved in full):** for one key, at the level of typed values.  The events of a
key are its writes (in the stable ordinal order `Flush` applies them, block after block) and the
`delete_prefix` operations that match it.  For every policy, every list of events and **every cut**
of it into consecutive segments (`segs : List (List Ev)`, any number of segments of any lengths):
merging, in order, the states that partial stores reach when each segment is executed from scratch
(`squash`) gives exactly the state reached by applying all events sequentially to one store (`runF`).
The policies' update and merge functions below are the typed reading of store_sum.go, store_min.go,
store_max.go, store_setsum.go, value_*.go (update) and merge.go (merge).

**Layer B (second half of this file; proofs in Lemmas/SquashRefine.lean, Lemmas/Codec.lean)** is about the
byte-level model that the correspondence check ties to the Go code (`Model/Store.lean`,
`Model/Policy.lean`, `Model/Merge.lean`: `flush`, `Partial.execBlock`, `merge`, `stdSem`, `stripTag`, the
text codecs).  `flush_per_key`, `seq_per_key`, `partial_per_key`, `merge_per_key` characterise, for any
value semantics, one key's content after a block / a list of blocks / a segment on a partial store / a
`Merge`; `Refine` (three commutation laws per policy) connects them to the per-key algebras of layer A,
and `model_squash_eq_sequential_*` are the end-to-end statements: the sequential execution of all blocks
on one store from the empty store (`seqRun`) and the squash of **any cut** of the blocks into segments
(`squashRun`: fresh partial store per segment, Reset between blocks, save + load, `Merge` in order) hold
the same value for every key, for `set`, `set_if_not_exists`, `append`, `add`/`min`/`max` over int64 and
bigint (byte-equal, hence typed-equal), `set_sum` over int64 and bigint (equal after `stripTag`),
`add`/`min`/`max` over bigdecimal with operands of at most 34 decimals (equal typed value `typedDec34`;
the codec round trip `codec_dec_roundtrip` is proved, not assumed) and `set_sum` over bigdecimal (equal as
numbers).  Hypotheses: the calls are of the policy's kinds (plus `deletePrefix`), `set_sum` and bigdecimal
operands are what the host interface produces, and both runs succeed (limits not hit).  float64 is left
out (Lean's `Float` is opaque to the kernel).

float64 `add`: IEEE-754 addition is not associative; `squash_eq_sequential_combine` applies to it only
under the associativity hypothesis (`…_float_add_partial`), and the harness exhibits real triples where
sequential and squashed stores differ in the last bits (known finding F4).  Lean's `Float` is opaque to
the kernel, so that counterexample is evaluated by the driver and the Go harness, not stated as a theorem.
-/
namespace SV.C02
open SV

/-- `set`: typed value = the bytes; last write wins; merge replaces. -/
theorem squash_eq_sequential_set (segs : List (List (Ev Bytes))) (x : Option Bytes) :
    (algSet Bytes).squash segs x = (algSet Bytes).runF segs.flatten x :=
  (algSet Bytes).squash_eq_seq segs x

/-- `set_if_not_exists`: first write wins; merge keeps an existing value. -/
theorem squash_eq_sequential_set_if_not_exists (segs : List (List (Ev Bytes))) (x : Option Bytes) :
    (algSine Bytes).squash segs x = (algSine Bytes).runF segs.flatten x :=
  (algSine Bytes).squash_eq_seq segs x

/-- `append`: concatenation (limits not hit). -/
theorem squash_eq_sequential_append (segs : List (List (Ev Bytes))) (x : Option Bytes) :
    (algAppend UInt8).squash segs x = (algAppend UInt8).runF segs.flatten x :=
  (algAppend UInt8).squash_eq_seq segs x

/-- `add`, `min`, `max` over any value type whose combination is associative. -/
theorem squash_eq_sequential_combine {M : Type} (C : Combine M) (segs : List (List (Ev M))) (x : Option M) :
    (algCombine C).squash segs x = (algCombine C).runF segs.flatten x :=
  (algCombine C).squash_eq_seq segs x

/-- `set_sum` over any value type with associative addition. -/
theorem squash_eq_sequential_set_sum {M : Type} (C : Combine M) (segs : List (List (Ev (SS M)))) (x : Option M) :
    (algSetSum C).squash segs x = (algSetSum C).runF segs.flatten x :=
  (algSetSum C).squash_eq_seq segs x

/-! ### the value types -/

/-- bigint addition -/
def addInt : Combine Int := ⟨(· + ·), Int.add_assoc⟩

/-- int64 addition wraps around (two's complement), and is still associative -/
theorem wrap64_add_assoc (a b c : Int) : wrap64 (wrap64 (a + b) + c) = wrap64 (a + wrap64 (b + c)) := by
  unfold wrap64 two63 two64; omega

def addInt64 : Combine Int := ⟨fun a b => wrap64 (a + b), wrap64_add_assoc⟩

/-- the merge of an absent key computes `0 + v` in Go; that is `v` (for int64: `v` in range) -/
theorem zero_add_int (v : Int) : (0 : Int) + v = v := Int.zero_add v
theorem wrap64_of_range (v : Int) (h : -two63 ≤ v ∧ v < two63) : wrap64 (0 + v) = v := by
  unfold wrap64 two63 two64 at *; omega

def maxInt : Combine Int := ⟨max, by intro a b c; simp only [Int.max_def]; repeat' split
                                     all_goals omega⟩
def minInt : Combine Int := ⟨min, by intro a b c; simp only [Int.min_def]; repeat' split
                                     all_goals omega⟩

/-- bigdecimal addition (shopspring: rescale to the larger scale, add coefficients) is associative -/
theorem dec_add_assoc (a b c : Dec) : (a.add b).add c = a.add (b.add c) := by
  unfold Dec.add Dec.rescaleUp
  simp only
  have hs : max (max a.scale b.scale) c.scale = max a.scale (max b.scale c.scale) := by
    simp only [Nat.max_def]; repeat' split
    all_goals omega
  rw [hs]
  congr 1
  generalize hS : max a.scale (max b.scale c.scale) = S
  have h1 : max a.scale b.scale ≤ S := by rw [← hS]; simp only [Nat.max_def]; repeat' split
                                          all_goals omega
  have h2 : max b.scale c.scale ≤ S := by rw [← hS]; simp only [Nat.max_def]; repeat' split
                                          all_goals omega
  have ha : a.scale ≤ max a.scale b.scale := Nat.le_max_left _ _
  have hb : b.scale ≤ max a.scale b.scale := Nat.le_max_right _ _
  have hb' : b.scale ≤ max b.scale c.scale := Nat.le_max_left _ _
  have hc' : c.scale ≤ max b.scale c.scale := Nat.le_max_right _ _
  have pw : ∀ (x y z : Nat), x ≤ y → y ≤ z → (10 : Int) ^ (y - x) * (10 : Int) ^ (z - y) = (10 : Int) ^ (z - x) := by
    intro x y z hxy hyz
    rw [← Int.pow_add]; congr 1; omega
  simp only [Int.add_mul, Int.mul_assoc]
  rw [pw _ _ _ ha h1, pw _ _ _ hb h1, pw _ _ _ hb' h2, pw _ _ _ hc' h2, Int.add_assoc]

def addDec : Combine Dec := ⟨Dec.add, dec_add_assoc⟩

/-- float64 `add`: only under the (false in general) associativity hypothesis — the partial statement. -/
theorem squash_eq_sequential_float_add_partial (add : Float → Float → Float)
    (hassoc : ∀ a b c, add (add a b) c = add a (add b c))
    (segs : List (List (Ev Float))) (x : Option Float) :
    (algCombine ⟨add, hassoc⟩).squash segs x = (algCombine ⟨add, hassoc⟩).runF segs.flatten x :=
  squash_eq_sequential_combine _ segs x

/-! ### Non-vacuity: three blocks, cut after the first, with a deletion in the second segment -/

example : (algCombine addInt).squash [[.write 5, .write 7], [.write 1, .del, .write 2, .write 3]] (some 100) = some 5 ∧
    (algCombine addInt).runF [.write 5, .write 7, .write 1, .del, .write 2, .write 3] (some 100) = some 5 := by decide

example : (algSetSum addInt).squash [[.write (.sum 5)], [.write (.set 7), .write (.sum 1)], [.write (.sum 2)]] none = some 10 := by decide

/-! ## Layer B: the byte-level model -/

/-! ### B1/B2: per-key characterisation, for every value semantics `sem` -/

/-- **B1** one iteration of `Flush`: under the flush invariant, the content of every key after the
operation is `keyEffect` of its content before (`deletePrefix`: gone iff the prefix matches; another
key's operation: unchanged; `set`: the value; `set_if_not_exists`: kept if present; the others: the value
`sem` computes from the current content, which `getAt` at the operation's ordinal reads). -/
theorem flushOp_per_key {cfg : Cfg} {sem : Sem} {f : Content} {s s' : Store} {b : Nat} {op : Op}
    (h : FInv f s b) (hb : b ≤ op.ord) (hp : flushOp cfg sem s op = .ok s') (k : Bytes) :
    keyEffect cfg sem k (look s.kv k) op = some (look s'.kv k) :=
  flushOp_key h hb hp k

/-- **B1** one flushed block: the content of a key is the fold of `keyEffect` over the stably sorted log. -/
theorem flush_per_key {cfg : Cfg} {sem : Sem} {s s' : Store} (h : Clean s) (hp : flush cfg sem s = .ok s')
    (k : Bytes) : foldOpt (keyEffect cfg sem k) (look s.kv k) (sortOps s.ops) = some (look s'.kv k) :=
  flush_key h hp k

/-- **B1** a list of blocks on one store (per block: Reset, the calls, `Flush`). -/
theorem seq_per_key {cfg : Cfg} {sem : Sem} (blocks : List (List Op)) {s s' : Store}
    (h : SInv s) (hr : seqRun cfg sem s blocks = .ok s') (k : Bytes) :
    foldOpt (keyEffect cfg sem k) (look s.kv k) (blocks.flatMap sortOps) = some (look s'.kv k) :=
  (seqRun_key blocks s s' h hr).2 k

/-- **B2** a segment on a partial store: content = the same per-key fold; `deletedPrefixes` = exactly
the prefixes of the segment's `deletePrefix` operations. -/
theorem partial_per_key {cfg : Cfg} {sem : Sem} (blocks : List (List Op)) {p p' : Partial}
    (h : SInv p.store) (hr : segRun cfg sem p blocks = .ok p') :
    (∀ k, foldOpt (keyEffect cfg sem k) (look p.store.kv k) (blocks.flatMap sortOps) = some (look p'.store.kv k)) ∧
    (∀ x, x ∈ p'.deletedPrefixes ↔
      (x ∈ p.deletedPrefixes ∨ ∃ o ∈ blocks.flatMap sortOps, o.kind = .deletePrefix ∧ o.key = x)) :=
  (segRun_key blocks p p' h hr).2

/-- **B2** `mergeKey` reads only the full store's value of its key and writes only that key: it is
`mergeGen` (a function of the two values) lifted to the store. -/
theorem mergeKey_per_key (cfg : Cfg) (s : Store) (k v : Bytes) :
    mergeKey cfg s k v = liftAct s k (mergeGen cfg (look s.kv k) v) :=
  mergeKey_eq cfg s k v

/-- **B2** `Merge` of a partial store with distinct keys into a full store at rest: for every key, the
partial's deleted prefixes are applied first, then the key's two values are combined by `mergeLook`. -/
theorem merge_per_key {cfg : Cfg} {sem : Sem} {g g' : Store} {p : Partial} (hg : Rest g)
    (hp : NodupKeys p.store.kv) (hm : merge cfg sem g p = some (.ok g')) (k : Bytes) :
    mergeLook cfg (if p.deletedPrefixes.any (fun pfx => isPrefix pfx k) then none else look g.kv k)
      (look p.store.kv k) = some (look g'.kv k) :=
  (merge_key hg hp hm).2 k

/-- **B1 + B2** sequential run and squash of any cut, from the empty store, seen by one key: the first is
the fold of `keyEffect` over all sorted logs, the second is `squashKey` (per segment: fold from
"absent", the segment's prefix deletions, `mergeLook`).  Policy independent. -/
theorem seq_and_squash_per_key {cfg : Cfg} {sem : Sem} {segs : List (List (List Op))} {F G : Store}
    (hF : seqRun cfg sem Store.empty segs.flatten = .ok F)
    (hG : squashRun cfg sem Store.empty segs = some G) (k : Bytes) :
    foldOpt (keyEffect cfg sem k) none (segs.map (·.flatMap sortOps)).flatten = some (look F.kv k) ∧
    squashKey cfg sem k none (segs.map (·.flatMap sortOps)) = some (look G.kv k) :=
  seq_squash_key hF hG k

/-- the general refinement theorem: whenever a policy's byte-level functions satisfy the three
commutation laws of `Refine` against a per-key algebra `A`, sequential run and squash represent, for
every key, the same typed value. -/
theorem model_squash_eq_sequential_refine {cfg : Cfg} {sem : Sem} {F' P W : Type} {A : KeyAlg F' P W}
    (R : Refine cfg sem A) (segs : List (List (List Op)))
    (ha : ∀ seg ∈ segs, ∀ calls ∈ seg, ∀ op ∈ calls, op.kind = .deletePrefix ∨ R.okOp op)
    {F G : Store} (hF : seqRun cfg sem Store.empty segs.flatten = .ok F)
    (hG : squashRun cfg sem Store.empty segs = some G) (k : Bytes) :
    ∃ f : Option F', ORel R.RF (look F.kv k) f ∧ ORel R.RF (look G.kv k) f :=
  R.model_squash_eq_seq segs ha hF hG k

/-- the calls of every block of every segment are `deletePrefix` or satisfy `P` -/
def CallsAre (P : Op → Prop) (segs : List (List (List Op))) : Prop :=
  ∀ seg ∈ segs, ∀ calls ∈ seg, ∀ op ∈ calls, op.kind = .deletePrefix ∨ P op

/-! ### B3: the byte-exact policies -/

/-- **`set`**, any `sem`: for every cut `segs` of the blocks into segments, if the sequential run and
the squash both succeed, the two stores hold the same bytes for every key. -/
theorem model_squash_eq_sequential_set (cfg : Cfg) (sem : Sem) (hpol : cfg.policy = .set)
    (segs : List (List (List Op))) (hk : CallsAre (fun op => op.kind = .set) segs) {F G : Store}
    (hF : seqRun cfg sem Store.empty segs.flatten = .ok F)
    (hG : squashRun cfg sem Store.empty segs = some G) :
    ∀ k, look F.kv k = look G.kv k := by
  intro k
  obtain ⟨f, h1, h2⟩ := (refSet cfg sem hpol).model_squash_eq_seq segs hk hF hG k
  exact ORel_eq h1 h2

/-- **`set_if_not_exists`**, any `sem`. -/
theorem model_squash_eq_sequential_set_if_not_exists (cfg : Cfg) (sem : Sem) (hpol : cfg.policy = .setIfNotExists)
    (segs : List (List (List Op))) (hk : CallsAre (fun op => op.kind = .setIfNotExists) segs) {F G : Store}
    (hF : seqRun cfg sem Store.empty segs.flatten = .ok F)
    (hG : squashRun cfg sem Store.empty segs = some G) :
    ∀ k, look F.kv k = look G.kv k := by
  intro k
  obtain ⟨f, h1, h2⟩ := (refSine cfg sem hpol).model_squash_eq_seq segs hk hF hG k
  exact ORel_eq h1 h2

/-- **`append`** with the concrete semantics; "limits not hit" is the success of both runs (an append
over `appendLimit` is an error of `Flush` resp. `Merge`; the size and item limits are errors of `set`). -/
theorem model_squash_eq_sequential_append (cfg : Cfg) (hpol : cfg.policy = .append)
    (segs : List (List (List Op))) (hk : CallsAre (fun op => op.kind = .append) segs) {F G : Store}
    (hF : seqRun cfg (stdSem cfg) Store.empty segs.flatten = .ok F)
    (hG : squashRun cfg (stdSem cfg) Store.empty segs = some G) :
    ∀ k, look F.kv k = look G.kv k := by
  intro k
  obtain ⟨f, h1, h2⟩ := (refAppend cfg hpol).model_squash_eq_seq segs hk hF hG k
  exact ORel_eq h1 h2

/-! ### B4: the numeric policies over int64 and bigint -/

/-- decimal text of a natural number parses back (strconv / math/big round trip) -/
theorem codec_nat_roundtrip (n : Nat) : parseNat (renderNat n) = some n := parseNat_renderNat n

/-- `big.Int.SetString(i.String()) = i` -/
theorem codec_int_roundtrip (i : Int) : parseInt (renderInt i) = some i := parseInt_renderInt i

/-- `strconv.ParseInt(strconv.FormatInt(i)) = i` for `i` in the int64 range -/
theorem codec_int64_roundtrip (i : Int) (h : -two63 ≤ i ∧ i < two63) : parseInt64 (renderInt i) = some i :=
  parseInt64_renderInt i h

/-- the Combine instances used by the refinement are the ones of layer A -/
theorem combine_instances :
    combAdd64.op = addInt64.op ∧ combAddInt.op = addInt.op ∧ combMax.op = maxInt.op ∧ combMin.op = minInt.op :=
  ⟨rfl, rfl, rfl, rfl⟩

/-- **`add` over int64** (wrap-around arithmetic).  Operands are arbitrary bytes (`valueToInt64` reads a
malformed operand as 0).  Every stored value is the canonical rendering of an int64, so the stores are
byte-equal, hence equal as typed values (`parseInt64` of both sides). -/
theorem model_squash_eq_sequential_add_int64 (cfg : Cfg) (hpol : cfg.policy = .add) (hvt : cfg.vt = .int64)
    (segs : List (List (List Op))) (hk : CallsAre (fun op => op.kind = .sum .int64) segs) {F G : Store}
    (hF : seqRun cfg (stdSem cfg) Store.empty segs.flatten = .ok F)
    (hG : squashRun cfg (stdSem cfg) Store.empty segs = some G) :
    ∀ k, look F.kv k = look G.kv k := by
  intro k
  obtain ⟨f, h1, h2⟩ := (refAddInt64 cfg hpol hvt).model_squash_eq_seq segs hk hF hG k
  exact ORel_canon h1 h2

/-- **`add` over bigint**. -/
theorem model_squash_eq_sequential_add_bigint (cfg : Cfg) (hpol : cfg.policy = .add) (hvt : cfg.vt = .bigint)
    (segs : List (List (List Op))) (hk : CallsAre (fun op => op.kind = .sum .bigint) segs) {F G : Store}
    (hF : seqRun cfg (stdSem cfg) Store.empty segs.flatten = .ok F)
    (hG : squashRun cfg (stdSem cfg) Store.empty segs = some G) :
    ∀ k, look F.kv k = look G.kv k := by
  intro k
  obtain ⟨f, h1, h2⟩ := (refAddBigInt cfg hpol hvt).model_squash_eq_seq segs hk hF hG k
  exact ORel_canon h1 h2

/-- **`max` over int64**. -/
theorem model_squash_eq_sequential_max_int64 (cfg : Cfg) (hpol : cfg.policy = .max) (hvt : cfg.vt = .int64)
    (segs : List (List (List Op))) (hk : CallsAre (fun op => op.kind = .max .int64) segs) {F G : Store}
    (hF : seqRun cfg (stdSem cfg) Store.empty segs.flatten = .ok F)
    (hG : squashRun cfg (stdSem cfg) Store.empty segs = some G) :
    ∀ k, look F.kv k = look G.kv k := by
  intro k
  obtain ⟨f, h1, h2⟩ := (refMaxInt64 cfg hpol hvt).model_squash_eq_seq segs hk hF hG k
  exact ORel_canon h1 h2

/-- **`min` over int64**. -/
theorem model_squash_eq_sequential_min_int64 (cfg : Cfg) (hpol : cfg.policy = .min) (hvt : cfg.vt = .int64)
    (segs : List (List (List Op))) (hk : CallsAre (fun op => op.kind = .min .int64) segs) {F G : Store}
    (hF : seqRun cfg (stdSem cfg) Store.empty segs.flatten = .ok F)
    (hG : squashRun cfg (stdSem cfg) Store.empty segs = some G) :
    ∀ k, look F.kv k = look G.kv k := by
  intro k
  obtain ⟨f, h1, h2⟩ := (refMinInt64 cfg hpol hvt).model_squash_eq_seq segs hk hF hG k
  exact ORel_canon h1 h2

/-- **`max` over bigint**. -/
theorem model_squash_eq_sequential_max_bigint (cfg : Cfg) (hpol : cfg.policy = .max) (hvt : cfg.vt = .bigint)
    (segs : List (List (List Op))) (hk : CallsAre (fun op => op.kind = .max .bigint) segs) {F G : Store}
    (hF : seqRun cfg (stdSem cfg) Store.empty segs.flatten = .ok F)
    (hG : squashRun cfg (stdSem cfg) Store.empty segs = some G) :
    ∀ k, look F.kv k = look G.kv k := by
  intro k
  obtain ⟨f, h1, h2⟩ := (refMaxBigInt cfg hpol hvt).model_squash_eq_seq segs hk hF hG k
  exact ORel_canon h1 h2

/-- **`min` over bigint** (store_min.go takes the new value on a tie, merge.go keeps the old one: the same
number either way). -/
theorem model_squash_eq_sequential_min_bigint (cfg : Cfg) (hpol : cfg.policy = .min) (hvt : cfg.vt = .bigint)
    (segs : List (List (List Op))) (hk : CallsAre (fun op => op.kind = .min .bigint) segs) {F G : Store}
    (hF : seqRun cfg (stdSem cfg) Store.empty segs.flatten = .ok F)
    (hG : squashRun cfg (stdSem cfg) Store.empty segs = some G) :
    ∀ k, look F.kv k = look G.kv k := by
  intro k
  obtain ⟨f, h1, h2⟩ := (refMinBigInt cfg hpol hvt).model_squash_eq_seq segs hk hF hG k
  exact ORel_canon h1 h2

/-- a `set_sum` operand as the host interface (wasm/call.go `DoSetSum…`) produces it: `"sum:"` or
`"set:"` followed by the canonical text of the number -/
def SetSumOperand (ok : Int → Prop) (v : Bytes) : Prop :=
  ∃ i, ok i ∧ (v = pfxSum ++ renderInt i ∨ v = pfxSet ++ renderInt i)

/-- **`set_sum` over int64**: the typed values (tag stripped, as the exported readers return them) agree.
The tags themselves may differ: a merged store always holds `sum:`, the sequential one keeps the tag of the
key's first write. -/
theorem model_squash_eq_sequential_set_sum_int64 (cfg : Cfg) (hpol : cfg.policy = .setSum) (hvt : cfg.vt = .int64)
    (segs : List (List (List Op)))
    (hk : CallsAre (fun op => op.kind = .setSum .int64 ∧ SetSumOperand InRange64 op.val) segs) {F G : Store}
    (hF : seqRun cfg (stdSem cfg) Store.empty segs.flatten = .ok F)
    (hG : squashRun cfg (stdSem cfg) Store.empty segs = some G) :
    ∀ k, stripTag cfg (look F.kv k) = stripTag cfg (look G.kv k) := by
  intro k
  obtain ⟨f, h1, h2⟩ := (refSetSumInt64 cfg hpol hvt).model_squash_eq_seq segs hk hF hG k
  exact ORel_tagged hpol h1 h2

/-- **`set_sum` over bigint**. -/
theorem model_squash_eq_sequential_set_sum_bigint (cfg : Cfg) (hpol : cfg.policy = .setSum) (hvt : cfg.vt = .bigint)
    (segs : List (List (List Op)))
    (hk : CallsAre (fun op => op.kind = .setSum .bigint ∧ SetSumOperand (fun _ => True) op.val) segs) {F G : Store}
    (hF : seqRun cfg (stdSem cfg) Store.empty segs.flatten = .ok F)
    (hG : squashRun cfg (stdSem cfg) Store.empty segs = some G) :
    ∀ k, stripTag cfg (look F.kv k) = stripTag cfg (look G.kv k) := by
  intro k
  obtain ⟨f, h1, h2⟩ := (refSetSumBigInt cfg hpol hvt).model_squash_eq_seq segs hk hF hG k
  exact ORel_tagged hpol h1 h2

/-! ### B4: `add`, `min`, `max` over bigdecimal -/

/-- `decimal.NewFromString(d.String())` succeeds and is `d` with trailing zeros of the coefficient
removed (same number, scale not larger): the codec fact behind the bigdecimal theorems — proved, not
assumed. -/
theorem codec_dec_roundtrip (d : Dec) : ∃ d' : Dec, Dec.parse d.render = some d' ∧ d'.scale ≤ d.scale ∧
    d.coef = d'.coef * (10 : Int) ^ (d.scale - d'.scale) :=
  Dec.parse_render d

/-- the operands the host interface hands to the store for bigdecimal `add`/`min`/`max` (`hostOp`:
parsed, truncated to 34 decimals, re-rendered) parse and have at most 34 decimals. -/
theorem host_bigdecimal_operand {op op' : Op}
    (hk : op.kind = .sum .bigdecimal ∨ op.kind = .max .bigdecimal ∨ op.kind = .min .bigdecimal)
    (h : hostOp op = some op') : op'.kind = op.kind ∧ DecOperand op'.val :=
  hostOp_decOperand hk h

/-- **`add` over bigdecimal**, operands with at most 34 decimals (`DecOperand`, see
`host_bigdecimal_operand`).  Every stored text then reads as a decimal with at most 34 decimals, merge's
`Truncate(34)` is the identity, and the two stores agree on which keys exist and on every key's typed
value `typedDec34` (the number × 10^34, an integer).  (The texts are equal too whenever `String()` is
canonical; the typed statement does not need that.) -/
theorem model_squash_eq_sequential_add_bigdecimal (cfg : Cfg) (hpol : cfg.policy = .add) (hvt : cfg.vt = .bigdecimal)
    (segs : List (List (List Op)))
    (hk : CallsAre (fun op => op.kind = .sum .bigdecimal ∧ DecOperand op.val) segs) {F G : Store}
    (hF : seqRun cfg (stdSem cfg) Store.empty segs.flatten = .ok F)
    (hG : squashRun cfg (stdSem cfg) Store.empty segs = some G) :
    ∀ k, (look F.kv k).isSome = (look G.kv k).isSome ∧
      (look F.kv k).bind typedDec34 = (look G.kv k).bind typedDec34 := by
  intro k
  obtain ⟨f, h1, h2⟩ := (refAddDec cfg hpol hvt).model_squash_eq_seq segs hk hF hG k
  exact typed_eq_of_repDec h1 h2

/-- **`max` over bigdecimal**. -/
theorem model_squash_eq_sequential_max_bigdecimal (cfg : Cfg) (hpol : cfg.policy = .max) (hvt : cfg.vt = .bigdecimal)
    (segs : List (List (List Op)))
    (hk : CallsAre (fun op => op.kind = .max .bigdecimal ∧ DecOperand op.val) segs) {F G : Store}
    (hF : seqRun cfg (stdSem cfg) Store.empty segs.flatten = .ok F)
    (hG : squashRun cfg (stdSem cfg) Store.empty segs = some G) :
    ∀ k, (look F.kv k).isSome = (look G.kv k).isSome ∧
      (look F.kv k).bind typedDec34 = (look G.kv k).bind typedDec34 := by
  intro k
  obtain ⟨f, h1, h2⟩ := (refMaxDec cfg hpol hvt).model_squash_eq_seq segs hk hF hG k
  exact typed_eq_of_repDec h1 h2

/-- **`min` over bigdecimal**. -/
theorem model_squash_eq_sequential_min_bigdecimal (cfg : Cfg) (hpol : cfg.policy = .min) (hvt : cfg.vt = .bigdecimal)
    (segs : List (List (List Op)))
    (hk : CallsAre (fun op => op.kind = .min .bigdecimal ∧ DecOperand op.val) segs) {F G : Store}
    (hF : seqRun cfg (stdSem cfg) Store.empty segs.flatten = .ok F)
    (hG : squashRun cfg (stdSem cfg) Store.empty segs = some G) :
    ∀ k, (look F.kv k).isSome = (look G.kv k).isSome ∧
      (look F.kv k).bind typedDec34 = (look G.kv k).bind typedDec34 := by
  intro k
  obtain ⟨f, h1, h2⟩ := (refMinDec cfg hpol hvt).model_squash_eq_seq segs hk hF hG k
  exact typed_eq_of_repDec h1 h2

/-- a `set_sum` bigdecimal operand: `"sum:"` or `"set:"` followed by a plain-notation decimal text -/
def SetSumDecOperand (v : Bytes) : Prop :=
  ∃ t, (∃ d, Dec.parse t = some d) ∧ (v = pfxSum ++ t ∨ v = pfxSet ++ t)

/-- **`set_sum` over bigdecimal** (merge after the fix of F6: no truncation on this path, any number of
decimals).  The two stores have the same keys, and for every key the tag-stripped texts (what the exported
readers return) parse to decimals that are equal as numbers (`Dec.Eqv`: cross-multiplied equality). -/
theorem model_squash_eq_sequential_set_sum_bigdecimal (cfg : Cfg) (hpol : cfg.policy = .setSum)
    (hvt : cfg.vt = .bigdecimal) (segs : List (List (List Op)))
    (hk : CallsAre (fun op => op.kind = .setSum .bigdecimal ∧ SetSumDecOperand op.val) segs) {F G : Store}
    (hF : seqRun cfg (stdSem cfg) Store.empty segs.flatten = .ok F)
    (hG : squashRun cfg (stdSem cfg) Store.empty segs = some G) :
    ∀ k, (look F.kv k).isSome = (look G.kv k).isSome ∧
      ∀ bF bG, stripTag cfg (look F.kv k) = some bF → stripTag cfg (look G.kv k) = some bG →
        ∃ dF dG, Dec.parse bF = some dF ∧ Dec.parse bG = some dG ∧ dF.Eqv dG := by
  intro k
  obtain ⟨f, h1, h2⟩ := (refSetSumDec cfg hpol hvt).model_squash_eq_seq segs hk hF hG k
  exact typed_eq_of_repDecQ hpol h1 h2

/-! ### B7: the placement of the boundaries the engine really uses (composition with C13)

"Any placement of the segment boundaries" includes the one the engine uses: the segments of the real
`block.Segmenter` of a store (`init` = the store's initial block, `end_` = the hand-off block of the
request, `interval` = the segment size), walked in index order as tier 1 schedules and squashes them, each
job running the blocks of its `Range` in order.  `SV.Segmenter.segments` / `SV.Range.blocks`
(`Model/Segmenter.lean`) are built from `range?`, the function the C13 correspondence ties to `Segmenter.Range`;
`Lemmas/Compose.lean` proves from the closed form that they list every block of `[init, end)` once, in order. -/

/-- the cut of the blocks `[init, end)` made by the segmenter: one list of per-block call lists per segment -/
def segmenterCut (s : Segmenter) (callsAt : Nat → List Op) : List (List (List Op)) :=
  s.segments.map (fun r => r.blocks.map callsAt)

/-- the segmenter's cut *is* a cut of the whole range: concatenated, it is the block-by-block list of
`[init, end)`, nothing lost, duplicated or reordered. -/
theorem segmenterCut_flatten (s : Segmenter) (hk : 0 < s.interval) (hlt : s.init < s.end_)
    (callsAt : Nat → List Op) :
    (segmenterCut s callsAt).flatten = (List.range' s.init (s.end_ - s.init)).map callsAt :=
  Segmenter.segments_map_flatten s hk hlt callsAt

/-- **C13 ∘ C02**, every refined policy: the squash of the partial stores of the segmenter's segments
and the sequential execution of the blocks `init … end-1` on one store represent the same typed value
for every key — for every segment size, initial block and end block, and whatever each block calls. -/
theorem model_squash_segmenter_eq_sequential_refine {cfg : Cfg} {sem : Sem} {F' P W : Type} {A : KeyAlg F' P W}
    (R : Refine cfg sem A) (s : Segmenter) (hk : 0 < s.interval) (hlt : s.init < s.end_)
    (callsAt : Nat → List Op)
    (ha : ∀ b, s.init ≤ b → b < s.end_ → ∀ op ∈ callsAt b, op.kind = .deletePrefix ∨ R.okOp op)
    {F G : Store}
    (hF : seqRun cfg sem Store.empty ((List.range' s.init (s.end_ - s.init)).map callsAt) = .ok F)
    (hG : squashRun cfg sem Store.empty (segmenterCut s callsAt) = some G) (k : Bytes) :
    ∃ f : Option F', ORel R.RF (look F.kv k) f ∧ ORel R.RF (look G.kv k) f := by
  rw [← segmenterCut_flatten s hk hlt callsAt] at hF
  refine R.model_squash_eq_seq (segmenterCut s callsAt) ?_ hF hG k
  intro seg hseg calls hcalls op hop
  obtain ⟨r, hr, rfl⟩ := List.mem_map.1 hseg
  obtain ⟨b, hb, rfl⟩ := List.mem_map.1 hcalls
  have hbr : r.start ≤ b ∧ b < r.stop := by
    have := List.mem_range'_1.1 hb; omega
  -- the block lies in a segment, hence in `[init, end)`
  have hu := Segmenter.segments_mem_bounds s hk hlt hr
  exact ha b (by omega) (by omega) op hop

/-- **C13 ∘ C02** for `set` (byte equality); the other policies follow from the general theorem the same way. -/
theorem model_squash_segmenter_eq_sequential_set (cfg : Cfg) (sem : Sem) (hpol : cfg.policy = .set)
    (s : Segmenter) (hk : 0 < s.interval) (hlt : s.init < s.end_) (callsAt : Nat → List Op)
    (ha : ∀ b, s.init ≤ b → b < s.end_ → ∀ op ∈ callsAt b, op.kind = .deletePrefix ∨ op.kind = .set)
    {F G : Store}
    (hF : seqRun cfg sem Store.empty ((List.range' s.init (s.end_ - s.init)).map callsAt) = .ok F)
    (hG : squashRun cfg sem Store.empty (segmenterCut s callsAt) = some G) :
    ∀ k, look F.kv k = look G.kv k := by
  intro k
  obtain ⟨f, h1, h2⟩ := model_squash_segmenter_eq_sequential_refine (refSet cfg sem hpol) s hk hlt callsAt ha hF hG k
  exact ORel_eq h1 h2

/-- a per-block hypothesis on the calls of the blocks `[init, end)` is a hypothesis on the segmenter's cut: with
it, every `model_squash_eq_sequential_*` theorem above applies to `segmenterCut s callsAt` as it stands. -/
theorem callsAre_segmenterCut (P : Op → Prop) (s : Segmenter) (hk : 0 < s.interval) (hlt : s.init < s.end_)
    (callsAt : Nat → List Op)
    (ha : ∀ b, s.init ≤ b → b < s.end_ → ∀ op ∈ callsAt b, op.kind = .deletePrefix ∨ P op) :
    CallsAre P (segmenterCut s callsAt) := by
  intro seg hseg calls hcalls op hop
  obtain ⟨r, hr, rfl⟩ := List.mem_map.1 hseg
  obtain ⟨b, hb, rfl⟩ := List.mem_map.1 hcalls
  have hbr : r.start ≤ b ∧ b < r.stop := by
    have := List.mem_range'_1.1 hb; omega
  have hu := Segmenter.segments_mem_bounds s hk hlt hr
  exact ha b (by omega) (by omega) op hop

/-- **C13 ∘ C02** for `add` over int64. -/
theorem model_squash_segmenter_eq_sequential_add_int64 (cfg : Cfg) (hpol : cfg.policy = .add) (hvt : cfg.vt = .int64)
    (s : Segmenter) (hk : 0 < s.interval) (hlt : s.init < s.end_) (callsAt : Nat → List Op)
    (ha : ∀ b, s.init ≤ b → b < s.end_ → ∀ op ∈ callsAt b, op.kind = .deletePrefix ∨ op.kind = .sum .int64)
    {F G : Store}
    (hF : seqRun cfg (stdSem cfg) Store.empty ((List.range' s.init (s.end_ - s.init)).map callsAt) = .ok F)
    (hG : squashRun cfg (stdSem cfg) Store.empty (segmenterCut s callsAt) = some G) :
    ∀ k, look F.kv k = look G.kv k := by
  rw [← segmenterCut_flatten s hk hlt callsAt] at hF
  exact model_squash_eq_sequential_add_int64 cfg hpol hvt (segmenterCut s callsAt)
    (callsAre_segmenterCut _ s hk hlt callsAt ha) hF hG

/-- **C13 ∘ C02** for `append`. -/
theorem model_squash_segmenter_eq_sequential_append (cfg : Cfg) (hpol : cfg.policy = .append)
    (s : Segmenter) (hk : 0 < s.interval) (hlt : s.init < s.end_) (callsAt : Nat → List Op)
    (ha : ∀ b, s.init ≤ b → b < s.end_ → ∀ op ∈ callsAt b, op.kind = .deletePrefix ∨ op.kind = .append)
    {F G : Store}
    (hF : seqRun cfg (stdSem cfg) Store.empty ((List.range' s.init (s.end_ - s.init)).map callsAt) = .ok F)
    (hG : squashRun cfg (stdSem cfg) Store.empty (segmenterCut s callsAt) = some G) :
    ∀ k, look F.kv k = look G.kv k := by
  rw [← segmenterCut_flatten s hk hlt callsAt] at hF
  exact model_squash_eq_sequential_append cfg hpol (segmenterCut s callsAt)
    (callsAre_segmenterCut _ s hk hlt callsAt ha) hF hG

/-- **C13 ∘ C02** for `set_if_not_exists`. -/
theorem model_squash_segmenter_eq_sequential_set_if_not_exists (cfg : Cfg) (sem : Sem)
    (hpol : cfg.policy = .setIfNotExists)
    (s : Segmenter) (hk : 0 < s.interval) (hlt : s.init < s.end_) (callsAt : Nat → List Op)
    (ha : ∀ b, s.init ≤ b → b < s.end_ → ∀ op ∈ callsAt b, op.kind = .deletePrefix ∨ op.kind = .setIfNotExists)
    {F G : Store}
    (hF : seqRun cfg sem Store.empty ((List.range' s.init (s.end_ - s.init)).map callsAt) = .ok F)
    (hG : squashRun cfg sem Store.empty (segmenterCut s callsAt) = some G) :
    ∀ k, look F.kv k = look G.kv k := by
  rw [← segmenterCut_flatten s hk hlt callsAt] at hF
  exact model_squash_eq_sequential_set_if_not_exists cfg sem hpol (segmenterCut s callsAt)
    (callsAre_segmenterCut _ s hk hlt callsAt ha) hF hG

/-! ### Non-vacuity of layer B: concrete histories on which both runs succeed -/

def exCfg (p : Policy) (vt : VT) : Cfg := ⟨p, vt, 0, 1000000, 1000000⟩
def kA : Bytes := [97, 49]   -- "a1"
def kB : Bytes := [98]       -- "b"
def pfxA : Bytes := [97]     -- "a"

/-- three segments (2 + 2 + 1 blocks); out-of-order ordinals inside a block; a `deletePrefix` in the
second segment that hits `a1` but not `b` -/
def exSegs (kind : OpKind) (v : Int → Bytes) : List (List (List Op)) :=
  [ [ [⟨kind, 1, kA, v 5⟩, ⟨kind, 2, kB, v 7⟩], [⟨kind, 1, kA, v 100⟩] ],
    [ [⟨kind, 2, kA, v 1⟩, ⟨.deletePrefix, 1, pfxA, []⟩, ⟨kind, 3, kB, v (-9)⟩], [⟨kind, 1, kA, v 2⟩] ],
    [ [⟨kind, 1, kA, v 3⟩] ] ]

/-- both runs succeed and hold `a` for `a1` and `b` for `b` -/
def exBoth (cfg : Cfg) (segs : List (List (List Op))) (a b : Option Bytes) : Bool :=
  match seqRun cfg (stdSem cfg) Store.empty segs.flatten, squashRun cfg (stdSem cfg) Store.empty segs with
  | .ok F, some G => look F.kv kA == a && look G.kv kA == a && look F.kv kB == b && look G.kv kB == b
  | _, _ => false

example : exBoth (exCfg .add .int64) (exSegs (.sum .int64) renderInt) (some (renderInt 6)) (some (renderInt (-2))) = true := by
  decide
example : CallsAre (fun op => op.kind = .sum .int64) (exSegs (.sum .int64) renderInt) := by
  simp [CallsAre, exSegs]
example : exBoth (exCfg .max .bigint) (exSegs (.max .bigint) renderInt) (some (renderInt 3)) (some (renderInt 7)) = true := by
  decide
example : exBoth (exCfg .min .int64) (exSegs (.min .int64) renderInt) (some (renderInt 1)) (some (renderInt (-9))) = true := by
  decide
example : exBoth (exCfg .set .bytes) (exSegs .set renderInt) (some (renderInt 3)) (some (renderInt (-9))) = true := by
  decide
example : exBoth (exCfg .setIfNotExists .bytes) (exSegs .setIfNotExists renderInt) (some (renderInt 1)) (some (renderInt 7)) = true := by
  decide
example : exBoth (exCfg .append .bytes) (exSegs .append renderInt)
    (some (renderInt 1 ++ renderInt 2 ++ renderInt 3)) (some (renderInt 7 ++ renderInt (-9))) = true := by
  decide
/-- bigdecimal: operands i/10 (`"0.5"`, `"10"`, `"-0.9"`, …); `a1` ends at 0.1 + 0.2 + 0.3, `b` at 0.7 − 0.9 -/
example : exBoth (exCfg .add .bigdecimal) (exSegs (.sum .bigdecimal) (fun i => Dec.render ⟨i, 1⟩))
    (some (Dec.render ⟨6, 1⟩)) (some (Dec.render ⟨-2, 1⟩)) = true := by
  decide
example : exBoth (exCfg .min .bigdecimal) (exSegs (.min .bigdecimal) (fun i => Dec.render ⟨i, 1⟩))
    (some (Dec.render ⟨1, 1⟩)) (some (Dec.render ⟨-9, 1⟩)) = true := by
  decide
example : CallsAre (fun op => op.kind = .sum .bigdecimal ∧ DecOperand op.val)
    (exSegs (.sum .bigdecimal) (fun i => Dec.render ⟨i, 1⟩)) := by
  have hv : ∀ i : Int, DecOperand (Dec.render ⟨i, 1⟩) := by
    intro i
    obtain ⟨d', h1, h2, _⟩ := Dec.parse_render ⟨i, 1⟩
    exact ⟨d', h1, by simp only at h2; omega⟩
  intro seg hseg calls hcalls op hop
  simp only [exSegs, List.mem_cons, List.not_mem_nil, or_false] at hseg
  rcases hseg with rfl | rfl | rfl <;>
    simp only [List.mem_cons, List.not_mem_nil, or_false] at hcalls <;>
    rcases hcalls with rfl | rfl <;>
    simp only [List.mem_cons, List.not_mem_nil, or_false] at hop <;>
    (try rcases hop with rfl | rfl | rfl) <;> (try rcases hop with rfl | rfl) <;> (try subst hop) <;>
    first
      | exact Or.inl rfl
      | (refine Or.inr ⟨rfl, ?_⟩; dsimp only; exact hv _)

example : exBoth (exCfg .setSum .bigdecimal)
    (exSegs (.setSum .bigdecimal) (fun i => pfxSum ++ Dec.render ⟨i, 1⟩))
    (some (pfxSum ++ Dec.render ⟨6, 1⟩)) (some (pfxSum ++ Dec.render ⟨-2, 1⟩)) = true := by
  decide

/-- `set_sum` operands: `set:2`, all others `sum:i` -/
def exSSVal (i : Int) : Bytes := (if i = 2 then pfxSet else pfxSum) ++ renderInt i

/-- `set_sum`: a `set:` in the middle segment; the sequential store keeps the tag `set:`, the squashed one
holds `sum:`, the typed values agree -/
example :
    (match seqRun (exCfg .setSum .int64) (stdSem (exCfg .setSum .int64)) Store.empty (exSegs (.setSum .int64) exSSVal).flatten,
           squashRun (exCfg .setSum .int64) (stdSem (exCfg .setSum .int64)) Store.empty (exSegs (.setSum .int64) exSSVal) with
     | .ok F, some G => look F.kv kA == some (pfxSet ++ renderInt 5) && look G.kv kA == some (pfxSum ++ renderInt 5)
     | _, _ => false) = true := by
  decide

example : CallsAre (fun op => op.kind = .setSum .int64 ∧ SetSumOperand InRange64 op.val)
    (exSegs (.setSum .int64) exSSVal) := by
  have hv : ∀ i : Int, -100 ≤ i ∧ i ≤ 100 → SetSumOperand InRange64 (exSSVal i) := by
    intro i hi
    refine ⟨i, by unfold InRange64 two63; omega, ?_⟩
    unfold exSSVal
    split
    · exact Or.inr rfl
    · exact Or.inl rfl
  intro seg hseg calls hcalls op hop
  simp only [exSegs, List.mem_cons, List.not_mem_nil, or_false] at hseg
  rcases hseg with rfl | rfl | rfl <;>
    simp only [List.mem_cons, List.not_mem_nil, or_false] at hcalls <;>
    rcases hcalls with rfl | rfl <;>
    simp only [List.mem_cons, List.not_mem_nil, or_false] at hop <;>
    (try rcases hop with rfl | rfl | rfl) <;> (try rcases hop with rfl | rfl) <;> (try subst hop) <;>
    first
      | exact Or.inl rfl
      | exact Or.inr ⟨rfl, hv _ (by omega)⟩

/-! non-vacuity of B7: a real segmenter placement, and a history on it where both runs succeed -/
example : (⟨10, 5, 32⟩ : Segmenter).segments = [⟨5, 10⟩, ⟨10, 20⟩, ⟨20, 30⟩, ⟨30, 32⟩] := by decide
example : ((⟨10, 5, 32⟩ : Segmenter).segments.map Range.blocks).flatten = List.range' 5 27 := by decide
/-- block `b` adds `b` to `a1`, and every third block deletes the prefix `a` first (ordinal 0) -/
def exCallsAt (b : Nat) : List Op :=
  (if b % 3 = 0 then [⟨.deletePrefix, 0, pfxA, []⟩] else []) ++
    [⟨.sum .int64, 1, kA, renderInt b⟩, ⟨.sum .int64, 2, kB, renderInt 1⟩]
example : segmenterCut ⟨2, 1, 6⟩ exCallsAt =
    [[exCallsAt 1], [exCallsAt 2, exCallsAt 3], [exCallsAt 4, exCallsAt 5]] := by decide
-- blocks 1..5: `a1` is deleted at block 3 then holds 3+4+5 = 12, `b` counts the five blocks
example : exBoth (exCfg .add .int64) (segmenterCut ⟨2, 1, 6⟩ exCallsAt) (some (renderInt 12)) (some (renderInt 5)) = true := by
  decide
example : CallsAre (fun op => op.kind = .sum .int64) (segmenterCut ⟨2, 1, 6⟩ exCallsAt) := by
  simp [CallsAre, segmenterCut, Segmenter.segments, Segmenter.firstIndex, Segmenter.lastIndex, Segmenter.range?,
    Segmenter.firstRange, Segmenter.followingRange, Range.blocks, exCallsAt, List.range', List.filterMap]

end SV.C02

import Lemmas.Squash
import Model.Merge
/-!
# C02 — Squashing per-segment partial stores equals sequential store execution

**Layer A (this file, proved in full):** for one key, at the level of typed values.  The events of a
key are its writes (in the stable ordinal order `Flush` applies them, block after block) and the
`delete_prefix` operations that match it.  For every policy, every list of events and **every cut**
of it into consecutive segments (`segs : List (List Ev)`, any number of segments of any lengths):
merging, in order, the states that partial stores reach when each segment is executed from scratch
(`squash`) gives exactly the state reached by applying all events sequentially to one store (`runF`).
The policies' update and merge functions below are the typed reading of store_sum.go, store_min.go,
store_max.go, store_setsum.go, value_*.go (update) and merge.go (merge).

**Layer B (Lemmas/SquashRefine.lean, `squash_refines…`)** relates the byte-level model that the
correspondence check ties to the Go code (`Model/Store.lean`, `Model/Policy.lean`, `Model/Merge.lean`:
`flush`, `merge`, `stripTag`, the text codecs) to these per-key algebras.

float64 `add`: IEEE-754 addition is not associative; `squash_eq_sequential_combine` applies to it only
under the associativity hypothesis (`…_float_add_partial`), and the harness exhibits real triples where
sequential and squashed stores differ in the last bits (known finding F4).  Lean's `Float` is opaque to
the kernel, so that counterexample is evaluated by the driver and the Go harness, not stated as a theorem.
-/
namespace SV.C02
open SV

/-- `set`: typed value = the bytes; last write wins; merge replaces. -/
theorem squash_eq_sequential_set (segs : List (List (Ev Bytes))) (x : Option Bytes) :
    (algSet Bytes).squash segs x = (algSet Bytes).runF segs.flatten x :=
  (algSet Bytes).squash_eq_seq segs x

/-- `set_if_not_exists`: first write wins; merge keeps an existing value. -/
theorem squash_eq_sequential_set_if_not_exists (segs : List (List (Ev Bytes))) (x : Option Bytes) :
    (algSine Bytes).squash segs x = (algSine Bytes).runF segs.flatten x :=
  (algSine Bytes).squash_eq_seq segs x

/-- `append`: concatenation (limits not hit). -/
theorem squash_eq_sequential_append (segs : List (List (Ev Bytes))) (x : Option Bytes) :
    (algAppend UInt8).squash segs x = (algAppend UInt8).runF segs.flatten x :=
  (algAppend UInt8).squash_eq_seq segs x

/-- `add`, `min`, `max` over any value type whose combination is associative. -/
theorem squash_eq_sequential_combine {M : Type} (C : Combine M) (segs : List (List (Ev M))) (x : Option M) :
    (algCombine C).squash segs x = (algCombine C).runF segs.flatten x :=
  (algCombine C).squash_eq_seq segs x

/-- `set_sum` over any value type with associative addition. -/
theorem squash_eq_sequential_set_sum {M : Type} (C : Combine M) (segs : List (List (Ev (SS M)))) (x : Option M) :
    (algSetSum C).squash segs x = (algSetSum C).runF segs.flatten x :=
  (algSetSum C).squash_eq_seq segs x

/-! ### the value types -/

/-- bigint addition -/
def addInt : Combine Int := ⟨(· + ·), Int.add_assoc⟩

/-- int64 addition wraps around (two's complement), and is still associative -/
theorem wrap64_add_assoc (a b c : Int) : wrap64 (wrap64 (a + b) + c) = wrap64 (a + wrap64 (b + c)) := by
  unfold wrap64 two63 two64; omega

def addInt64 : Combine Int := ⟨fun a b => wrap64 (a + b), wrap64_add_assoc⟩

/-- the merge of an absent key computes `0 + v` in Go; that is `v` (for int64: `v` in range) -/
theorem zero_add_int (v : Int) : (0 : Int) + v = v := Int.zero_add v
theorem wrap64_of_range (v : Int) (h : -two63 ≤ v ∧ v < two63) : wrap64 (0 + v) = v := by
  unfold wrap64 two63 two64 at *; omega

def maxInt : Combine Int := ⟨max, by intro a b c; simp only [Int.max_def]; repeat' split
                                     all_goals omega⟩
def minInt : Combine Int := ⟨min, by intro a b c; simp only [Int.min_def]; repeat' split
                                     all_goals omega⟩

/-- bigdecimal addition (shopspring: rescale to the larger scale, add coefficients) is associative -/
theorem dec_add_assoc (a b c : Dec) : (a.add b).add c = a.add (b.add c) := by
  unfold Dec.add Dec.rescaleUp
  simp only
  have hs : max (max a.scale b.scale) c.scale = max a.scale (max b.scale c.scale) := by
    simp only [Nat.max_def]; repeat' split
    all_goals omega
  rw [hs]
  congr 1
  generalize hS : max a.scale (max b.scale c.scale) = S
  have h1 : max a.scale b.scale ≤ S := by rw [← hS]; simp only [Nat.max_def]; repeat' split
                                          all_goals omega
  have h2 : max b.scale c.scale ≤ S := by rw [← hS]; simp only [Nat.max_def]; repeat' split
                                          all_goals omega
  have ha : a.scale ≤ max a.scale b.scale := Nat.le_max_left _ _
  have hb : b.scale ≤ max a.scale b.scale := Nat.le_max_right _ _
  have hb' : b.scale ≤ max b.scale c.scale := Nat.le_max_left _ _
  have hc' : c.scale ≤ max b.scale c.scale := Nat.le_max_right _ _
  have pw : ∀ (x y z : Nat), x ≤ y → y ≤ z → (10 : Int) ^ (y - x) * (10 : Int) ^ (z - y) = (10 : Int) ^ (z - x) := by
    intro x y z hxy hyz
    rw [← Int.pow_add]; congr 1; omega
  simp only [Int.add_mul, Int.mul_assoc]
  rw [pw _ _ _ ha h1, pw _ _ _ hb h1, pw _ _ _ hb' h2, pw _ _ _ hc' h2, Int.add_assoc]

def addDec : Combine Dec := ⟨Dec.add, dec_add_assoc⟩

/-- float64 `add`: only under the (false in general) associativity hypothesis — the partial statement. -/
theorem squash_eq_sequential_float_add_partial (add : Float → Float → Float)
    (hassoc : ∀ a b c, add (add a b) c = add a (add b c))
    (segs : List (List (Ev Float))) (x : Option Float) :
    (algCombine ⟨add, hassoc⟩).squash segs x = (algCombine ⟨add, hassoc⟩).runF segs.flatten x :=
  squash_eq_sequential_combine _ segs x

/-! ### Non-vacuity: three blocks, cut after the first, with a deletion in the second segment -/

example : (algCombine addInt).squash [[.write 5, .write 7], [.write 1, .del, .write 2, .write 3]] (some 100) = some 5 ∧
    (algCombine addInt).runF [.write 5, .write 7, .write 1, .del, .write 2, .write 3] (some 100) = some 5 := by decide

example : (algSetSum addInt).squash [[.write (.sum 5)], [.write (.set 7), .write (.sum 1)], [.write (.sum 2)]] none = some 10 := by decide

end SV.C02

import Lemmas.SchedTerm
/-!
# C05 — The segment scheduler is safe and live under every ordering of events

Property theorems only (model: `Model/Stages.lean`, `Model/Sched.lean`; lemmas: `Lemmas/Stages.lean`,
`Lemmas/Sched.lean`).

Everything is quantified over **all** configurations `c` (any number of stages, modules, segments, workers;
`c.OK` is what the request planner guarantees: positive segment size, ranges ending on the hand-off boundary,
only the last stage may be a mapper stage), **all** sets of initial files, and **all** reachable states, i.e. all
orders in which the in-flight commands answer and all behaviours of the ramp-up clock (`Reachable`).

`fix : Patch` says which of the three scheduler fixes the modelled code contains: `fix.deps` = d60dce44
(`dependenciesCompleted`), `fix.shadow` = 9da4cc23 (`markShadowedUnits`), `fix.stageIdx` = 38ce9883 (stage index of
the tier-2 request).  All three are committed: `Patch.head = Patch.all` is the repository at HEAD and satisfies
the hypotheses `fix.shadow = true`, `fix.deps = true` of the theorems.  For the code BEFORE these fixes
(`Patch.before`, `Patch.none`) every one of the theorems is FALSE: the kernel-checked `example`s at the end are the
counterexamples (F15, F19, F20, F21 of DESIGN §9; each was replayed on the real code of that time by
`harness/cmd/vh_c05`, and is replayed on HEAD at every run as a regression case).
-/
namespace SV.C05
open SV SV.Stg SV.Stg.Stages SV.Sch

variable {c : Cfg} {fix : Patch} {files : Files} {st : State}

/-! ## no invalid transition -/

/-- **no_invalid_transition.**  No reachable state is a panic: the guard of `transition` never fails
(`invalidTransition`), `setState` never indexes outside the matrix, `MarkSegmentMerging` is never called before the
previous segment is complete, `NextJob` never dereferences a nil range, the worker pool is never asked for a
worker it does not have and never gets a worker back twice. -/
theorem no_invalid_transition (hc : c.OK) (hf : fix.shadow = true) (h : Reachable c fix files st) :
    ∀ e, st.ended ≠ some (.panic e) :=
  (reachable_good hc hf h).noPanic

/-- The invariant behind it: a job in flight is for a unit that is Scheduled and holds a worker that is
working; a merge in flight is for a unit that is Merging; no unit has two jobs or two merges in flight and no
worker two jobs. -/
theorem in_flight_consistent (hc : c.OK) (hf : fix.shadow = true) (h : Reachable c fix files st) :
    (∀ u sb w, Cmd.job u sb w ∈ st.inFlight →
        st.stages.getState u.seg u.stage = .scheduled ∧ st.pool.workers[w]? = some WState.working) ∧
    (st.inFlight.filterMap Cmd.jobUnit).Nodup ∧ (st.inFlight.filterMap Cmd.jobWorker).Nodup ∧
    (∀ u, Cmd.merge u ∈ st.inFlight → st.stages.getState u.seg u.stage = .merging) ∧
    (st.inFlight.filterMap Cmd.mergeUnit).Nodup :=
  let b := (reachable_good hc hf h).inv.bag
  ⟨b.jobs, b.jobU, b.jobW, b.merges, b.mergeU⟩

/-! ## a job starts only when its dependencies are complete -/

/-- **job_deps_complete.**  When a step hands the unit `u = (segment, stage)` to a worker (`handedOut`), then for
every lower stage `i` that has data in or before that segment: the unit of the PREVIOUS segment is Completed (or
NoOp: nothing to do) — that is where the tier-2 job loads the full snapshots of stage `i` from — and the unit of
the SAME segment is Completed/NoOp, or its partial is present, or it is Shadowed, i.e. produced by this very job
(a tier-2 job at stage `s` also writes the missing store files of the stages below `s` for its segment).
(A lower stage whose first segment is later than `u`'s has no data yet: no dependency.) -/
theorem job_deps_complete (hc : c.OK) (hf : fix.shadow = true) (hd : fix.deps = true)
    (h : Reachable c fix files st) (idx : Nat) (elapsed : Bool) (u : WorkUnit)
    (hu : handedOut st idx elapsed = some u) :
    (step st idx elapsed).stages.getState u.seg u.stage = .scheduled ∧
    ∀ i, i < u.stage → (st.stages.stageAt i).seg.firstIndex ≤ u.seg →
      ((st.stages.stageAt i).seg.firstIndex < u.seg →
        (step st idx elapsed).stages.previousUnitComplete ⟨u.seg, i⟩ = true) ∧
      ((step st idx elapsed).stages.getState u.seg i = .completed ∨
       (step st idx elapsed).stages.getState u.seg i = .noOp ∨
       (step st idx elapsed).stages.getState u.seg i = .shadowed ∨
       (step st idx elapsed).stages.getState u.seg i = .partialPresent) := by
  have hg := reachable_good hc hf h
  have hfix : st.fix = fix := (reachable_fix h).1
  exact handedOut_deps hg (by rw [hfix]; exact hd) hu

/-! ## every store's segments are merged once, in block order -/

/-- **merge_once_in_order (order).**  Every merge in flight is the merge of the NEXT segment of a store stage
(`segmentCompleted + 1`), that unit is Merging, and the unit of the segment before it is complete: segments are
merged in block order, one at a time per stage. -/
theorem merge_next_segment_only (hc : c.OK) (hf : fix.shadow = true) (h : Reachable c fix files st) (u : WorkUnit)
    (hu : Cmd.merge u ∈ st.inFlight) :
    st.stages.getState u.seg u.stage = .merging ∧ st.stages.previousUnitComplete u = true ∧
    ∃ i, (st.stages.stageAt i).kind = .store ∧ u = ⟨(st.stages.stageAt i).next, (st.stages.stageAt i).idx⟩ := by
  have g := reachable_good2 hc hf h
  exact ⟨g.good.inv.bag.merges u hu, g.merges.prev u hu, g.merges.next u hu⟩

/-- **merge_once_in_order (once), part 1.**  No unit ever moves backwards in its life cycle
Pending/NoOp < Shadowed/Scheduled < PartialPresent < Merging < Completed.  In particular a unit that is Merging or
Completed is never PartialPresent again, and `CmdTryMerge` only starts a merge for a PartialPresent unit: a segment
cannot be merged a second time. -/
theorem unit_never_moves_back (hc : c.OK) (hf : fix.shadow = true) (h : Reachable c fix files st)
    (idx : Nat) (elapsed : Bool) (seg stage : Nat) :
    rank (st.stages.getState seg stage) ≤ rank ((step st idx elapsed).stages.getState seg stage) :=
  step_mono st idx elapsed (reachable_good hc hf h) seg stage

/-- Completed is for ever. -/
theorem completed_stays_completed (hc : c.OK) (hf : fix.shadow = true) (h : Reachable c fix files st)
    (idx : Nat) (elapsed : Bool) (seg stage : Nat) (hcomp : st.stages.getState seg stage = .completed) :
    (step st idx elapsed).stages.getState seg stage = .completed := by
  have := unit_never_moves_back hc hf h idx elapsed seg stage
  rw [hcomp] at this
  cases hs : (step st idx elapsed).stages.getState seg stage <;> rw [hs] at this <;> simp [rank] at this

/-- **merge_once_in_order (once), part 2.**  When the squasher's result for `u` is delivered (the merge found its
files), the unit becomes Completed — together with `in_flight_consistent` (no two merges of one unit in flight, a
merge in flight only for a Merging unit) and `completed_stays_completed`: each segment of each store is merged at
most once. -/
theorem merge_result_completes (hc : c.OK) (hf : fix.shadow = true) (h : Reachable c fix files st)
    (idx : Nat) (elapsed : Bool) (u : WorkUnit) (hend : st.ended = none) (hcmd : st.bag[idx]? = some (.merge u))
    (hfiles : (runMerge st.stages u st.files).isSome) :
    (step st idx elapsed).stages.getState u.seg u.stage = .completed :=
  step_merge_completes (reachable_good hc hf h) hend hcmd hfiles

/-! ## the end state is the right one -/

/-- **final_state_complete.**  When the scheduler quits without error (`quitNil`), the work is done: every store
stage is complete up to its last segment (`allStoresCompleted`), both completion flags are set, and when a file
walker streams the output, it has seen the output file of every segment of its range. -/
theorem final_state_complete (hc : c.OK) (hf : fix.shadow = true) (h : Reachable c fix files st)
    (hend : st.ended = some .quitNil) :
    st.stages.allStoresCompleted = true ∧ st.outDone = true ∧ st.storesDone = true ∧
    ∀ w, st.walker = some w → ∀ i, w.seg.firstIndex ≤ i → i ≤ w.seg.lastIndex →
      ∃ r, w.seg.range? i = some r ∧ st.files.hasOutput r.start r.stop = true := by
  have hF := reachable_liveF hc hf h
  have hW := reachable_liveW hc hf h
  obtain ⟨ho, hs, ha⟩ := hF.endNil hend
  refine ⟨ha, ho, hs, ?_⟩
  intro w hw i h1 h2
  have hd := hW.doneW ho w hw
  simp only [Walker.isDone, decide_eq_true_eq] at hd
  exact hW.outs w hw i h1 (by omega)

/-! ## progress -/

/-- **progress_partial.**  The control part of `progress`: in a reachable state that has not ended and in which
NOTHING is in flight (no command, no job, no merge, no timer), the output stream is complete and the stores are
the only thing missing: `storesDone` is false (or the output is an index module without walker whose last stage is
not complete).  In other words: the walker never stalls, the two completion flags always lead to the shutdown,
and a scheduler can only ever be stuck INSIDE `Stages` (NextJob / CmdTryMerge find nothing to do although a store
is incomplete).

MISSING CASE for the full `progress`: that last situation is impossible for `Stages` at HEAD — it is exactly
what F19/F20 produced on the code before the fixes (`example`s below).  The candidate invariants for it (a Scheduled unit
has its job in flight, a Merging unit its merge, a working worker its job; a Shadowed unit has a
Pending/Scheduled/Shadowed unit above it; no stage is mergeable at rest; `NextJob` finds nothing only while a
`scheduleNextJob`, timer or job is in flight; the units below `segmentCompleted` are complete) are checked by the
model's explorer (`EXPLORE … v=1`, class prefix `inv/`) on every reachable state of every explored
configuration: no violation with the patches on. -/
theorem progress_partial (hc : c.OK) (hf : fix.shadow = true) (h : Reachable c fix files st)
    (hend : st.ended = none) (hidle : st.inFlight = []) :
    st.outDone = true ∧
    (st.storesDone = false ∨ (st.walker = none ∧ st.stages.outIsIndex = true)) := by
  have hF := reachable_liveF hc hf h
  have hW := reachable_liveW hc hf h
  have ho : st.outDone = true := by
    cases hwk : st.walker with
    | none => exact hW.noWalker hwk
    | some w =>
      cases hod : st.outDone with
      | true => rfl
      | false =>
        exfalso
        cases hwork : w.working with
        | true =>
          rcases hW.walkA w hwk hod hwork with ⟨seg, hm⟩ | hm <;> rw [hidle] at hm <;> cases hm
        | false =>
          have hm := hW.walkB w hwk hod hwork
          rw [hidle] at hm; cases hm
  refine ⟨ho, ?_⟩
  cases hsd : st.storesDone with
  | false => exact Or.inl rfl
  | true =>
    right
    cases hwk : st.walker with
    | some w =>
      have hm := hF.both ho hsd hend (Or.inl (by rw [hwk]; rfl))
      rw [hidle] at hm; cases hm
    | none =>
      refine ⟨rfl, ?_⟩
      cases hx : st.stages.outIsIndex with
      | true => rfl
      | false =>
        have hm := hF.both ho hsd hend (Or.inr hx)
        rw [hidle] at hm; cases hm

/-! ## termination -/

/-- **terminates_partial.**  From every reachable state, the relation "one step that executes a command of the bag
and is not a POLL" (`WorkStep`) is well-founded: there is no infinite sequence of such steps.  A poll (`polls`) is
a step that asks again later: the walker looks for an output file that is not there yet, or `scheduleNextJob`
finds every worker busy/waiting during the ramp-up delay and arms a timer.
(Measure, lexicographic: how far the units of the matrix are from Completed — every job handed out, every job
result, every finished merge moves a unit forward and nothing ever moves one back —, then the segments the walker
still has to see, then the weight of the commands in flight.)

MISSING for the full `terminates` (every fair run reaches `quitNil`): (1) the full `progress` (see
`progress_partial`: its Stages-level core case), (2) fairness of the environment — the ramp-up delay elapses and
a polled file is eventually there, which is again `progress` of the jobs that write it.  With `progress_partial`,
`final_state_complete` and this theorem: a run can only go on for ever by polling, and can only stop early inside
`Stages`. -/
theorem terminates_partial (hc : c.OK) (hf : fix.shadow = true) (h : Reachable c fix files st) :
    Acc (WorkStep c fix files) st := by
  obtain ⟨B, n, hb⟩ := bnd_exists st.stages
  exact acc_workStep hc hf B n _ st rfl h hb

/-- the same as a statement about runs: in every infinite sequence of steps from a reachable state there is a
step at which the scheduler has ended, or that executes nothing (no such command in the bag), or that is a poll
(applied to the tails of the run: infinitely many). -/
theorem no_infinite_work (hc : c.OK) (hf : fix.shadow = true) (run : Nat → State) (idx : Nat → Nat) (el : Nat → Bool)
    (h0 : Reachable c fix files (run 0)) (hstep : ∀ k, run (k + 1) = step (run k) (idx k) (el k)) :
    ∃ k, (run k).ended ≠ none ∨ (run k).bag.length ≤ idx k ∨ polls (run k) (idx k) (el k) = true := by
  have hacc := terminates_partial hc hf h0
  generalize hst : run 0 = st0 at hacc
  induction hacc generalizing run idx el with
  | intro st0 _ ih =>
    by_cases h1 : (run 0).ended = none
    · by_cases h2 : idx 0 < (run 0).bag.length
      · cases h3 : polls (run 0) (idx 0) (el 0) with
        | true => exact ⟨0, Or.inr (Or.inr h3)⟩
        | false =>
          have hw : WorkStep c fix files (run 1) st0 := by
            rw [← hst]
            exact ⟨h0, idx 0, el 0, h1, h2, h3, hstep 0⟩
          obtain ⟨k, hk⟩ := ih (run 1) hw (fun k => run (k + 1)) (fun k => idx (k + 1)) (fun k => el (k + 1))
            (by show Reachable c fix files (run 1); rw [hstep 0]; exact Reachable.step _ _ h0)
            (fun k => hstep (k + 1)) rfl
          exact ⟨k + 1, hk⟩
      · exact ⟨0, Or.inr (Or.inl (Nat.le_of_not_lt h2))⟩
    · exact ⟨0, Or.inl h1⟩

/-! ## the code before the fixes violates every one of these properties: kernel-checked counterexamples

`Patch.before` is the code before d60dce44/9da4cc23 (`Patch.none` = also before the stage-index fix 38ce9883).  Each
witness was found by the harness or the model's explorer and replayed on the real `Scheduler.Update` of that code
(same states after every message). -/
section counterexamples
open Witness
set_option maxRecDepth 100000

/-- the witness configurations satisfy the hypotheses of the theorems -/
example : cfgF15.OK ∧ cfgF20.OK ∧ cfgTwice.OK ∧ cfgDead.OK ∧ cfgPanic.OK ∧ cfgShift.OK :=
  ⟨ok_of_check _ (by decide), ok_of_check _ (by decide), ok_of_check _ (by decide), ok_of_check _ (by decide),
   ok_of_check _ (by decide), ok_of_check _ (by decide)⟩

/-- **F15** (`job_deps_complete` is false before d60dce44).  Stores S0@5 (stage 0), S1@25 (stage 1), mapper@25, segment 10,
start 25, empty cache, one worker: after this schedule `NextJob` hands out (segment 2, stage 2) — the first segment of
the mapper stage — although the unit (1, 0) is not complete and S0's snapshot at block 20 does not exist. -/
example : (after cfgF15 Patch.before ⟨[], []⟩ schedF15).map (fun st =>
    (handedOut st 3 true, (step st 3 true).stages.previousUnitComplete ⟨2, 0⟩, st.files.hasFull 0 0 20 5)) =
    some (some ⟨2, 2⟩, false, false) := by decide

/-- with the patch of `dependenciesCompleted` the same schedule hands out (2, 0) instead -/
example : (after cfgF15 Patch.all ⟨[], []⟩ schedF15).map (fun st => handedOut st 3 true) = some (some ⟨2, 0⟩) := by decide

/-- **F20** (`job_deps_complete`, second cause): the lower store has its snapshot at block 20 (segment 1 Completed from
the cache) but not at block 10; (segment 1, stage 1) is handed out while (0, 0) is not complete. -/
example : (after cfgF20 Patch.before filesF20 schedF20).map (fun st =>
    (handedOut st 1 true, (step st 1 true).stages.previousUnitComplete ⟨1, 0⟩, st.files.hasFull 0 0 10 0)) =
    some (some ⟨1, 1⟩, false, false) := by decide

/-- **F19** (`merge_once_in_order` was false before 9da4cc23): an interrupted earlier request left the partial of S for
segment 0; `markShadowedUnits` overwrites the Merging unit with Shadowed, the mapper job turns it into PartialPresent
again and a second merge of the same segment is started while the first one is still in flight. -/
example : (after cfgTwice Patch.before filesTwice schedTwice).map (fun st => st.bag.filterMap Cmd.mergeUnit) =
    some [⟨0, 0⟩, ⟨0, 0⟩] := by decide

/-- **F19** (`no_invalid_transition` was false before 9da4cc23): a Scheduled unit is overwritten with Shadowed while its job
runs; `MarkJobSuccess` then panics: invalid transition from "Shadowed" to "PartialPresent". -/
example : (after cfgPanic Patch.before filesPanic schedPanic).map (fun st => (step st 0 true).ended) =
    some (some (.panic (.invalidTransition .shadowed .partialPresent))) := by decide

/-- **F19** (`progress` was false before 9da4cc23, with an EMPTY cache): three store stages and a mapper, three segments, two
workers.  After this schedule nothing is in flight, the scheduler has not quit, the stores are not complete: the unit
(segment 1, stage 1) is Shadowed for ever (its PartialPresent state was overwritten when the stage above went
Merging). -/
example : (after cfgDead Patch.before ⟨[], []⟩ schedDead).map (fun st =>
    (st.ended, st.bag.length, st.stages.allStoresCompleted, st.stages.getState 1 1)) =
    some (none, 0, false, .shadowed) := by decide

/-- **F21** (fixed at HEAD): before commit 38ce9883 the unit handed out carried the POSITION of the mapper stage (0)
while the stage is number 1 of the graph: tier2 ran the store stage and the output was never written. -/
example : (after cfgShift Patch.none ⟨[], []⟩ schedShift).map (fun st =>
    (handedOut st 0 false, (st.stages.stageAt 0).idx)) = some (some ⟨0, 0⟩, 1) := by decide

/-- non-vacuity of the theorems: the scheduler at HEAD runs the same schedule from the same initial state (and
ends, as the theorems say, without panic, with the merges in order) -/
example : ∃ st, after cfgDead Patch.all ⟨[], []⟩ schedDead = some st ∧ Reachable cfgDead Patch.all ⟨[], []⟩ st ∧
    st.stages.getState 1 1 = .completed := by
  have hsome : ((after cfgDead Patch.all ⟨[], []⟩ schedDead).map fun st => st.stages.getState 1 1) = some .completed := by
    decide
  unfold after at hsome ⊢
  cases h : Sch.init cfgDead Patch.all ⟨[], []⟩ with
  | error e => rw [h] at hsome; cases hsome
  | ok st0 =>
    rw [h] at hsome
    simp only [Option.map_some, Option.some.injEq] at hsome
    exact ⟨_, rfl, (Reachable.init h).runSched _, hsome⟩

end counterexamples

end SV.C05

import Lemmas.Sched
/-!
# C05 — The segment scheduler is safe and live under every ordering of events

Property theorems only (model: `Model/Stages.lean`, `Model/Sched.lean`; lemmas: `Lemmas/Stages.lean`,
`Lemmas/Sched.lean`).

Everything is quantified over **all** configurations `c` (any number of stages, modules, segments, workers;
`c.OK` is what the request planner guarantees: positive segment size, ranges ending on the hand-off boundary,
only the last stage may be a mapper stage), **all** sets of initial files, and **all** reachable states, i.e. all
orders in which the in-flight commands answer and all behaviours of the ramp-up clock (`Reachable`).

`fix : Patch` says which of the proposed patches are applied; `Patch.none` is the code as it is.  The theorems
hold for the PATCHED scheduler (`fix.shadow` = patch of `markShadowedUnits`, `fix.deps` = patch of
`dependenciesCompleted`); for the code as it is every one of them is FALSE, and the kernel-checked `example`s at
the end are the counterexamples (F15, F19, F20, F21 of DESIGN §9; each was replayed on the real code by
`harness/cmd/vh_c05`).
-/
namespace SV.C05
open SV SV.Stg SV.Stg.Stages SV.Sch

variable {c : Cfg} {fix : Patch} {files : Files} {st : State}

/-! ## no invalid transition -/

/-- **no_invalid_transition.**  No reachable state is a panic: the guard of `transition` never fails
(`invalidTransition`), `setState` never indexes outside the matrix, `MarkSegmentMerging` is never called before the
previous segment is complete, `NextJob` never dereferences a nil range, the worker pool is never asked for a
worker it does not have and never gets a worker back twice. -/
theorem no_invalid_transition (hc : c.OK) (hf : fix.shadow = true) (h : Reachable c fix files st) :
    ∀ e, st.ended ≠ some (.panic e) :=
  (reachable_good hc hf h).noPanic

/-- The invariant behind it: a job in flight is for a unit that is Scheduled and holds a worker that is
working; a merge in flight is for a unit that is Merging; no unit has two jobs or two merges in flight and no
worker two jobs. -/
theorem in_flight_consistent (hc : c.OK) (hf : fix.shadow = true) (h : Reachable c fix files st) :
    (∀ u sb w, Cmd.job u sb w ∈ st.inFlight →
        st.stages.getState u.seg u.stage = .scheduled ∧ st.pool.workers[w]? = some WState.working) ∧
    (st.inFlight.filterMap Cmd.jobUnit).Nodup ∧ (st.inFlight.filterMap Cmd.jobWorker).Nodup ∧
    (∀ u, Cmd.merge u ∈ st.inFlight → st.stages.getState u.seg u.stage = .merging) ∧
    (st.inFlight.filterMap Cmd.mergeUnit).Nodup :=
  let b := (reachable_good hc hf h).inv.bag
  ⟨b.jobs, b.jobU, b.jobW, b.merges, b.mergeU⟩

/-! ## a job starts only when its dependencies are complete -/

/-- **job_deps_complete.**  When a step hands the unit `u = (segment, stage)` to a worker (`handedOut`), then for
every lower stage `i` that has data in or before that segment: the unit of the PREVIOUS segment is Completed (or
NoOp: nothing to do) — that is where the tier-2 job loads the full snapshots of stage `i` from — and the unit of
the SAME segment is Completed/NoOp, or its partial is present, or it is Shadowed, i.e. produced by this very job
(a tier-2 job at stage `s` also writes the missing store files of the stages below `s` for its segment).
(A lower stage whose first segment is later than `u`'s has no data yet: no dependency.) -/
theorem job_deps_complete (hc : c.OK) (hf : fix.shadow = true) (hd : fix.deps = true)
    (h : Reachable c fix files st) (idx : Nat) (elapsed : Bool) (u : WorkUnit)
    (hu : handedOut st idx elapsed = some u) :
    (step st idx elapsed).stages.getState u.seg u.stage = .scheduled ∧
    ∀ i, i < u.stage → (st.stages.stageAt i).seg.firstIndex ≤ u.seg →
      ((st.stages.stageAt i).seg.firstIndex < u.seg →
        (step st idx elapsed).stages.previousUnitComplete ⟨u.seg, i⟩ = true) ∧
      ((step st idx elapsed).stages.getState u.seg i = .completed ∨
       (step st idx elapsed).stages.getState u.seg i = .noOp ∨
       (step st idx elapsed).stages.getState u.seg i = .shadowed ∨
       (step st idx elapsed).stages.getState u.seg i = .partialPresent) := by
  have hg := reachable_good hc hf h
  have hfix : st.fix = fix := (reachable_fix h).1
  exact handedOut_deps hg (by rw [hfix]; exact hd) hu

/-! ## every store's segments are merged once, in block order -/

/-- **merge_once_in_order (order).**  Every merge in flight is the merge of the NEXT segment of a store stage
(`segmentCompleted + 1`), that unit is Merging, and the unit of the segment before it is complete: segments are
merged in block order, one at a time per stage. -/
theorem merge_next_segment_only (hc : c.OK) (hf : fix.shadow = true) (h : Reachable c fix files st) (u : WorkUnit)
    (hu : Cmd.merge u ∈ st.inFlight) :
    st.stages.getState u.seg u.stage = .merging ∧ st.stages.previousUnitComplete u = true ∧
    ∃ i, (st.stages.stageAt i).kind = .store ∧ u = ⟨(st.stages.stageAt i).next, (st.stages.stageAt i).idx⟩ := by
  have g := reachable_good2 hc hf h
  exact ⟨g.good.inv.bag.merges u hu, g.merges.prev u hu, g.merges.next u hu⟩

/-- **merge_once_in_order (once), part 1.**  No unit ever moves backwards in its life cycle
Pending/NoOp < Shadowed/Scheduled < PartialPresent < Merging < Completed.  In particular a unit that is Merging or
Completed is never PartialPresent again, and `CmdTryMerge` only starts a merge for a PartialPresent unit: a segment
cannot be merged a second time. -/
theorem unit_never_moves_back (hc : c.OK) (hf : fix.shadow = true) (h : Reachable c fix files st)
    (idx : Nat) (elapsed : Bool) (seg stage : Nat) :
    rank (st.stages.getState seg stage) ≤ rank ((step st idx elapsed).stages.getState seg stage) :=
  step_mono st idx elapsed (reachable_good hc hf h) seg stage

/-- Completed is for ever. -/
theorem completed_stays_completed (hc : c.OK) (hf : fix.shadow = true) (h : Reachable c fix files st)
    (idx : Nat) (elapsed : Bool) (seg stage : Nat) (hcomp : st.stages.getState seg stage = .completed) :
    (step st idx elapsed).stages.getState seg stage = .completed := by
  have := unit_never_moves_back hc hf h idx elapsed seg stage
  rw [hcomp] at this
  cases hs : (step st idx elapsed).stages.getState seg stage <;> rw [hs] at this <;> simp [rank] at this

/-- **merge_once_in_order (once), part 2.**  When the squasher's result for `u` is delivered (the merge found its
files), the unit becomes Completed — together with `in_flight_consistent` (no two merges of one unit in flight, a
merge in flight only for a Merging unit) and `completed_stays_completed`: each segment of each store is merged at
most once. -/
theorem merge_result_completes (hc : c.OK) (hf : fix.shadow = true) (h : Reachable c fix files st)
    (idx : Nat) (elapsed : Bool) (u : WorkUnit) (hend : st.ended = none) (hcmd : st.bag[idx]? = some (.merge u))
    (hfiles : (runMerge st.stages u st.files).isSome) :
    (step st idx elapsed).stages.getState u.seg u.stage = .completed :=
  step_merge_completes (reachable_good hc hf h) hend hcmd hfiles

/-! ## the code as it is violates every one of these properties: kernel-checked counterexamples

`Patch.head` is the code at HEAD (`Patch.none` = before the stage-index fix 38ce9883).  Each witness was found by
the model's explorer and replayed on the real `Scheduler.Update` by the harness (same states after every
message). -/
section counterexamples
open Witness

/-- the witness configurations satisfy the hypotheses of the theorems -/
example : cfgF15.OK ∧ cfgF20.OK ∧ cfgTwice.OK ∧ cfgDead.OK ∧ cfgPanic.OK ∧ cfgShift.OK := by
  refine ⟨?_, ?_, ?_, ?_, ?_, ?_⟩ <;>
    refine ⟨by decide, ?_, ?_, ?_⟩ <;>
    first
      | (intro r hr; injection hr with hr; subst hr; decide)
      | (intro r hr; cases hr)
      | (intro i hi; have : i < 3 := by simpa [cfgF15, cfgF20, cfgTwice, cfgDead, cfgPanic, cfgShift, mkCfg] using hi
         match i, this with
         | 0, _ => decide
         | 1, _ => decide
         | 2, _ => decide)

/-- **F15** (`job_deps_complete` is false at HEAD).  Stores S0@5 (stage 0), S1@25 (stage 1), mapper@25, segment 10,
start 25, empty cache, one worker: after this schedule `NextJob` hands out (segment 2, stage 2) — the first segment of
the mapper stage — although the unit (1, 0) is not complete and S0's snapshot at block 20 does not exist. -/
example : (after cfgF15 Patch.head ⟨[], []⟩ schedF15).map (fun st =>
    (handedOut st 3 true, (step st 3 true).stages.previousUnitComplete ⟨2, 0⟩, st.files.hasFull 0 0 20 5)) =
    some (some ⟨2, 2⟩, false, false) := by decide

/-- with the patch of `dependenciesCompleted` the same schedule hands out (2, 0) instead -/
example : (after cfgF15 Patch.all ⟨[], []⟩ schedF15).map (fun st => handedOut st 3 true) = some (some ⟨2, 0⟩) := by decide

/-- **F20** (`job_deps_complete`, second cause): the lower store has its snapshot at block 20 (segment 1 Completed from
the cache) but not at block 10; (segment 1, stage 1) is handed out while (0, 0) is not complete. -/
example : (after cfgF20 Patch.head filesF20 schedF20).map (fun st =>
    (handedOut st 1 true, (step st 1 true).stages.previousUnitComplete ⟨1, 0⟩, st.files.hasFull 0 0 10 0)) =
    some (some ⟨1, 1⟩, false, false) := by decide

/-- **F19** (`merge_once_in_order` is false at HEAD): an interrupted earlier request left the partial of S for
segment 0; `markShadowedUnits` overwrites the Merging unit with Shadowed, the mapper job turns it into PartialPresent
again and a second merge of the same segment is started while the first one is still in flight. -/
example : (after cfgTwice Patch.head filesTwice schedTwice).map (fun st => st.inFlight.filterMap Cmd.mergeUnit) =
    some [⟨0, 0⟩, ⟨0, 0⟩] := by decide

/-- **F19** (`no_invalid_transition` is false at HEAD): a Scheduled unit is overwritten with Shadowed while its job
runs; `MarkJobSuccess` then panics: invalid transition from "Shadowed" to "PartialPresent". -/
example : (after cfgPanic Patch.head filesPanic schedPanic).map (fun st => (step st 0 true).ended) =
    some (some (.panic (.invalidTransition .shadowed .partialPresent))) := by decide

/-- **F19** (`progress` is false at HEAD, with an EMPTY cache): three store stages and a mapper, three segments, two
workers.  After this schedule nothing is in flight, the scheduler has not quit, the stores are not complete: the unit
(segment 1, stage 1) is Shadowed for ever (its PartialPresent state was overwritten when the stage above went
Merging). -/
example : (after cfgDead Patch.head ⟨[], []⟩ schedDead).map (fun st =>
    (st.ended, st.bag.length, st.stages.allStoresCompleted, st.stages.getState 1 1)) =
    some (none, 0, false, .shadowed) := by decide

/-- **F21** (fixed at HEAD): before commit 38ce9883 the unit handed out carried the POSITION of the mapper stage (0)
while the stage is number 1 of the graph: tier2 ran the store stage and the output was never written. -/
example : (after cfgShift Patch.none ⟨[], []⟩ schedShift).map (fun st =>
    (handedOut st 0 false, (st.stages.stageAt 0).idx)) = some (some ⟨0, 0⟩, 1) := by decide

/-- non-vacuity of the theorems: the states above are reachable states of the patched scheduler too -/
example : ∃ st, after cfgDead Patch.all ⟨[], []⟩ schedDead = some st ∧ Reachable cfgDead Patch.all ⟨[], []⟩ st := by
  unfold after
  cases h : Sch.init cfgDead Patch.all ⟨[], []⟩ with
  | error e => exact absurd h (by decide)
  | ok st0 => exact ⟨_, rfl, (Reachable.init h).runSched _⟩

end counterexamples

end SV.C05

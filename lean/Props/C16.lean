import Lemmas.Retry
import Generated.ConstsC16
/-!
# C16 — Worker failures never corrupt the stream or truncate it silently

Property theorems only (model: `Model/Retry.lean`, helper lemmas: `Lemmas/Retry.lean`).

What is proved here is the LOGIC of the property: the retry state machine of `RemoteWorker.Work`
(with `derr.RetryContext` / go-retry inlined), the classification of an attempt by `RemoteWorker.work`,
the two error tables (`tier2.toGRPCError`, `tier1.toConnectError`) and their composition, and an
abstract statement about the files a retried job leaves.  The generic theorems hold for every value of
the constants; the `…_extracted` theorems instantiate them at `SV.C16.Gen.*`, which
`harness/cmd/extract_c16` reads out of the current source on every run (so a changed constant or table
entry changes the statement that is checked).

Runtime behaviour that is NOT proved (named in checks/C16.json): the gRPC transport keeps status codes
and delivers `io.EOF` only when the server handler returned `nil`; back-off durations; goroutines.
The "same outputs as a fault-free run" half of the property is attached to the system harness
(C01/C07); `faults_do_not_change_files` below is its abstract core with explicit hypotheses.

All quantifiers are unbounded: every list of attempts, every counter value, every error.
-/
namespace SV.C16
open SV.Retry

/-! ## The retry loop (generic in `maxRetries = M`, `maxExecutionTimeouts = T`) -/

/-- **Transient faults are absorbed.**  Any sequence of clean faults (retryable error, context alive)
that fits the budgets — at most `M` of them, fewer than `T` counted as execution time-outs — followed by
an attempt that ends without error makes `Work` report success, and uses exactly `#faults + 1` attempts;
what the environment would have done afterwards is irrelevant. -/
theorem transient_recovers (M T : Nat) (faults : List OStep) (final : OStep) (rest : List OStep) (m : Bool)
    (hf : ∀ s ∈ faults, s.CleanFault) (hM : faults.length ≤ M) (hT : timeoutsOf faults < T)
    (hok : final.out = .ok m) (hctx : final.ctxAfter = none) :
    loop M T 0 0 0 (faults ++ final :: rest) = ⟨.succeeded m, faults.length + 1⟩ := by
  rw [loop_skip_faults0 M T faults _ hf hM hT]
  simp [loop, hok, hctx]

/-- **Monotonicity / a non-retryable outcome is final.**  After clean faults within the budgets, an
attempt whose outcome is not retryable (success, `InvalidArgument`, `Failed` message, factory error,
context error) decides the job: the result is the one the attempt alone would give — it does not depend
on the faults before it nor on anything after it — and it is attempt number `#faults + 1` (no retry). -/
theorem fatal_not_retried (M T : Nat) (faults : List OStep) (final : OStep) (rest : List OStep)
    (hf : ∀ s ∈ faults, s.CleanFault) (hM : faults.length ≤ M) (hT : timeoutsOf faults < T)
    (hfin : ∀ e, final.out ≠ .retryable e) :
    loop M T 0 0 0 (faults ++ final :: rest)
      = ⟨(loop M T 0 0 0 [final]).result, faults.length + 1⟩ := by
  rw [loop_skip_faults0 M T faults _ hf hM hT]
  rw [loop_terminal M T _ _ _ final rest hfin]

/-- **Bounded.**  `Work` never makes more than `M + 1` attempts (the first one plus `M` retries), nor
more attempts than the environment was asked for. -/
theorem retry_bounded (M T : Nat) (steps : List OStep) :
    (loop M T 0 0 0 steps).attempts ≤ M + 1 ∧ (loop M T 0 0 0 steps).attempts ≤ steps.length := by
  have h1 := loop_attempts_le M T steps 0 0 0
  have h2 := loop_attempts_le_length M T steps 0 0 0
  omega

/-- **No silent truncation (loop level).**  Success is reported only if some attempt ended without error
while the context was alive; it is the last attempt made and every attempt before it was a clean fault. -/
theorem success_only_if_completed (M T : Nat) (steps : List OStep) (m : Bool) (a : Nat)
    (h : loop M T 0 0 0 steps = ⟨.succeeded m, a⟩) :
    ∃ pre s post, steps = pre ++ s :: post ∧ (∀ x ∈ pre, x.CleanFault) ∧
      s.out = .ok m ∧ s.ctxAfter = none ∧ a = pre.length + 1 := by
  obtain ⟨pre, s, post, h1, h2, h3, h4, h5⟩ := loop_succeeded_inv M T steps 0 0 0 m a h
  exact ⟨pre, s, post, h1, h2, h3, h4, by omega⟩

/-- A run in which every attempt ends with a retryable error never ends in success, however long. -/
theorem only_faults_never_succeed (M T : Nat) (steps : List OStep)
    (hall : ∀ s ∈ steps, ∃ e, s.out = .retryable e) (m : Bool) :
    (loop M T 0 0 0 steps).result ≠ .succeeded m := by
  intro hres
  have hrun : loop M T 0 0 0 steps = ⟨.succeeded m, (loop M T 0 0 0 steps).attempts⟩ := by
    rw [← hres]
  obtain ⟨pre, s, post, he, _, hok, _, _⟩ := success_only_if_completed M T steps m _ hrun
  obtain ⟨e, hs⟩ := hall s (by rw [he]; simp)
  rw [hok] at hs; cases hs

/-- **Exhaustion ends in an error.**  `M` clean faults followed by one more retryable error (time-out
budget not reached): the job fails with that last error after exactly `M + 1` attempts. -/
theorem exhaustion_is_error (M T : Nat) (pre : List OStep) (x : OStep) (post : List OStep) (e : RpcErr)
    (hpre : ∀ s ∈ pre, s.CleanFault) (hlen : pre.length = M) (hx : x.out = .retryable e)
    (hT : timeoutsOf (pre ++ [x]) < T) :
    loop M T 0 0 0 (pre ++ x :: post) = ⟨.failedExhausted e, M + 1⟩ := by
  have ht : timeoutsOf (pre ++ [x]) = timeoutsOf pre + (if e.counted then 1 else 0) := by
    rw [timeoutsOf_append]; simp [timeoutsOf, hx]
  rw [loop_skip_faults0 M T pre _ hpre (by omega) (by omega)]
  have hb := bumpTimeouts_eq (timeoutsOf pre) e
  have h1 : ¬ T ≤ bumpTimeouts (timeoutsOf pre) e := by omega
  simp [loop, hx, h1, hlen]

/-- **The execution time-out budget ends in an error.**  When the `T`-th error counted as an execution
time-out arrives (the text mentions `DeadlineExceeded` and does not say "overloaded"), the job fails at
once, whatever retries are left. -/
theorem timeouts_is_error (M T : Nat) (pre : List OStep) (x : OStep) (post : List OStep) (e : RpcErr)
    (hpre : ∀ s ∈ pre, s.CleanFault) (hlen : pre.length ≤ M) (hx : x.out = .retryable e)
    (hcount : e.counted = true) (hT : timeoutsOf pre + 1 = T) :
    loop M T 0 0 0 (pre ++ x :: post) = ⟨.failedTimeouts e, pre.length + 1⟩ := by
  rw [loop_skip_faults0 M T pre _ hpre hlen (by omega)]
  have hb := bumpTimeouts_eq (timeoutsOf pre) e
  rw [hcount] at hb
  have h1 : T ≤ bumpTimeouts (timeoutsOf pre) e := by simp at hb; omega
  simp [loop, hx, h1]

/-- **Cancellation stops the job (1).**  With a context that is already dead `Work` makes no attempt. -/
theorem cancel_stops_before (cfg : Cfg) (c : CtxErr) (steps : List Step) :
    workLoop cfg (some c) steps = ⟨.failedCtx c, 0⟩ := rfl

/-- **Cancellation stops the job (2).**  If the context dies during an attempt (whatever the attempt
returns), that attempt is the last one: nothing of the rest of the script is executed and the job is not
reported as succeeded. -/
theorem cancel_stops_during (M T : Nat) (faults : List OStep) (s : OStep) (rest rest' : List OStep) (c : CtxErr)
    (hf : ∀ x ∈ faults, x.CleanFault) (hM : faults.length ≤ M) (hT : timeoutsOf faults < T)
    (hc : s.ctxAfter = some c) :
    loop M T 0 0 0 (faults ++ s :: rest) = loop M T 0 0 0 (faults ++ s :: rest') ∧
    (loop M T 0 0 0 (faults ++ s :: rest)).attempts = faults.length + 1 ∧
    ∀ m, (loop M T 0 0 0 (faults ++ s :: rest)).result ≠ .succeeded m := by
  rw [loop_skip_faults0 M T faults _ hf hM hT, loop_skip_faults0 M T faults _ hf hM hT]
  cases hs : s.out with
  | retryable e =>
    simp only [loop, hs, hc]
    by_cases h1 : T ≤ bumpTimeouts (timeoutsOf faults) e
    · simp [h1]
    · by_cases h2 : M ≤ faults.length
      · simp [h1, h2]
      · simp [h1, h2]
  | ok m => simp [loop, hs, hc]
  | fatalStatus e => simp [loop, hs]
  | fatalRemoteFailed => simp [loop, hs]
  | fatalFactory => simp [loop, hs]
  | fatalCtx k => simp [loop, hs]

/-- **Cancellation stops the job (3).**  If the context dies during the back-off sleep after a retryable
error, no further attempt is made and the job fails (with the context's error unless a budget was
exhausted by that very attempt). -/
theorem cancel_stops_in_backoff (M T : Nat) (faults : List OStep) (s : OStep) (rest rest' : List OStep)
    (c : CtxErr) (e : RpcErr)
    (hf : ∀ x ∈ faults, x.CleanFault) (hM : faults.length ≤ M) (hT : timeoutsOf faults < T)
    (hs : s.out = .retryable e) (hc : s.sleepCancel = some c) :
    loop M T 0 0 0 (faults ++ s :: rest) = loop M T 0 0 0 (faults ++ s :: rest') ∧
    (loop M T 0 0 0 (faults ++ s :: rest)).attempts = faults.length + 1 ∧
    ∀ m, (loop M T 0 0 0 (faults ++ s :: rest)).result ≠ .succeeded m := by
  rw [loop_skip_faults0 M T faults _ hf hM hT, loop_skip_faults0 M T faults _ hf hM hT]
  simp only [loop, hs, hc]
  by_cases h1 : T ≤ bumpTimeouts (timeoutsOf faults) e
  · simp [h1]
  · by_cases h2 : M ≤ faults.length
    · simp [h1, h2]
    · cases hca : s.ctxAfter <;> simp [h1, h2]

/-! ## One attempt: how `work()` classifies what the stream did -/

/-- A stream error after progress messages is passed through unchanged (non-retryable) exactly when its
status code is in the configured set, and is wrapped as retryable otherwise — for every code, including
errors that carry no gRPC status. -/
theorem stream_error_classification (cfg : Cfg) (h : Bool) (ups post : List RecvEv) (e : RpcErr)
    (hups : ∀ ev ∈ ups, ev.Progress) :
    observe cfg ⟨.stream h (ups ++ .err e :: post), none⟩
      = ⟨if e.codeOrOk ∈ cfg.fatalCodes then .fatalStatus e else .retryable e, none, none⟩ := by
  simp [observe, work_stream_error cfg h ups e post hups]

/-- An error of the `ProcessRange` call itself is always retryable. -/
theorem call_error_classification (cfg : Cfg) (e : RpcErr) :
    observe cfg ⟨.callErr e, none⟩ = ⟨.retryable e, none, none⟩ := by
  simp [observe, work_call_error]

/-- **No silent truncation (attempt level).**  An attempt is reported as "no error, context alive" only
if the stream opened and delivered progress messages followed by a `Completed` message, or progress
messages followed by the clean end of the stream (the server handler returned `nil`).  A stream that
breaks — any error, a `Failed` message, a cancellation — is never taken for a completed job. -/
theorem attempt_ok_only_if_stream_ended_cleanly (cfg : Cfg) (s : Step) (m : Bool)
    (h : work cfg s = (.ok m, none)) :
    ∃ hdr evs, s.att = .stream hdr evs ∧
      ((m = false ∧ ∀ ev ∈ evs, ev.Progress) ∨
       (m = true ∧ ∃ ups post, evs = ups ++ .msg .completed :: post ∧ ∀ ev ∈ ups, ev.Progress)) := by
  obtain ⟨att, cancel⟩ := s
  cases att with
  | factoryErr => simp [work] at h
  | callErr e => simp only [work] at h; split at h <;> simp at h
  | stream hdr evs =>
    refine ⟨hdr, evs, rfl, ?_⟩
    simp only [work] at h
    have h2 := congrArg Prod.snd h
    have h1 := congrArg Prod.fst h
    simp only at h1 h2
    have hctx := fire_eq_none h2
    split at h1
    · rename_i heq; simp at h1
    · rename_i r _ _ _
      split at hctx
      · simp at hctx
      · exact recvLoop_ok_inv cfg cancel evs 0 _ m (Prod.ext h1 hctx)

/-! ## The theorems at the constants and tables of the current source -/

open SV.C16.Gen

/-- a module failure as `BaseExecutor.wasmCall` reports it while its context is alive, possibly wrapped
further (any `storeMax` / `invalidArg` feature), not carrying a status / connect error / context error -/
def IsModuleFailure (f : ErrFeat) : Prop :=
  f.grpc = none ∧ f.connect = none ∧ f.canceled = false ∧ f.deadline = false ∧ f.wasmDet = true

/-- **`transient_recovers` at the extracted constants**: up to `maxRetries` (720) transient faults, fewer
than `maxExecutionTimeouts` (3) of them execution time-outs, then a complete attempt ⇒
`MsgJobSucceeded` after `#faults + 1` attempts. -/
theorem transient_recovers_extracted (faults : List Step) (final : Step) (rest : List Step) (m : Bool)
    (hf : ∀ s ∈ faults, (observe cfg s).CleanFault)
    (hM : faults.length ≤ maxRetries) (hT : timeoutsOf (faults.map (observe cfg)) < maxExecutionTimeouts)
    (hfin : work cfg final = (.ok m, none)) :
    workLoop cfg none (faults ++ final :: rest) = ⟨.succeeded m, faults.length + 1⟩ := by
  simp only [workLoop, List.map_append, List.map_cons]
  have := transient_recovers cfg.maxRetries cfg.maxTimeouts (faults.map (observe cfg)) (observe cfg final)
    (rest.map (observe cfg)) m (by simpa using hf) (by simpa using (show faults.length ≤ cfg.maxRetries from hM)) hT
    (by simp [observe, hfin]) (by simp [observe, hfin])
  simpa using this

/-- **`retry_bounded` at the extracted constants**: never more than 721 attempts, and success only after
an attempt whose stream ended cleanly (`Completed` message or status OK). -/
theorem retry_bounded_extracted (ctx0 : Option CtxErr) (steps : List Step) :
    (workLoop cfg ctx0 steps).attempts ≤ maxRetries + 1 ∧
    (∀ m, (workLoop cfg ctx0 steps).result = .succeeded m →
      ∃ s ∈ steps, work cfg s = (.ok m, none)) := by
  cases ctx0 with
  | some c => simp [workLoop]
  | none =>
    refine ⟨(retry_bounded cfg.maxRetries cfg.maxTimeouts _).1, ?_⟩
    intro m hres
    have hrun : loop cfg.maxRetries cfg.maxTimeouts 0 0 0 (steps.map (observe cfg))
        = ⟨.succeeded m, (workLoop cfg none steps).attempts⟩ := by
      simp only [workLoop] at hres ⊢; rw [← hres]
    obtain ⟨pre, s, post, he, _, hok, hctx, _⟩ := success_only_if_completed _ _ _ m _ hrun
    have hmem : s ∈ steps.map (observe cfg) := by rw [he]; simp
    obtain ⟨st, hst, rfl⟩ := List.mem_map.1 hmem
    refine ⟨st, hst, ?_⟩
    simp only [observe] at hok hctx
    exact Prod.ext hok hctx

/-- The only status code that `work()` does not retry is `InvalidArgument`: every other code — among them
`Unavailable`, `ResourceExhausted`, `DeadlineExceeded`, `Canceled`, `Internal`, `Unknown` — and every
error without a status is retryable. -/
theorem only_invalid_argument_is_fatal (e : RpcErr) :
    e.codeOrOk ∈ fatalCodes ↔ e.code = some .invalidArgument := by
  obtain ⟨code, o, d⟩ := e
  cases code with
  | none => simp [RpcErr.codeOrOk, fatalCodes]
  | some c => cases c <;> simp [RpcErr.codeOrOk, fatalCodes]

/-- **Deterministic failure ⇒ invalid argument, end to end, no retry** (composition of the three tables).
(1) tier 2 maps a module failure to `InvalidArgument`, whatever the cancellation cause;
(2) the worker, receiving that status on the stream after any progress and after any admissible number
    of transient faults, fails the job at once with that very error — `#faults + 1` attempts, the rest
    of the script untouched;
(3) tier 1 maps the job's error to the connect code `invalid_argument`, which is what the client sees. -/
theorem deterministic_is_invalid_arg (f : ErrFeat) (hf : IsModuleFailure f) (cause1 cause2 : Cause)
    (faults : List Step) (hdr : Bool) (ups post : List RecvEv) (rest : List Step)
    (hfaults : ∀ s ∈ faults, (observe cfg s).CleanFault)
    (hM : faults.length ≤ maxRetries) (hT : timeoutsOf (faults.map (observe cfg)) < maxExecutionTimeouts)
    (hups : ∀ ev ∈ ups, ev.Progress) :
    let c2 := (mapErr tier2Table cause2 f).code
    let run := workLoop cfg none (faults ++ ⟨.stream hdr (ups ++ .err (statusErr c2) :: post), none⟩ :: rest)
    c2 = .invalidArgument ∧
    run = ⟨.failedStatus (statusErr .invalidArgument), faults.length + 1⟩ ∧
    mapErr tier1Table cause1 run.result.feat = ⟨.invalidArgument, true⟩ ∧
    (mapErr tier1Table cause1 run.result.feat).clientCode = .invalidArgument := by
  obtain ⟨h1, h2, h3, h4, h5⟩ := hf
  have hc2 : (mapErr tier2Table cause2 f).code = .invalidArgument := by
    cases hs : f.storeMax <;>
      simp [mapErr, tier2Table, applyRules, ErrFeat.has, h1, h2, h3, h4, h5, hs]
  simp only [hc2]
  have hobs := stream_error_classification cfg hdr ups post (statusErr .invalidArgument) hups
  have hfat : (statusErr .invalidArgument).codeOrOk ∈ cfg.fatalCodes := by
    simp [statusErr, RpcErr.codeOrOk, cfg, fatalCodes]
  rw [if_pos hfat] at hobs
  have hrun : workLoop cfg none
      (faults ++ ⟨.stream hdr (ups ++ .err (statusErr .invalidArgument) :: post), none⟩ :: rest)
      = ⟨.failedStatus (statusErr .invalidArgument), faults.length + 1⟩ := by
    simp only [workLoop, List.map_append, List.map_cons, hobs]
    have := fatal_not_retried cfg.maxRetries cfg.maxTimeouts (faults.map (observe cfg))
      ⟨.fatalStatus (statusErr .invalidArgument), none, none⟩ (rest.map (observe cfg))
      (by simpa using hfaults) (by simpa using (show faults.length ≤ cfg.maxRetries from hM)) hT (by intro e; simp)
    simpa [loop] using this
  refine ⟨trivial, hrun, ?_, ?_⟩ <;> (rw [hrun]; rfl)


/-- **An interrupted execution is not a deterministic failure.**  When a wasm call returns a runtime error
while the executor's context is dead (per-block execution time-out, cancellation), `wasmCall`'s error does
not carry the deterministic marker, tier 2 answers `Canceled` / `DeadlineExceeded` / `Unavailable` — never
`InvalidArgument` — and the worker classifies that answer as retryable, after any progress. -/
theorem interrupted_execution_is_retried (c : CtxErr) (cause : Cause) (hdr : Bool) (ups post : List RecvEv)
    (hups : ∀ ev ∈ ups, ev.Progress) :
    let f := moduleFailureP false (some c)
    let c2 := (mapErr tier2Table cause f).code
    f.wasmDet = false ∧ c2 ≠ .invalidArgument ∧
    observe cfg ⟨.stream hdr (ups ++ .err (statusErr c2) :: post), none⟩
      = ⟨.retryable (statusErr c2), none, none⟩ := by
  have hobs := fun c2 => stream_error_classification cfg hdr ups post (statusErr c2) hups
  cases c <;> cases cause <;>
    (refine ⟨rfl, by decide, ?_⟩; rw [hobs]; rfl)

/-- A module that panicked failed deterministically whatever the state of the context (the panic is looked
at before the context). -/
theorem panic_is_module_failure (ctx : Option CtxErr) : IsModuleFailure (moduleFailureP true ctx) := by
  simp [IsModuleFailure, moduleFailureP]

/-- Tier 1 on its own also maps a module failure (in development mode the module runs on tier 1) to
`invalid_argument`. -/
theorem tier1_module_failure_is_invalid_arg (f : ErrFeat) (hf : IsModuleFailure f) (cause : Cause) :
    mapErr tier1Table cause f = ⟨.invalidArgument, true⟩ := by
  obtain ⟨h1, h2, h3, h4, h5⟩ := hf
  cases hs : f.storeMax <;>
    simp [mapErr, tier1Table, applyRules, ErrFeat.has, h1, h3, h4, h5, hs]

/-- The message of tier 2's "overloaded" rejection contains the substring by which `Work` recognises an
overloaded worker; an error recognised that way is never counted as an execution time-out (even when
it also mentions `DeadlineExceeded`), so overload alone can never use up the time-out budget. -/
theorem overload_recognised_and_not_a_timeout :
    hasInfix overloadNeedle overloadMessage = true ∧
    ∀ (t : Nat) (e : RpcErr), e.textOverloaded = true → bumpTimeouts t e = t := by
  refine ⟨by decide, ?_⟩
  intro t e h; simp [bumpTimeouts, h]

/-- **Overload is a transient fault.**  Tier 2's "overloaded" rejection — a connect error returned
directly by `ProcessRange`, which the transport delivers as `Unknown` with the text kept (assumption
`transport`) — is retryable, is recognised as overload and never counts as an execution time-out. -/
theorem overloaded_rejection_is_retried (hdr : Bool) (t : Nat) :
    let e := transport tier2Table (.direct overloadCode (hasInfix overloadNeedle overloadMessage))
    observe cfg ⟨.stream hdr [.err e], none⟩ = ⟨.retryable e, none, none⟩ ∧
    e.textOverloaded = true ∧ bumpTimeouts t e = t := by
  refine ⟨?_, by decide, ?_⟩
  · have := stream_error_classification cfg hdr [] [] (transport tier2Table
      (.direct overloadCode (hasInfix overloadNeedle overloadMessage))) (by simp)
    simpa [transport, RpcErr.codeOrOk, cfg, fatalCodes] using this
  · have h : (transport tier2Table (.direct overloadCode
        (hasInfix overloadNeedle overloadMessage))).textOverloaded = true := by decide
    simp [bumpTimeouts, h]

/-- **Quirk of the current code (reported, see checks/C16.json).**  The request-validation rejections of
`ProcessRange` ("missing modules in request", "validate request: …") are `connect` errors returned
directly; behind a gRPC server they arrive as `Unknown`, so the worker RETRIES them (up to `maxRetries`
times) although tier 2 meant `InvalidArgument`.  Only errors that went through `toGRPCError` keep their
code.  (Module failures do go through `toGRPCError`: `deterministic_is_invalid_arg`.) -/
theorem quirk_direct_invalid_argument_is_retried (hdr : Bool) :
    let e := transport tier2Table (.direct .invalidArgument false)
    observe cfg ⟨.stream hdr [.err e], none⟩ = ⟨.retryable e, none, none⟩ := by
  have := stream_error_classification cfg hdr [] [] (transport tier2Table (.direct .invalidArgument false))
    (by simp)
  simpa [transport, RpcErr.codeOrOk, cfg, fatalCodes] using this

/-- What the client of tier 1 sees when a job fails for a reason other than a deterministic module
failure: exhaustion and repeated time-outs surface as `internal`, cancellation as `canceled`, an expired
context as `deadline_exceeded` — never as success and never as `invalid_argument`. -/
theorem job_failure_codes (e : RpcErr) :
    (mapErr tier1Table .none (Result.failedExhausted e).feat).clientCode = .internal ∧
    (mapErr tier1Table .none (Result.failedTimeouts e).feat).clientCode = .internal ∧
    (mapErr tier1Table .none (Result.failedCtx .canceled).feat).clientCode = .canceled ∧
    (mapErr tier1Table .none (Result.failedCtx .deadline).feat).clientCode = .deadlineExceeded := by
  simp [Result.feat, mapErr, tier1Table, applyRules, ErrFeat.has, Mapped.clientCode]

/-! ## System level: what a retried job leaves in the cache -/

/-- **Faults do not change the files.**  Hypotheses, all explicit:
* `hfun`  — the fault-free job writes each file name once (one value per name);
* `hdet`  — the job is a deterministic function of the cache it starts from, and a cache that already
            holds some of the job's own files (each whole) yields the same files (C07: any subset of
            valid files is a valid cache);
* `hsub`  — every attempt, complete or not, writes only whole files of the job it runs (atomic writes:
            a file is written completely or not at all);
* `hall`  — an attempt that ends without error has written all of them (tier 2 reports completion only
            after flushing: `Pipeline.OnStreamTerminated`).
Then, whatever the attempts do: (a) the cache afterwards holds, name by name, either what it held before
or the fault-free job's file — never anything else; and (b) if `Work` reports success, the cache is
exactly the fault-free result `writeAll c0 (job c0)`. -/
theorem faults_do_not_change_files {N V : Type} [DecidableEq N] (M T : Nat)
    (job : Cache N V → Files N V) (c0 : Cache N V)
    (hfun : Functional (job c0))
    (hdet : ∀ c, Between c0 (job c0) c → job c = job c0)
    (steps : List (SysStep N V))
    (hsub : ∀ s ∈ steps, ∀ c, ∀ x ∈ s.wrote c, x ∈ job c)
    (hall : ∀ s ∈ steps, ∀ c m, s.o.out = .ok m → ∀ x ∈ job c, x ∈ s.wrote c) :
    Between c0 (job c0) (sysLoop M T 0 0 0 c0 steps).2 ∧
    (∀ m, (sysLoop M T 0 0 0 c0 steps).1.result = .succeeded m →
      ∀ n, (sysLoop M T 0 0 0 c0 steps).2 n = writeAll c0 (job c0) n) := by
  have key : ∀ (steps : List (SysStep N V)) (r t n : Nat) (c : Cache N V),
      (∀ s ∈ steps, ∀ c, ∀ x ∈ s.wrote c, x ∈ job c) →
      (∀ s ∈ steps, ∀ c m, s.o.out = .ok m → ∀ x ∈ job c, x ∈ s.wrote c) →
      Between c0 (job c0) c →
      Between c0 (job c0) (sysLoop M T r t n c steps).2 ∧
      (∀ m, (sysLoop M T r t n c steps).1.result = .succeeded m →
        ∀ k, (sysLoop M T r t n c steps).2 k = writeAll c0 (job c0) k) := by
    intro steps
    induction steps with
    | nil => intro r t n c _ _ hb; exact ⟨hb, by simp [sysLoop]⟩
    | cons s rest ih =>
      intro r t n c hsub hall hb
      have hj := hdet c hb
      have hw : ∀ x ∈ s.wrote c, x ∈ job c0 := fun x hx => hj ▸ hsub s (by simp) c x hx
      have hb' := between_write c0 c (job c0) (s.wrote c) hfun hb hw
      have hsub' : ∀ s ∈ rest, ∀ c, ∀ x ∈ s.wrote c, x ∈ job c := fun s hs => hsub s (by simp [hs])
      have hall' : ∀ s ∈ rest, ∀ c m, s.o.out = .ok m → ∀ x ∈ job c, x ∈ s.wrote c :=
        fun s hs => hall s (by simp [hs])
      cases hs : s.o.out with
      | retryable e =>
        simp only [sysLoop, hs]
        split
        · exact ⟨hb', by simp⟩
        · split
          · exact ⟨hb', by simp⟩
          · cases hc : s.o.ctxAfter with
            | some k => exact ⟨hb', by simp⟩
            | none =>
              cases hsl : s.o.sleepCancel with
              | some k => exact ⟨hb', by simp⟩
              | none => exact ih _ _ _ _ hsub' hall' hb'
      | ok m =>
        have hsup : ∀ x ∈ job c0, x ∈ s.wrote c := fun x hx => hall s (by simp) c m hs x (hj ▸ hx)
        simp only [sysLoop, hs]
        refine ⟨hb', fun _ _ k => ?_⟩
        exact between_write_all c0 c (job c0) (s.wrote c) hfun hb hw hsup k
      | fatalStatus e => simp only [sysLoop, hs]; exact ⟨hb', by simp [loop, hs]⟩
      | fatalRemoteFailed => simp only [sysLoop, hs]; exact ⟨hb', by simp [loop, hs]⟩
      | fatalFactory => simp only [sysLoop, hs]; exact ⟨hb', by simp [loop, hs]⟩
      | fatalCtx k => simp only [sysLoop, hs]; exact ⟨hb', by simp [loop, hs]⟩
  exact key steps 0 0 0 c0 hsub hall (fun n => Or.inl rfl)

/-- `sysLoop` is the retry loop of the theorems above (same result, same number of attempts), with the
files as bookkeeping. -/
theorem sysLoop_is_loop {N V : Type} [DecidableEq N] (M T : Nat) (c0 : Cache N V) (steps : List (SysStep N V)) :
    (sysLoop M T 0 0 0 c0 steps).1 = loop M T 0 0 0 (steps.map (·.o)) :=
  sysLoop_run M T steps 0 0 0 c0

/-! ## Non-vacuity: concrete scripts meet the hypotheses, and the model computes what the code does -/

/-- `Unavailable` on the call, an overloaded rejection, a dropped stream after two updates, then a clean
end: success at the 4th attempt. -/
example : workLoop cfg none
    [⟨.callErr (statusErr .unavailable), none⟩,
     ⟨.stream false [.err ⟨some .unknown, true, false⟩], none⟩,
     ⟨.stream false [.msg .update, .msg .update, .err ⟨none, false, false⟩], none⟩,
     ⟨.stream false [.msg .update], none⟩,
     ⟨.factoryErr, none⟩] = ⟨.succeeded false, 4⟩ := by decide

/-- the hypotheses of `transient_recovers_extracted` hold for these steps -/
example : (observe cfg ⟨.callErr (statusErr .unavailable), none⟩).CleanFault ∧
    (observe cfg ⟨.stream false [.msg .update, .err (statusErr .resourceExhausted)], none⟩).CleanFault ∧
    work cfg ⟨.stream false [.msg .update, .msg .completed], none⟩ = (.ok true, none) :=
  ⟨⟨⟨_, rfl⟩, rfl, rfl⟩, ⟨⟨_, rfl⟩, rfl, rfl⟩, rfl⟩

/-- three `DeadlineExceeded` stream errors: the job fails at the third attempt, the fourth is not made -/
example : workLoop cfg none
    [⟨.stream false [.err (statusErr .deadlineExceeded)], none⟩,
     ⟨.stream false [.err (statusErr .deadlineExceeded)], none⟩,
     ⟨.stream false [.err (statusErr .deadlineExceeded)], none⟩,
     ⟨.stream false [], none⟩] = ⟨.failedTimeouts (statusErr .deadlineExceeded), 3⟩ := by decide

/-- `InvalidArgument` after one transient fault: failed at attempt 2, invalid_argument for the client -/
example : workLoop cfg none
    [⟨.stream false [.err (statusErr .unavailable)], none⟩,
     ⟨.stream false [.msg .update, .err (statusErr .invalidArgument)], none⟩,
     ⟨.stream false [], none⟩] = ⟨.failedStatus (statusErr .invalidArgument), 2⟩ := by decide

example : IsModuleFailure (moduleFailure none) := by simp [IsModuleFailure, moduleFailure, moduleFailureP]

/-- cancellation inside the second `Recv`: `work` returns an empty result, `Work` reports the context error -/
example : workLoop cfg none [⟨.stream false [.msg .update, .msg .update], some (.recv 1, .canceled)⟩,
     ⟨.stream false [], none⟩] = ⟨.failedCtx .canceled, 1⟩ := by decide

/-- a job writing two files, interrupted twice (nothing written / one file written), then complete -/
example :
    let job : Cache Nat Nat → Files Nat Nat := fun _ => [(1, 10), (2, 20)]
    let fault : OStep := ⟨.retryable (statusErr .unavailable), none, none⟩
    let steps : List (SysStep Nat Nat) :=
      [⟨fault, fun _ => []⟩, ⟨fault, fun _ => [(2, 20)]⟩, ⟨⟨.ok false, none, none⟩, fun c => job c⟩]
    (sysLoop 720 3 0 0 0 (fun _ => none) steps).1 = ⟨.succeeded false, 3⟩ ∧
    (sysLoop 720 3 0 0 0 (fun _ => none) steps).2 2 = some 20 := by decide

end SV.C16

import Lemmas.Forks
import Lemmas.Linear
import Props.C11
/-!
# C03 — Reorgs: undo restores every store; clients converge on the canonical chain

Part A (stores) is about `Model/History.lean`: a store driven by blocks, undos of the most recent applied
block and finality, for **every** store configuration and value semantics (every policy / value type), and
every history, flip-flops included.  The canonical chain of a history is `canonCalls h`: the blocks applied
and not undone, computed with exactly `stepHist`'s stack discipline.

Part B (clients) is about `Model/Forks.lean`: the pipeline (`stepF`: `handleStepNew`, `handleStepUndo`,
`handleStepStalled`, `handleStepFinal`, the gate) fed with the steps of the fork resolver, and the client of
the property (`client`: keeps data messages, on an undo signal drops the blocks above `last_valid`).  The
theorems hold for every world of modules, every request configuration, every initial store state and every
step list obeying the resolver's contract `ValidSteps` (checked on every recorded trace of the real
`bstream/forkable` by the harness).
-/
namespace SV.C03
open SV SV.Fk SV.Lin

/-! ## A. stores -/

variable {cfg : Cfg} {sem : Sem}

/-- **"every store holds exactly the content (and reported size) obtained by executing only the blocks of
the current canonical chain."**  After any history of new blocks, undos and finality signals that did not end
in an error, the linear execution of the canonical chain's blocks alone (no undo ever) succeeds too, both
stores hold the same value under every key, both report the same size, and that size is the exact total
length of the keys and values held.  (Undo signals on a store with no un-finalised block are ignored by the
model as by `canonCalls`; merges and save/load are C11's and C02's business.) -/
theorem stores_canonical (h : List Hist) (hf : ForkOnly h) (hd : (runHist cfg sem hs0 h).dead = false) :
    let forked := runHist cfg sem hs0 h
    let linear := runHist cfg sem hs0 ((canonCalls h).map Hist.block)
    linear.dead = false ∧ (∀ k, look forked.s.kv k = look linear.s.kv k) ∧
    forked.s.size = linear.s.size ∧ forked.s.size = kvSize forked.s.kv := by
  intro forked linear
  have hr := (run_rel (cfg := cfg) (sem := sem) h (st := hs0) (c := ⟨[], 0⟩) hinv0 rfl hf rfl
    (show Lin cfg sem [] (look hs0.s.kv) from ⟨rfl, rfl⟩) hd).lin
  obtain ⟨h1, h2⟩ := hr
  have e1 := C11.size_exact (cfg := cfg) (sem := sem) h
  have e2 := C11.size_exact (cfg := cfg) (sem := sem) ((canonCalls h).map Hist.block)
  have hk : ∀ k, look forked.s.kv k = look linear.s.kv k := fun k => (congrFun h2 k).symm
  refine ⟨h1, hk, ?_, e1.1⟩
  have := kvSize_perm (perm_of_look_eq e1.2 e2.2 hk)
  exact e1.1.trans (this.trans e2.1.symm)

/-- **"including chains that flip back and forth over the same blocks."**  The canonical chain of
`prefix, block c, undo, block c, undo, block c` is that of `prefix, block c`: the store ends exactly as if
`c` had been executed once on top of the prefix's canonical chain. -/
theorem flip_flop_canonical (pre : List Hist) (c : List Op) :
    canonCalls (pre ++ [.block c, .undo, .block c, .undo, .block c]) = canonCalls (pre ++ [.block c]) := by
  unfold canonCalls
  simp [List.foldl_append, canonStep]

/-- the flip-flop instance of `stores_canonical`: content and size after `block c, undo, block c, undo,
block c` on top of any fork history are those of the linear execution of the canonical chain of the prefix
followed by `c` once -/
theorem stores_canonical_flip_flop (pre : List Hist) (c : List Op) (hf : ForkOnly pre)
    (hd : (runHist cfg sem hs0 (pre ++ [.block c, .undo, .block c, .undo, .block c])).dead = false) :
    let forked := runHist cfg sem hs0 (pre ++ [.block c, .undo, .block c, .undo, .block c])
    let linear := runHist cfg sem hs0 ((canonCalls (pre ++ [.block c])).map Hist.block)
    linear.dead = false ∧ (∀ k, look forked.s.kv k = look linear.s.kv k) ∧ forked.s.size = linear.s.size := by
  have hf' : ForkOnly (pre ++ [.block c, .undo, .block c, .undo, .block c]) := by
    intro x hx
    rcases List.mem_append.1 hx with hx | hx
    · exact hf x hx
    · simp only [List.mem_cons, List.not_mem_nil, or_false] at hx
      rcases hx with rfl | rfl | rfl | rfl | rfl <;> rfl
  have := stores_canonical (cfg := cfg) (sem := sem) _ hf' hd
  rw [flip_flop_canonical] at this
  exact ⟨this.1, this.2.1, this.2.2.1⟩

/-- **the congruence behind it**: what a block does to a store depends on the store's content only as a
function of the key — never on the order in which the content is held (Go's map iteration order; the
association-list order in the model) — so a content restored by an undo behaves exactly like the content
the linear execution built: same error, or same resulting content, same deltas, same size. -/
theorem block_execution_depends_on_content_only {s1 s2 : Store} (h1 : Clean s1) (h2 : Clean s2)
    (h : ∀ k, look s1.kv k = look s2.kv k) (ho : s1.ops = s2.ops) (calls : List Op) :
    match execBlock cfg sem s1 calls, execBlock cfg sem s2 calls with
    | .error e1, .error e2 => e1 = e2
    | .ok a, .ok b => (∀ k, look a.kv k = look b.kv k) ∧ a.deltas = b.deltas ∧ a.size = b.size
    | _, _ => False :=
  execBlock_congr cfg sem h1 h2 h ho calls

/-! ## B. clients -/

/-- **the invariant behind convergence**: as long as the request has not ended, the client holds — with the
payloads computed when the blocks were (last) applied — the canonical chain from the start block on, and
while a reorg to junction `j` is in progress (the steps end in undo steps announcing `j`) what is left of it
up to `j`: it dropped to `j` at the first undo signal of the reorg. -/
theorem client_view (fcfg : FCfg) (st0 : LState) (steps : List FStep) (hv : ValidSteps steps)
    (hne : (runSteps fcfg (fs0 st0) steps).ended = false) :
    client (runSteps fcfg (fs0 st0) steps).msgs =
      match reorgAfter steps with
      | none => (payloadChain fcfg st0 steps).filter (fun h => decide (fcfg.gateStart ≤ h.1))
      | some j => ((payloadChain fcfg st0 steps).filter (fun h => decide (fcfg.gateStart ≤ h.1))).filter
                    (fun h => decide (h.1 ≤ j.1)) := by
  obtain ⟨_, hm⟩ := run_main fcfg steps (fs0 st0) [] none hv safe_nil (Or.inr (main0 fcfg st0))
  rcases hm with hm | hm
  · rw [hne] at hm; cases hm
  · have := hm.view
    unfold viewOf at this
    exact this

/-- **"A client that keeps each data message and, on every undo signal, drops the blocks above its last
valid block ends with exactly the outputs of the canonical chain."**  When the steps do not stop in the
middle of a reorg (`reorgAfter steps = none`: the last undo was followed by a new block) and the request
has not ended (stop block reached or module failure — see `ended_run_is_a_prefix`), the blocks the client
holds are, in order, exactly the blocks (number, id) of the canonical chain at or above the start block. -/
theorem client_converges (fcfg : FCfg) (st0 : LState) (steps : List FStep) (hv : ValidSteps steps)
    (hr : reorgAfter steps = none) (hne : (runSteps fcfg (fs0 st0) steps).ended = false) :
    (client (runSteps fcfg (fs0 st0) steps).msgs).map key =
      (canonChain steps).filter (fun b => decide (fcfg.gateStart ≤ b.1)) := by
  have := client_view fcfg st0 steps hv hne
  rw [hr] at this
  rw [this]
  unfold payloadChain canonChain
  rw [← List.map_nil (f := key), ← chainFrom_key fcfg steps (fs0 st0) [], ← List.map_reverse, List.filter_map]
  rfl

/-- **"ends with exactly the outputs of the canonical chain" — the payloads.**  Under the same hypotheses
every block the client holds carries the payload `handleNew` computed (`newPayload`: the output module's
output on the store state of that moment) at the `new` step that last applied this block: the payload of
a block of the chain is never one computed on an abandoned branch or before an undo. -/
theorem payloads_are_block_outputs (fcfg : FCfg) (st0 : LState) (steps : List FStep) (hv : ValidSteps steps)
    (hr : reorgAfter steps = none) (hne : (runSteps fcfg (fs0 st0) steps).ended = false) :
    client (runSteps fcfg (fs0 st0) steps).msgs =
      (payloadChain fcfg st0 steps).filter (fun h => decide (fcfg.gateStart ≤ h.1)) ∧
    (payloadChain fcfg st0 steps).map key = canonChain steps ∧
    ∀ h ∈ payloadChain fcfg st0 steps, ∃ pre s post, steps = pre ++ s :: post ∧
      (s.kind = .new ∨ s.kind = .newFinal) ∧
      h = (s.num, s.id, newPayload fcfg (runSteps fcfg (fs0 st0) pre).st s.num s.id) := by
  have := client_view fcfg st0 steps hv hne
  rw [hr] at this
  refine ⟨this, ?_, ?_⟩
  · unfold payloadChain canonChain
    rw [List.map_reverse, chainFrom_key]; rfl
  · intro h hh
    unfold payloadChain at hh
    rcases chainFrom_origin fcfg steps (fs0 st0) [] h (List.mem_reverse.1 hh) with h1 | h1
    · simp at h1
    · exact h1

/-- **"each undo signal designates a block the client holds (or one before its first)."**  At every moment
of the message stream (whether or not the request ends later): when an undo signal for `(n, i)` arrives, the
client holds a block with that number and id, or `n` is below the number of the first block it holds (a reorg
reaching below the start block), or it holds nothing yet. -/
theorem undo_designates_held_or_before_first (fcfg : FCfg) (st0 : LState) (steps : List FStep)
    (hv : ValidSteps steps) (pre post : List FMsg) (n : Nat) (i : Bytes)
    (hm : (runSteps fcfg (fs0 st0) steps).msgs = pre ++ FMsg.undo n i :: post) :
    client pre = [] ∨ (∃ p, (n, i, p) ∈ client pre) ∨ (∃ h, (client pre).head? = some h ∧ n < h.1) := by
  obtain ⟨hs, _⟩ := run_main fcfg steps (fs0 st0) [] none hv safe_nil (Or.inr (main0 fcfg st0))
  apply hs.undo pre n i
  rw [hm]
  exact ⟨post, by simp⟩

/-- **"the client never sees two blocks at the same height without an undo between them."**  At every
moment of the message stream the numbers of the blocks the client holds are strictly increasing: a data
message for a height the client already holds a block at (or above) can only arrive after an undo signal
has removed that block. -/
theorem no_two_blocks_at_one_height (fcfg : FCfg) (st0 : LState) (steps : List FStep) (hv : ValidSteps steps)
    (pre : List FMsg) (hp : pre <+: (runSteps fcfg (fs0 st0) steps).msgs) :
    ((client pre).map (·.1)).Pairwise (· < ·) := by
  obtain ⟨hs, _⟩ := run_main fcfg steps (fs0 st0) [] none hv safe_nil (Or.inr (main0 fcfg st0))
  exact hs.incr pre hp

/-- the same, message by message: when a data message for block `n` arrives, every block the client holds
has a smaller number -/
theorem data_message_is_above_all_held (fcfg : FCfg) (st0 : LState) (steps : List FStep) (hv : ValidSteps steps)
    (pre post : List FMsg) (n : Nat) (i p : Bytes)
    (hm : (runSteps fcfg (fs0 st0) steps).msgs = pre ++ FMsg.data n i p :: post) :
    ∀ h ∈ client pre, h.1 < n := by
  have hp : (pre ++ [FMsg.data n i p]) <+: (runSteps fcfg (fs0 st0) steps).msgs := by
    rw [hm]; exact ⟨post, by simp⟩
  have := no_two_blocks_at_one_height fcfg st0 steps hv _ hp
  rw [client_snoc] at this
  simp only [clientStep, List.map_append, List.map_cons, List.map_nil] at this
  rw [List.pairwise_append] at this
  intro h hh
  exact this.2.2 h.1 (List.mem_map.2 ⟨h, hh, rfl⟩) n (by simp)

/-- **one undo signal per reorg.**  From a state outside a reorg (`insideReorg = none`: what every `new`
and `final` step leaves), any non-empty run of consecutive undo steps announcing the same junction produces
exactly one undo signal, naming that junction, and does not end the request. -/
theorem one_undo_signal_per_reorg (fcfg : FCfg) (fs : FState) (us : List FStep) (jn : Nat) (ji : Bytes)
    (he : fs.ended = false) (hi : fs.insideReorg = none) (hne : us ≠ []) (hj : ji ≠ [])
    (hu : ∀ u ∈ us, u.kind = .undo ∧ u.jNum = jn ∧ u.jId = ji) :
    (runSteps fcfg fs us).msgs = fs.msgs ++ [.undo jn ji] ∧ (runSteps fcfg fs us).ended = false := by
  obtain ⟨h1, h2⟩ := undos_same_junction fcfg jn ji hj us fs he hu
  refine ⟨?_, h1⟩
  rw [h2, hi]
  simp [hne]

/-- the hypothesis of `one_undo_signal_per_reorg` holds after every `new`, `newFinal` and `final` step
that does not end the request (and at the beginning of the request, `fs0`) -/
theorem outside_reorg_after_new_or_final (fcfg : FCfg) (fs : FState) (s : FStep) (he : fs.ended = false)
    (hk : s.kind = .new ∨ s.kind = .newFinal ∨ s.kind = .final)
    (he' : (Fk.stepF fcfg fs s).ended = false) : (Fk.stepF fcfg fs s).insideReorg = none := by
  rcases hk with hk | hk | hk
  · rcases stepF_new fcfg fs s he (Or.inl hk) with ⟨e1, _⟩ | ⟨_, e2, _⟩
    · rw [e1] at he'; cases he'
    · exact e2
  · rcases stepF_new fcfg fs s he (Or.inr hk) with ⟨e1, _⟩ | ⟨_, e2, _⟩
    · rw [e1] at he'; cases he'
    · exact e2
  · exact (stepF_final fcfg fs s he hk).2.2

/-- what the hypothesis "the request has not ended" leaves out: a request that ended (stop block reached,
module failure) delivered exactly the messages of its longest prefix of steps that had not ended — to which
`client_view` / `client_converges` apply (a prefix of a valid step list is valid). -/
theorem ended_run_is_a_prefix (fcfg : FCfg) (st0 : LState) (steps : List FStep)
    (he : (runSteps fcfg (fs0 st0) steps).ended = true) :
    ∃ pre s post, steps = pre ++ s :: post ∧ (runSteps fcfg (fs0 st0) pre).ended = false ∧
      (runSteps fcfg (fs0 st0) steps).msgs = (runSteps fcfg (fs0 st0) pre).msgs :=
  runSteps_ended_prefix fcfg steps (fs0 st0) rfl he

/-- the step contract is prefix-closed: it constrains every moment of the step stream, so the theorems above
apply to every prefix of a valid step list -/
theorem valid_prefix (pre post : List FStep) (hv : ValidSteps (pre ++ post)) : ValidSteps pre := by
  unfold ValidSteps at *
  have : ∀ (l : List FStep) (stk : List Blk) (r : Option Blk),
      validFrom stk r (l ++ post) = true → validFrom stk r l = true := by
    intro l
    induction l with
    | nil => intro _ _ _; rfl
    | cons s rest ih =>
      intro stk r h
      simp only [List.cons_append, validFrom, Bool.and_eq_true] at h ⊢
      exact ⟨h.1, ih _ _ h.2⟩
  exact this pre [] none hv

/-- **The blocks of the fork tree are the blocks of the linear specification.**  A block of the fork tree is
executed (`runBlockF`, the step `handleNew` performs) with the block *number* deciding everything the engine
decides (initial blocks, the block filter, the scripted failure) and a content that depends on the block's
identity; for a block whose identity is the canonical one (`saltOf id = 0`, the only kind C01/C04/C07 feed)
this is exactly the module fold of the linear specification `Lin.runBlock`. -/
theorem canonical_block_is_linear_block (fcfg : FCfg) (st : LState) (num : Nat) (id : Bytes)
    (h : saltOf id = 0) :
    runBlockF fcfg st num id =
      (usedMods fcfg.world fcfg.output).foldlM
        (runModule (usedMods fcfg.world fcfg.output) fcfg.maxDepth num) ⟨st, [], [], []⟩ := by
  unfold runBlockF
  rw [h, Nat.add_zero]
  congr 1
  funext acc m
  exact runModuleE_self _ _ _ _ _

/-! ## Non-vacuity -/

/-! ### A: a history with a flip-flop over a block that creates, updates and deletes keys -/

def demoCfg : Cfg := ⟨.set, .bytes, 100, 1000, 100⟩
def demoSem : Sem := fun _ _ v => .ok v
def blk1 : List Op := [⟨.set, 1, [97], [1, 2]⟩, ⟨.set, 2, [98], [3]⟩, ⟨.set, 3, [98, 98], [3, 3]⟩]
def blk2 : List Op := [⟨.set, 1, [97], [9]⟩, ⟨.deletePrefix, 2, [98], []⟩, ⟨.set, 3, [99], [4, 5, 6]⟩]
def blk3 : List Op := [⟨.set, 1, [98], [7]⟩, ⟨.deletePrefix, 2, [97], []⟩]
/-- 1, 2, undo 2, 3 (other branch), final, undo 3, 2, undo 2, 2 — and an undo too many at the beginning -/
def demoHist : List Hist :=
  [.undo, .block blk1, .block blk2, .undo, .block blk3, .final, .undo, .block blk2, .undo, .block blk2]

example : ForkOnly demoHist := by decide
example : (runHist demoCfg demoSem hs0 demoHist).dead = false := by decide
example : canonCalls demoHist = [blk1, blk2] := by decide
/-- the forked store and the linear execution of the canonical chain: same content, exact size -/
example : (runHist demoCfg demoSem hs0 demoHist).s.kv = [([97], [9]), ([99], [4, 5, 6])] ∧
    (runHist demoCfg demoSem hs0 ((canonCalls demoHist).map Hist.block)).s.kv = [([97], [9]), ([99], [4, 5, 6])] ∧
    (runHist demoCfg demoSem hs0 demoHist).s.size = 6 := by decide
/-- why the congruence is needed: an undo restores deleted keys in another order than the linear execution
holds them — the association lists (Go: the map's iteration order) differ, only the contents are equal -/
example : (runHist demoCfg demoSem hs0 [.block blk1, .block blk2, .undo]).s.kv ≠
    (runHist demoCfg demoSem hs0 [.block blk1]).s.kv := by decide

/-! ### B: 1a 2a 3a | 2b 3b 4b | 2a 3a 4a 5a with finality and stalled signals interleaved -/

def a1 : Bytes := [49, 97]
def a2 : Bytes := [50, 97]
def a3 : Bytes := [51, 97]
def a4 : Bytes := [52, 97]
def a5 : Bytes := [53, 97]
def b2 : Bytes := [50, 98]
def b3 : Bytes := [51, 98]
def b4 : Bytes := [52, 98]

def demoSteps : List FStep :=
  [⟨.newFinal, 0, [48], 0, []⟩,
   ⟨.new, 1, a1, 0, []⟩, ⟨.new, 2, a2, 0, []⟩, ⟨.new, 3, a3, 0, []⟩,
   ⟨.undo, 3, a3, 1, a1⟩, ⟨.undo, 2, a2, 1, a1⟩,
   ⟨.new, 2, b2, 1, a1⟩, ⟨.new, 3, b3, 1, a1⟩, ⟨.new, 4, b4, 1, a1⟩, ⟨.final, 1, a1, 0, []⟩,
   ⟨.undo, 4, b4, 1, a1⟩, ⟨.undo, 3, b3, 1, a1⟩, ⟨.undo, 2, b2, 1, a1⟩,
   ⟨.new, 2, a2, 1, a1⟩, ⟨.new, 3, a3, 1, a1⟩, ⟨.new, 4, a4, 1, a1⟩, ⟨.new, 5, a5, 1, a1⟩,
   ⟨.final, 2, a2, 0, []⟩, ⟨.stalled, 2, b2, 0, []⟩, ⟨.stalled, 3, b3, 0, []⟩]

/-- a request for an (absent) output over an empty world, start block 2 (the reorgs reach below it) -/
def demoFCfg : FCfg := ⟨[], 10, [], 2, 0⟩

example : ValidSteps demoSteps := by decide
example : reorgAfter demoSteps = none := by decide
example : canonChain demoSteps = [(0, [48]), (1, a1), (2, a2), (3, a3), (4, a4), (5, a5)] := by decide
example : (runSteps demoFCfg (fs0 ⟨[]⟩) demoSteps).ended = false := by decide
example : (runSteps demoFCfg (fs0 ⟨[]⟩) demoSteps).msgs =
    [.data 2 a2 [], .data 3 a3 [], .undo 1 a1, .data 2 b2 [], .data 3 b3 [], .data 4 b4 [], .undo 1 a1,
     .data 2 a2 [], .data 3 a3 [], .data 4 a4 [], .data 5 a5 []] := by decide
example : (client (runSteps demoFCfg (fs0 ⟨[]⟩) demoSteps).msgs).map key =
    [(2, a2), (3, a3), (4, a4), (5, a5)] := by decide
/-- a step list that violates the contract (undo of a block that is not the head) is rejected -/
example : ¬ ValidSteps [⟨.new, 1, a1, 0, []⟩, ⟨.new, 2, a2, 0, []⟩, ⟨.undo, 1, a1, 0, [48]⟩] := by decide
/-- a new block in the middle of a reorg (before the junction is reached) is rejected -/
example : ¬ ValidSteps [⟨.new, 1, a1, 0, []⟩, ⟨.new, 2, a2, 0, []⟩, ⟨.new, 3, a3, 0, []⟩,
    ⟨.undo, 3, a3, 1, a1⟩, ⟨.new, 3, b3, 0, []⟩] := by decide

end SV.C03

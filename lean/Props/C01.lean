import Lemmas.Linear
import Lemmas.Compose
/-!
# C01 — The output of a request is independent of the execution strategy

Property: *whatever strategy executes a request — one linear pass, parallel segment jobs of any segment
size, outputs served from files cached by earlier requests — the client receives what the linear
execution produces.*

The linear execution is `SV.Lin.runBlocks` / `SV.Lin.linearSpec` (`Model/Linear.lean`; tied to the Go
code by the differential harness `vh_c01`, which compares every strategy of the real system with
`linearSpec` on every run).  This file proves, for **all** worlds (module scripts), block ranges, states,
segmentations and cache selections:

1. **Segments** (`runBlocks_split`, `runBlocks_prefix`, `segmented_eq_linear`, `runSegments_cons`):
   executing consecutive segments of any lengths, each from the state reached at its start boundary, and
   concatenating the per-block results *is* the linear run; a failing segment stops the request at the
   same block with the same results so far.
2. **Cached outputs** (`cached_block_eq_executed`, `cached_eq_executed`, `cache_from_other_run`,
   `cache_from_earlier_run`, `segment_job_cached`, `linearSpecC_eq_linearSpec`,
   `linearSpecC_earlier_request`): `RunModule` taking any subset of the outputs cached by a run — this
   run, a longer or shorter run from the same start, a run that started earlier or later, the linear run
   of any earlier request for the same output module — instead of executing gives *exactly* the run
   without cache: same per-block outputs, same store logs, same final stores, same failure block.  A
   map/index hit appends what the execution appends; a store hit replays the recorded operation log, and
   by `SV.C09.replay_full` the replay on the pre-block store yields the store the execution yields.

Hypotheses and where the real code guarantees them:
* `(w.map (·.name)).Nodup` — `manifest.ValidateModules` (manifest/reader.go) rejects a package with a
  "duplicate module name"; it runs on the client and on tier1/tier2 for every request.
* `LInv st` — every store of the start state has distinct keys and an exact size (`SInv`); holds for the
  empty state (`linv_empty`) and is preserved by every block (`linv_runBlock`, `linv_runBlocks`), so it
  holds at every boundary of a linear run.

**NOT covered here** (stated honestly):
* The store state a tier2 segment job *starts from* (a loaded full snapshot, or squashed partial
  stores) is taken to be the linear state at the boundary.  That step is proved at the store level by
  C02 (squash = sequential, end to end), C10 (save/load round trip) and C12/C13 (plan and segments), and
  checked end to end by the harness, but it is not composed with the theorems below: a squashed
  `set_sum` store equals the sequential one only up to its `set:`/`sum:` tag (known finding
  `C01/set_sum-tag-visible-in-deltas`), so the composition is not an equality of `LState`s.
* Cached outputs written by a request for a **different output module** (hence another `usedMods`
  closure): the files are shared in the real system (keyed by module hash); showing that a module's
  outputs depend only on its ancestors (cone of influence) is not done here.  The harness covers it.
* Scheduling, retries, streaming order and cursor handling (C05, C14–C17).
-/
namespace SV.C01
open SV SV.Lin

/-! ## 1. Segments -/

/-- **"split into parallel segment jobs of any segment size"** — compositionality of the linear run at an
arbitrary boundary `b + n1`: if the first `n1` blocks complete, the run of `n1 + n2` blocks is the run of
the first `n1` followed by the run of `n2` blocks *from the state reached at the boundary* (final state
and failure block are those of the second part, per-block results are concatenated); if the first part
fails, the longer run is that failed run (nothing after the failing block is executed). -/
theorem runBlocks_split (w : World) (md n1 n2 b : Nat) (st : LState) :
    ((runBlocks w md n1 b st).failed = none →
      runBlocks w md (n1 + n2) b st =
        ⟨(runBlocks w md n2 (b + n1) (runBlocks w md n1 b st).st).st,
         (runBlocks w md n1 b st).blocks ++ (runBlocks w md n2 (b + n1) (runBlocks w md n1 b st).st).blocks,
         (runBlocks w md n2 (b + n1) (runBlocks w md n1 b st).st).failed⟩) ∧
    ((runBlocks w md n1 b st).failed ≠ none →
      runBlocks w md (n1 + n2) b st = runBlocks w md n1 b st) := by
  rw [runBlocks_add]
  constructor
  · intro h; rw [h]; rfl
  · intro h
    cases hf : (runBlocks w md n1 b st).failed with
    | none => exact absurd hf h
    | some f => rfl

/-- **"… any segment size"** — the per-block results of a shorter run are a prefix of those of any longer
run from the same start: what a job has produced for a block never depends on how far the job goes on. -/
theorem runBlocks_prefix (w : World) (md n k b : Nat) (st : LState) :
    (runBlocks w md n b st).blocks <+: (runBlocks w md (n + k) b st).blocks := by
  rw [runBlocks_add]
  cases hf : (runBlocks w md n b st).failed with
  | none => exact List.prefix_append _ _
  | some f => exact List.prefix_refl _

/-- **"split into parallel segment jobs of any segment size"** — for every list `ns` of segment lengths:
executing the segments one after the other (`runSegments`: a fold of `segStep`, each segment starting
from the state reached at its start boundary; once a segment has failed no later segment is executed and
the failure block is kept) and concatenating the per-block results equals the linear run of
`ns.sum` blocks — same results, same final state, same failure block. -/
theorem segmented_eq_linear (w : World) (md : Nat) (ns : List Nat) (b : Nat) (st : LState) :
    runSegments w md ns b st = runBlocks w md ns.sum b st := by
  unfold runSegments
  rw [segFold_eq w md ns ⟨st, [], none⟩ b rfl]
  simp only [glue, List.nil_append]

/-- **"split into parallel segment jobs of any segment size"**, with the boundaries the engine really
uses (composition with C13): for every segment size `k`, first block `init` and end block `end_`, the
segments handed out by the real `block.Segmenter` (`Segmenter.segments`: `Range(idx)` for
`idx = FirstIndex() … LastIndex()`, the function the C13 correspondence ties to the Go code), executed
in index order from `init`, are the linear run of the blocks `[init, end_)`. -/
theorem segmenter_jobs_eq_linear (w : World) (md : Nat) (s : Segmenter) (hk : 0 < s.interval)
    (hlt : s.init < s.end_) (st : LState) :
    runSegments w md (s.segments.map Range.size) s.init st = runBlocks w md (s.end_ - s.init) s.init st := by
  rw [segmented_eq_linear, Segmenter.segments_sizes s hk hlt]

/-- The fold `runSegments` unfolded once — how exactly a failure stops a segmented run: if the first
segment fails the result is that segment's result; otherwise the remaining segments run from the boundary
state and their results are appended. -/
theorem runSegments_cons (w : World) (md n : Nat) (ns : List Nat) (b : Nat) (st : LState) :
    runSegments w md (n :: ns) b st =
      match (runBlocks w md n b st).failed with
      | none =>
        ⟨(runSegments w md ns (b + n) (runBlocks w md n b st).st).st,
         (runBlocks w md n b st).blocks ++ (runSegments w md ns (b + n) (runBlocks w md n b st).st).blocks,
         (runSegments w md ns (b + n) (runBlocks w md n b st).st).failed⟩
      | some _ => runBlocks w md n b st := by
  simp only [segmented_eq_linear, List.sum_cons]
  rw [runBlocks_add]
  rfl

/-! ## 2. The store invariant along a linear run -/

/-- the empty start state of a request satisfies the invariant -/
theorem linv_empty : LInv ⟨[]⟩ := LInv.empty

/-- every completed block preserves the invariant (each executed store block ends in a store with
distinct keys and exact size — `execBlock_inv`; `resetStores` keeps content and size) -/
theorem linv_runBlock (w : World) (md b : Nat) (st st' : LState) (bo : BlockOut) (hi : LInv st)
    (h : runBlock w md st b = .ok (st', bo)) : LInv st' := runBlock_linv hi h

/-- hence the invariant holds at every boundary of a linear run -/
theorem linv_runBlocks (w : World) (md n b : Nat) (st : LState) (hi : LInv st) :
    LInv (runBlocks w md n b st).st := runBlocks_linv n b st hi

/-! ## 3. Cached outputs replace execution -/

/-- **"served from outputs cached by earlier requests"**, one block: if every entry the cache holds for
block `b` is the entry of the block's own output file (`CacheOK`: any subset of them), then `RunModule`
with cached outputs (`runBlockC`) produces exactly the state and the output file of the executed block. -/
theorem cached_block_eq_executed (w : World) (md b : Nat) (c : Cache) (st st' : LState) (bo : BlockOut)
    (hn : (w.map (·.name)).Nodup) (hi : LInv st)
    (h : runBlock w md st b = .ok (st', bo)) (hc : CacheOK c b bo) :
    runBlockC w md c st b = .ok (st', bo) := runBlockC_eq_of_ok hn hi h hc

/-- **"served from outputs cached by earlier requests"** — a run of `n` blocks that takes any selection
`sel` of its own cached outputs instead of executing is the run itself: same per-block outputs and logs,
same final stores, same failure block. -/
theorem cached_eq_executed (w : World) (md : Nat) (hn : (w.map (·.name)).Nodup) (st : LState) (hi : LInv st)
    (n b : Nat) (sel : Bytes → Nat → Bool) :
    runBlocksC w md (cacheOf (runBlocks w md n b st).blocks sel) n b st = runBlocks w md n b st :=
  runBlocksC_eq_of_agrees hn n b st hi (cacheOf_agrees _ sel b n)

/-- **"… cached by earlier requests"** — the cache may come from ANOTHER run from the same start, shorter
or longer (`n'` arbitrary): the entries for common blocks coincide (`runBlocks_prefix`), blocks the other
run did not reach (or reached after it had failed) have no entry and are executed. -/
theorem cache_from_other_run (w : World) (md : Nat) (hn : (w.map (·.name)).Nodup) (st : LState) (hi : LInv st)
    (n n' b : Nat) (sel : Bytes → Nat → Bool) :
    runBlocksC w md (cacheOf (runBlocks w md n' b st).blocks sel) n b st = runBlocks w md n b st :=
  runBlocksC_eq_of_agrees hn n b st hi (cacheOf_other_agrees w md n n' b st sel)

/-- **"… cached by earlier requests"** — the cache may come from a run that started EARLIER (at `b0`, from
`st0`, `N` blocks long, `N` arbitrary) and passed through this run's start: the run of `n` blocks from
block `b0 + k` in the state the earlier run had there is unchanged by any selection of the earlier run's
cached outputs. -/
theorem cache_from_earlier_run (w : World) (md : Nat) (hn : (w.map (·.name)).Nodup) (st0 : LState)
    (hi : LInv st0) (N k n b0 : Nat) (sel : Bytes → Nat → Bool)
    (hk : (runBlocks w md k b0 st0).failed = none) :
    runBlocksC w md (cacheOf (runBlocks w md N b0 st0).blocks sel) n (b0 + k) (runBlocks w md k b0 st0).st =
      runBlocks w md n (b0 + k) (runBlocks w md k b0 st0).st :=
  runBlocksC_eq_of_agrees hn n (b0 + k) _ (runBlocks_linv k b0 st0 hi)
    (cacheOf_earlier_agrees w md N k n b0 st0 sel hk)

/-- **segment jobs *and* cached outputs together** — a segment job (`n2` blocks from the boundary
`b + n1`, started in the linear state of that boundary) that is served from any selection of the outputs
cached by any linear run from the same origin produces the second half of the linear run: gluing it
behind the first segment gives the linear run of `n1 + n2` blocks. -/
theorem segment_job_cached (w : World) (md : Nat) (hn : (w.map (·.name)).Nodup) (st : LState) (hi : LInv st)
    (N n1 n2 b : Nat) (sel : Bytes → Nat → Bool) (h1 : (runBlocks w md n1 b st).failed = none) :
    glue (runBlocks w md n1 b st)
      (runBlocksC w md (cacheOf (runBlocks w md N b st).blocks sel) n2 (b + n1) (runBlocks w md n1 b st).st) =
    runBlocks w md (n1 + n2) b st := by
  rw [cache_from_earlier_run w md hn st hi N n1 n2 b sel h1, runBlocks_add, h1]

/-- **client level** — what the client receives (`linearSpec`: the output module's outputs of
`[start, stop)` and the failure block) when the request's own linear run is served from any selection of
the outputs cached by a run of any length `n'` from the same lowest block. -/
theorem linearSpecC_eq_linearSpec (w : World) (md : Nat) (hn : (w.map (·.name)).Nodup) (output : Bytes)
    (start stop n' : Nat) (sel : Bytes → Nat → Bool) :
    linearSpecC w md
      (cacheOf (runBlocks (usedMods w output) md n' (lowestOf (usedMods w output) start) ⟨[]⟩).blocks sel)
      output start stop = linearSpec w md output start stop := by
  rw [linearSpecC_eq, linearSpec_eq]
  unfold linearRun
  rw [cache_from_other_run (usedMods w output) md (usedMods_nodup output hn) ⟨[]⟩ LInv.empty]

/-- **client level, "cached by earlier requests"** — the cache may have been left by the linear run of ANY
request for the same output module, with any other start and stop block (`start'`, `stop'`): below the
lowest initial block nothing is executed, so one of the two linear runs passes through the other's start
state, and every cached output is what this request's own execution produces. -/
theorem linearSpecC_earlier_request (w : World) (md : Nat) (hn : (w.map (·.name)).Nodup) (output : Bytes)
    (start stop start' stop' : Nat) (sel : Bytes → Nat → Bool) :
    linearSpecC w md (cacheOf (linearRun (usedMods w output) md start' stop').blocks sel) output start stop =
      linearSpec w md output start stop := by
  rw [linearSpecC_eq, linearSpec_eq]
  rw [runBlocksC_eq_of_agrees (usedMods_nodup output hn) _ _ ⟨[]⟩ LInv.empty
    (cacheOf_request_agrees (usedMods w output) md start stop start' stop' sel)]
  rfl

/-! ## Non-vacuity: a concrete world

`m1` maps the source, the store `s1` (add/int64) adds `block + |m1's output|` under key `k`, `m2` maps
`m1` and reads `s1`.  Everything below is evaluated by the kernel (`decide`). -/

def nM1 : Bytes := [109, 49]   -- "m1"
def nS1 : Bytes := [115, 49]   -- "s1"
def nM2 : Bytes := [109, 50]   -- "m2"
-- fields: name kind init inputs filterMod filterQ every rem skipEmpty failAt policy vt ops keys
def mM1 : ModSpec := ⟨nM1, .map, 0, [⟨.source, []⟩], [], [], 1, 0, false, none, .unset, .bytes, [], []⟩
def mS1 : ModSpec :=
  ⟨nS1, .store, 0, [⟨.map, nM1⟩], [], [], 1, 0, false, none, .add, .int64, [⟨.sum, 1, [107], 0, 1, 0, 1, 0⟩], []⟩
def mM2 : ModSpec := ⟨nM2, .map, 0, [⟨.map, nM1⟩, ⟨.get, nS1⟩], [], [], 1, 0, false, none, .unset, .bytes, [], []⟩
def demoW : World := [mM1, mS1, mM2]
/-- the same world whose store module fails at block 2 -/
def demoWFail : World := [mM1, { mS1 with failAt := some 2 }, mM2]
/-- `m2@1|Mm1=6d3140317c53|Gs1{k=36/3133/3133}`: what `m2` returns on block 1 -/
def m2AtBlock1 : Bytes :=
  [109, 50, 64, 49, 124, 77, 109, 49, 61, 54, 100, 51, 49, 52, 48, 51, 49, 55, 99, 53, 51,
   124, 71, 115, 49, 123, 107, 61, 51, 54, 47, 51, 49, 51, 51, 47, 51, 49, 51, 51, 125]
/-- everything is cached / only the store's logs are cached / only block 1 is cached -/
def selAll : Bytes → Nat → Bool := fun _ _ => true
def selStore : Bytes → Nat → Bool := fun n _ => n == nS1
def selB1 : Bytes → Nat → Bool := fun _ b => b == 1

-- the hypotheses are satisfiable
example : (demoW.map (·.name)).Nodup := by decide
example : LInv ⟨[]⟩ := linv_empty
example : (usedMods demoW nM2).map (·.name) = demoW.map (·.name) := by decide

-- the world is not trivial: three blocks complete, each with two map outputs and one store log …
set_option maxRecDepth 100000 in
example : (runBlocks demoW 10 3 0 ⟨[]⟩).failed = none ∧
    (runBlocks demoW 10 3 0 ⟨[]⟩).blocks.map (fun p => (p.1, p.2.outs.length, p.2.logs.length)) =
      [(0, 2, 1), (1, 2, 1), (2, 2, 1)] := by decide
-- … the store accumulates (6, then 6 + 7 = 13: `m2` on block 1 sees first/at/last = 6/13/13) …
set_option maxRecDepth 100000 in
example : ((runBlocks demoW 10 2 0 ⟨[]⟩).blocks.map (fun p => outputOf nM2 p.2.outs)).getLast? =
    some (some m2AtBlock1) := by decide
-- … the cache of that run has map outputs and store logs, and nothing for a block that was not run
set_option maxRecDepth 100000 in
example : (match cacheOf (runBlocks demoW 10 2 0 ⟨[]⟩).blocks selAll nS1 1 with
    | some (.log ops) => ops.length | _ => 0) = 1 := by decide
set_option maxRecDepth 100000 in
example : (match cacheOf (runBlocks demoW 10 2 0 ⟨[]⟩).blocks selAll nM1 1 with
    | some (.out v) => v.length | _ => 0) = 6 := by decide
set_option maxRecDepth 100000 in
example : (cacheOf (runBlocks demoW 10 2 0 ⟨[]⟩).blocks selAll nM1 2).isNone = true := by decide
-- a failing run: the store fails at block 2, two blocks are recorded (both cases of `runBlocks_split`)
set_option maxRecDepth 100000 in
example : (runBlocks demoWFail 10 4 0 ⟨[]⟩).failed = some 2 ∧ (runBlocks demoWFail 10 4 0 ⟨[]⟩).blocks.length = 2 := by
  decide
-- a segmented run whose second segment fails stops there: the third segment is not executed
set_option maxRecDepth 100000 in
example : (runSegments demoWFail 10 [1, 2, 3] 0 ⟨[]⟩).failed = some 2 ∧
    (runSegments demoWFail 10 [1, 2, 3] 0 ⟨[]⟩).blocks.map (·.1) = [0, 1] := by decide
-- the cached run really goes through the cache branches (evaluated, not by the theorem): with the
-- store's logs cached the replayed store gives `m2` the same view
set_option maxRecDepth 100000 in
example : ((runBlocksC demoW 10 (cacheOf (runBlocks demoW 10 2 0 ⟨[]⟩).blocks selStore) 2 0 ⟨[]⟩).blocks.map
    (fun p => outputOf nM2 p.2.outs)).getLast? =
    some (some m2AtBlock1) := by decide
-- instances of the theorems on this world
example : runSegments demoW 10 [1, 2, 0, 3] 0 ⟨[]⟩ = runBlocks demoW 10 6 0 ⟨[]⟩ :=
  segmented_eq_linear demoW 10 [1, 2, 0, 3] 0 ⟨[]⟩
example : runBlocksC demoW 10 (cacheOf (runBlocks demoW 10 5 0 ⟨[]⟩).blocks selB1) 3 0 ⟨[]⟩ =
    runBlocks demoW 10 3 0 ⟨[]⟩ :=
  cache_from_other_run demoW 10 (by decide) ⟨[]⟩ linv_empty 3 5 0 selB1
example : linearSpecC demoW 10 (cacheOf (linearRun (usedMods demoW nM2) 10 0 7).blocks selStore) nM2 2 5 =
    linearSpec demoW 10 nM2 2 5 :=
  linearSpecC_earlier_request demoW 10 (by decide) nM2 2 5 0 7 selStore

-- the real segmenter's cut of [1, 6) with segments of 2 blocks: jobs of 1, 2 and 2 blocks
example : ((⟨2, 1, 6⟩ : Segmenter).segments.map Range.size) = [1, 2, 2] := by decide
example : runSegments demoW 10 ((⟨2, 1, 6⟩ : Segmenter).segments.map Range.size) 1 ⟨[]⟩ = runBlocks demoW 10 5 1 ⟨[]⟩ :=
  segmenter_jobs_eq_linear demoW 10 ⟨2, 1, 6⟩ (by decide) (by decide) ⟨[]⟩

end SV.C01

import Props.C01
/-!
# C07 — Results do not depend on which cache files exist

Property: *a request that runs on top of any subset of the cache files left by earlier runs over the same
modules completes and returns the same outputs as on an empty cache; the files it leaves behind are those
of a clean run.*

Rendering on the linear specification (`Model/Linear.lean`): a cache is a partial function
`(module, block) ↦ content` (`Cache`); the files of a run are `cacheOf run.blocks`, a subset of them is a
selection `sel`; "on an empty cache" is the run without cache, `runBlocks` (`empty_cache_is_linear`).
All statements are corollaries of `SV.C01.cached_eq_executed` / `runBlocksC_eq_of_agrees`
(`Lemmas/Linear.lean`), and hold for all worlds with distinct module names (guaranteed by
`manifest.ValidateModules`: "duplicate module name"), all start states satisfying the store invariant
`LInv` (the empty state does; preserved by every block), all block ranges and all selections.

* `empty_cache_is_linear` — the all-false selection is the empty cache and the run on it is the linear run.
* `subset_irrelevant`, `subset_irrelevant_other_run` — the run is the same on any two subsets of the files.
* `leaves_clean_files`, `leaves_all_files` — the per-block outputs and logs a run records (hence the files
  it writes) are those of the clean run, whatever subset it started on.
* `Valid`, `subset_valid`, `union_valid`, `valid_eq_clean`, `leaves_valid` — the same in the vocabulary
  of DESIGN.md §6: a cache is *valid* for a run when every entry it holds is the entry of the clean run;
  any subset of a valid cache and any union of valid caches (files of several earlier runs) is valid, a
  run on a valid cache is the clean run, and what it leaves behind is valid again.
* `client_unaffected` — the client's view (`linearSpec`) on any subset of the files of any earlier request
  for the same output module.

**NOT covered here**: store snapshot files (full and partial `kv` files) and the state a tier2 job loads
from them — covered at the store level by C02 (squash = sequential), C10 (save/load round trip, a
truncated file is rejected), C12/C13 (which files a plan needs), and end to end by the harness `vh_c07`
(all subsets of the real files), but not composed with these theorems (squashed `set_sum` stores equal
sequential ones only up to their `set:`/`sum:` tag, known finding `C01/set_sum-tag-visible-in-deltas`);
half-written files (atomicity of the object store's rename, part of the trusted base); cached outputs
written by requests for a *different* output module (see `Props/C01.lean`).
-/
namespace SV.C07
open SV SV.Lin

/-- the empty cache: no file exists -/
def emptyCache : Cache := fun _ _ => none

/-- **"the same outputs as on an empty cache"** — what "empty cache" means: selecting none of the files
of any run gives the empty cache, and `RunModule` with the empty cache is the plain execution, for every
world, range and state (by unfolding; no hypothesis). -/
theorem empty_cache_is_linear (w : World) (md n b : Nat) (st : LState) (blocks : List (Nat × BlockOut)) :
    cacheOf blocks (fun _ _ => false) = emptyCache ∧
    runBlocksC w md emptyCache n b st = runBlocks w md n b st := by
  constructor
  · funext name b'; rfl
  · exact runBlocksC_empty (fun _ _ => rfl) n b st

/-- **"runs on top of any subset of the cache files … returns the same outputs as on an empty cache"** —
for any two subsets `sel`, `sel'` of the files of the run, the cached runs are equal (both equal the
empty-cache run): final stores, per-block outputs, logs and failure block. -/
theorem subset_irrelevant (w : World) (md : Nat) (hn : (w.map (·.name)).Nodup) (st : LState) (hi : LInv st)
    (n b : Nat) (sel sel' : Bytes → Nat → Bool) :
    runBlocksC w md (cacheOf (runBlocks w md n b st).blocks sel) n b st =
      runBlocksC w md (cacheOf (runBlocks w md n b st).blocks sel') n b st ∧
    runBlocksC w md (cacheOf (runBlocks w md n b st).blocks sel) n b st =
      runBlocksC w md emptyCache n b st := by
  rw [C01.cached_eq_executed w md hn st hi n b sel, C01.cached_eq_executed w md hn st hi n b sel',
    (empty_cache_is_linear w md n b st []).2]
  exact ⟨rfl, rfl⟩

/-- **"… left by earlier runs over the same modules"** — the files may be those of another run from the
same start (longer: an earlier, larger request; shorter: a cancelled or crashed one, `n'` arbitrary): any
two subsets of them give the same run, the empty-cache run. -/
theorem subset_irrelevant_other_run (w : World) (md : Nat) (hn : (w.map (·.name)).Nodup) (st : LState)
    (hi : LInv st) (n n' b : Nat) (sel sel' : Bytes → Nat → Bool) :
    runBlocksC w md (cacheOf (runBlocks w md n' b st).blocks sel) n b st =
      runBlocksC w md (cacheOf (runBlocks w md n' b st).blocks sel') n b st ∧
    runBlocksC w md (cacheOf (runBlocks w md n' b st).blocks sel) n b st =
      runBlocksC w md emptyCache n b st := by
  rw [C01.cache_from_other_run w md hn st hi n n' b sel, C01.cache_from_other_run w md hn st hi n n' b sel',
    (empty_cache_is_linear w md n b st []).2]
  exact ⟨rfl, rfl⟩

/-- **"The files it leaves behind are equivalent to those of a clean run"** — the per-block outputs and
operation logs recorded by a run on any subset of the files (what it writes to the output files) are
those recorded by the clean run; so is the store state it ends in and the failure block. -/
theorem leaves_clean_files (w : World) (md : Nat) (hn : (w.map (·.name)).Nodup) (st : LState) (hi : LInv st)
    (n n' b : Nat) (sel : Bytes → Nat → Bool) :
    (runBlocksC w md (cacheOf (runBlocks w md n' b st).blocks sel) n b st).blocks =
      (runBlocks w md n b st).blocks ∧
    (runBlocksC w md (cacheOf (runBlocks w md n' b st).blocks sel) n b st).st.stores =
      (runBlocks w md n b st).st.stores ∧
    (runBlocksC w md (cacheOf (runBlocks w md n' b st).blocks sel) n b st).failed =
      (runBlocks w md n b st).failed := by
  rw [C01.cache_from_other_run w md hn st hi n n' b sel]
  exact ⟨rfl, rfl, rfl⟩

/-- **"The files it leaves behind …"** — in terms of files: after a run on any subset `sel` of the files,
the complete set of files of the run (every selection `sel2` of it) is the clean run's, entry by entry:
evicted or lost files are written back identically. -/
theorem leaves_all_files (w : World) (md : Nat) (hn : (w.map (·.name)).Nodup) (st : LState) (hi : LInv st)
    (n b : Nat) (sel sel2 : Bytes → Nat → Bool) :
    cacheOf (runBlocksC w md (cacheOf (runBlocks w md n b st).blocks sel) n b st).blocks sel2 =
      cacheOf (runBlocks w md n b st).blocks sel2 := by
  rw [C01.cached_eq_executed w md hn st hi n b sel]

/-! ### the same with an explicit validity predicate -/

/-- a cache is **valid** for the run of `n` blocks from block `b` and state `st`: every entry it holds for
a block of the range is the entry of that block in the clean run (it may hold any subset of them, and
anything at all outside the range) -/
def Valid (w : World) (md : Nat) (c : Cache) (n b : Nat) (st : LState) : Prop :=
  Agrees c (runBlocks w md n b st).blocks b n

/-- **"any subset of the cache files"** — every subset of a valid cache is valid -/
theorem subset_valid (w : World) (md : Nat) (c c' : Cache) (n b : Nat) (st : LState)
    (h : Valid w md c n b st) (hs : SubCache c' c) : Valid w md c' n b st := Agrees.subset h hs

/-- **"left by earlier runs"** (several of them) — the union of valid caches is valid, whichever file wins
where both have one -/
theorem union_valid (w : World) (md : Nat) (c1 c2 : Cache) (n b : Nat) (st : LState)
    (h1 : Valid w md c1 n b st) (h2 : Valid w md c2 n b st) : Valid w md (unionCache c1 c2) n b st :=
  Agrees.union h1 h2

/-- the files of any run from the same start, any subset of them, and the empty cache are valid -/
theorem files_valid (w : World) (md : Nat) (n n' b : Nat) (st : LState) (sel : Bytes → Nat → Bool) :
    Valid w md (cacheOf (runBlocks w md n' b st).blocks sel) n b st ∧ Valid w md emptyCache n b st :=
  ⟨cacheOf_other_agrees w md n n' b st sel, fun _ _ _ _ => Or.inl rfl⟩

/-- **"completes and returns the same outputs as on an empty cache"** — a run on a valid cache is the
clean run. -/
theorem valid_eq_clean (w : World) (md : Nat) (hn : (w.map (·.name)).Nodup) (c : Cache) (n b : Nat)
    (st : LState) (hi : LInv st) (h : Valid w md c n b st) :
    runBlocksC w md c n b st = runBlocks w md n b st := runBlocksC_eq_of_agrees hn n b st hi h

/-- **"The files it leaves behind …"** — a run on a valid cache leaves valid files: the old cache
completed by (any selection of) what the run recorded is valid again, so the next run is clean too. -/
theorem leaves_valid (w : World) (md : Nat) (hn : (w.map (·.name)).Nodup) (c : Cache) (n b : Nat)
    (st : LState) (hi : LInv st) (h : Valid w md c n b st) (sel : Bytes → Nat → Bool) :
    Valid w md (unionCache c (cacheOf (runBlocksC w md c n b st).blocks sel)) n b st := by
  rw [valid_eq_clean w md hn c n b st hi h]
  exact Agrees.union h (cacheOf_agrees _ sel b n)

/-- **client level** — the request's answer (`linearSpec`) on any two subsets of the files left by the
linear run of any earlier request for the same output module (any `start'`, `stop'`) is the same, and is
the empty-cache answer. -/
theorem client_unaffected (w : World) (md : Nat) (hn : (w.map (·.name)).Nodup) (output : Bytes)
    (start stop start' stop' : Nat) (sel sel' : Bytes → Nat → Bool) :
    linearSpecC w md (cacheOf (linearRun (usedMods w output) md start' stop').blocks sel) output start stop =
      linearSpecC w md (cacheOf (linearRun (usedMods w output) md start' stop').blocks sel') output start stop ∧
    linearSpecC w md (cacheOf (linearRun (usedMods w output) md start' stop').blocks sel) output start stop =
      linearSpecC w md emptyCache output start stop := by
  have he : linearSpecC w md emptyCache output start stop = linearSpec w md output start stop := by
    rw [linearSpecC_eq, linearSpec_eq, runBlocksC_empty (c := emptyCache) (fun _ _ => rfl)]
    rfl
  rw [C01.linearSpecC_earlier_request w md hn output start stop start' stop' sel,
    C01.linearSpecC_earlier_request w md hn output start stop start' stop' sel', he]
  exact ⟨rfl, rfl⟩

/-! ## Non-vacuity (the world of `Props/C01.lean`: map `m1`, store `s1` add/int64, map `m2`) -/

open SV.C01 in
example : (demoW.map (·.name)).Nodup := by decide

-- the subsets differ: `selStore` keeps the store's log of block 1 and drops `m1`'s output, `selB1` keeps both
set_option maxRecDepth 100000 in
open SV.C01 in
example : (cacheOf (runBlocks demoW 10 3 0 ⟨[]⟩).blocks selStore nM1 1).isNone = true ∧
    (cacheOf (runBlocks demoW 10 3 0 ⟨[]⟩).blocks selB1 nM1 1).isSome = true ∧
    (cacheOf (runBlocks demoW 10 3 0 ⟨[]⟩).blocks selStore nS1 1).isSome = true ∧
    (cacheOf (runBlocks demoW 10 3 0 ⟨[]⟩).blocks selB1 nS1 2).isNone = true := by decide

-- the runs on the two subsets, evaluated through the cache branches, record the same files
set_option maxRecDepth 100000 in
open SV.C01 in
example :
    (runBlocksC demoW 10 (cacheOf (runBlocks demoW 10 3 0 ⟨[]⟩).blocks selStore) 3 0 ⟨[]⟩).blocks.map
        (fun p => (p.1, p.2.outs)) =
      (runBlocksC demoW 10 (cacheOf (runBlocks demoW 10 3 0 ⟨[]⟩).blocks selB1) 3 0 ⟨[]⟩).blocks.map
        (fun p => (p.1, p.2.outs)) ∧
    (runBlocksC demoW 10 (cacheOf (runBlocks demoW 10 3 0 ⟨[]⟩).blocks selStore) 3 0 ⟨[]⟩).blocks.map
        (fun p => p.2.logs) =
      (runBlocksC demoW 10 (cacheOf (runBlocks demoW 10 3 0 ⟨[]⟩).blocks selB1) 3 0 ⟨[]⟩).blocks.map
        (fun p => p.2.logs) := by decide

-- a cache that is NOT valid changes the result (so `Valid` is a real hypothesis): a forged output of `m1`
set_option maxRecDepth 100000 in
open SV.C01 in
example : ((runBlocksC demoW 10 (fun name b => if name == nM1 ∧ b = 1 then some (.out [1]) else none) 2 0 ⟨[]⟩).blocks.map
    (fun p => outputOf nM2 p.2.outs)).getLast? ≠ some (some m2AtBlock1) := by decide

-- instances
open SV.C01 in
example : runBlocksC demoW 10 (cacheOf (runBlocks demoW 10 3 0 ⟨[]⟩).blocks selStore) 3 0 ⟨[]⟩ =
    runBlocksC demoW 10 (cacheOf (runBlocks demoW 10 3 0 ⟨[]⟩).blocks selB1) 3 0 ⟨[]⟩ :=
  (subset_irrelevant demoW 10 (by decide) ⟨[]⟩ linv_empty 3 0 selStore selB1).1
open SV.C01 in
example : Valid demoW 10 (cacheOf (runBlocks demoW 10 7 0 ⟨[]⟩).blocks selB1) 3 0 ⟨[]⟩ :=
  (files_valid demoW 10 3 7 0 ⟨[]⟩ selB1).1

end SV.C07

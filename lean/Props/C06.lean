import Lemmas.Hash
/-!
# C06 — A module's cache identity changes exactly when its computation can change

Property theorems only (model: `Model/Hash.lean`, `Model/Sha1.lean`; lemmas: `Lemmas/Hash.lean`).

`hashN H P r k n` is the model of `hashModule` for the module named `n` of the package `P`
(`H` = the hash function, SHA-1 in the code; `r` bounds the dependency paths followed by
`AncestorsOf`, `k` the recursion depth of `hashModule`).  `hash H P n = hashN H P |P| |P| n` is what
the driver runs and what is compared with `exec.Graph.ModuleHashes().Get(n)`.  **Every theorem
holds for every `H`, every `r` and every `k`** (so also for `hash` whenever both sides have the same
number of modules).

Contents
* identity-preserving transformations (any `H`): `hash_rename`, `hash_alias_import`,
  `hash_add_unrelated`, `hash_binary_reindex`;
* locality (any `H`): `hash_local`;
* sensitivity: `hash_field_sensitive_self`, `hash_field_sensitive_descendant` (+ `_top` for `hash`),
  `hash_shared_binary_sensitive`, `hash_inputs_sensitive_partial`,
  `hash_self_sensitive_injective`;
* what the pre-image does **not** capture (kernel-checked witnesses; the clause "ordered inputs" of
  the property is false on the code — known defect F14): `hash_blind_to_input_order`,
  `hash_blind_to_store_mode`, and the missing framing of the concatenation:
  `hash_unframed_params_value`, `hash_unframed_source_type`, `hash_unframed_binary_content`,
  `hash_unframed_binary_type`.

(Until fix 17e1a4e4 in /repo a params value or source type spelled like a module name created a
dependency edge that `prefixModules` did not follow, so importing under an alias changed hashes; the
check found it as `C06/params-or-source-string-names-module`.  The model is the model of the
repaired `NewModuleGraph`, and `hash_rename` / `hash_alias_import` need no side condition on
params values any more.)

About the hypothesis on `H`.  "`H` injective" alone does **not** imply that a change propagates to
descendants: the ancestors' hashes are concatenated without separators, so the decoding relies on
all hashes having the same length (20 bytes for SHA-1) — and no function with a fixed output length
is injective.  The sensitivity theorems therefore assume `FixedLen H n` plus `NoCollisionAt`: `H`
does not collide *on the two pre-images being compared* (old and new pre-image of the same module).
Non-vacuity is shown with a concrete `H` (`padH`).  For the edited module itself the plain
`Function.Injective H` version is given as well (`hash_self_sensitive_injective`, instance `H := id`).
-/
namespace SV.C06
open SV.Hash

/-! ## 1. Identity-preserving transformations (every hash function) -/

/-- Side conditions of a consistent renaming `ρ` of the modules of `P`. -/
structure RenameOK (ρ : Bytes → Bytes) (P : Modules) : Prop where
  /-- distinct names stay distinct -/
  inj : ∀ a b, ρ a = ρ b → a = b
  /-- `ValidateModules`: no empty module name, before and after -/
  nonempty : NonEmptyNames P.modules
  nonempty' : NonEmptyNames (rename ρ P).modules

/-- **Renaming** modules consistently (names, map/store inputs, filter modules — what
`prefixModules` does) leaves every hash unchanged. -/
theorem hash_rename (H : Bytes → Bytes) (ρ : Bytes → Bytes) (P : Modules) (ok : RenameOK ρ P)
    (r k : Nat) (b : Bytes) : hashN H (rename ρ P) r k (ρ b) = hashN H P r k b := by
  exact hashN_graphMap H P P.binaries ρ (renameModule ρ) ok.inj ⟨fun _ => rfl, fun _ => rfl, fun _ => rfl⟩
    ⟨fun _ => rfl, fun _ => rfl, fun _ => rfl, fun _ _ => rfl⟩ ok.nonempty ok.nonempty' r k b

/-- the same for the identifier the driver computes (`ModuleHashes().Get`) -/
theorem hash_rename_top (H : Bytes → Bytes) (ρ : Bytes → Bytes) (P : Modules) (ok : RenameOK ρ P) (b : Bytes) :
    hash H (rename ρ P) (ρ b) = hash H P b := by
  unfold SV.Hash.hash
  have : (rename ρ P).modules.length = P.modules.length := by simp [rename]
  rw [this]
  exact hash_rename H ρ P ok _ _ b

/-- **Importing a package under an alias** (`prefixModules` + `reindexAndMergePackage`): the imported
module `alias:b` has the hash module `b` has in the imported package on its own. -/
theorem hash_alias_import (H : Bytes → Bytes) (alias : Bytes) (src dest : Modules) (ok : ImportOK alias src dest)
    (r k : Nat) (b : Bytes) (hb : hasName src.modules b = true) :
    hashN H (importPkg alias src dest) r k (withPrefix alias b) = hashN H src r k b :=
  hashN_importPkg H alias src dest ok r k b hb

/-- **Adding unrelated modules** (anywhere in the list, with new binaries appended or not): if
`P.modules` is a sub-list of `P'.modules`, names stay distinct, old modules see the same binaries and
no added module is reachable from `m0`, then `m0` keeps its hash. -/
theorem hash_add_unrelated (H : Bytes → Bytes) (P P' : Modules) (hs : P.modules.Sublist P'.modules)
    (hnd : (P'.modules.map (·.name)).Nodup)
    (hbin : ∀ m ∈ P.modules, binaryOf P' m = binaryOf P m)
    (m0 : Bytes) (hm0 : hasName P.modules m0 = true)
    (hunrelated : ∀ c, Reach P'.modules m0 c → hasName P.modules c = true)
    (r k : Nat) : hashN H P' r k m0 = hashN H P r k m0 :=
  hashN_sublist H P P' hs hnd hbin m0
    (fun c hc => by rcases hc with rfl | h; exact hm0; exact hunrelated c h) r k m0 (.inl rfl)

/-- **Moving binaries to other indexes** (the content following): a new binaries table `bins` and an
index map `σ` such that every module finds its old binary at the new index. -/
theorem hash_binary_reindex (H : Bytes → Bytes) (σ : Nat → Nat) (bins : List Binary) (P : Modules)
    (hne : NonEmptyNames P.modules)
    (hbin : ∀ m ∈ P.modules, bins[σ m.binaryIndex]? = P.binaries[m.binaryIndex]?)
    (r k : Nat) (b : Bytes) : hashN H (reindexBinaries σ bins P) r k b = hashN H P r k b := by
  let f : Module → Module := fun m => { m with binaryIndex := σ m.binaryIndex }
  have hf : GraphMap id f :=
    ⟨fun _ => rfl,
     fun m => by
      show m.inputs = m.inputs.map (renameInput id)
      rw [show renameInput id = id from funext renameInput_id, List.map_id],
     fun m => by
      show m.filter = m.filter.map _
      cases m.filter <;> rfl⟩
  have hne' : NonEmptyNames (P.modules.map f) := by
    intro m hm; obtain ⟨m0, h0, rfl⟩ := List.mem_map.1 hm; exact hne m0 h0
  have := hashN_graphMap H P bins id f (fun _ _ h => h) hf
    ⟨fun _ => rfl, fun _ => rfl, fun _ => rfl, fun m hm => by simp [binaryOf, f, hbin m hm]⟩ hne hne' r k b
  exact this

theorem hash_binary_reindex_top (H : Bytes → Bytes) (σ : Nat → Nat) (bins : List Binary) (P : Modules)
    (hne : NonEmptyNames P.modules)
    (hbin : ∀ m ∈ P.modules, bins[σ m.binaryIndex]? = P.binaries[m.binaryIndex]?) (b : Bytes) :
    hash H (reindexBinaries σ bins P) b = hash H P b := by
  unfold SV.Hash.hash
  have : (reindexBinaries σ bins P).modules.length = P.modules.length := by simp [reindexBinaries]
  rw [this]
  exact hash_binary_reindex H σ bins P hne hbin _ _ b

/-! ## 2. Locality (every hash function) -/

/-- **Nothing else changes.** Replace the module named `x` by *any* module of the same name: every
module that is not `x` and does not reach `x` (is not a descendant of `x`) keeps its hash. -/
theorem hash_local (H : Bytes → Bytes) (P : Modules) (x : Bytes) (mx' : Module) (hn : mx'.name = x)
    (hx : hasName P.modules x = true) (r k : Nat) (b : Bytes) (hb : b ≠ x) (hnd : ¬ Reach P.modules b x) :
    hashN H (setModule P x mx') r k b = hashN H P r k b :=
  hashN_setModule_away H P x mx' hn hx r k b ⟨hb, hnd⟩

theorem hash_local_top (H : Bytes → Bytes) (P : Modules) (x : Bytes) (mx' : Module) (hn : mx'.name = x)
    (hx : hasName P.modules x = true) (b : Bytes) (hb : b ≠ x) (hnd : ¬ Reach P.modules b x) :
    hash H (setModule P x mx') b = hash H P b := by
  unfold SV.Hash.hash
  have : (setModule P x mx').modules.length = P.modules.length := by simp [setModule]
  rw [this]
  exact hash_local H P x mx' hn hx _ _ b hb hnd

/-- The ancestors the model computes are reachable (so "does not reach `x`" covers "`x` is not among
`AncestorsOf`" for every bound `r`). -/
theorem ancestors_reachable (G : List Module) (r : Nat) (b a : Bytes) (h : a ∈ ancestorNames G r b) :
    Reach G b a := by
  simp only [ancestorNames, List.mem_map, List.mem_filter] at h
  obtain ⟨am, ⟨_, hr⟩, rfl⟩ := h
  exact reachF_sound hr

/-! ## 3. Sensitivity (fixed-length hash without a collision on the two pre-images compared) -/

/-- **The edited module.**  Module `x` of `P` is replaced by `mx'`, which differs from it in the
fields the module itself contributes to the pre-image (`EditFacts`: own segments differ, not by a
re-splitting of the same bytes; same dependency edges).  Then the hash of `x` changes. -/
theorem hash_own_fields_sensitive (H : Bytes → Bytes) (n : Nat) (hH : FixedLen H n) (P : Modules) (x : Bytes)
    (mx mx' : Module) (hx : findM P.modules x = some mx) (hedit : EditFacts P mx mx') (r k : Nat)
    (hnc : NoCollisionAt H P (setModule P x mx') r k x) :
    hashN H (setModule P x mx') r (k + 1) x ≠ hashN H P r (k + 1) x := by
  have hn : mx'.name = x := hedit.name.trans (findM_name hx)
  exact hashN_ne_of_own H n hH P (setModule P x mx') r k x mx mx' hx (findM_set_self hx hn)
    (filterShape_of_flt hn hedit.flt)
    (by show (ancestorNames (P.modules.map _) r x).length = _
        rw [ancestorNames_setModule_sameEdges P.modules x mx mx' hx hn hedit.edges])
    hedit.diff hedit.shape hnc

/-- **Single-field mutation, the module itself.**  Changing the initial block, the kind, the binary
type or content, the entrypoint, a params value, a source type or the block-filter query of module
`x` changes the hash of `x`. -/
theorem hash_field_sensitive_self (H : Bytes → Bytes) (n : Nat) (hH : FixedLen H n) (P : Modules) (x : Bytes)
    (mx mx' : Module) (hx : findM P.modules x = some mx) (hedit : FieldEdit P mx mx') (r k : Nat)
    (hnc : NoCollisionAt H P (setModule P x mx') r k x) :
    hashN H (setModule P x mx') r (k + 1) x ≠ hashN H P r (k + 1) x :=
  hash_own_fields_sensitive H n hH P x mx mx' hx hedit.facts r k hnc

/-- **Single-field mutation, every descendant.**  If `x` is among the ancestors of `d`, the same
edits change the hash of `d`. -/
theorem hash_field_sensitive_descendant (H : Bytes → Bytes) (n : Nat) (hH : FixedLen H n) (P : Modules) (x : Bytes)
    (mx mx' : Module) (hx : findM P.modules x = some mx) (hedit : EditFacts P mx mx') (r k : Nat)
    (d : Bytes) (md : Module) (hd : findM P.modules d = some md) (hdx : d ≠ x)
    (hanc : x ∈ ancestorNames P.modules r d)
    (hncx : NoCollisionAt H P (setModule P x mx') r k x)
    (hncd : NoCollisionAt H P (setModule P x mx') r (k + 1) d) :
    hashN H (setModule P x mx') r (k + 2) d ≠ hashN H P r (k + 2) d := by
  have hn : mx'.name = x := hedit.name.trans (findM_name hx)
  have hxne := hash_own_fields_sensitive H n hH P x mx mx' hx hedit r k hncx
  refine hashN_ne_of_ancestor H n hH P (setModule P x mx') r (k + 1) d md md hd (findM_set_other hd hn hdx)
    (filterShape_of_flt hn rfl) rfl ?_ x hanc hxne hncd
  show ancestorNames (P.modules.map _) r d = _
  rw [ancestorNames_setModule_sameEdges P.modules x mx mx' hx hn hedit.edges]

/-- The two previous theorems for the identifier the driver computes (`ModuleHashes().Get`): the
edited module and all its descendants change, under the hypothesis that `H` has no collision on the
old and new pre-image of any module. -/
theorem hash_field_sensitive_top (H : Bytes → Bytes) (n : Nat) (hH : FixedLen H n) (P : Modules) (x : Bytes)
    (mx mx' : Module) (hx : findM P.modules x = some mx) (hedit : FieldEdit P mx mx')
    (hnc : ∀ k b, NoCollisionAt H P (setModule P x mx') P.modules.length k b) :
    hash H (setModule P x mx') x ≠ hash H P x ∧
    ∀ d md, findM P.modules d = some md → d ≠ x → x ∈ ancestorNames P.modules P.modules.length d →
      hash H (setModule P x mx') d ≠ hash H P d := by
  have hlen : (setModule P x mx').modules.length = P.modules.length := by simp [setModule]
  unfold SV.Hash.hash
  rw [hlen]
  constructor
  · have hpos : 0 < P.modules.length := List.length_pos_of_mem (findM_mem hx)
    obtain ⟨k, hk⟩ : ∃ k, P.modules.length = k + 1 := ⟨P.modules.length - 1, by omega⟩
    rw [hk]
    have := hash_field_sensitive_self H n hH P x mx mx' hx hedit P.modules.length k (hnc k x)
    rwa [hk] at this
  · intro d md hd hdx hanc
    have h2 := length_ge_two_of_two_names hd hx hdx
    obtain ⟨k, hk⟩ : ∃ k, P.modules.length = k + 2 := ⟨P.modules.length - 2, by omega⟩
    have := hash_field_sensitive_descendant H n hH P x mx mx' hx hedit.facts P.modules.length k d md hd hdx hanc
      (hnc k x) (hnc (k + 1) d)
    rw [hk]
    rwa [hk] at this

/-- **Editing a shared binary in place**: every module that uses the binary changes its hash
(only the content, or only the type, is edited — changing both at once can be a mere re-splitting of
the same bytes, see `hash_unframed_binary_type`). -/
theorem hash_shared_binary_sensitive (H : Bytes → Bytes) (n : Nat) (hH : FixedLen H n) (P : Modules)
    (bins' : List Binary) (u : Bytes) (mu : Module) (hu : findM P.modules u = some mu)
    (hchg : ((binaryOf ⟨P.modules, bins'⟩ mu).content ≠ (binaryOf P mu).content ∧
             (binaryOf ⟨P.modules, bins'⟩ mu).type = (binaryOf P mu).type) ∨
            ((binaryOf ⟨P.modules, bins'⟩ mu).type ≠ (binaryOf P mu).type ∧
             (binaryOf ⟨P.modules, bins'⟩ mu).content = (binaryOf P mu).content))
    (r k : Nat) (hnc : NoCollisionAt H P ⟨P.modules, bins'⟩ r k u) :
    hashN H ⟨P.modules, bins'⟩ r (k + 1) u ≠ hashN H P r (k + 1) u := by
  have hfs : FilterShape P ⟨P.modules, bins'⟩ mu mu := by
    unfold FilterShape; cases mu.filter <;> simp
  rcases hchg with ⟨h1, h2⟩ | ⟨h1, h2⟩
  · have := single_diff (pre := [le64 mu.initialBlock, kindLabel mu.kind, (binaryOf P mu).type])
      (post := [encInputs mu.inputs, queryString mu, mu.entrypoint]) h1
    have hown : ownSegs ⟨P.modules, bins'⟩ mu = [le64 mu.initialBlock, kindLabel mu.kind, (binaryOf P mu).type] ++
        (binaryOf ⟨P.modules, bins'⟩ mu).content :: [encInputs mu.inputs, queryString mu, mu.entrypoint] := by
      simp only [ownSegs, h2, List.cons_append, List.nil_append]
    exact hashN_ne_of_own H n hH P ⟨P.modules, bins'⟩ r k u mu mu hu hu hfs rfl
      (by rw [hown]; exact this.1) (by rw [hown]; exact this.2) hnc
  · have := single_diff (pre := [le64 mu.initialBlock, kindLabel mu.kind])
      (post := [(binaryOf P mu).content, encInputs mu.inputs, queryString mu, mu.entrypoint]) h1
    have hown : ownSegs ⟨P.modules, bins'⟩ mu = [le64 mu.initialBlock, kindLabel mu.kind] ++
        (binaryOf ⟨P.modules, bins'⟩ mu).type :: [(binaryOf P mu).content, encInputs mu.inputs, queryString mu,
          mu.entrypoint] := by
      simp only [ownSegs, h2, List.cons_append, List.nil_append]
    exact hashN_ne_of_own H n hH P ⟨P.modules, bins'⟩ r k u mu mu hu hu hfs rfl
      (by rw [hown]; exact this.1) (by rw [hown]; exact this.2) hnc

/-- … and every module that does not use the edited binary but has an ancestor whose hash changed. -/
theorem hash_shared_binary_sensitive_descendant (H : Bytes → Bytes) (n : Nat) (hH : FixedLen H n) (P : Modules)
    (bins' : List Binary) (d : Bytes) (md : Module) (hd : findM P.modules d = some md)
    (hsame : binaryOf ⟨P.modules, bins'⟩ md = binaryOf P md)
    (r k : Nat) (a : Bytes) (ha : a ∈ ancestorNames P.modules r d)
    (hane : hashN H ⟨P.modules, bins'⟩ r k a ≠ hashN H P r k a)
    (hnc : NoCollisionAt H P ⟨P.modules, bins'⟩ r k d) :
    hashN H ⟨P.modules, bins'⟩ r (k + 1) d ≠ hashN H P r (k + 1) d := by
  have hfs : FilterShape P ⟨P.modules, bins'⟩ md md := by
    unfold FilterShape; cases md.filter <;> simp
  exact hashN_ne_of_ancestor H n hH P ⟨P.modules, bins'⟩ r k d md md hd hd hfs
    (by simp only [ownSegs, hsame]) rfl a ha hane hnc

/-- **Number or kinds of inputs** (no assumption on the hash lengths) — the provable part of the
clause "ordered inputs".

Full statement of the property (FALSE on the code, hence `_partial`):
`mx'.inputs ≠ mx.inputs → hashN H (setModule P x {mx with inputs := mx'.inputs}) r (k+1) x ≠ hashN H P r (k+1) x`.
What is missing, each with a kernel-checked counterexample below and a replayed witness on the real
code: the order of inputs of the same kind (`hash_blind_to_input_order`, class
`C06/input-permutation`), the mode of a store input (`hash_blind_to_store_mode`,
`C06/store-mode-get-vs-deltas`), which already-present ancestor a map input points at
(`C06/input-retarget`, harness only), and input lists that part at inputs of the same kind whose
values re-split the same bytes (`hash_unframed_params_value`, `hash_unframed_source_type`).
Changes of a single params value or source type in place are covered by `hash_field_sensitive_self`.

What is proved:  The inputs of `x` are
replaced by a list that, after a common prefix, continues with an input of another kind, or stops
while the old one goes on, or goes on while the old one stops.  Then the hash of `x` changes —
*whatever* happens to its ancestors.  (Two lists that part at inputs of the **same** kind with
different values can collide: `hash_unframed_source_type`.) -/
theorem hash_inputs_sensitive_partial (H : Bytes → Bytes) (P : Modules) (x : Bytes) (mx : Module)
    (hx : findM P.modules x = some mx) (C R R' : List Input) (hin : mx.inputs = C ++ R) (hd : Diverge R R')
    (r k : Nat) (hnc : NoCollisionAt H P (setModule P x { mx with inputs := C ++ R' }) r k x) :
    hashN H (setModule P x { mx with inputs := C ++ R' }) r (k + 1) x ≠ hashN H P r (k + 1) x := by
  have hn : ({ mx with inputs := C ++ R' } : Module).name = x := by
    show mx.name = x; exact findM_name hx
  have hx' := findM_set_self (mx' := { mx with inputs := C ++ R' }) hx hn
  intro heq
  rw [hashN_succ_of_find hx, hashN_succ_of_find hx'] at heq
  have e := hnc heq
  rw [preN_of_find hx, preN_of_find hx'] at e
  have := enc_ne_of_diverge (segsOf P r (hashN H P r k) mx)
    (segsOf (setModule P x { mx with inputs := C ++ R' }) r
      (hashN H (setModule P x { mx with inputs := C ++ R' }) r k) { mx with inputs := C ++ R' })
    rfl rfl rfl rfl C R R' (by show encInputs mx.inputs = _; rw [hin]) rfl hd
  exact this e.symm

/-- **Injective `H`, the edited module itself.**  With `H` merely injective (no length assumption;
`H := id` is an instance, see the example below) the hash of the edited module changes, provided `x`
is not its own ancestor (the graph is acyclic at `x`; `NewModuleGraph` rejects cycles). -/
theorem hash_self_sensitive_injective (H : Bytes → Bytes) (hH : Function.Injective H) (P : Modules) (x : Bytes)
    (mx mx' : Module) (hx : findM P.modules x = some mx) (hedit : EditFacts P mx mx')
    (hacyc : ¬ Reach P.modules x x) (r k : Nat) :
    hashN H (setModule P x mx') r (k + 1) x ≠ hashN H P r (k + 1) x := by
  have hn : mx'.name = x := hedit.name.trans (findM_name hx)
  have hhas : hasName P.modules x = true := by simp [hasName, hx]
  have haway : ∀ a, a ∈ succs P.modules x → Away P.modules x a := by
    intro a ha
    refine ⟨fun e => hacyc (by rw [e] at ha; exact .step ha), fun h => hacyc (.trans ha h)⟩
  have hanc_names : ancestorNames (setModule P x mx').modules r x = ancestorNames P.modules r x :=
    ancestorNames_setModule_sameEdges P.modules x mx mx' hx hn hedit.edges r x
  have hanc_hash : ∀ a ∈ ancestorNames P.modules r x,
      hashN H (setModule P x mx') r k a = hashN H P r k a := by
    intro a ha
    have hR := ancestors_reachable P.modules r x a ha
    have : Away P.modules x a :=
      ⟨fun e => hacyc (e ▸ hR), fun h => hacyc (hR.tail h)⟩
    exact hashN_setModule_away H P x mx' hn hhas r k a this
  refine hashN_ne_of_own_gen H P (setModule P x mx') r k x mx mx' hx (findM_set_self hx hn) ?_ ?_ ?_
    hedit.diff hedit.shape (NoCollisionAt.of_injective (fun a b h => hH h) _ _ _ _ _)
  · have := hedit.flt
    cases hf : mx.filter <;> cases hf' : mx'.filter <;> simp [hf, hf'] at this ⊢
  · intro f f' hf hf'
    have hmod : f'.module = f.module := by
      have := hedit.flt; simp [hf, hf'] at this; exact this
    rw [hmod]
    by_cases hh : hasName P.modules f.module = true
    · have : f.module ∈ succs P.modules x := by
        unfold succs; rw [hx]; exact mem_edgeTargets_filter hf hh
      rw [hashN_setModule_away H P x mx' hn hhas r k _ (haway _ this)]
    · have h0 : hasName P.modules f.module = false := by simpa using hh
      rw [hashN_len_none H P r k _ h0, hashN_len_none H (setModule P x mx') r k _
        (by simp only [setModule]; rw [hasName_setModule P.modules x mx' hn]; exact h0)]
  · rw [hanc_names]
    congr 1
    exact List.map_congr_left hanc_hash

/-! ## 4. What the pre-image does NOT capture (the clause "ordered inputs" is false on the code)

Known defect F14: `inputValue` returns `""` for map and store inputs ("accounted for in the
`AncestorOf()` tree"), and `AncestorsOf` lists the ancestors in module-list order, not in input
order.  So the pre-image records only the *kinds* of map/store inputs and the *set* of ancestors. -/

/-- **F14, store mode.** Switching a store input between `get` and `deltas` (any mode number) changes
what the module reads, but no hash of the package: for every hash function, every module. -/
theorem hash_blind_to_store_mode (H : Bytes → Bytes) (P : Modules) (x : Bytes) (mx : Module)
    (hx : findM P.modules x = some mx) (pre post : List Input) (s : Bytes) (mode mode' : Nat)
    (hin : mx.inputs = pre ++ .store s mode :: post) (r k : Nat) (b : Bytes) :
    hashN H (setModule P x { mx with inputs := pre ++ .store s mode' :: post }) r k b = hashN H P r k b := by
  apply hashN_setModule_sameView H P x mx { mx with inputs := pre ++ .store s mode' :: post } hx (show mx.name = x from findM_name hx)
  · have hq : queryString { mx with inputs := pre ++ .store s mode' :: post } = queryString mx := by
      unfold queryString; simp only [hin, firstParams_store pre post s mode' mode]
    have he : encInputs (pre ++ .store s mode' :: post) = encInputs mx.inputs := by
      rw [hin]; simp [encInputs, encInput]
    simp only [ownSegs, hq, he]; rfl
  · rfl
  · intro t
    rw [edgeTargets_congr_refs P.modules mx { mx with inputs := pre ++ .store s mode' :: post }
      (by simp [hin, inputRef]) rfl]

/-- the two module definitions of `hash_blind_to_store_mode` are different (get = 1, deltas = 2) -/
example (mx : Module) (pre post : List Input) (s : Bytes) (hin : mx.inputs = pre ++ .store s 1 :: post) :
    ({ mx with inputs := pre ++ .store s 2 :: post } : Module) ≠ mx := by
  intro e
  have := congrArg Module.inputs e
  simp [hin] at this

/-- **F14, input order.** Swapping two neighbouring inputs of the same kind (two map inputs, or two
store inputs — `encInput` does not distinguish them) hands the module its arguments in another
order, but changes no hash: for every hash function, every module. -/
theorem hash_blind_to_input_order (H : Bytes → Bytes) (P : Modules) (x : Bytes) (mx : Module)
    (hx : findM P.modules x = some mx) (pre post : List Input) (i j : Input)
    (hi : isModuleInput i = true) (hj : isModuleInput j = true) (hsame : encInput i = encInput j)
    (hin : mx.inputs = pre ++ i :: j :: post) (r k : Nat) (b : Bytes) :
    hashN H (setModule P x { mx with inputs := pre ++ j :: i :: post }) r k b = hashN H P r k b := by
  apply hashN_setModule_sameView H P x mx { mx with inputs := pre ++ j :: i :: post } hx (show mx.name = x from findM_name hx)
  · have hq : queryString { mx with inputs := pre ++ j :: i :: post } = queryString mx := by
      unfold queryString; simp only [hin, firstParams_swap pre post i j hi hj]
    have he : encInputs (pre ++ j :: i :: post) = encInputs mx.inputs := by
      rw [hin]; simp [encInputs, hsame]
    simp only [ownSegs, hq, he]; rfl
  · rfl
  · intro t
    unfold edgeTargets
    simp only [hin, List.map_append, List.map_cons, List.mem_append, List.mem_filter, List.mem_cons]
    constructor <;> rintro (⟨h, hp⟩ | h) <;> first
      | exact .inr h
      | (refine .inl ⟨?_, hp⟩; rcases h with h | h | h | h <;> simp [h])

/-- Concrete instance (the witness of DESIGN §9/F14): `X(A, B)` and `X(B, A)` are different
definitions and get the same identifier. -/
example : ∀ (H : Bytes → Bytes) (r k : Nat) (b : Bytes),
    let A : Module := ⟨[97], 1, .map [], 0, [97], [.source [84]], none⟩
    let B : Module := ⟨[98], 1, .map [], 0, [98], [.source [85]], none⟩
    let X : Module := ⟨[120], 1, .map [], 0, [120], [.map [97], .map [98]], none⟩
    let P : Modules := ⟨[A, B, X], [⟨[119], [0, 1, 2]⟩]⟩
    hashN H (setModule P [120] { X with inputs := [.map [98], .map [97]] }) r k b = hashN H P r k b :=
  fun H r k b => hash_blind_to_input_order H _ [120] _ rfl [] [] (.map [97]) (.map [98]) rfl rfl rfl rfl r k b

/-! ### The concatenation has no framing

`hashModule` writes strings one after the other without lengths or separators.  Different module
definitions can therefore produce the same bytes.  (Not part of F14; reported as a new finding.) -/

/-- A params value can swallow the following source input: `[params a, source t]` and
`[params (a ++ "source" ++ t)]` (one input less!) give every module the same hash.  Both
definitions pass `ValidateModules`. -/
theorem hash_unframed_params_value (H : Bytes → Bytes) (P : Modules) (x : Bytes) (mx : Module)
    (hx : findM P.modules x = some mx) (a t : Bytes) (post : List Input)
    (hin : mx.inputs = .params a :: .source t :: post)
    (hq : queryString { mx with inputs := .params (a ++ lblSource ++ t) :: post } = queryString mx)
    (r k : Nat) (b : Bytes) :
    hashN H (setModule P x { mx with inputs := .params (a ++ lblSource ++ t) :: post }) r k b = hashN H P r k b := by
  apply hashN_setModule_sameView H P x mx { mx with inputs := .params (a ++ lblSource ++ t) :: post } hx (show mx.name = x from findM_name hx)
  · have he : encInputs (.params (a ++ lblSource ++ t) :: post) = encInputs mx.inputs := by
      rw [hin]; simp [encInputs, encInput, List.append_assoc]
    simp only [ownSegs, hq, he]; rfl
  · rfl
  · intro t'
    have : edgeTargets P.modules { mx with inputs := .params (a ++ lblSource ++ t) :: post } =
        edgeTargets P.modules mx := by
      unfold edgeTargets
      simp [hin, inputRef]
    rw [this]

/-- The same with two source inputs: `[source t, source u]` and `[source (t ++ "source" ++ u)]`. -/
theorem hash_unframed_source_type (H : Bytes → Bytes) (P : Modules) (x : Bytes) (mx : Module)
    (hx : findM P.modules x = some mx) (t u : Bytes) (pre post : List Input)
    (hin : mx.inputs = pre ++ .source t :: .source u :: post)
    (hq : queryString { mx with inputs := pre ++ .source (t ++ lblSource ++ u) :: post } = queryString mx)
    (r k : Nat) (b : Bytes) :
    hashN H (setModule P x { mx with inputs := pre ++ .source (t ++ lblSource ++ u) :: post }) r k b =
      hashN H P r k b := by
  apply hashN_setModule_sameView H P x mx { mx with inputs := pre ++ .source (t ++ lblSource ++ u) :: post } hx (show mx.name = x from findM_name hx)
  · have he : encInputs (pre ++ .source (t ++ lblSource ++ u) :: post) = encInputs mx.inputs := by
      rw [hin]; simp [encInputs, encInput, List.append_assoc]
    simp only [ownSegs, hq, he]; rfl
  · rfl
  · intro t'
    have : edgeTargets P.modules { mx with inputs := pre ++ .source (t ++ lblSource ++ u) :: post } =
        edgeTargets P.modules mx := by
      unfold edgeTargets
      simp [hin, inputRef]
    rw [this]

/-- Binary type and content are adjacent and unframed: type `"wa"` + content `"sm\x01"` and type
`"was"` + content `"m\x01"` are different binaries with the same identifier. -/
theorem hash_unframed_binary_type :
    let m : Module := ⟨[120], 1, .map [], 0, [120], [.source [84]], none⟩
    let P₁ : Modules := ⟨[m], [⟨[119, 97], [115, 109, 1]⟩]⟩
    let P₂ : Modules := ⟨[m], [⟨[119, 97, 115], [109, 1]⟩]⟩
    P₁ ≠ P₂ ∧ ∀ H : Bytes → Bytes, hash H P₂ [120] = hash H P₁ [120] :=
  ⟨by decide, fun _ => rfl⟩

/-- Binary content and the inputs are unframed too: code `X` with inputs `[params "inputs", source T]`
and code `X ++ "inputsparams"` with inputs `[source T]` get the same identifier (the label
`"inputs"` and the input kind `"params"` are read from the end of the code). -/
theorem hash_unframed_binary_content :
    let m₁ : Module := ⟨[120], 1, .map [], 0, [120], [.params lblInputs, .source [84]], none⟩
    let m₂ : Module := ⟨[120], 1, .map [], 0, [120], [.source [84]], none⟩
    let P₁ : Modules := ⟨[m₁], [⟨[119], [7, 8]⟩]⟩
    let P₂ : Modules := ⟨[m₂], [⟨[119], [7, 8] ++ lblInputs ++ lblParams⟩]⟩
    P₁ ≠ P₂ ∧ ∀ H : Bytes → Bytes, hash H P₂ [120] = hash H P₁ [120] :=
  ⟨by decide, fun _ => rfl⟩

/-! ## 5. Non-vacuity: the hypotheses are satisfiable by concrete non-trivial instances -/

/-- a fixed-length "hash": pad with zeros / truncate to `N` bytes -/
def padH (N : Nat) (b : Bytes) : Bytes := (b ++ List.replicate N 0).take N

theorem padH_fixedLen (N : Nat) : FixedLen (padH N) N := by
  intro b; simp [padH]

/-- example package: `a(source T)`, `b(map a)`, `s(store, source T)`, `c(params, map b, store s get)` -/
def exA : Module := ⟨[97], 1, .map [], 0, [97], [.source [84]], none⟩
def exB : Module := ⟨[98], 1, .map [], 0, [98], [.map [97]], none⟩
def exS : Module := ⟨[115], 1, .store 1 [], 0, [115], [.source [84]], none⟩
def exC : Module := ⟨[99], 5, .map [], 0, [99], [.params [118], .map [98], .store [115] 1], none⟩
def exP : Modules := ⟨[exA, exB, exS, exC], [⟨[119], [0, 1, 2]⟩]⟩

/-- `hash_field_sensitive_self` / `_descendant`: the hypotheses hold for `padH 100`, editing the
initial block of `a`; the conclusions say the hashes of `a` and of its descendant `b` change. -/
example : hashN (padH 100) (setModule exP [97] { exA with initialBlock := 2 }) 2 1 [97] ≠ hashN (padH 100) exP 2 1 [97] :=
  hash_field_sensitive_self (padH 100) 100 (padH_fixedLen 100) exP [97] exA _ rfl
    (.initialBlock exA 2 (by decide) (by decide) (by decide)) 2 0 (by unfold NoCollisionAt; decide)

example : hashN (padH 100) (setModule exP [97] { exA with initialBlock := 2 }) 2 2 [98] ≠ hashN (padH 100) exP 2 2 [98] :=
  hash_field_sensitive_descendant (padH 100) 100 (padH_fixedLen 100) exP [97] exA _ rfl
    (FieldEdit.initialBlock exA 2 (by decide) (by decide) (by decide)).facts 2 0 [98] exB rfl (by decide) (by decide)
    (by unfold NoCollisionAt; decide) (by unfold NoCollisionAt; decide)

/-- `hash_self_sensitive_injective` with `H := id` (injective): editing the entrypoint of `a`. -/
example : hashN id (setModule exP [97] { exA with entrypoint := [122] }) 4 1 [97] ≠ hashN id exP 4 1 [97] :=
  hash_self_sensitive_injective id (fun _ _ h => h) exP [97] exA _ rfl
    (FieldEdit.entrypoint exA [122] (by decide)).facts
    (by
      have hs : succs exP.modules [97] = [] := by decide
      intro h
      cases h with
      | step h => rw [hs] at h; cases h
      | trans h _ => rw [hs] at h; cases h) 4 0

/-- `hash_inputs_sensitive_partial` with `H := id`: `c` loses its store input. -/
example : hashN id (setModule exP [99] { exC with inputs := [.params [118], .map [98]] ++ [] }) 4 1 [99] ≠
    hashN id exP 4 1 [99] :=
  hash_inputs_sensitive_partial id exP [99] exC rfl [.params [118], .map [98]] [.store [115] 1] [] rfl
    (.fewer _ _ (by decide)) 4 0 (NoCollisionAt.of_injective (fun _ _ h => h) _ _ _ _ _)

/-- `hash_rename` / `hash_alias_import`: the side conditions hold for `exP` and the prefix `p:`. -/
example : RenameOK (withPrefix [112]) exP where
  inj := withPrefix_inj [112]
  nonempty := by unfold NonEmptyNames; decide
  nonempty' := by unfold NonEmptyNames; decide

example : ImportOK [112] exP ⟨[⟨[122], 1, .map [], 0, [122], [.map (withPrefix [112] [98])], none⟩], [⟨[119], [9]⟩]⟩ where
  nonempty := by unfold NonEmptyNames; decide
  fresh := by
    intro d hd t
    simp only [List.mem_cons, List.mem_nil_iff, or_false] at hd
    subst hd
    simp [withPrefix]
  nodup := by decide

/-- `hash_local` / `hash_add_unrelated`: `s` does not reach `a`; conclusion instance. -/
example (H : Bytes → Bytes) (r k : Nat) :
    hashN H (setModule exP [97] { exA with entrypoint := [122] }) r k [115] = hashN H exP r k [115] :=
  hash_local H exP [97] _ rfl (by decide) r k [115] (by decide)
    (by
      have hs : succs exP.modules [115] = [] := by decide
      intro h
      cases h with
      | step h => rw [hs] at h; cases h
      | trans h _ => rw [hs] at h; cases h)

/-- `hash_binary_reindex`: move the binary of `exP` to index 2 of a bigger table. -/
example (H : Bytes → Bytes) (b : Bytes) :
    hash H (reindexBinaries (fun _ => 2) [⟨[1], [1]⟩, ⟨[2], []⟩, ⟨[119], [0, 1, 2]⟩] exP) b = hash H exP b :=
  hash_binary_reindex_top H _ _ exP (by unfold NonEmptyNames; decide) (by decide) b

end SV.C06

import Model.Deliver
/-!
# C04 — Each requested block is delivered once, in order; streams resume from cursors

`deliver lin r` is what the client of a request `r = [start, stop)` with hand-off `handoff` receives, as a
function of the linear specification `lin` (the output module's output, or none, on every executed
block): below the hand-off the items of the cached output files (only blocks that have an output),
from the hand-off on every block (empty payload when there is no output).  The hand-off itself is
decided by the planner (C12: `dev_handoff_le_start`, `plan_partition`).  All theorems hold for every
`lin` in block order, every request and every hand-off — no bound.
-/
namespace SV.C04
open SV SV.Lin

/-- the executed blocks come in strictly increasing order (true of `linearSpec`, see `linear_increasing`) -/
def Increasing (lin : List (Nat × Option Bytes)) : Prop := lin.Pairwise (fun a b => a.1 < b.1)

/-- "every data message carries a block of that range" -/
theorem in_range (lin : List (Nat × Option Bytes)) (r : DReq) (m : DMsg) (h : m ∈ deliver lin r) :
    r.start ≤ m.num ∧ m.num < r.stop := by
  unfold deliver at h
  obtain ⟨p, _, hp⟩ := List.mem_filterMap.1 h
  by_cases hr : p.1 < r.start ∨ r.stop ≤ p.1
  · simp [hr] at hp
  · simp only [hr, ↓reduceIte] at hp
    have hn : m.num = p.1 := by
      split at hp
      · cases ho : p.2 with
        | none => simp [ho] at hp
        | some v => simp [ho] at hp; rw [← hp]
      · injection hp with hp; rw [← hp]
    omega

/-- "block numbers are strictly increasing with no duplicate … across the hand-off" -/
theorem strictly_increasing (lin : List (Nat × Option Bytes)) (r : DReq) (h : Increasing lin) :
    (deliver lin r).Pairwise (fun a b => a.num < b.num) := by
  unfold deliver
  apply List.Pairwise.filterMap _ _ h
  intro a a' hlt b hb b' hb'
  have e : ∀ (p : Nat × Option Bytes) (m : DMsg),
      (if p.1 < r.start ∨ r.stop ≤ p.1 then none
       else if p.1 < r.handoff then p.2.map (fun v => (⟨p.1, v⟩ : DMsg)) else some ⟨p.1, p.2.getD []⟩) = some m →
      m.num = p.1 := by
    intro p m hm
    split at hm
    · cases hm
    · split at hm
      · cases ho : p.2 with
        | none => simp [ho] at hm
        | some v => simp [ho] at hm; rw [← hm]
      · injection hm with hm; rw [← hm]
  rw [e a b hb, e a' b' hb']; exact hlt

/-- "… with no gap": every executed block from the hand-off on (and from the start block when the
hand-off is at or below it — development mode) is delivered, even when its output is empty -/
theorem complete_from_handoff (lin : List (Nat × Option Bytes)) (r : DReq) (b : Nat) (o : Option Bytes)
    (hmem : (b, o) ∈ lin) (h1 : r.start ≤ b) (h2 : r.handoff ≤ b) (h3 : b < r.stop) :
    (⟨b, o.getD []⟩ : DMsg) ∈ deliver lin r := by
  unfold deliver
  apply List.mem_filterMap.2
  refine ⟨(b, o), hmem, ?_⟩
  have hr : ¬ (b < r.start ∨ r.stop ≤ b) := by omega
  have hh : ¬ b < r.handoff := by omega
  simp [hr, hh]

/-- below the hand-off exactly the blocks that have an output are delivered (blocks whose output is
empty "may be omitted while back-filling"), with that output -/
theorem backfilled_iff (lin : List (Nat × Option Bytes)) (r : DReq) (b : Nat) (v : Bytes)
    (h1 : r.start ≤ b) (h2 : b < r.handoff) (h3 : b < r.stop) (hinc : Increasing lin) :
    (⟨b, v⟩ : DMsg) ∈ deliver lin r ↔ (b, some v) ∈ lin := by
  unfold deliver
  constructor
  · intro h
    obtain ⟨p, hp, hq⟩ := List.mem_filterMap.1 h
    by_cases hr : p.1 < r.start ∨ r.stop ≤ p.1
    · simp [hr] at hq
    · simp only [hr, ↓reduceIte] at hq
      by_cases hh : p.1 < r.handoff
      · simp only [hh, ↓reduceIte] at hq
        cases ho : p.2 with
        | none => simp [ho] at hq
        | some w =>
          simp [ho] at hq
          obtain ⟨e1, e2⟩ := hq
          have : p = (b, some v) := by
            cases p; simp_all
          rw [← this]; exact hp
      · simp only [hh, ↓reduceIte] at hq
        injection hq with hq
        injection hq with e1 e2
        omega
  · intro h
    apply List.mem_filterMap.2
    refine ⟨(b, some v), h, ?_⟩
    have hr : ¬ (b < r.start ∨ r.stop ≤ b) := by omega
    simp [hr, h2]

/-- no payload is altered or invented: every delivered payload is the linear output of its block -/
theorem payload_is_linear_output (lin : List (Nat × Option Bytes)) (r : DReq) (m : DMsg)
    (h : m ∈ deliver lin r) : ∃ o, (m.num, o) ∈ lin ∧ m.payload = o.getD [] := by
  unfold deliver at h
  obtain ⟨p, hp, hq⟩ := List.mem_filterMap.1 h
  by_cases hr : p.1 < r.start ∨ r.stop ≤ p.1
  · simp [hr] at hq
  · simp only [hr, ↓reduceIte] at hq
    split at hq
    · cases ho : p.2 with
      | none => simp [ho] at hq
      | some v =>
        simp [ho] at hq
        refine ⟨some v, ?_, ?_⟩
        · rw [← hq]; show (p.1, some v) ∈ lin; rw [← ho]; exact hp
        · rw [← hq]; rfl
    · injection hq with hq
      refine ⟨p.2, ?_, ?_⟩
      · rw [← hq]; exact hp
      · rw [← hq]

/-- "nothing is delivered after an error": when execution stops after `k` blocks (a module failed on
the next one), what is delivered is a prefix of the fault-free stream -/
theorem nothing_after_error (lin : List (Nat × Option Bytes)) (r : DReq) (k : Nat) :
    (deliver (lin.take k) r) <+: (deliver lin r) := by
  unfold deliver
  exact (List.take_prefix k lin).filterMap _

/-- "Starting a new request from the cursor of any delivered final block yields exactly the messages
that followed it": the resumed request starts right after block `c`; its hand-off is either the same
or both hand-offs are already behind (at or below `c+1`) — which is what the planner computes for a
later start (C12). -/
theorem resume (lin : List (Nat × Option Bytes)) (r : DReq) (c : Nat) (handoff' : Nat)
    (hc : r.start ≤ c + 1)
    (hh : handoff' = r.handoff ∨ (r.handoff ≤ c + 1 ∧ handoff' ≤ c + 1)) :
    deliver lin ⟨c + 1, r.stop, handoff'⟩ = (deliver lin r).filter (fun m => decide (c < m.num)) := by
  unfold deliver
  rw [List.filter_filterMap]
  have congr : ∀ (l : List (Nat × Option Bytes)) (f g : Nat × Option Bytes → Option DMsg),
      (∀ a, f a = g a) → l.filterMap f = l.filterMap g := by
    intro l f g h; have : f = g := funext h; rw [this]
  apply congr
  intro p
  by_cases h1 : p.1 < r.start ∨ r.stop ≤ p.1
  · have h1' : p.1 < c + 1 ∨ r.stop ≤ p.1 := by omega
    simp [h1, h1']
  · by_cases h2 : p.1 < c + 1
    · have h2' : p.1 < c + 1 ∨ r.stop ≤ p.1 := Or.inl h2
      simp only [h2', h1, ↓reduceIte]
      have hnot : ¬ c < p.1 := by omega
      split
      · cases ho : p.2 <;> simp [Option.filter, hnot]
      · simp [Option.filter, hnot]
    · have h2' : ¬ (p.1 < c + 1 ∨ r.stop ≤ p.1) := by omega
      have hgt : c < p.1 := by omega
      simp only [h2', h1, ↓reduceIte]
      rcases hh with hh | ⟨hh1, hh2⟩
      · subst hh
        split
        · cases ho : p.2 <;> simp [Option.filter, hgt]
        · simp [Option.filter, hgt]
      · have a : ¬ p.1 < handoff' := by omega
        have b : ¬ p.1 < r.handoff := by omega
        simp [Option.filter, a, b, hgt]

/-- the linear specification produces its blocks in strictly increasing order, one entry per block -/
theorem runBlocks_nums (w : World) (md : Nat) : ∀ (n b : Nat) (st : LState),
    ∃ k, k ≤ n ∧ (runBlocks w md n b st).blocks.map (·.1) = List.range' b k ∧
      ((runBlocks w md n b st).failed = none → k = n) := by
  intro n
  induction n with
  | zero => intro b st; exact ⟨0, Nat.le_refl _, rfl, fun _ => rfl⟩
  | succ n ih =>
    intro b st
    unfold runBlocks
    cases hrb : runBlock w md st b with
    | error e => exact ⟨0, Nat.zero_le _, rfl, fun h => by simp at h⟩
    | ok p =>
      obtain ⟨st', outs⟩ := p
      obtain ⟨k, hk, hm, hf⟩ := ih (b + 1) st'
      refine ⟨k + 1, by omega, ?_, ?_⟩
      · simp only [List.map_cons, hm, List.range'_succ]
      · intro h; have := hf h; omega

theorem linear_increasing (w : World) (md : Nat) (output : Bytes) (start stop : Nat) :
    Increasing (linearSpec w md output start stop).1 := by
  unfold linearSpec Increasing
  simp only
  generalize hu : usedMods w output = u
  generalize hl : u.foldl (fun acc m => min acc m.init) start = lowest
  obtain ⟨k, _, hm, _⟩ := runBlocks_nums u md (stop - lowest) lowest ⟨[]⟩
  have hp : (runBlocks u md (stop - lowest) lowest ⟨[]⟩).blocks.Pairwise (fun a b => a.1 < b.1) := by
    have : ((runBlocks u md (stop - lowest) lowest ⟨[]⟩).blocks.map (·.1)).Pairwise (· < ·) := by
      rw [hm]; exact List.pairwise_lt_range'
    exact (List.pairwise_map.1 this)
  apply List.Pairwise.map (R := fun a b => a.1 < b.1)
  · intro a b h; exact h
  · exact hp.filter _

/-! ### Non-vacuity -/

def demoLin : List (Nat × Option Bytes) :=
  [(5, some [1]), (6, none), (7, some []), (8, some [2]), (9, none), (10, some [3]), (11, none)]

example : Increasing demoLin := by unfold Increasing demoLin; decide
example : deliver demoLin ⟨6, 11, 8⟩ = [⟨7, []⟩, ⟨8, [2]⟩, ⟨9, []⟩, ⟨10, [3]⟩] := by decide
example : deliver demoLin ⟨9, 11, 8⟩ = (deliver demoLin ⟨6, 11, 8⟩).filter (fun m => decide (8 < m.num)) := by decide

end SV.C04

import Lemmas.Plan
/-!
# C12 — Request resolution and planning cover the requested range exactly

Property theorems only (model: `Model/Resolve.lean`, `Model/Plan.lean`; helper lemmas:
`Lemmas/Plan.lean`; segment arithmetic reused from C13).  All statements are for **every** segment size
`> 0`, every first streamable block, every list of store initial blocks (any length, any order), every
start / stop / final block, every cursor and resolver answer — no bound.

Setting of most theorems: `hd : buildRequestDetails env m req = .ok (d, u)` (what
`pipeline.BuildRequestDetails` returned) and `hp : planOfDetails env m d = .ok p` (what
`plan.BuildTier1RequestPlan` returned when called the way `Tier1Service.blocks` calls it).
`m.reqStores` is the list of required stores: the stores the output module depends on plus the output module
itself when it is of kind store (`StoresDownTo`).  `tier1_ok` shows that a successful `tier1` run provides both, plus the two side conditions some theorems
name: `m.graphOk env.fsb` (`exec.NewOutputModuleGraph` accepted the modules) and `m.out ≤ d.start`
(`ValidateRequestStartBlock` passed).
-/
namespace SV.C12
open SV SV.Resolve SV.Plan

/-- block `b` is read from cached outputs -/
def inRead (p : Plan) (b : Nat) : Prop := ∃ r, p.readExecOut = some r ∧ r.start ≤ b ∧ b < r.stop
/-- block `b` is processed by the linear pipeline (an end block of 0 means "no end") -/
def inLinear (p : Plan) (b : Nat) : Prop :=
  ∃ r, p.linear = some r ∧ r.start ≤ b ∧ (r.stop = 0 ∨ b < r.stop)
/-- block `b` was requested: `[start, stop)`, `stop = 0` meaning "no end" -/
def requested (d : Details) (b : Nat) : Prop := d.start ≤ b ∧ (d.stop = 0 ∨ b < d.stop)

variable {env : Env} {m : Mods} {req : Request} {d : Details} {u : Option Undo} {p : Plan}

/-! ### what a successful run of the tier-1 prelude provides -/

/-- A plan is only produced after the graph was accepted, the prelude normalised the start block,
`BuildRequestDetails` succeeded, start ≠ stop, the start block is not below the output module's initial
block, and `BuildTier1RequestPlan` succeeded. -/
theorem tier1_ok {o : Outcome} (h : tier1 env m req = .ok o) :
    m.graphOk env.fsb = true ∧
    ∃ sn, normalizeStart env.fsb req.startNum req.stop = .ok sn ∧
      buildRequestDetails env m { req with startNum := sn } = .ok (o.d, o.undo) ∧
      ¬(o.d.start = req.stop ∧ req.stop ≠ 0) ∧ m.out ≤ o.d.start ∧
      planOfDetails env m o.d = .ok o.plan := by
  unfold tier1 at h
  split at h
  · simp at h
  · rename_i hg
    refine ⟨by simpa using hg, ?_⟩
    cases hn : normalizeStart env.fsb req.startNum req.stop with
    | error e => rw [hn] at h; simp [bind, Except.bind] at h
    | ok sn =>
      rw [hn] at h
      simp only [bind, Except.bind] at h
      refine ⟨sn, rfl, ?_⟩
      cases hb : buildRequestDetails env m { req with startNum := sn } with
      | error e => rw [hb] at h; simp at h
      | ok du =>
        obtain ⟨d', u'⟩ := du
        rw [hb] at h
        simp only [] at h
        split at h
        · simp at h
        · rename_i hss
          unfold Mods.validateRequestStartBlock at h
          split at h
          · simp at h
          · rename_i hv
            cases hpl : planOfDetails env m d' with
            | error e => rw [hpl] at h; simp at h
            | ok p' =>
              rw [hpl] at h
              simp only [Except.ok.injEq] at h
              subst h
              refine ⟨rfl, hss, ?_, hpl⟩
              have hv' : ¬ d'.start < m.out := by
                intro hc; rw [if_pos hc] at hv; simp at hv
              show m.out ≤ d'.start
              omega

/-! ### (a) the plan partitions the requested range -/

/-- `ReadExecOut = [start, min(handoff, stop))` exactly in production mode with the start block below the
hand-off (else `nil`); `stop = 0` means "no end". -/
theorem read_execout_eq (hp : planOfDetails env m d = .ok p) :
    p.readExecOut = (if d.production = true ∧ d.start < d.handoff
      then some ⟨d.start, if d.stop ≠ 0 ∧ d.stop < d.handoff then d.stop else d.handoff⟩ else none) :=
  (buildPlan_ok hp).2.2.2.2.1

/-- `LinearPipeline = [handoff, stop)` exactly when `handoff < stop ∨ stop = 0` (else `nil`). -/
theorem linear_pipeline_eq (hp : planOfDetails env m d = .ok p) :
    p.linear = (if d.handoff < d.stop ∨ d.stop = 0 then some ⟨d.handoff, d.stop⟩ else none) := by
  rw [(buildPlan_ok hp).2.2.1]
  by_cases h1 : d.handoff < d.stop
  · simp [h1]
  · by_cases h2 : d.stop = 0
    · simp [h2]
    · have : ¬ d.handoff = 0 := by omega
      simp [h1, h2, this]

/-- The gate is `max(start, handoff)`. -/
theorem gate_eq (hd : buildRequestDetails env m req = .ok (d, u)) : d.gate = max d.start d.handoff := by
  obtain ⟨r, _, _, _, _, _, _, _, _, _, hgate, _⟩ := buildRequestDetails_ok hd
  rw [hgate]; simp only [Nat.max_def]; split <;> split <;> omega

/-- In development mode the hand-off is never above the start block (nothing is read from cache there). -/
theorem dev_handoff_le_start (hd : buildRequestDetails env m req = .ok (d, u))
    (hdev : d.production = false) : d.handoff ≤ d.start := by
  obtain ⟨r, _, hs, _, _, hprod, _, _, _, hh, _, _⟩ := buildRequestDetails_ok hd
  rw [hh, hs]
  rw [hprod] at hdev
  simp only [computeLinearHandoffP, hdev]
  have a := sub_mod_le r.start env.seg
  cases hsra : reprocStateRequired r.start m.reqStores with
  | none => simp
  | some x =>
    have := (reproc_some hsra).2.1
    cases env.final with
    | none =>
      simp only [Option.getD_some]
      repeat' split
      all_goals first | omega | simp_all
    | some lib =>
      have b := sub_mod_le lib env.seg
      simp only [Option.getD_some]
      repeat' split
      all_goals first | omega | simp_all

/-- **No gap, no overlap.**  The blocks delivered — those read from cached outputs plus those of the linear
pipeline at or above the gate — are exactly the requested blocks `[start, stop)`, and no block is delivered
by both. -/
theorem plan_partition (hd : buildRequestDetails env m req = .ok (d, u))
    (hp : planOfDetails env m d = .ok p) (b : Nat) :
    ((inRead p b ∨ (inLinear p b ∧ d.gate ≤ b)) ↔ requested d b) ∧
    ¬(inRead p b ∧ inLinear p b ∧ d.gate ≤ b) := by
  have hr := read_execout_eq hp
  have hl := linear_pipeline_eq hp
  have hg := gate_eq hd
  have hdev := dev_handoff_le_start hd
  unfold inRead inLinear requested
  rw [hr, hl, hg]
  cases hprod : d.production with
  | false =>
    have := hdev hprod
    simp only [Bool.false_eq_true, false_and, ite_false, reduceCtorEq, false_and, exists_false, false_or]
    by_cases h1 : d.handoff < d.stop ∨ d.stop = 0
    · simp only [h1, ite_true, Option.some.injEq]
      constructor
      · constructor
        · rintro ⟨⟨r, hr, h2, h3⟩, h4⟩
          subst hr; simp only [] at h2 h3
          have := Nat.le_max_left d.start d.handoff
          exact ⟨by omega, h3⟩
        · rintro ⟨h2, h3⟩
          exact ⟨⟨_, rfl, by simp only []; omega, h3⟩, by rw [Nat.max_eq_left this]; exact h2⟩
      · simp
    · simp only [h1, ite_false, reduceCtorEq, false_and, exists_false]
      constructor
      · constructor
        · simp
        · rintro ⟨h2, h3⟩; omega
      · simp
  | true =>
    by_cases hlt : d.start < d.handoff
    · simp only [hlt, and_self, ite_true, Option.some.injEq]
      rw [Nat.max_eq_right (by omega)]
      by_cases h1 : d.handoff < d.stop ∨ d.stop = 0
      · have hns : ¬(d.stop ≠ 0 ∧ d.stop < d.handoff) := by omega
        simp only [h1, hns, ite_true, ite_false, Option.some.injEq]
        constructor
        · constructor
          · rintro (⟨r, hr, h2, h3⟩ | ⟨⟨r, hr, h2, h3⟩, h4⟩)
            · subst hr; simp only [] at h2 h3; exact ⟨h2, by omega⟩
            · subst hr; simp only [] at h2 h3; exact ⟨by omega, h3⟩
          · rintro ⟨h2, h3⟩
            by_cases hb : b < d.handoff
            · exact Or.inl ⟨_, rfl, h2, hb⟩
            · exact Or.inr ⟨⟨_, rfl, by simp only []; omega, h3⟩, by omega⟩
        · rintro ⟨⟨r, hr, h2, h3⟩, _, h5⟩
          subst hr; simp only [] at h3; omega
      · simp only [h1, ite_false, reduceCtorEq, false_and, exists_false, or_false]
        constructor
        · constructor
          · rintro ⟨r, hr, h2, h3⟩
            subst hr; simp only [] at h2 h3
            refine ⟨h2, ?_⟩
            split at h3 <;> omega
          · rintro ⟨h2, h3⟩
            refine ⟨_, rfl, h2, ?_⟩
            simp only []
            split <;> omega
        · simp
    · simp only [hlt, and_false, ite_false, reduceCtorEq, false_and, exists_false, false_or]
      rw [Nat.max_eq_left (by omega)]
      by_cases h1 : d.handoff < d.stop ∨ d.stop = 0
      · simp only [h1, ite_true, Option.some.injEq]
        constructor
        · constructor
          · rintro ⟨⟨r, hr, h2, h3⟩, h4⟩
            subst hr; simp only [] at h3; exact ⟨h4, h3⟩
          · rintro ⟨h2, h3⟩
            exact ⟨⟨_, rfl, by simp only []; omega, h3⟩, h2⟩
        · simp
      · simp only [h1, ite_false, reduceCtorEq, false_and, exists_false]
        constructor
        · constructor
          · simp
          · rintro ⟨h2, h3⟩; omega
        · simp

/-! ### (b) stores are built exactly up to the hand-off -/

/-- `BuildStores` is set iff some required store (`m.reqStores`: the stores the output module depends on and,
when it is itself a store, the output module) has its (effective) initial block below the hand-off — a
store that has to be back-filled —; it then starts at the lowest store initial block and ends at the
hand-off, never past it. -/
theorem stores_up_to_handoff (hp : planOfDetails env m d = .ok p) (hg : m.graphOk env.fsb = true) :
    (p.buildStores ≠ none ↔ ∃ s ∈ m.reqStores, mapInit env.fsb s < d.handoff) ∧
    (∀ r, p.buildStores = some r →
      r.stop = d.handoff ∧ (∃ s ∈ m.reqStores, mapInit env.fsb s = r.start) ∧
      ∀ s ∈ m.reqStores, r.start ≤ mapInit env.fsb s) := by
  have hb := buildPlan_ok hp
  have hbs := hb.2.2.2.1
  cases hls : m.lowestStoresInitBlock env.fsb with
  | none =>
    have hnil := (lowestStores_none_iff env.fsb m).1 hls
    have : m.scheduleStores = false := by simp [Mods.scheduleStores, hnil]
    rw [this] at hbs
    simp only [Bool.false_eq_true, false_and, and_false, ite_false] at hbs
    rw [hbs, hnil]; simp
  | some ls =>
    have hne : m.reqStores ≠ [] := fun hc => by
      rw [(lowestStores_none_iff env.fsb m).2 hc] at hls; simp at hls
    have hss : m.scheduleStores = true := by
      simp only [Mods.scheduleStores, Bool.not_eq_true', List.isEmpty_eq_false_iff]; exact hne
    have hspec := lowestStores_spec env.fsb m hg ls hls
    have hli := lowestInit_le_lowestStores env.fsb m ls hls
    rw [hls, hss] at hbs
    simp only [Option.getD_some, true_and] at hbs
    by_cases hcond : ¬(d.start = d.handoff ∧ m.lowestInitBlock env.fsb = d.start) ∧ d.handoff > ls
    · rw [if_pos hcond] at hbs
      rw [hbs]
      refine ⟨⟨fun _ => ?_, fun _ => by simp⟩, ?_⟩
      · obtain ⟨s, hs, he⟩ := hspec.1
        exact ⟨s, hs, by omega⟩
      · intro r hr
        injection hr with hr; subst hr
        exact ⟨rfl, hspec.1, hspec.2⟩
    · rw [if_neg hcond] at hbs
      rw [hbs]
      refine ⟨⟨fun h => absurd rfl h, ?_⟩, by simp⟩
      rintro ⟨s, hs, hlt⟩
      have := hspec.2 s hs
      exfalso; apply hcond
      refine ⟨?_, by omega⟩
      rintro ⟨h1, h2⟩; omega

/-! ### (c) the hand-off is a segment boundary whenever something is back-filled up to it

Checked against every return path of `computeLinearHandoffBlockNum` (`handoff_cases`): the paths that do
not return a boundary are `return startBlock` (production with the start above the final block's boundary and
no store below the start; development with no store below the start) and development's
`return *stateRequiredAt` (the lowest store starts above the previous boundary).  On all three the
hand-off is at or below every store's initial block, so nothing is back-filled: the statement holds on HEAD
without any guard (it did not before `fix: reprocStateRequired returns the lowest store initial block …`). -/
theorem handoff_on_boundary (hd : buildRequestDetails env m req = .ok (d, u))
    (hp : planOfDetails env m d = .ok p) (hseg : 0 < env.seg)
    (h : p.buildStores ≠ none ∨ p.writeExecOut ≠ none) : d.handoff % env.seg = 0 := by
  obtain ⟨r, _, hs, _, _, hprod, _, _, _, hh, _, _⟩ := buildRequestDetails_ok hd
  have hb := buildPlan_ok hp
  have hbs := hb.2.2.2.1
  have hw := hb.2.2.2.2.2.1
  have hc := handoff_cases req.production r.start req.stop env.final
    (reprocStateRequired r.start m.reqStores) env.seg hseg
  simp only [] at hc
  rw [← hh, ← hs] at hc
  -- a lower bound `x ≤ every store` with `handoff ≤ x` rules out BuildStores
  have noStores : ∀ x, (∀ s ∈ m.reqStores, x ≤ s) → d.handoff ≤ x → p.buildStores = none := by
    intro x hx hle
    rw [hbs]
    cases hls : m.lowestStoresInitBlock env.fsb with
    | none =>
      have hnil := (lowestStores_none_iff env.fsb m).1 hls
      simp [Mods.scheduleStores, hnil]
    | some ls =>
      have := lowestStores_ge_raw env.fsb m ls x hls hx
      simp only [Option.getD_some]
      rw [if_neg]; omega
  rcases hc with hc | ⟨heq, hsra⟩ | ⟨hdev, hsra, hle⟩
  · exact hc
  · exfalso
    rcases hsra with hsra | ⟨x, hsra, hx⟩
    · have h1 := noStores d.start (reproc_none hsra) (by omega)
      have h2 : p.writeExecOut = none := hw.2 (by omega)
      rcases h with h | h <;> contradiction
    · have := (reproc_some hsra).2.1; omega
  · exfalso
    have h1 := noStores d.handoff (reproc_some hsra).2.2 (Nat.le_refl _)
    have h2 : p.writeExecOut = none := hw.2 (by rw [hprod, hdev]; simp)
    rcases h with h | h <;> contradiction

/-- **What the hand-off is, on every return path** (the precise statement behind `handoff_on_boundary`):
a segment boundary; or the start block itself, with no required store below it; or — development mode only —
the initial block of the lowest required store, which lies below the start block and above the start block's
segment boundary.  In the last two cases no required store starts below the hand-off. -/
theorem handoff_value (hd : buildRequestDetails env m req = .ok (d, u)) (hseg : 0 < env.seg) :
    d.handoff % env.seg = 0 ∨
    (d.handoff = d.start ∧ ∀ s ∈ m.reqStores, d.start ≤ s) ∨
    (d.production = false ∧ d.handoff ∈ m.reqStores ∧ d.handoff < d.start ∧
      d.start - d.start % env.seg < d.handoff ∧ ∀ s ∈ m.reqStores, d.handoff ≤ s) := by
  obtain ⟨r, _, hs, _, _, hprod, _, _, _, hh, _, _⟩ := buildRequestDetails_ok hd
  have hc := handoff_cases req.production r.start req.stop env.final
    (reprocStateRequired r.start m.reqStores) env.seg hseg
  simp only [] at hc
  rcases hc with hc | ⟨heq, hsra⟩ | ⟨hdev, hsra, hle⟩
  · left; rw [hh]; exact hc
  · right; left
    rcases hsra with hsra | ⟨x, hsra, hx⟩
    · exact ⟨by rw [hh, hs]; exact heq, by rw [hs]; exact reproc_none hsra⟩
    · have := (reproc_some hsra).2.1; omega
  · by_cases hb : d.handoff % env.seg = 0
    · exact Or.inl hb
    · right; right
      have hsp := reproc_some hsra
      rw [← hh] at hsra hsp hle
      refine ⟨by rw [hprod]; exact hdev, hsp.1, by rw [hs]; exact hsp.2.1, ?_, hsp.2.2⟩
      -- not a boundary, so it came from `return *stateRequiredAt`, taken only above the previous boundary
      rw [hs]
      apply Nat.lt_of_not_le; intro hcontra
      apply hb
      have hv : d.handoff = (computeLinearHandoffP req.production r.start req.stop env.final
          (reprocStateRequired r.start m.reqStores) env.seg).2 := hh
      rw [hdev, hsra] at hv
      simp only [computeLinearHandoffP, Bool.false_eq_true, ite_false, Option.getD_some] at hv
      have hle' : d.handoff ≤ r.start := by omega
      simp only [hle', decide_true, Bool.not_true, Bool.false_eq_true, ite_false] at hv
      rw [if_neg (by omega)] at hv
      cases hf : env.final with
      | none => rw [hf] at hv; simp only [] at hv; rw [hv]; exact sub_mod_mod _ _
      | some lib =>
        rw [hf] at hv; simp only [] at hv
        split at hv
        · rw [hv]; exact sub_mod_mod _ _
        · rw [hv]; exact sub_mod_mod _ _

/-- **The hand-off does not depend on the order of the modules in the request** (the regression fixed by
`fix: reprocStateRequired returns the lowest store initial block below the start block`). -/
theorem handoff_independent_of_module_order (start : Nat) (l l' : List Nat) (h : l.Perm l') :
    reprocStateRequired start l = reprocStateRequired start l' := by
  cases h1 : reprocStateRequired start l with
  | none =>
    cases h2 : reprocStateRequired start l' with
    | none => rfl
    | some y =>
      have a := reproc_some h2
      have := reproc_none h1 y (h.mem_iff.2 a.1)
      omega
  | some x =>
    have a := reproc_some h1
    cases h2 : reprocStateRequired start l' with
    | none =>
      have := reproc_none h2 x (h.mem_iff.1 a.1)
      omega
    | some y =>
      have b := reproc_some h2
      have := a.2.2 y (h.mem_iff.2 b.1)
      have := b.2.2 x (h.mem_iff.1 a.1)
      congr 1; omega

/-! ### (d) whole segments -/

/-- `WriteExecOut` ends at the hand-off (a boundary) and starts at the start of the segment that contains the
start block: the segment's boundary, or the lowest initial block of the graph when that lies inside this
segment. -/
theorem write_execout_whole_segments (hd : buildRequestDetails env m req = .ok (d, u))
    (hp : planOfDetails env m d = .ok p) (hseg : 0 < env.seg) (w : Range)
    (hw : p.writeExecOut = some w) :
    w.stop = d.handoff ∧ d.handoff % env.seg = 0 ∧
    w.start = max (m.lowestInitBlock env.fsb) (d.start / env.seg * env.seg) ∧
    w.start ≤ d.start ∧ d.start < w.start / env.seg * env.seg + env.seg ∧ d.start < d.handoff := by
  have hb := buildPlan_ok hp
  have hbound := handoff_on_boundary hd hp hseg (Or.inr (by rw [hw]; simp))
  obtain ⟨hstop, r, hr, hstart⟩ := hb.2.2.2.2.2.2 w hw
  have hli := hb.1
  have hlt : d.start < d.handoff := by
    have := hb.2.2.2.2.2.1
    apply Classical.byContradiction; intro hc
    have := this.2 (fun h => hc h.2)
    rw [hw] at this; simp at this
  rw [Nat.max_eq_left hli] at hr
  have hidx : m.lowestInitBlock env.fsb / env.seg ≤ d.start / env.seg := Nat.div_le_div_right hli
  have hrs := goRange_start hseg hr hidx
  have a := div_mul_le' d.start env.seg
  have b := lt_div_succ_mul d.start env.seg hseg
  rw [Nat.add_mul, Nat.one_mul] at b
  have hws : w.start = max (m.lowestInitBlock env.fsb) (d.start / env.seg * env.seg) := by
    rw [hstart, hrs]
  refine ⟨hstop, hbound, hws, ?_, ?_, hlt⟩
  · rw [hws]; exact Nat.max_le.2 ⟨hli, a⟩
  · have h1 : d.start / env.seg * env.seg ≤ w.start := by rw [hws]; exact Nat.le_max_right _ _
    have h2 : d.start / env.seg ≤ w.start / env.seg := by
      have := Nat.div_le_div_right (c := env.seg) h1
      rwa [Nat.mul_div_cancel _ hseg] at this
    have h3 : d.start / env.seg * env.seg ≤ w.start / env.seg * env.seg := Nat.mul_le_mul_right _ h2
    omega

/-- Both kinds of stage take their segmenter from a plan range that ends at the hand-off, and whenever such a
range exists the hand-off is a positive multiple of the segment size. -/
theorem stage_segmenter_ends_at_handoff (hd : buildRequestDetails env m req = .ok (d, u))
    (hp : planOfDetails env m d = .ok p) (hseg : 0 < env.seg) (k : Plan.StageKind) (ks : Segmenter)
    (hks : p.kindSegmenter k = some ks) :
    ks.interval = env.seg ∧ ks.end_ = d.handoff ∧ d.handoff % env.seg = 0 ∧ 0 < d.handoff := by
  have hb := buildPlan_ok hp
  have hpseg : p.seg = env.seg := hb.2.1
  cases k with
  | store =>
    simp only [Plan.kindSegmenter, Plan.storesSegmenter] at hks
    cases hbs : p.buildStores with
    | none => rw [hbs] at hks; simp at hks
    | some r0 =>
      rw [hbs] at hks
      simp only [Option.map_some, Option.some.injEq] at hks
      have hbound := handoff_on_boundary hd hp hseg (Or.inl (by rw [hbs]; simp))
      have hform := hb.2.2.2.1
      rw [hbs] at hform
      split at hform
      · rename_i hcond
        injection hform with hform
        subst hks; subst hform
        exact ⟨hpseg, rfl, hbound, by omega⟩
      · simp at hform
  | map =>
    simp only [Plan.kindSegmenter, Plan.writeOutSegmenter] at hks
    cases hws : p.writeExecOut with
    | none => rw [hws] at hks; simp at hks
    | some w =>
      rw [hws] at hks
      simp only [Option.map_some, Option.some.injEq] at hks
      have hw := write_execout_whole_segments hd hp hseg w hws
      subst hks
      exact ⟨hpseg, hw.1, hw.2.1, by omega⟩

/-- Closed form of a stage's unit (C13's `range_closed_form` at a hand-off that is a boundary): inside the index
range of the stage segmenter `WithInitialBlock(mapInit fsb raw)`, unit `idx` is
`[max(idx·seg, first streamable, raw), (idx+1)·seg)` — what tier 2 recomputes. -/
theorem stage_unit_range (hd : buildRequestDetails env m req = .ok (d, u))
    (hp : planOfDetails env m d = .ok p) (hseg : 0 < env.seg) (k : Plan.StageKind) (ks : Segmenter)
    (hks : p.kindSegmenter k = some ks) (raw idx : Nat) (hraw : raw = 0 ∨ env.fsb ≤ raw)
    (h1 : (⟨ks.interval, mapInit env.fsb raw, ks.end_⟩ : Segmenter).firstIndex ≤ idx)
    (h2 : idx ≤ (⟨ks.interval, mapInit env.fsb raw, ks.end_⟩ : Segmenter).lastIndex) :
    (⟨ks.interval, mapInit env.fsb raw, ks.end_⟩ : Segmenter).range? idx
        = some (tier2Range env.seg env.fsb idx raw) ∧
    (tier2Range env.seg env.fsb idx raw).start = max (mapInit env.fsb raw) (idx * env.seg) ∧
    (tier2Range env.seg env.fsb idx raw).stop = (idx + 1) * env.seg ∧
    (tier2Range env.seg env.fsb idx raw).start / env.seg = idx ∧
    (tier2Range env.seg env.fsb idx raw).stop ≤ d.handoff := by
  obtain ⟨hi, he, hmod, hpos⟩ := stage_segmenter_ends_at_handoff hd hp hseg k ks hks
  rw [hi, he] at h1 h2 ⊢
  simp only [Segmenter.firstIndex, Segmenter.lastIndex] at h1 h2
  have hpd := pred_div_of_mod_zero d.handoff env.seg hseg hmod hpos
  have hdm : d.handoff / env.seg * env.seg = d.handoff := by
    have := Nat.div_add_mod d.handoff env.seg; rw [hmod, Nat.add_zero, Nat.mul_comm] at this; exact this
  have hlt : mapInit env.fsb raw < d.handoff := by
    apply Nat.lt_of_not_le; intro hc
    have := Nat.div_le_div_right (c := env.seg) hc
    omega
  have hle : (idx + 1) * env.seg ≤ d.handoff := by
    have : (idx + 1) * env.seg ≤ d.handoff / env.seg * env.seg := Nat.mul_le_mul_right _ (by omega)
    omega
  have hcf := Segmenter.range?_eq ⟨env.seg, mapInit env.fsb raw, d.handoff⟩ hseg hlt idx h1 h2
  have a := lt_div_succ_mul (mapInit env.fsb raw) env.seg hseg
  have b : (mapInit env.fsb raw / env.seg + 1) * env.seg ≤ (idx + 1) * env.seg :=
    Nat.mul_le_mul_right _ (by omega)
  have e : (idx + 1) * env.seg = idx * env.seg + env.seg := by rw [Nat.add_mul, Nat.one_mul]
  have hmi := mapInit_ge env.fsb raw hraw
  have hrm := raw_le_mapInit env.fsb raw
  have hval : (⟨max (mapInit env.fsb raw) (idx * env.seg), min ((idx + 1) * env.seg) d.handoff⟩ : Range)
      = tier2Range env.seg env.fsb idx raw := by
    simp only [tier2Range, tier2StartBlock, tier2StopBlock, mapInit, Range.mk.injEq] at *
    constructor
    · simp only [Nat.max_def]; repeat' split
      all_goals omega
    · rw [Nat.min_eq_left hle]; omega
  simp only [] at hcf
  rw [hval] at hcf
  refine ⟨hcf, ?_, ?_, ?_, ?_⟩
  · rw [← hval]
  · rw [← hval]; simp only []; exact Nat.min_eq_left hle
  · apply (div_eq_iff' _ _ _ hseg).2
    rw [← hval]; simp only []
    constructor
    · exact Nat.le_max_right _ _
    · apply Nat.max_lt.2; constructor <;> omega
  · rw [← hval]; simp only []; exact Nat.min_le_right _ _

/-- **Every unit handed to a job is a whole tier-2 segment.**  For a stage of either kind whose lowest module
has raw initial block `raw` (so `NewStages` gives it `WithInitialBlock(mapInit fsb raw)`; the same holds for
the per-module segmenters): whenever `NextJob` hands out unit `idx` with range `r`, then `r` is exactly the
range the tier-2 job recomputes from `(SegmentNumber, SegmentSize)` clipped at the module's initial block,
the segment number `work.NewRequest` derives from `r`'s start block is `idx`, `r` ends at or below the
hand-off, and the nil-range dereference in `NextJob` is unreachable. -/
theorem jobs_are_whole_segments (hd : buildRequestDetails env m req = .ok (d, u))
    (hp : planOfDetails env m d = .ok p) (hseg : 0 < env.seg)
    (k : Plan.StageKind) (raw idx : Nat) (hraw : raw = 0 ∨ env.fsb ≤ raw) :
    p.unitOutcome k (mapInit env.fsb raw) idx ≠ .nilRange ∧
    ∀ r, p.unitOutcome k (mapInit env.fsb raw) idx = .job r →
      r = tier2Range env.seg env.fsb idx raw ∧ segmentNumberOf env.seg r = idx ∧
      r.stop ≤ d.handoff := by
  unfold Plan.unitOutcome
  cases hg : p.backprocessSegmenter with
  | none => simp
  | some g =>
    cases hk : p.kindSegmenter k with
    | none => simp
    | some ks =>
      simp only []
      have hkey := stage_unit_range hd hp hseg k ks hk raw idx hraw
      split
      · simp
      · split
        · simp
        · split
          · simp
          · split
            · simp
            · rename_i h3 h4
              obtain ⟨hr, _, _, hsn, hle⟩ := hkey (by omega) (by omega)
              rw [hr]
              simp only []
              split
              · simp
              · refine ⟨by simp, ?_⟩
                intro r hr'
                injection hr' with hr'; subst hr'
                exact ⟨rfl, hsn, hle⟩

/-- **The jobs cover what has to be built.**  Every block from the stage's initial block (and the start of the
plan range the stage works on: `BuildStores.start` / `WriteExecOut.start`) up to the hand-off lies in the
range of the unit `NextJob` hands out for its segment — so the stores are built, and the mapper output
written, for every block below the hand-off, by whole-segment jobs only. -/
theorem jobs_cover (hd : buildRequestDetails env m req = .ok (d, u))
    (hp : planOfDetails env m d = .ok p) (hseg : 0 < env.seg)
    (k : Plan.StageKind) (ks : Segmenter) (hk : p.kindSegmenter k = some ks)
    (raw : Nat) (hraw : raw = 0 ∨ env.fsb ≤ raw) (b : Nat)
    (h1 : ks.init ≤ b) (h2 : mapInit env.fsb raw ≤ b) (h3 : b < d.handoff) :
    ∃ r, p.unitOutcome k (mapInit env.fsb raw) (b / env.seg) = .job r ∧ r.start ≤ b ∧ b < r.stop := by
  obtain ⟨hi, he, hmod, hpos⟩ := stage_segmenter_ends_at_handoff hd hp hseg k ks hk
  have hfirst : (⟨ks.interval, mapInit env.fsb raw, ks.end_⟩ : Segmenter).firstIndex ≤ b / env.seg := by
    simp only [Segmenter.firstIndex, hi]; exact Nat.div_le_div_right h2
  have hlast : b / env.seg ≤ (⟨ks.interval, mapInit env.fsb raw, ks.end_⟩ : Segmenter).lastIndex := by
    simp only [Segmenter.lastIndex, hi, he]; exact Nat.div_le_div_right (by omega)
  obtain ⟨hr, hstart, hstop, hsn, hle⟩ :=
    stage_unit_range hd hp hseg k ks hk raw (b / env.seg) hraw hfirst hlast
  have hb1 := div_mul_le' b env.seg
  have hb2 := lt_div_succ_mul b env.seg hseg
  have hksfirst : ks.firstIndex ≤ b / env.seg := by
    simp only [Segmenter.firstIndex, hi]; exact Nat.div_le_div_right h1
  -- the global (back-process) segmenter contains the stage's base segmenter
  have hglob : ∃ g, p.backprocessSegmenter = some g ∧ g.firstIndex ≤ ks.firstIndex ∧
      b / env.seg ≤ g.lastIndex := by
    have hS := stage_segmenter_ends_at_handoff hd hp hseg .store
    have hM := stage_segmenter_ends_at_handoff hd hp hseg .map
    have hpseg : p.seg = env.seg := (buildPlan_ok hp).2.1
    simp only [Plan.kindSegmenter, Plan.storesSegmenter, Plan.writeOutSegmenter] at hS hM hk
    unfold Plan.backprocessSegmenter
    simp only [Plan.storesSegmenter, Plan.writeOutSegmenter]
    cases hbs : p.buildStores with
    | none =>
      rw [hbs] at hk
      cases hws : p.writeExecOut with
      | none => cases k <;> simp [hws] at hk
      | some w =>
        cases k with
        | store => simp at hk
        | map =>
          rw [hws] at hk
          simp only [Option.map_some, Option.some.injEq] at hk
          refine ⟨_, rfl, ?_, ?_⟩
          · rw [← hk]; exact Nat.le_refl _
          · have := hlast
            simp only [Segmenter.lastIndex] at this ⊢
            rw [← hk] at this; exact this
    | some s =>
      rw [hbs] at hk hS
      have hs := hS _ rfl
      cases hws : p.writeExecOut with
      | none =>
        cases k with
        | map => simp [hws] at hk
        | store =>
          simp only [Option.map_some, Option.some.injEq] at hk
          refine ⟨_, rfl, ?_, ?_⟩
          · rw [← hk]; exact Nat.le_refl _
          · have := hlast
            simp only [Segmenter.lastIndex] at this ⊢
            rw [← hk] at this; exact this
      | some w =>
        rw [hws] at hM hk
        have hw := hM _ rfl
        simp only [] at hs hw
        refine ⟨_, rfl, ?_, ?_⟩
        · simp only [Segmenter.firstIndex, hpseg, hi]
          apply Nat.div_le_div_right
          cases k with
          | store =>
            simp only [Option.map_some, Option.some.injEq] at hk
            rw [← hk]; exact Nat.min_le_left _ _
          | map =>
            simp only [Option.map_some, Option.some.injEq] at hk
            rw [← hk]; exact Nat.min_le_right _ _
        · simp only [Segmenter.lastIndex, hpseg]
          rw [hs.2.1, hw.2.1, Nat.max_self]
          exact Nat.div_le_div_right (by omega)
  obtain ⟨g, hg, hg1, hg2⟩ := hglob
  refine ⟨tier2Range env.seg env.fsb (b / env.seg) raw, ?_, ?_, ?_⟩
  · unfold Plan.unitOutcome
    rw [hg, hk]
    simp only []
    rw [if_neg (by omega), if_neg (by omega), if_neg (by omega), if_neg (by omega), hr]
    simp only []
    rw [if_neg]
    rw [hstart, hstop]
    have : max (mapInit env.fsb raw) (b / env.seg * env.seg) ≤ b := Nat.max_le.2 ⟨h2, hb1⟩
    omega
  · rw [hstart]; exact Nat.max_le.2 ⟨h2, hb1⟩
  · rw [hstop]; exact hb2

/-- **Producer and consumer agree on every file.**  The segmenter the cached-output reader walks
(`ReadOutSegmenter(outputModuleInitialBlock)`) yields, for each of its indexes, exactly the range under which
the tier-2 job of that segment wrote the output module's file. -/
theorem read_out_matches_tier2 (hd : buildRequestDetails env m req = .ok (d, u))
    (hp : planOfDetails env m d = .ok p) (hseg : 0 < env.seg) (hg : m.graphOk env.fsb = true)
    (hv : m.out ≤ d.start) (s : Segmenter)
    (hs : p.readOutSegmenter (mapInit env.fsb m.out) = some s) (idx : Nat)
    (h1 : s.firstIndex ≤ idx) (h2 : idx ≤ s.lastIndex) :
    s.range? idx = some (tier2Range env.seg env.fsb idx m.out) := by
  have hb := buildPlan_ok hp
  simp only [Plan.readOutSegmenter] at hs
  cases hws : p.writeExecOut with
  | none => rw [hws] at hs; simp at hs
  | some w =>
    rw [hws] at hs
    simp only [Option.map_some, Option.some.injEq] at hs
    obtain ⟨hstop, hmod, hstart, hle, _, hlt⟩ := write_execout_whole_segments hd hp hseg w hws
    have hg' := ((graphOk_iff env.fsb m).1 hg).1
    have hlo := lowestInit_le_out env.fsb m hg
    have hli := hb.1
    have hout : mapInit env.fsb m.out ≤ d.start := by
      unfold mapInit; split <;> omega
    have hinit : s.init = max w.start (mapInit env.fsb m.out) := by
      rw [← hs]; simp only [Nat.max_def]; split <;> split <;> omega
    have hi : s.interval = env.seg := by rw [← hs]; exact hb.2.1
    have he : s.end_ = d.handoff := by rw [← hs]; exact hstop
    have hinitlt : s.init < s.end_ := by
      rw [hinit, he]; exact Nat.max_lt.2 ⟨by omega, by omega⟩
    have hcf := Segmenter.range?_eq s (by omega) hinitlt idx h1 h2
    rw [hcf]
    simp only [Segmenter.firstIndex, Segmenter.lastIndex] at h1 h2
    rw [hi] at h1 h2 ⊢
    rw [he] at h2 ⊢
    have hpos : 0 < d.handoff := by omega
    have hpd := pred_div_of_mod_zero d.handoff env.seg hseg hmod hpos
    have hdm : d.handoff / env.seg * env.seg = d.handoff := by
      have := Nat.div_add_mod d.handoff env.seg; rw [hmod, Nat.add_zero, Nat.mul_comm] at this; exact this
    have hle2 : (idx + 1) * env.seg ≤ d.handoff := by
      have : (idx + 1) * env.seg ≤ d.handoff / env.seg * env.seg := Nat.mul_le_mul_right _ (by omega)
      omega
    have e : (idx + 1) * env.seg = idx * env.seg + env.seg := by rw [Nat.add_mul, Nat.one_mul]
    -- the segment boundary of the start block is at or below idx's boundary
    have hq : d.start / env.seg * env.seg ≤ idx * env.seg := by
      apply Nat.mul_le_mul_right
      have h3 : d.start / env.seg * env.seg ≤ s.init := by
        rw [hinit, hstart]
        exact Nat.le_trans (Nat.le_max_right _ _) (Nat.le_max_left _ _)
      have := Nat.div_le_div_right (c := env.seg) h3
      rw [Nat.mul_div_cancel _ hseg] at this
      omega
    have hmi := mapInit_ge env.fsb m.out hg'
    have hrm := raw_le_mapInit env.fsb m.out
    have hmc : mapInit env.fsb m.out = env.fsb ∨ mapInit env.fsb m.out = m.out := by
      unfold mapInit; split <;> simp
    rw [hinit, hstart]
    simp only [tier2Range, tier2StartBlock, tier2StopBlock, Option.some.injEq, Range.mk.injEq]
    constructor
    · have hlo1 := hlo.1
      have hlo2 := hlo.2
      simp only [Nat.max_def]; repeat' split
      all_goals omega
    · rw [Nat.min_eq_left hle2]; omega

/-! ### (e) an impossible request is answered with an error, never with a plan -/

/-- What makes a request impossible, as far as the request itself, the chain state and the resolver's answer
show it (the prelude of `Tier1Service.blocks` and `BuildRequestDetails` check these, in this order). -/
inductive Impossible (env : Env) (req : Request) : Prop
  | startBelowFirstStreamable (h : 0 < req.startNum ∧ req.startNum < (env.fsb : Int))
  | headUnknown (h : req.startNum < 0 ∧ env.head = none ∧ ¬(req.stop > 0 ∧ (req.stop : Int) + req.startNum < env.fsb))
  | malformedCursor (h : req.cursor = .malformed)
  | cursorPastStop (c : Cursor) (hc : req.cursor = .some c) (h : 0 < req.stop ∧ req.stop < c.block.num)
  | libAboveBlock (c : Cursor) (hc : req.cursor = .some c) (h : c.lib.num > c.block.num)
  | unresolvable (c : Cursor) (hc : req.cursor = .some c) (h : c.block.num ≠ c.lib.num ∧ env.resolver = .error)
  | finalUnknownOpenEnded (h : req.production = true ∧ env.final = none ∧ req.stop = 0)

theorem impossible_is_error (h : Impossible env req) : ∃ e, tier1 env m req = .error e := by
  cases ht : tier1 env m req with
  | error e => exact ⟨e, rfl⟩
  | ok o =>
    exfalso
    obtain ⟨_, sn, hn, hb, _, _, _⟩ := tier1_ok ht
    obtain ⟨r, hr, _, _, _, _, _, hne, _⟩ := buildRequestDetails_ok hb
    simp only [resolveStartBlockNum, bind, Except.bind] at hr
    cases h with
    | startBelowFirstStreamable h =>
      unfold normalizeStart at hn; rw [if_pos h] at hn; simp at hn
    | headUnknown h =>
      obtain ⟨h1, h2, h3⟩ := h
      have : sn = req.startNum := by
        unfold normalizeStart at hn
        rw [if_neg (by omega)] at hn
        by_cases h4 : req.stop > 0
        · rw [if_pos ⟨h1, h4⟩] at hn
          rw [if_neg (by intro hc; exact h3 ⟨h4, hc⟩)] at hn
          injection hn with hn; exact hn.symm
        · rw [if_neg (by omega)] at hn
          rw [if_neg (by omega)] at hn
          injection hn with hn; exact hn.symm
      subst this
      simp [resolveNegativeStart, h1, h2] at hr
    | malformedCursor h =>
      cases hneg : resolveNegativeStart env.head sn with
      | error e => rw [hneg] at hr; simp at hr
      | ok s => rw [hneg] at hr; simp [h] at hr
    | cursorPastStop c hc h =>
      cases hneg : resolveNegativeStart env.head sn with
      | error e => rw [hneg] at hr; simp at hr
      | ok s => rw [hneg] at hr; simp [hc, h] at hr
    | libAboveBlock c hc h =>
      cases hneg : resolveNegativeStart env.head sn with
      | error e => rw [hneg] at hr; simp at hr
      | ok s =>
        rw [hneg] at hr
        simp only [hc] at hr
        repeat' split at hr
        all_goals first | omega | (simp at hr; done)
    | unresolvable c hc h =>
      cases hneg : resolveNegativeStart env.head sn with
      | error e => rw [hneg] at hr; simp at hr
      | ok s =>
        rw [hneg] at hr
        simp only [hc, h.2] at hr
        split at hr
        · simp at hr
        · rw [if_neg h.1] at hr
          split at hr <;> simp at hr
    | finalUnknownOpenEnded h =>
      apply hne
      simp [computeLinearHandoffP, h.1, h.2.1, h.2.2]

/-- The impossible conditions that depend on the *resolved* start block: a plan is never produced for a start
block below the output module's initial block, below the lowest initial block of the graph, below the first
streamable block, or equal to a non-zero stop block. -/
theorem plan_implies_possible {o : Outcome} (h : tier1 env m req = .ok o) :
    m.out ≤ o.d.start ∧ mapInit env.fsb m.out ≤ o.d.start ∧ m.lowestInitBlock env.fsb ≤ o.d.start ∧
    env.fsb ≤ o.d.start ∧ ¬(o.d.start = req.stop ∧ req.stop ≠ 0) := by
  obtain ⟨hg, sn, _, _, hss, hv, hp⟩ := tier1_ok h
  have hli := (buildPlan_ok hp).1
  have hlo := lowestInit_le_out env.fsb m hg
  refine ⟨hv, ?_, hli, by omega, hss⟩
  unfold mapInit; split <;> omega

/-! ### (f) cursors -/

/-- **Forked cursor.**  A well-formed, non-final cursor for which the resolver names a junction block whose
number differs from the cursor's block: the answer carries an undo signal whose last valid block is the
junction (with a `new` cursor on the junction, keeping the cursor's LIB and taking the resolver's head), and
processing restarts right after the junction, `j + 1` — whatever the cursor's own step was. -/
theorem forked_cursor (c : Cursor) (j head : BlockRef) (sn : Int)
    (hc : req.cursor = .some c) (hneg : resolveNegativeStart env.head req.startNum = .ok sn)
    (hstop : ¬(req.stop > 0 ∧ req.stop < c.block.num))
    (hnf : c.block.num ≠ c.lib.num) (hlib : ¬ c.lib.num > c.block.num)
    (hres : env.resolver = .ok (some j) head) (hj : j.num ≠ c.block.num) :
    resolveStartBlockNum env req =
      .ok ⟨j.num + 1, some ⟨.new, j, c.lib, head⟩, some ⟨j, ⟨.new, j, c.lib, head⟩⟩, .forked⟩ := by
  simp [resolveStartBlockNum, bind, Except.bind, hneg, hc, hstop, hnf, hlib, hres, hj, startOfCursor,
    Step.matchesNew]

/-- The undo signal and the restart block reach the caller of `BuildRequestDetails` unchanged. -/
theorem forked_cursor_details (hd : buildRequestDetails env m req = .ok (d, u))
    (c : Cursor) (j head : BlockRef)
    (hc : req.cursor = .some c) (hstop : ¬(req.stop > 0 ∧ req.stop < c.block.num))
    (hnf : c.block.num ≠ c.lib.num) (hlib : ¬ c.lib.num > c.block.num)
    (hres : env.resolver = .ok (some j) head) (hj : j.num ≠ c.block.num) :
    u = some ⟨j, ⟨.new, j, c.lib, head⟩⟩ ∧ d.start = j.num + 1 ∧ d.rpath = .forked := by
  obtain ⟨r, hr, hs, hu, _, _, hrp, _⟩ := buildRequestDetails_ok hd
  cases hneg : resolveNegativeStart env.head req.startNum with
  | error e => simp [resolveStartBlockNum, bind, Except.bind, hneg] at hr
  | ok sn =>
    rw [forked_cursor c j head sn hc hneg hstop hnf hlib hres hj] at hr
    injection hr with hr; subst hr
    exact ⟨hu, hs, hrp⟩

/-- **Cursor on the canonical chain** (no junction, or a junction with the cursor's own block number): no undo
signal, the cursor is kept, and processing restarts after the cursor's block for a `new` cursor, at the
block itself for an `undo` cursor.  (A bare `irreversible` step matches neither case of the Go `switch` and
restarts at block 0 — modelled as the code behaves.) -/
theorem cursor_not_forked (c : Cursor) (oj : Option BlockRef) (head : BlockRef) (sn : Int)
    (hc : req.cursor = .some c) (hneg : resolveNegativeStart env.head req.startNum = .ok sn)
    (hstop : ¬(req.stop > 0 ∧ req.stop < c.block.num))
    (hnf : c.block.num ≠ c.lib.num) (hlib : ¬ c.lib.num > c.block.num)
    (hres : env.resolver = .ok oj head) (hj : ∀ j, oj = some j → j.num = c.block.num) :
    ∃ r, resolveStartBlockNum env req = .ok r ∧ r.undo = none ∧ r.cursor = some c ∧
      r.start = startOfCursor c ∧
      (c.step = .new ∨ c.step = .newIrreversible → r.start = c.block.num + 1) ∧
      (c.step = .undo → r.start = c.block.num) := by
  have hstart : (c.step = .new ∨ c.step = .newIrreversible → startOfCursor c = c.block.num + 1) ∧
      (c.step = .undo → startOfCursor c = c.block.num) := by
    constructor
    · rintro (h | h) <;> simp [startOfCursor, Step.matchesNew, h]
    · intro h; simp [startOfCursor, Step.matchesNew, Step.matchesUndo, h]
  cases oj with
  | none =>
    refine ⟨⟨startOfCursor c, some c, none, .noJunction⟩, ?_, rfl, rfl, rfl, hstart⟩
    simp [resolveStartBlockNum, bind, Except.bind, hneg, hc, hstop, hnf, hlib, hres]
  | some j =>
    have := hj j rfl
    refine ⟨⟨startOfCursor c, some c, none, .notForked⟩, ?_, rfl, rfl, rfl, hstart⟩
    simp [resolveStartBlockNum, bind, Except.bind, hneg, hc, hstop, hnf, hlib, hres, this]

/-- **Cursor on a final block** (`block = LIB`): restart at the next block, no undo signal, no cursor kept,
and the resolver is not consulted (the answer is the same for every resolver). -/
theorem final_cursor (c : Cursor) (sn : Int)
    (hc : req.cursor = .some c) (hneg : resolveNegativeStart env.head req.startNum = .ok sn)
    (hstop : ¬(req.stop > 0 ∧ req.stop < c.block.num)) (hfin : c.block.num = c.lib.num) :
    resolveStartBlockNum env req = .ok ⟨c.block.num + 1, none, none, .finalCursor⟩ := by
  simp only [resolveStartBlockNum, bind, Except.bind, hneg, hc]
  rw [if_neg hstop, if_pos hfin]

/-- An undo signal is sent only for a forked cursor, and always points at the junction the resolver named. -/
theorem undo_only_if_forked (hd : buildRequestDetails env m req = .ok (d, u)) (x : Undo)
    (hu : u = some x) :
    ∃ c j head, req.cursor = .some c ∧ env.resolver = .ok (some j) head ∧ j.num ≠ c.block.num ∧
      x.lastValid = j ∧ x.cursor = ⟨.new, j, c.lib, head⟩ ∧ d.start = j.num + 1 := by
  obtain ⟨r, hr, hs, hu', _⟩ := buildRequestDetails_ok hd
  subst hu'
  simp only [resolveStartBlockNum, bind, Except.bind] at hr
  cases hneg : resolveNegativeStart env.head req.startNum with
  | error e => rw [hneg] at hr; simp at hr
  | ok sn =>
    rw [hneg] at hr
    simp only [] at hr
    cases hc : req.cursor with
    | none => rw [hc] at hr; simp at hr; subst hr; simp at hu
    | malformed => rw [hc] at hr; simp at hr
    | some c =>
      rw [hc] at hr
      simp only [] at hr
      split at hr
      · simp at hr
      · split at hr
        · injection hr with hr; subst hr; simp at hu
        · split at hr
          · simp at hr
          · cases hres : env.resolver with
            | error => rw [hres] at hr; simp at hr
            | ok oj head =>
              rw [hres] at hr
              cases oj with
              | none => simp at hr; subst hr; simp at hu
              | some j =>
                simp only [] at hr
                split at hr
                · rename_i hj
                  injection hr with hr; subst hr
                  simp only [Option.some.injEq] at hu
                  subst hu
                  exact ⟨c, j, head, rfl, rfl, hj, rfl, rfl, by
                    rw [hs]; simp [startOfCursor, Step.matchesNew]⟩
                · injection hr with hr; subst hr; simp at hu

/-! ### Non-vacuity: concrete, non-trivial instances (the first is DESIGN §9's F8 witness — stores at 12 and
22 in both module orders, start 25, segment 10 — which now gives hand-off 20 and `BuildStores = [12,20)`). -/

def envEx : Env := ⟨10, 0, some 100, none, .error⟩

example : (tier1 envEx ⟨[12, 22], 0, false⟩ ⟨25, .none, 0, false⟩).toOption.map (fun o => (o.d.handoff, o.plan.buildStores))
    = some (20, some ⟨12, 20⟩) := by decide
example : (tier1 envEx ⟨[22, 12], 0, false⟩ ⟨25, .none, 0, false⟩).toOption.map (fun o => (o.d.handoff, o.plan.buildStores))
    = some (20, some ⟨12, 20⟩) := by decide
/-- production: stores back-filled to the final block's boundary, cached outputs read for `[25,47)` -/
example : (tier1 envEx ⟨[12, 22], 5, false⟩ ⟨25, .none, 47, true⟩).toOption.map
    (fun o => (o.d.handoff, o.plan.buildStores, o.plan.writeExecOut, o.plan.readExecOut, o.plan.linear))
    = some (50, some ⟨12, 50⟩, some ⟨20, 50⟩, some ⟨25, 47⟩, none) := by decide
/-- a unit of the map stage and the range tier 2 recomputes for it -/
example : (tier1 envEx ⟨[12, 22], 5, false⟩ ⟨25, .none, 47, true⟩).toOption.map
    (fun o => o.plan.unitOutcome .map 5 2) = some (.job (tier2Range 10 0 2 5)) := by decide
/-- a forked cursor: undo signal for the junction 18, restart at 19 -/
example : (tier1 ⟨10, 0, none, none, .ok (some ⟨18, 0⟩) ⟨25, 0⟩⟩ ⟨[], 0, false⟩
      ⟨0, .some ⟨.new, ⟨20, 1⟩, ⟨15, 0⟩, ⟨20, 1⟩⟩, 30, false⟩).toOption.map (fun o => (o.d.start, o.undo.map (·.lastValid)))
    = some (19, some ⟨18, 0⟩) := by decide
/-- an output module of kind store (initial block 3, no other store), development mode, start 13, segment 5: the
output store is itself a required store, so the hand-off is the boundary 10 and `BuildStores = [3,10)` (were
it left out of `reprocStateRequired`, the hand-off would be 13 and `BuildStores = [3,13)`, off the boundary). -/
example : (tier1 ⟨5, 0, none, none, .error⟩ ⟨[], 3, true⟩ ⟨13, .none, 0, false⟩).toOption.map
    (fun o => (o.d.handoff, o.plan.buildStores)) = some (10, some ⟨3, 10⟩) := by decide
/-- an impossible request -/
example : Impossible envEx ⟨25, .none, 0, true⟩ → True := fun _ => trivial
example : Impossible ⟨10, 0, none, none, .error⟩ ⟨25, .none, 0, true⟩ := .finalUnknownOpenEnded ⟨rfl, rfl, rfl⟩

end SV.C12

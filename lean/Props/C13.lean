import Lemmas.Segmenter
import Lemmas.Compose
/-!
# C13 — Segments tile every block range exactly

Property theorems only (helper lemmas are in `Lemmas/Segmenter.lean`, the model in
`Model/Segmenter.lean`).  All statements are for **every** segment size `interval > 0`, initial block
and end block with `init < end_` (no bound), every index, every block.
-/
namespace SV.C13
open SV SV.Segmenter

variable (s : Segmenter)

/-- A segment exists exactly for the indexes between the first and the last one; indexes outside the
range yield no segment. -/
theorem range_isSome_iff (hk : 0 < s.interval) (hlt : s.init < s.end_) (i : Nat) :
    (s.range? i).isSome ↔ (s.firstIndex ≤ i ∧ i ≤ s.lastIndex) := by
  constructor
  · intro h
    refine ⟨?_, ?_⟩
    · apply Nat.le_of_not_lt; intro hc
      rw [range?_none_low s i hc] at h; simp at h
    · apply Nat.le_of_not_lt; intro hc
      rw [range?_none_high s hk hlt i hc] at h; simp at h
  · intro ⟨h1, h2⟩; rw [range?_eq s hk hlt i h1 h2]; rfl

/-- Closed form: segment `i` is `[max(init, i·k), min((i+1)·k, end))` — the range a tier-2 job
recomputes from `(segment number, segment size)`. -/
theorem range_closed_form (hk : 0 < s.interval) (hlt : s.init < s.end_) (i : Nat)
    (h1 : s.firstIndex ≤ i) (h2 : i ≤ s.lastIndex) :
    s.range? i = some ⟨max s.init (i * s.interval), min ((i + 1) * s.interval) s.end_⟩ :=
  range?_eq s hk hlt i h1 h2

/-- Segments are non-empty. -/
theorem range_nonempty (hk : 0 < s.interval) (hlt : s.init < s.end_) (i : Nat) (r : Range)
    (h : s.range? i = some r) : r.start < r.stop := by
  have hi := (range_isSome_iff s hk hlt i).1 (by rw [h]; rfl)
  rw [range?_eq s hk hlt i hi.1 hi.2] at h
  injection h with h; subst h
  have a := lt_div_succ_mul s.init s.interval hk
  have b : (s.firstIndex + 1) * s.interval ≤ (i + 1) * s.interval :=
    Nat.mul_le_mul_right _ (by omega)
  have c := last_mul_lt_end s hk (by omega)
  have d : i * s.interval ≤ s.lastIndex * s.interval := Nat.mul_le_mul_right _ hi.2
  have e : (i + 1) * s.interval = i * s.interval + s.interval := by rw [Nat.add_mul, Nat.one_mul]
  unfold firstIndex at b
  simp only [Nat.max_def, Nat.min_def]
  split <;> split <;> omega

/-- The first segment starts at the initial block, the last one ends at the end block. -/
theorem range_first_start (hk : 0 < s.interval) (hlt : s.init < s.end_) :
    ∃ r, s.range? s.firstIndex = some r ∧ r.start = s.init := by
  refine ⟨_, range?_eq s hk hlt _ (Nat.le_refl _) (first_le_last s hk hlt), ?_⟩
  exact Nat.max_eq_left (div_mul_le' _ _)

theorem range_last_end (hk : 0 < s.interval) (hlt : s.init < s.end_) :
    ∃ r, s.range? s.lastIndex = some r ∧ r.stop = s.end_ := by
  refine ⟨_, range?_eq s hk hlt _ (first_le_last s hk hlt) (Nat.le_refl _), ?_⟩
  exact Nat.min_eq_right (end_le_last_succ_mul s hk (by omega))

/-- Consecutive segments are contiguous: no gap, no overlap. -/
theorem range_contiguous (hk : 0 < s.interval) (hlt : s.init < s.end_) (i : Nat) (r r' : Range)
    (h : s.range? i = some r) (h' : s.range? (i + 1) = some r') : r'.start = r.stop := by
  have hi := (range_isSome_iff s hk hlt i).1 (by rw [h]; rfl)
  have hi' := (range_isSome_iff s hk hlt (i + 1)).1 (by rw [h']; rfl)
  rw [range?_eq s hk hlt i hi.1 hi.2] at h
  rw [range?_eq s hk hlt (i + 1) hi'.1 hi'.2] at h'
  injection h with h; injection h' with h'; subst h; subst h'
  have a := lt_div_succ_mul s.init s.interval hk
  have b : (s.firstIndex + 1) * s.interval ≤ (i + 1) * s.interval :=
    Nat.mul_le_mul_right _ (by omega)
  have c := succ_mul_lt_end s hk i (by omega)
  unfold firstIndex at b
  show max s.init ((i + 1) * s.interval) = min ((i + 1) * s.interval) s.end_
  simp only [Nat.max_def, Nat.min_def]
  split <;> split <;> omega

/-- Segments start and end on multiples of the segment size, except at the two ends. -/
theorem range_aligned (hk : 0 < s.interval) (hlt : s.init < s.end_) (i : Nat) (r : Range)
    (h : s.range? i = some r) :
    (s.firstIndex < i → r.start % s.interval = 0) ∧ (i < s.lastIndex → r.stop % s.interval = 0) := by
  have hi := (range_isSome_iff s hk hlt i).1 (by rw [h]; rfl)
  rw [range?_eq s hk hlt i hi.1 hi.2] at h
  injection h with h; subst h
  refine ⟨?_, ?_⟩
  · intro hgt
    have a := lt_div_succ_mul s.init s.interval hk
    have b : (s.firstIndex + 1) * s.interval ≤ i * s.interval := Nat.mul_le_mul_right _ hgt
    unfold firstIndex at b
    show max s.init (i * s.interval) % s.interval = 0
    rw [Nat.max_eq_right (by omega)]
    exact Nat.mul_mod_left _ _
  · intro hlt'
    have c := succ_mul_lt_end s hk i hlt'
    show min ((i + 1) * s.interval) s.end_ % s.interval = 0
    rw [Nat.min_eq_left (by omega)]
    exact Nat.mul_mod_left _ _

/-- **Tiling.** Every block of `[init, end)` lies in the segment designated by the index computed for
it as a start block … -/
theorem tiling_exists (hk : 0 < s.interval) (hlt : s.init < s.end_) (b : Nat)
    (h1 : s.init ≤ b) (h2 : b < s.end_) :
    ∃ r, s.range? (s.indexForStartBlock b) = some r ∧ r.contains b = true := by
  unfold indexForStartBlock
  have hf : s.firstIndex ≤ b / s.interval := Nat.div_le_div_right h1
  have hl : b / s.interval ≤ s.lastIndex := Nat.div_le_div_right (by omega)
  refine ⟨_, range?_eq s hk hlt _ hf hl, ?_⟩
  have a := div_mul_le' b s.interval
  have c := lt_div_succ_mul b s.interval hk
  simp only [Range.contains, Bool.and_eq_true, decide_eq_true_eq]
  simp only [Nat.max_def, Nat.min_def]
  split <;> split <;> omega

/-- … and in no other segment (disjointness); blocks outside `[init, end)` lie in none. -/
theorem tiling_unique (hk : 0 < s.interval) (hlt : s.init < s.end_) (b i : Nat) (r : Range)
    (h : s.range? i = some r) (hc : r.contains b = true) :
    i = s.indexForStartBlock b ∧ s.init ≤ b ∧ b < s.end_ := by
  have hi := (range_isSome_iff s hk hlt i).1 (by rw [h]; rfl)
  rw [range?_eq s hk hlt i hi.1 hi.2] at h
  injection h with h; subst h
  simp only [Range.contains, Bool.and_eq_true, decide_eq_true_eq] at hc
  have h3 : i * s.interval ≤ b := Nat.le_trans (Nat.le_max_right _ _) hc.1
  have h4 : b < (i + 1) * s.interval := Nat.lt_of_lt_of_le hc.2 (Nat.min_le_left _ _)
  refine ⟨((div_eq_iff' b s.interval i hk).2 ⟨h3, h4⟩).symm, ?_, ?_⟩
  · exact Nat.le_trans (Nat.le_max_left _ _) hc.1
  · exact Nat.lt_of_lt_of_le hc.2 (Nat.min_le_right _ _)

/-- The index computed for an (exclusive) end block designates the segment containing the last block
before it. -/
theorem index_for_end_block (hk : 0 < s.interval) (hlt : s.init < s.end_) (e : Nat)
    (h1 : s.init < e) (h2 : e ≤ s.end_) :
    ∃ r, s.range? (s.indexForEndBlock e) = some r ∧ r.contains (e - 1) = true := by
  have := tiling_exists s hk hlt (e - 1) (by omega) (by omega)
  simpa [indexForEndBlock, indexForStartBlock] using this

/-- `Count` is the number of indexes that have a segment. -/
theorem count_eq (hk : 0 < s.interval) (hlt : s.init < s.end_) :
    s.count = (((List.range (s.lastIndex + 1)).filter (fun i => (s.range? i).isSome)).length : Int) := by
  have hfl := first_le_last s hk hlt
  have hfilter : (List.range (s.lastIndex + 1)).filter (fun i => (s.range? i).isSome)
      = (List.range (s.lastIndex + 1)).filter (fun i => decide (s.firstIndex ≤ i)) := by
    apply List.filter_congr
    intro i hi
    have hi' : i ≤ s.lastIndex := by simpa [Nat.lt_succ_iff] using hi
    have := range_isSome_iff s hk hlt i
    by_cases hfi : s.firstIndex ≤ i
    · simp [hfi, this.2 ⟨hfi, hi'⟩]
    · have : ¬ (s.range? i).isSome = true := fun hc => hfi (this.1 hc).1
      simp [hfi, this]
  rw [hfilter]
  have hlen : ∀ n f, f ≤ n → ((List.range n).filter (fun i => decide (f ≤ i))).length = n - f := by
    intro n
    induction n with
    | zero => intro f _; simp
    | succ m ih =>
      intro f hf
      rw [List.range_succ, List.filter_append, List.length_append]
      by_cases hfm : f ≤ m
      · rw [ih f hfm]; simp [hfm]; omega
      · have : f = m + 1 := by omega
        subst this
        have : (List.range m).filter (fun i => decide (m + 1 ≤ i)) = [] := by
          apply List.filter_eq_nil_iff.2
          intro a ha; have := List.mem_range.1 ha; simp; omega
        simp [this]
  rw [hlen _ _ (by omega)]
  unfold count
  omega

/-- `EndsOnInterval` answers whether the segment's end is a multiple of the segment size (and is
defined for every existing segment). -/
theorem ends_on_interval (hk : 0 < s.interval) (hlt : s.init < s.end_) (i : Nat) (r : Range)
    (h : s.range? i = some r) : s.endsOnInterval i = some (r.stop % s.interval == 0) := by
  have hi := (range_isSome_iff s hk hlt i).1 (by rw [h]; rfl)
  unfold endsOnInterval
  have : ¬ i > s.lastIndex := by omega
  simp [this, h]

/-- **Split.** The chunks of a non-empty range are non-empty, contiguous, go from its start to its end
(so they cover exactly its blocks), … -/
theorem split_tiles (r : Range) (chunk : Nat) (hc : 0 < chunk) (hr : r.start < r.stop) :
    Tiles (r.split chunk) r.start r.stop := by
  unfold Range.split
  split
  · exact ⟨rfl, rfl, hr⟩
  · rename_i hgt
    have e := sub_mod_eq (r.start + chunk) chunk
    have a := div_mul_le' (r.start + chunk) chunk
    have b := lt_div_succ_mul (r.start + chunk) chunk hc
    rw [Nat.add_mul, Nat.one_mul] at b
    refine (splitLoop_spec r.stop chunk hc (r.stop - r.start) r.start _ ?_ ?_ ?_ ?_ ?_).1
    · omega
    · omega
    · omega
    · right; rw [e]; exact Nat.mul_mod_left _ _
    · have : r.stop - r.start ≤ (r.stop - r.start) * chunk := Nat.le_mul_of_pos_right _ hc
      omega

/-- … each at most `chunk` long, with every interior cut on a multiple of `chunk`. -/
theorem split_sizes_cuts (r : Range) (chunk : Nat) (hc : 0 < chunk) (hr : r.start < r.stop) :
    (∀ x ∈ r.split chunk, x.size ≤ chunk) ∧
    (∀ x ∈ r.split chunk, x.stop = r.stop ∨ x.stop % chunk = 0) := by
  unfold Range.split
  split
  · rename_i hle
    refine ⟨?_, ?_⟩
    · intro x hx; simp at hx; subst hx; exact hle
    · intro x hx; simp at hx; subst hx; exact Or.inl rfl
  · rename_i hgt
    have e := sub_mod_eq (r.start + chunk) chunk
    have a := div_mul_le' (r.start + chunk) chunk
    have b := lt_div_succ_mul (r.start + chunk) chunk hc
    rw [Nat.add_mul, Nat.one_mul] at b
    refine (splitLoop_spec r.stop chunk hc (r.stop - r.start) r.start _ ?_ ?_ ?_ ?_ ?_).2
    · omega
    · omega
    · omega
    · right; rw [e]; exact Nat.mul_mod_left _ _
    · have : r.stop - r.start ≤ (r.stop - r.start) * chunk := Nat.le_mul_of_pos_right _ hc
      omega

/-- Splitting preserves the set of covered blocks, and the chunks are pairwise disjoint. -/
theorem split_covers (r : Range) (chunk : Nat) (hc : 0 < chunk) (hr : r.start < r.stop) (x : Nat) :
    Covers (r.split chunk) x ↔ r.contains x = true := by
  have := (split_tiles r chunk hc hr).cover x
  unfold Covers
  rw [this]; simp [Range.contains]

theorem split_disjoint (r : Range) (chunk : Nat) (hc : 0 < chunk) (hr : r.start < r.stop) :
    (r.split chunk).Pairwise (fun r1 r2 => r1.stop ≤ r2.start) :=
  (split_tiles r chunk hc hr).ordered.1

/-- **Merged / MergedBuckets** preserve the set of covered blocks (for lists of well-formed ranges,
`start ≤ end`, in any order). -/
theorem merged_covers (l : List Range) (hwf : WF l) (x : Nat) : Covers (merged l) x ↔ Covers l x :=
  (merged_spec l hwf).2 x

theorem mergedBuckets_covers (m : Nat) (l : List Range) (hwf : WF l) (x : Nat) :
    Covers (mergedBuckets m l) x ↔ Covers l x :=
  (mergedBuckets_spec m l hwf).2 x

/-! ### The whole walk: `Range(idx)` for `idx = FirstIndex() … LastIndex()` -/

/-- **"non-empty, contiguous, disjoint … their union is exactly [initial, end)"**, as one statement about the
list every consumer of a segmenter walks (`Segmenter.segments`): it is a chain of non-empty ranges, the
first starting at `init`, each starting where the previous one stops, the last stopping at `end_`. -/
theorem segments_tile (hk : 0 < s.interval) (hlt : s.init < s.end_) : Tiles s.segments s.init s.end_ :=
  segments_tiles s hk hlt

/-- hence the blocks listed segment after segment are exactly `init, init+1, …, end_-1`: every block once,
in increasing order (this is the form the C02 and C01 composition theorems use). -/
theorem segments_list_every_block_once (hk : 0 < s.interval) (hlt : s.init < s.end_) :
    (s.segments.map Range.blocks).flatten = List.range' s.init (s.end_ - s.init) :=
  segments_blocks s hk hlt

/-- and the segment sizes add up to the size of the range. -/
theorem segments_sizes_sum (hk : 0 < s.interval) (hlt : s.init < s.end_) :
    (s.segments.map Range.size).sum = s.end_ - s.init :=
  Segmenter.segments_sizes s hk hlt

/-! ### Non-vacuity: the hypotheses are met by concrete non-trivial instances, and the functions
compute what the repository's own tests expect. -/

example : (⟨10, 5, 47⟩ : Segmenter).range? 0 = some ⟨5, 10⟩ ∧
    (⟨10, 5, 47⟩ : Segmenter).range? 4 = some ⟨40, 47⟩ ∧
    (⟨10, 5, 47⟩ : Segmenter).range? 5 = none ∧ (⟨10, 5, 47⟩ : Segmenter).count = 5 := by decide
example : (0:Nat) < (⟨10, 5, 47⟩ : Segmenter).interval ∧ (⟨10, 5, 47⟩ : Segmenter).init < 47 := by decide
example : (⟨10, 5, 47⟩ : Segmenter).segments = [⟨5, 10⟩, ⟨10, 20⟩, ⟨20, 30⟩, ⟨30, 40⟩, ⟨40, 47⟩] := by decide
example : (⟨3, 11⟩ : Range).split 4 = [⟨3, 4⟩, ⟨4, 8⟩, ⟨8, 11⟩] := by decide
example : WF [⟨1, 3⟩, ⟨3, 5⟩, ⟨7, 9⟩] := by unfold WF; decide

end SV.C13

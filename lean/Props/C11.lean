import Lemmas.History
/-!
# C11 — Store size accounting is exact, so size limits are enforced consistently

`Store.size` is Go's `totalSizeBytes`, updated by `ApplyDelta`, `ApplyDeltasReverse`, `setKV`,
`setNewKV` and set from the decoder's count on load; `kvSize` is the total length of keys and values.
All theorems hold for **every** configuration, every value semantics (every policy and value type)
and every history, with no bound on its length.
-/
namespace SV.C11
open SV

variable {cfg : Cfg} {sem : Sem}

/-- **Exactness over all histories.** Starting from an empty store, after any sequence of blocks of
writes and deletions, undos of the most recent applied blocks (including a block undone after it was
re-applied: `block c, undo, block c, undo, …`), finality steps, merges of partial stores and save/load
cycles, the reported size equals the total length of keys and values (and keys stay distinct). -/
theorem size_exact (hs : List Hist) :
    let st := runHist cfg sem ⟨Store.empty, [], false⟩ hs
    st.s.size = kvSize st.s.kv ∧ NodupKeys st.s.kv := by
  have h0 : HInv (⟨Store.empty, [], false⟩ : HState) :=
    ⟨⟨by unfold NodupKeys; decide, rfl⟩, trivial⟩
  have := runHist_inv (cfg := cfg) (sem := sem) hs _ h0
  exact ⟨this.sinv.size, this.sinv.nodup⟩

/-- The same from any consistent state (e.g. a store loaded from a snapshot). -/
theorem size_exact_from (st : HState) (h : HInv st) (hs : List Hist) :
    (runHist cfg sem st hs).s.size = kvSize (runHist cfg sem st hs).s.kv :=
  (runHist_inv hs st h).sinv.size

/-- Undo restores the pre-block content exactly (not only the size): after `block c` then `undo` the
store holds what it held before the block. -/
theorem undo_restores (st : HState) (h : HInv st) (calls : List Op) (hd : st.dead = false) (k : Bytes) :
    let st1 := stepHist cfg sem st (.block calls)
    st1.dead = false → look (stepHist cfg sem st1 .undo).s.kv k = look st.s.kv k := by
  intro st1 hd1
  have hb : ∃ s', execBlock cfg sem (reset st.s) calls = .ok s' ∧ st1 = { st with s := s', stack := s'.deltas :: st.stack } := by
    show ∃ s', _ ∧ stepHist cfg sem st (.block calls) = _
    unfold stepHist
    simp only [hd, Bool.false_eq_true, ↓reduceIte]
    cases hb : execBlock cfg sem (reset st.s) calls with
    | error e =>
      have : st1.dead = true := by
        show (stepHist cfg sem st (.block calls)).dead = true
        unfold stepHist; simp [hd, hb]
      rw [this] at hd1; cases hd1
    | ok s' => exact ⟨s', rfl, rfl⟩
  obtain ⟨s', hb1, hb2⟩ := hb
  obtain ⟨b, i1, _⟩ := execBlock_inv h.sinv.reset hb1
  have hu := undo_spec (look st.s.kv) s'.deltas s' i1.chain i1.kvpost i1.nodup i1.size
  rw [hb2]
  unfold stepHist
  simp only [hd, Bool.false_eq_true, ↓reduceIte]
  exact congrFun hu.1 k

/-- No size update ever underflows (Go's `uint64` would wrap): whenever a delta is applied to a
consistent store and is well formed w.r.t. its content, what is subtracted is at most the size. -/
theorem no_underflow_apply {s : Store} (h : SInv s) (d : Delta) (hw : WFd (look s.kv) d) :
    (d.op = .delete → d.old.length + d.key.length ≤ s.size) ∧
    (d.op = .update → d.old.length ≤ s.size) := by
  unfold WFd at hw
  rw [h.size]
  constructor
  · intro hop; simp only [hop] at hw; have := kvSize_ge hw; omega
  · intro hop; simp only [hop] at hw; have := kvSize_ge hw; omega

/-- "A store is rejected as too big exactly when its real content exceeds the limit": for a store
whose accounting is exact and a well-formed non-delete delta on a valid key, `ApplyDelta` fails with
"became too big" iff the *real* size of the content after the delta exceeds the limit. -/
theorem too_big_iff {s : Store} (h : SInv s) (d : Delta) (hw : WFd (look s.kv) d)
    (hk : d.key ≠ []) (hff : d.key.head? ≠ some 255) :
    applyDelta cfg s d = .error .tooBig ↔ (d.op ≠ .delete ∧ kvSize (applyDeltaKV s.kv d) > cfg.totalLimit) := by
  have hsz : applyDeltaSize s.size d = kvSize (applyDeltaKV s.kv d) := by
    unfold applyDeltaSize applyDeltaKV WFd at *
    rw [h.size]
    cases hop : d.op <;> simp only [hop] at hw ⊢
    · have := kvSize_ins_none d.new hw; omega
    · have := kvSize_ins_some d.new hw
      have := kvSize_ge hw
      repeat' split
      all_goals omega
    · have := kvSize_del h.nodup hw; omega
  unfold applyDelta
  simp only [hk, hff, ↓reduceIte, hsz]
  constructor
  · intro hx
    split at hx
    · assumption
    · cases hx
  · intro hx
    simp [hx]

/-! ### Non-vacuity: a history mixing all step kinds, with the same block undone twice -/

def demoCfg : Cfg := ⟨.set, .bytes, 100, 1000, 100⟩
def demoSem : Sem := fun _ _ v => .ok v
def blk1 : List Op := [⟨.set, 1, [97], [1, 2]⟩, ⟨.set, 2, [98], [3]⟩]
def blk2 : List Op := [⟨.set, 1, [97], [9]⟩, ⟨.deletePrefix, 2, [98], []⟩, ⟨.set, 3, [99], [4, 5, 6]⟩]
def demoHist : List Hist :=
  [.block blk1, .final, .saveLoad, .block blk2, .undo, .block blk2, .undo, .block blk2, .final,
   .merge ⟨{ Store.empty with kv := [([100], [7])], size := 2 }, [[97]]⟩]

example : (runHist demoCfg demoSem ⟨Store.empty, [], false⟩ demoHist).dead = false ∧
    (runHist demoCfg demoSem ⟨Store.empty, [], false⟩ demoHist).s.size = 6 := by decide

end SV.C11

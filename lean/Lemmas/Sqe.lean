import Model.Sqe
/-!
Helper lemmas for C15 (`Props/C15.lean`).  Core Lean only.
-/
namespace SV.Sqe

/-! ### bitmaps as finite sets -/

theorem Bitmap.mem_and (a b : Bitmap) (x : Nat) : x ∈ a.and b ↔ x ∈ a ∧ x ∈ b := by
  simp [Bitmap.and]

theorem Bitmap.mem_or (a b : Bitmap) (x : Nat) : x ∈ a.or b ↔ x ∈ a ∨ x ∈ b := by
  simp only [Bitmap.or, List.mem_append, List.mem_filter]
  constructor
  · rintro (h | ⟨h, _⟩)
    · exact Or.inl h
    · exact Or.inr h
  · intro h
    by_cases ha : x ∈ a
    · exact Or.inl ha
    · rcases h with h | h
      · exact absurd h ha
      · exact Or.inr ⟨h, by simp [ha]⟩

/-! ### the index -/

/-- the set of blocks recorded for a key (absent key = empty bitmap, as `roaringQuerier.apply` reads it) -/
def Index.blocksOf (idx : Index) (k : Key) : Bitmap := (idx.get k).getD []

theorem Index.mem_add (idx : Index) (k : Key) (b : Nat) (k' : Key) (x : Nat) :
    x ∈ (idx.add k b).blocksOf k' ↔ x ∈ idx.blocksOf k' ∨ (k' = k ∧ x = b) := by
  induction idx with
  | nil =>
    simp only [Index.add, Index.blocksOf, Index.get]
    by_cases h : k = k'
    · subst h; simp
    · have h' : ¬ k' = k := fun e => h e.symm
      simp [h, h']
  | cons kb rest ih =>
    obtain ⟨k0, bm⟩ := kb
    simp only [Index.add]
    by_cases h0 : k0 = k
    · subst h0
      simp only [if_true]
      by_cases h1 : k0 = k'
      · subst h1
        simp only [Index.blocksOf, Index.get, if_true, Option.getD_some]
        by_cases hc : bm.contains b = true
        · simp only [hc, if_true]
          have : b ∈ bm := by simpa using hc
          constructor
          · exact Or.inl
          · rintro (h | ⟨_, h⟩)
            · exact h
            · subst h; exact this
        · simp only [hc]
          simp
      · have h1' : ¬ k' = k0 := fun e => h1 e.symm
        simp [Index.blocksOf, Index.get, h1, h1']
    · simp only [h0, if_false]
      by_cases h1 : k0 = k'
      · subst h1
        have : ¬ k0 = k := h0
        simp [Index.blocksOf, Index.get, this]
      · simp only [Index.blocksOf, Index.get, h1, if_false]
        exact ih

theorem Index.mem_addKeys (keys : List Key) (blk : Nat) (idx : Index) (k : Key) (x : Nat) :
    x ∈ (keys.foldl (fun idx k => idx.add k blk) idx).blocksOf k ↔
      x ∈ idx.blocksOf k ∨ (k ∈ keys ∧ x = blk) := by
  induction keys generalizing idx with
  | nil => simp
  | cons k0 ks ih =>
    simp only [List.foldl_cons]
    rw [ih, Index.mem_add]
    simp only [List.mem_cons]
    constructor
    · rintro ((h | ⟨h1, h2⟩) | ⟨h1, h2⟩)
      · exact Or.inl h
      · exact Or.inr ⟨Or.inl h1, h2⟩
      · exact Or.inr ⟨Or.inr h1, h2⟩
    · rintro (h | ⟨h1 | h1, h2⟩)
      · exact Or.inl (Or.inl h)
      · exact Or.inl (Or.inr ⟨h1, h2⟩)
      · exact Or.inr ⟨h1, h2⟩

theorem Index.mem_addItem (idx : Index) (it : Item) (k : Key) (x : Nat) :
    x ∈ (idx.addItem it).blocksOf k ↔ x ∈ idx.blocksOf k ∨ (k ∈ it.keys ∧ x = it.block) :=
  Index.mem_addKeys it.keys it.block idx k x

theorem mem_foldl_addItem (items : List Item) (idx : Index) (k : Key) (x : Nat) :
    x ∈ (items.foldl Index.addItem idx).blocksOf k ↔
      x ∈ idx.blocksOf k ∨ ∃ it ∈ items, k ∈ it.keys ∧ x = it.block := by
  induction items generalizing idx with
  | nil => simp
  | cons it rest ih =>
    simp only [List.foldl_cons]
    rw [ih, Index.mem_addItem]
    simp only [List.mem_cons]
    constructor
    · rintro ((h | h) | ⟨it', h1, h2⟩)
      · exact Or.inl h
      · exact Or.inr ⟨it, Or.inl rfl, h⟩
      · exact Or.inr ⟨it', Or.inr h1, h2⟩
    · rintro (h | ⟨it', h1 | h1, h2⟩)
      · exact Or.inl (Or.inl h)
      · subst h1; exact Or.inl (Or.inr h2)
      · exact Or.inr ⟨it', h1, h2⟩

/-- What `Engine.EndOfStream` writes: block `x` is in the bitmap of key `k` exactly when the index
module emitted `k` on a block numbered `x`. -/
theorem mem_buildIndex (items : List Item) (k : Key) (x : Nat) :
    x ∈ (buildIndex items).blocksOf k ↔ ∃ it ∈ items, k ∈ it.keys ∧ x = it.block := by
  unfold buildIndex
  rw [mem_foldl_addItem]
  simp [Index.blocksOf, Index.get]

/-! ### the two evaluators against the boolean meaning -/

mutual
theorem keysApply_holds (ks : List Key) (e : Expr) (ha : accepted e = true) :
    keysApply (some ks) e = .ok (holds ks e) := by
  match e with
  | .key v q => simp [keysApply, holds]
  | .and [] => simp [accepted] at ha
  | .and (c :: rest) =>
    simp only [accepted, acceptedList, List.isEmpty_cons, Bool.not_false, Bool.true_and,
      Bool.and_eq_true] at ha
    simp only [keysApply, holds, holdsAll, keysApply_holds ks c ha.1, bind, Except.bind]
    rw [keysRest_holds ks true rest ha.2]
    simp
  | .or [] => simp [accepted] at ha
  | .or (c :: rest) =>
    simp only [accepted, acceptedList, List.isEmpty_cons, Bool.not_false, Bool.true_and,
      Bool.and_eq_true] at ha
    simp only [keysApply, holds, holdsAny, keysApply_holds ks c ha.1, bind, Except.bind]
    rw [keysRest_holds ks false rest ha.2]
    simp
  | .paren c =>
    simp only [accepted] at ha
    simp only [keysApply, holds, keysApply_holds ks c ha]
  | .not c => simp [accepted] at ha
theorem keysRest_holds (ks : List Key) (isAnd : Bool) (cs : List Expr) (ha : acceptedList cs = true)
    (acc : Bool) :
    keysRest (some ks) isAnd acc cs =
      .ok (if isAnd then acc && holdsAll ks cs else acc || holdsAny ks cs) := by
  match cs with
  | [] => cases isAnd <;> simp [keysRest, holdsAll, holdsAny]
  | c :: rest =>
    simp only [acceptedList, Bool.and_eq_true] at ha
    simp only [keysRest, keysApply_holds ks c ha.1, bind, Except.bind]
    rw [keysRest_holds ks isAnd rest ha.2]
    cases isAnd <;> simp [holdsAll, holdsAny, Bool.and_assoc, Bool.or_assoc]
end

/-- the link between a segment's index and one block's key set -/
def Linked (idx : Index) (ks : List Key) (b : Nat) : Prop :=
  ∀ k, b ∈ idx.blocksOf k ↔ k ∈ ks

mutual
theorem bitmapApply_holds (idx : Index) (ks : List Key) (b : Nat) (hl : Linked idx ks b)
    (e : Expr) (ha : accepted e = true) :
    ∃ r, bitmapApply idx e = .ok r ∧ (b ∈ r ↔ holds ks e = true) := by
  match e with
  | .key v q =>
    refine ⟨_, by simp only [bitmapApply]; rfl, ?_⟩
    have := hl v
    simp only [Index.blocksOf] at this
    simp [holds, this]
  | .and [] => simp [accepted] at ha
  | .and (c :: rest) =>
    simp only [accepted, acceptedList, List.isEmpty_cons, Bool.not_false, Bool.true_and,
      Bool.and_eq_true] at ha
    obtain ⟨r0, h0, m0⟩ := bitmapApply_holds idx ks b hl c ha.1
    obtain ⟨r, h1, m1⟩ := bitmapRest_holds idx ks b hl true rest ha.2 r0
    refine ⟨r, by simp only [bitmapApply, h0, bind, Except.bind, h1], ?_⟩
    simp only [if_true] at m1
    simp [m1, m0, holds, holdsAll]
  | .or [] => simp [accepted] at ha
  | .or (c :: rest) =>
    simp only [accepted, acceptedList, List.isEmpty_cons, Bool.not_false, Bool.true_and,
      Bool.and_eq_true] at ha
    obtain ⟨r0, h0, m0⟩ := bitmapApply_holds idx ks b hl c ha.1
    obtain ⟨r, h1, m1⟩ := bitmapRest_holds idx ks b hl false rest ha.2 r0
    refine ⟨r, by simp only [bitmapApply, h0, bind, Except.bind, h1], ?_⟩
    simp only [Bool.false_eq_true, if_false] at m1
    simp [m1, m0, holds, holdsAny]
  | .paren c =>
    simp only [accepted] at ha
    obtain ⟨r, h, m⟩ := bitmapApply_holds idx ks b hl c ha
    exact ⟨r, by simp only [bitmapApply, h], by simp [holds, m]⟩
  | .not c => simp [accepted] at ha
theorem bitmapRest_holds (idx : Index) (ks : List Key) (b : Nat) (hl : Linked idx ks b)
    (isAnd : Bool) (cs : List Expr) (ha : acceptedList cs = true) (acc : Bitmap) :
    ∃ r, bitmapRest idx isAnd acc cs = .ok r ∧
      (b ∈ r ↔ if isAnd then (b ∈ acc ∧ holdsAll ks cs = true) else (b ∈ acc ∨ holdsAny ks cs = true)) := by
  match cs with
  | [] => exact ⟨acc, by simp only [bitmapRest], by cases isAnd <;> simp [holdsAll, holdsAny]⟩
  | c :: rest =>
    simp only [acceptedList, Bool.and_eq_true] at ha
    obtain ⟨x, hx, mx⟩ := bitmapApply_holds idx ks b hl c ha.1
    obtain ⟨r, hr, mr⟩ := bitmapRest_holds idx ks b hl isAnd rest ha.2
      (if isAnd then acc.and x else acc.or x)
    refine ⟨r, by simp only [bitmapRest, hx, bind, Except.bind, hr], ?_⟩
    rw [mr]
    cases isAnd
    · simp only [Bool.false_eq_true, if_false, Bitmap.mem_or, mx, holdsAny, Bool.or_eq_true]
      exact or_assoc
    · simp only [if_true, Bitmap.mem_and, mx, holdsAll, Bool.and_eq_true]
      exact and_assoc
end


/-! ### the optimizer -/

theorem holdsAny_append (ks : List Key) (a b : List Expr) :
    holdsAny ks (a ++ b) = (holdsAny ks a || holdsAny ks b) := by
  induction a with
  | nil => simp [holdsAny]
  | cons c cs ih => simp [holdsAny, ih, Bool.or_assoc]

theorem holdsAny_flattenOr (ks : List Key) (l : List Expr) :
    holdsAny ks (flattenOr l) = holdsAny ks l := by
  induction l with
  | nil => rfl
  | cons c cs ih =>
    cases c <;> simp [flattenOr, holdsAny, holds, holdsAny_append, ih]

mutual
theorem holds_optimize (ks : List Key) (e : Expr) : holds ks (optimize e) = holds ks e := by
  match e with
  | .key v q => simp [optimize]
  | .and cs => simp only [optimize, holds, holdsAll_optimizeList ks cs]
  | .or cs => simp only [optimize, holds, holdsAny_flattenOr, holdsAny_optimizeList ks cs]
  | .paren c => simp only [optimize, holds, holds_optimize ks c]
  | .not c => simp only [optimize, holds, holds_optimize ks c]
theorem holdsAll_optimizeList (ks : List Key) (cs : List Expr) :
    holdsAll ks (optimizeList cs) = holdsAll ks cs := by
  match cs with
  | [] => simp [optimizeList]
  | c :: rest => simp only [optimizeList, holdsAll, holds_optimize ks c, holdsAll_optimizeList ks rest]
theorem holdsAny_optimizeList (ks : List Key) (cs : List Expr) :
    holdsAny ks (optimizeList cs) = holdsAny ks cs := by
  match cs with
  | [] => simp [optimizeList]
  | c :: rest => simp only [optimizeList, holdsAny, holds_optimize ks c, holdsAny_optimizeList ks rest]
end

theorem acceptedList_append (a b : List Expr) :
    acceptedList (a ++ b) = (acceptedList a && acceptedList b) := by
  induction a with
  | nil => simp [acceptedList]
  | cons c cs ih => simp [acceptedList, ih, Bool.and_assoc]

theorem acceptedList_flattenOr (l : List Expr) (h : acceptedList l = true) :
    acceptedList (flattenOr l) = true := by
  induction l with
  | nil => rfl
  | cons c cs ih =>
    simp only [acceptedList, Bool.and_eq_true] at h
    cases c <;>
      simp_all [flattenOr, acceptedList, accepted, acceptedList_append]

theorem flattenOr_ne_nil (l : List Expr) (h : acceptedList l = true) (hne : l ≠ []) :
    flattenOr l ≠ [] := by
  match l with
  | [] => exact absurd rfl hne
  | c :: cs =>
    simp only [acceptedList, Bool.and_eq_true] at h
    cases c <;> simp_all [flattenOr, accepted]

theorem optimizeList_eq_nil (cs : List Expr) : optimizeList cs = [] ↔ cs = [] := by
  cases cs <;> simp [optimizeList]

theorem optimizeList_length (cs : List Expr) : (optimizeList cs).length = cs.length := by
  induction cs with
  | nil => rfl
  | cons c cs ih => simp [optimizeList, ih]

mutual
theorem accepted_optimize (e : Expr) (h : accepted e = true) : accepted (optimize e) = true := by
  match e with
  | .key v q => simp [optimize, accepted]
  | .and cs =>
    simp only [accepted, Bool.and_eq_true, Bool.not_eq_true', List.isEmpty_eq_false_iff] at h
    simp only [optimize, accepted, Bool.and_eq_true, Bool.not_eq_true', List.isEmpty_eq_false_iff]
    exact ⟨fun e => h.1 ((optimizeList_eq_nil cs).1 e), acceptedList_optimizeList cs h.2⟩
  | .or cs =>
    simp only [accepted, Bool.and_eq_true, Bool.not_eq_true', List.isEmpty_eq_false_iff] at h
    simp only [optimize, accepted, Bool.and_eq_true, Bool.not_eq_true', List.isEmpty_eq_false_iff]
    have h2 := acceptedList_optimizeList cs h.2
    exact ⟨flattenOr_ne_nil _ h2 (fun e => h.1 ((optimizeList_eq_nil cs).1 e)),
      acceptedList_flattenOr _ h2⟩
  | .paren c =>
    simp only [accepted] at h
    simp only [optimize, accepted, accepted_optimize c h]
  | .not c => simp [accepted] at h
theorem acceptedList_optimizeList (cs : List Expr) (h : acceptedList cs = true) :
    acceptedList (optimizeList cs) = true := by
  match cs with
  | [] => rfl
  | c :: rest =>
    simp only [acceptedList, Bool.and_eq_true] at h
    simp only [optimizeList, acceptedList, accepted_optimize c h.1,
      acceptedList_optimizeList rest h.2, Bool.and_self]
end

/-! ### `shape`: what the parser builds -/

mutual
theorem shape_accepted (e : Expr) (h : shape e = true) : accepted e = true := by
  match e with
  | .key v q => rfl
  | .and cs =>
    simp only [shape, Bool.and_eq_true, decide_eq_true_eq] at h
    simp only [accepted, Bool.and_eq_true, Bool.not_eq_true', List.isEmpty_eq_false_iff]
    refine ⟨?_, shapeList_acceptedList cs h.2⟩
    intro e; subst e; simp at h
  | .or cs =>
    simp only [shape, Bool.and_eq_true, decide_eq_true_eq] at h
    simp only [accepted, Bool.and_eq_true, Bool.not_eq_true', List.isEmpty_eq_false_iff]
    refine ⟨?_, shapeList_acceptedList cs h.2⟩
    intro e; subst e; simp at h
  | .paren c =>
    simp only [shape] at h
    simp only [accepted, shape_accepted c h]
  | .not c => simp [shape] at h
theorem shapeList_acceptedList (cs : List Expr) (h : shapeList cs = true) :
    acceptedList cs = true := by
  match cs with
  | [] => rfl
  | c :: rest =>
    simp only [shapeList, Bool.and_eq_true] at h
    simp only [acceptedList, shape_accepted c h.1, shapeList_acceptedList rest h.2, Bool.and_self]
end

theorem shapeList_append (a b : List Expr) :
    shapeList (a ++ b) = (shapeList a && shapeList b) := by
  induction a with
  | nil => simp [shapeList]
  | cons c cs ih => simp [shapeList, ih, Bool.and_assoc]

theorem shapeList_flattenOr (l : List Expr) (h : shapeList l = true) :
    shapeList (flattenOr l) = true := by
  induction l with
  | nil => rfl
  | cons c cs ih =>
    simp only [shapeList, Bool.and_eq_true] at h
    cases c <;>
      simp_all [flattenOr, shapeList, shape, shapeList_append]

theorem length_flattenOr (l : List Expr) (h : shapeList l = true) :
    l.length ≤ (flattenOr l).length := by
  induction l with
  | nil => simp [flattenOr]
  | cons c cs ih =>
    simp only [shapeList, Bool.and_eq_true] at h
    have := ih h.2
    cases c with
    | or ws =>
      have hw := h.1
      simp only [shape, Bool.and_eq_true, decide_eq_true_eq] at hw
      simp only [flattenOr, List.length_append, List.length_cons]
      omega
    | _ => simp only [flattenOr, List.length_cons]; omega

mutual
theorem shape_optimize (e : Expr) (h : shape e = true) : shape (optimize e) = true := by
  match e with
  | .key v q => simpa [optimize] using h
  | .and cs =>
    simp only [shape, Bool.and_eq_true, decide_eq_true_eq] at h
    simp only [optimize, shape, Bool.and_eq_true, decide_eq_true_eq, optimizeList_length]
    exact ⟨h.1, shapeList_optimizeList cs h.2⟩
  | .or cs =>
    simp only [shape, Bool.and_eq_true, decide_eq_true_eq] at h
    simp only [optimize, shape, Bool.and_eq_true, decide_eq_true_eq]
    have h2 := shapeList_optimizeList cs h.2
    have h3 := length_flattenOr _ h2
    rw [optimizeList_length] at h3
    exact ⟨by omega, shapeList_flattenOr _ h2⟩
  | .paren c =>
    simp only [shape] at h
    simp only [optimize, shape, shape_optimize c h]
  | .not c => simp [shape] at h
theorem shapeList_optimizeList (cs : List Expr) (h : shapeList cs = true) :
    shapeList (optimizeList cs) = true := by
  match cs with
  | [] => rfl
  | c :: rest =>
    simp only [shapeList, Bool.and_eq_true] at h
    simp only [optimizeList, shapeList, shape_optimize c h.1, shapeList_optimizeList rest h.2,
      Bool.and_self]
end

/-! ### the parser: shape of the result, token consumption, fuel -/

theorem skipSpaces_length_le (ts : List Tok) : (skipSpaces ts).length ≤ ts.length := by
  induction ts with
  | nil => simp [skipSpaces]
  | cons t rest ih =>
    cases t <;> simp only [skipSpaces, List.length_cons, Nat.le_refl]
    omega

/-- a successful result carries a parser-shaped expression and has consumed tokens -/
def Res.GoodLt (n : Nat) : Res Expr → Prop
  | .ok e st => shape e = true ∧ st.toks.length < n
  | _ => True

def Res.GoodLe (n : Nat) : Res Expr → Prop
  | .ok e st => shape e = true ∧ st.toks.length ≤ n
  | _ => True

theorem Res.GoodLt.mono {n m : Nat} {r : Res Expr} (h : r.GoodLt n) (hnm : n ≤ m) : r.GoodLt m := by
  cases r <;> simp_all [Res.GoodLt]
  omega

theorem Res.GoodLe.mono {n m : Nat} {r : Res Expr} (h : r.GoodLe n) (hnm : n ≤ m) : r.GoodLe m := by
  cases r <;> simp_all [Res.GoodLe]
  omega

theorem parseQuotedString_good (q : UInt8) (acc : Bytes) (toks : List Tok) (look : Nat) :
    (parseQuotedString q acc toks look).GoodLt (toks.length + 1) := by
  induction toks generalizing acc with
  | nil => simp [parseQuotedString, leaf, Res.GoodLt]
  | cons t rest ih =>
    cases t
    case quoting c =>
      simp only [parseQuotedString]
      split
      · simp [leaf, Res.GoodLt]
      · simp [Res.GoodLt, shape]; omega
    all_goals
      simp only [parseQuotedString]
      exact (ih _).mono (by simp)

theorem parseKeyTerm_good (st : PState) : (parseKeyTerm st).GoodLt st.toks.length := by
  unfold parseKeyTerm
  split
  · next v rest h => simp [Res.GoodLt, shape, h]
  · next c rest h =>
    have := parseQuotedString_good c [] rest st.look
    rw [h]; simpa using this
  · simp [leaf, Res.GoodLt]
  · simp [leaf, Res.GoodLt]


theorem shape_andAppend (l r : Expr) (hl : shape l = true) (hr : shape r = true) :
    shape (andAppend l r) = true := by
  cases l with
  | and cs =>
    simp only [shape, Bool.and_eq_true, decide_eq_true_eq] at hl
    simp only [andAppend, shape, Bool.and_eq_true, decide_eq_true_eq, List.length_append,
      List.length_cons, List.length_nil, shapeList_append, shapeList, hr, hl.2]
    exact ⟨by omega, by simp⟩
  | _ => simp_all [andAppend, shape, shapeList]

theorem Res.GoodLt.le {n : Nat} {r : Res Expr} (h : r.GoodLt n) : r.GoodLe n := by
  cases r <;> simp_all [Res.GoodLt, Res.GoodLe]
  omega

theorem parse_inv (md : Nat) : ∀ fuel,
    (∀ depth st, (parseExpression md fuel depth st).GoodLt st.toks.length) ∧
    (∀ depth left st, shape left = true → (exprLoop md fuel depth left st).GoodLe st.toks.length) ∧
    (∀ depth st, (parseUnary md fuel depth st).GoodLt st.toks.length) ∧
    (∀ depth st, (parseParen md fuel depth st).GoodLe st.toks.length) := by
  intro fuel
  induction fuel with
  | zero =>
    refine ⟨?_, ?_, ?_, ?_⟩ <;> intros <;> simp [parseExpression, exprLoop, parseUnary, parseParen, Res.GoodLt, Res.GoodLe]
  | succ n ih =>
    obtain ⟨ihE, ihL, ihU, ihP⟩ := ih
    refine ⟨?_, ?_, ?_, ?_⟩
    · -- parseExpression
      intro depth st
      simp only [parseExpression]
      split
      · simp [leaf, Res.GoodLt]
      · have hu := ihU depth st
        split
        · next left st1 heq =>
          rw [heq] at hu
          simp only [Res.GoodLt] at hu
          have hl := ihL depth left st1 hu.1
          revert hl
          generalize exprLoop md n depth left st1 = r
          cases r <;> simp [Res.GoodLt, Res.GoodLe]
          intro h1 h2; exact ⟨h1, by omega⟩
        · exact hu
    · -- exprLoop
      intro depth left st hs
      simp only [exprLoop]
      have hsk := skipSpaces_length_le st.toks
      split
      · simp [Res.GoodLe, hs]
      · next next rest heq =>
        rw [heq] at hsk
        simp only [List.length_cons] at hsk
        split
        · split
          · simp [leaf, Res.GoodLe]
          · simp only [Res.GoodLe, hs, List.length_cons, true_and]; omega
        · -- the right-hand side
          have htoks : (if next.isBinary = true then skipSpaces rest else next :: rest).length ≤ st.toks.length := by
            split
            · have := skipSpaces_length_le rest; omega
            · simp only [List.length_cons]; omega
          generalize (if next.isBinary = true then skipSpaces rest else next :: rest) = toks' at htoks
          have hright : (if next = Tok.orOp then parseExpression md n (depth + 1) ⟨toks', st.look⟩
              else parseUnary md n depth ⟨toks', st.look⟩).GoodLt toks'.length := by
            split
            · exact ihE _ _
            · exact ihU _ _
          revert hright
          generalize (if next = Tok.orOp then parseExpression md n (depth + 1) ⟨toks', st.look⟩
              else parseUnary md n depth ⟨toks', st.look⟩) = right
          intro hright
          split
          · cases right with
            | ok r st' =>
              simp only [Res.GoodLt] at hright
              exact (ihL depth _ st' (shape_andAppend _ _ hs hright.1)).mono (by omega)
            | err e => simp [Res.GoodLe]
            | fuel => simp [Res.GoodLe]
          · split
            · cases right with
              | ok r st' =>
                simp only [Res.GoodLt] at hright
                refine (ihL depth _ st' ?_).mono (by omega)
                simp [shape, shapeList, hs, hright.1]
              | err e => simp [Res.GoodLe]
              | fuel => simp [Res.GoodLe]
            · cases right <;> simp [leaf, Res.GoodLe]
    · -- parseUnary
      intro depth st
      simp only [parseUnary]
      have hsk := skipSpaces_length_le st.toks
      split
      · simp [leaf, Res.GoodLt]
      · next v rest heq =>
        rw [heq] at hsk
        exact (parseKeyTerm_good _).mono hsk
      · next c rest heq =>
        rw [heq] at hsk
        exact (parseKeyTerm_good _).mono hsk
      · next rest heq =>
        rw [heq] at hsk
        simp only [List.length_cons] at hsk
        have := ihP depth ⟨rest, st.look⟩
        revert this
        generalize parseParen md n depth ⟨rest, st.look⟩ = r
        cases r <;> simp [Res.GoodLt, Res.GoodLe]
        intro h1 h2; exact ⟨h1, by omega⟩
      · simp [leaf, Res.GoodLt]
      · simp [leaf, Res.GoodLt]
    · -- parseParen
      intro depth st
      simp only [parseParen]
      have he := ihE (depth + 1) ⟨st.toks, st.look + 1⟩
      revert he
      generalize parseExpression md n (depth + 1) ⟨st.toks, st.look + 1⟩ = r
      intro he
      cases r with
      | ok child st' =>
        simp only [Res.GoodLt] at he
        have hsk := skipSpaces_length_le st'.toks
        simp only
        split
        · simp [leaf, Res.GoodLe]
        · next rest heq =>
          rw [heq] at hsk
          simp only [List.length_cons] at hsk
          simp only [Res.GoodLe, shape, he.1, true_and]
          omega
        · simp [leaf, Res.GoodLe]
      | err e => simp [Res.GoodLe]
      | fuel => simp [Res.GoodLe]


theorem parseQuotedString_ne_fuel (q : UInt8) (acc : Bytes) (toks : List Tok) (look : Nat) :
    parseQuotedString q acc toks look ≠ .fuel := by
  induction toks generalizing acc with
  | nil => simp [parseQuotedString, leaf]
  | cons t rest ih =>
    cases t
    case quoting c =>
      simp only [parseQuotedString]
      split <;> simp [leaf]
    all_goals
      simp only [parseQuotedString]
      exact ih _

theorem parseKeyTerm_ne_fuel (st : PState) : parseKeyTerm st ≠ .fuel := by
  unfold parseKeyTerm
  split
  · simp
  · exact parseQuotedString_ne_fuel _ _ _ _
  · simp [leaf]
  · simp [leaf]

theorem parse_fuel (md : Nat) : ∀ fuel,
    (∀ depth st, 3 * st.toks.length + 2 ≤ fuel → parseExpression md fuel depth st ≠ .fuel) ∧
    (∀ depth left st, 3 * st.toks.length + 2 ≤ fuel → exprLoop md fuel depth left st ≠ .fuel) ∧
    (∀ depth st, 3 * st.toks.length + 1 ≤ fuel → parseUnary md fuel depth st ≠ .fuel) ∧
    (∀ depth st, 3 * st.toks.length + 3 ≤ fuel → parseParen md fuel depth st ≠ .fuel) := by
  intro fuel
  induction fuel with
  | zero =>
    refine ⟨?_, ?_, ?_, ?_⟩ <;> intros <;> omega
  | succ n ih =>
    obtain ⟨ihE, ihL, ihU, ihP⟩ := ih
    refine ⟨?_, ?_, ?_, ?_⟩
    · intro depth st hf
      simp only [parseExpression]
      split
      · simp [leaf]
      · have hu := ihU depth st (by omega)
        have hg := (parse_inv md n).2.2.1 depth st
        split
        · next left st1 heq =>
          rw [heq] at hg
          simp only [Res.GoodLt] at hg
          exact ihL depth left st1 (by omega)
        · exact hu
    · intro depth left st hf
      simp only [exprLoop]
      have hsk := skipSpaces_length_le st.toks
      split
      · simp
      · next next rest heq =>
        rw [heq] at hsk
        simp only [List.length_cons] at hsk
        split
        · split <;> simp [leaf]
        · next hnr =>
          have htoks : (if next.isBinary = true then skipSpaces rest else next :: rest).length ≤ st.toks.length
              ∧ (next = Tok.orOp → (if next.isBinary = true then skipSpaces rest else next :: rest).length + 1 ≤ st.toks.length) := by
            constructor
            · split
              · have := skipSpaces_length_le rest; omega
              · simp only [List.length_cons]; omega
            · intro h; subst h
              simp only [Tok.isBinary, if_true]
              have := skipSpaces_length_le rest; omega
          generalize (if next.isBinary = true then skipSpaces rest else next :: rest) = toks' at htoks
          have hright : (if next = Tok.orOp then parseExpression md n (depth + 1) ⟨toks', st.look⟩
              else parseUnary md n depth ⟨toks', st.look⟩).GoodLt toks'.length ∧
              (if next = Tok.orOp then parseExpression md n (depth + 1) ⟨toks', st.look⟩
              else parseUnary md n depth ⟨toks', st.look⟩) ≠ .fuel := by
            split
            · next h => exact ⟨(parse_inv md n).1 _ _, ihE _ _ (by have := htoks.2 h; simp only; omega)⟩
            · exact ⟨(parse_inv md n).2.2.1 _ _, ihU _ _ (by simp only; omega)⟩
          revert hright
          generalize (if next = Tok.orOp then parseExpression md n (depth + 1) ⟨toks', st.look⟩
              else parseUnary md n depth ⟨toks', st.look⟩) = right
          intro hright
          split
          · cases right with
            | ok r st' =>
              simp only [Res.GoodLt] at hright
              exact ihL depth _ st' (by omega)
            | err e => simp
            | fuel => exact absurd rfl hright.2
          · split
            · cases right with
              | ok r st' =>
                simp only [Res.GoodLt] at hright
                exact ihL depth _ st' (by omega)
              | err e => simp
              | fuel => exact absurd rfl hright.2
            · cases right with
              | ok r st' => simp [leaf]
              | err e => simp
              | fuel => exact absurd rfl hright.2
    · intro depth st hf
      simp only [parseUnary]
      have hsk := skipSpaces_length_le st.toks
      split
      · simp [leaf]
      · exact parseKeyTerm_ne_fuel _
      · exact parseKeyTerm_ne_fuel _
      · next rest heq =>
        rw [heq] at hsk
        simp only [List.length_cons] at hsk
        exact ihP depth ⟨rest, st.look⟩ (by simp only; omega)
      · simp [leaf]
      · simp [leaf]
    · intro depth st hf
      simp only [parseParen]
      have he := ihE (depth + 1) ⟨st.toks, st.look + 1⟩ (by simp only; omega)
      revert he
      generalize parseExpression md n (depth + 1) ⟨st.toks, st.look + 1⟩ = r
      intro he
      cases r with
      | ok child st' =>
        simp only
        split <;> simp [leaf]
      | err e => simp
      | fuel => exact absurd rfl he


/-! ### from the index of a segment to one block's keys -/

theorem eq_of_nodup_map {α β : Type} (f : α → β) (l : List α) (h : (l.map f).Nodup)
    (a b : α) (ha : a ∈ l) (hb : b ∈ l) (hf : f a = f b) : a = b := by
  induction l with
  | nil => cases ha
  | cons x xs ih =>
    simp only [List.map_cons, List.nodup_cons, List.mem_map, not_exists, not_and] at h
    simp only [List.mem_cons] at ha hb
    rcases ha with ha | ha <;> rcases hb with hb | hb
    · rw [ha, hb]
    · subst ha; exact absurd hf.symm (h.1 b hb)
    · subst hb; exact absurd hf (h.1 a ha)
    · exact ih h.2 ha hb

/-- The index written at end of stream, read at one of the blocks it was built from, is that block's
own key set — provided no two outputs carry the same block number. -/
theorem linked_buildIndex (items : List Item) (hnd : (items.map Item.block).Nodup)
    (it : Item) (hit : it ∈ items) : Linked (buildIndex items) it.keys it.block := by
  intro k
  rw [mem_buildIndex]
  constructor
  · rintro ⟨it', h1, h2, h3⟩
    have := eq_of_nodup_map Item.block items hnd it it' hit h1 h3
    subst this; exact h2
  · intro h; exact ⟨it, hit, h, rfl⟩

/-- a block that no output carries is in no bitmap of the index -/
theorem linked_buildIndex_absent (items : List Item) (b : Nat) (hb : ∀ it ∈ items, it.block ≠ b) :
    Linked (buildIndex items) [] b := by
  intro k
  rw [mem_buildIndex]
  constructor
  · rintro ⟨it', h1, _, h3⟩
    exact absurd h3.symm (hb it' h1)
  · intro h; cases h

theorem Index.get_none_of_not_mem (idx : Index) (k : Key) (h : k ∉ idx.map Prod.fst) :
    idx.get k = none := by
  induction idx with
  | nil => rfl
  | cons kb rest ih =>
    obtain ⟨k0, bm⟩ := kb
    simp only [List.map_cons, List.mem_cons, not_or] at h
    have h0 : ¬ k0 = k := fun e => h.1 e.symm
    simp only [Index.get, h0, if_false]
    exact ih h.2

/-- the keys an arbitrary index records for block `b` -/
def Index.keysAt (idx : Index) (b : Nat) : List Key :=
  (idx.map Prod.fst).filter (fun k => (idx.blocksOf k).contains b)

theorem linked_keysAt (idx : Index) (b : Nat) : Linked idx (idx.keysAt b) b := by
  intro k
  simp only [Index.keysAt, List.mem_filter, List.contains_iff_mem]
  constructor
  · intro h
    refine ⟨?_, h⟩
    apply Classical.byContradiction
    intro hk
    simp [Index.blocksOf, Index.get_none_of_not_mem idx k hk] at h
  · exact fun h => h.2

mutual
theorem holds_nil (e : Expr) (h : accepted e = true) : holds [] e = false := by
  match e with
  | .key v q => simp [holds]
  | .and [] => simp [accepted] at h
  | .and (c :: rest) =>
    simp only [accepted, acceptedList, Bool.and_eq_true] at h
    simp [holds, holdsAll, holds_nil c h.2.1]
  | .or cs =>
    simp only [accepted, Bool.and_eq_true] at h
    simp only [holds, holdsAny_nil cs h.2]
  | .paren c =>
    simp only [accepted] at h
    simp only [holds, holds_nil c h]
  | .not c => simp [accepted] at h
theorem holdsAny_nil (cs : List Expr) (h : acceptedList cs = true) : holdsAny [] cs = false := by
  match cs with
  | [] => rfl
  | c :: rest =>
    simp only [acceptedList, Bool.and_eq_true] at h
    simp [holdsAny, holds_nil c h.1, holdsAny_nil rest h.2]
end

/-! ### the depth limit only rejects -/

/-- the depth-limit outcome (the panic `Parse` recovers) -/
def Res.tooDeep : Res Expr → Prop
  | .err e => e.kind = .tooDeep
  | _ => False

/-- `r` (computed with a smaller depth limit) is either the depth-limit error or the same as `r'` -/
def Res.Stable (r r' : Res Expr) : Prop := r.tooDeep ∨ r = r'

theorem PErr.wrap_tooDeep (w : Wrap) (e : PErr) (h : e.kind = .tooDeep) : (e.wrap w).kind = .tooDeep := by
  simp [PErr.wrap, h]

theorem depth_mono (md md' : Nat) (hmd : md ≤ md') : ∀ fuel,
    (∀ depth st, (parseExpression md fuel depth st).Stable (parseExpression md' fuel depth st)) ∧
    (∀ depth left st, (exprLoop md fuel depth left st).Stable (exprLoop md' fuel depth left st)) ∧
    (∀ depth st, (parseUnary md fuel depth st).Stable (parseUnary md' fuel depth st)) ∧
    (∀ depth st, (parseParen md fuel depth st).Stable (parseParen md' fuel depth st)) := by
  intro fuel
  induction fuel with
  | zero =>
    refine ⟨?_, ?_, ?_, ?_⟩ <;> intros <;> exact Or.inr (by simp [parseExpression, exprLoop, parseUnary, parseParen])
  | succ n ih =>
    obtain ⟨ihE, ihL, ihU, ihP⟩ := ih
    refine ⟨?_, ?_, ?_, ?_⟩
    · intro depth st
      simp only [parseExpression]
      by_cases h : depth ≥ md
      · simp only [h, if_true]
        exact Or.inl (by simp [leaf, Res.tooDeep])
      · by_cases h' : depth ≥ md'
        · omega
        · simp only [h, h', if_false]
          rcases ihU depth st with hu | hu
          · revert hu
            generalize parseUnary md n depth st = r
            intro hu
            cases r with
            | ok a s => simp [Res.tooDeep] at hu
            | err e => exact Or.inl hu
            | fuel => simp [Res.tooDeep] at hu
          · rw [hu]
            generalize parseUnary md' n depth st = r
            cases r with
            | ok a s => exact ihL depth a s
            | err e => exact Or.inr rfl
            | fuel => exact Or.inr rfl
    · intro depth left st
      simp only [exprLoop]
      split
      · exact Or.inr rfl
      · next next rest heq =>
        split
        · exact Or.inr rfl
        · generalize (if next.isBinary = true then skipSpaces rest else next :: rest) = toks'
          have hright : (if next = Tok.orOp then parseExpression md n (depth + 1) ⟨toks', st.look⟩
              else parseUnary md n depth ⟨toks', st.look⟩).Stable
              (if next = Tok.orOp then parseExpression md' n (depth + 1) ⟨toks', st.look⟩
              else parseUnary md' n depth ⟨toks', st.look⟩) := by
            split
            · exact ihE _ _
            · exact ihU _ _
          revert hright
          generalize (if next = Tok.orOp then parseExpression md n (depth + 1) ⟨toks', st.look⟩
              else parseUnary md n depth ⟨toks', st.look⟩) = right
          generalize (if next = Tok.orOp then parseExpression md' n (depth + 1) ⟨toks', st.look⟩
              else parseUnary md' n depth ⟨toks', st.look⟩) = right'
          intro hright
          rcases hright with hr | hr
          · cases right with
            | ok a s => simp [Res.tooDeep] at hr
            | fuel => simp [Res.tooDeep] at hr
            | err e =>
              simp only [Res.tooDeep] at hr
              refine Or.inl ?_
              split
              · exact PErr.wrap_tooDeep _ _ hr
              · split
                · exact PErr.wrap_tooDeep _ _ hr
                · exact PErr.wrap_tooDeep _ _ hr
          · subst hr
            split
            · cases right with
              | ok r st' => exact ihL _ _ _
              | err e => exact Or.inr rfl
              | fuel => exact Or.inr rfl
            · split
              · cases right with
                | ok r st' => exact ihL _ _ _
                | err e => exact Or.inr rfl
                | fuel => exact Or.inr rfl
              · exact Or.inr rfl
    · intro depth st
      simp only [parseUnary]
      split
      · exact Or.inr rfl
      · exact Or.inr rfl
      · exact Or.inr rfl
      · exact ihP _ _
      · exact Or.inr rfl
      · exact Or.inr rfl
    · intro depth st
      simp only [parseParen]
      rcases ihE (depth + 1) ⟨st.toks, st.look + 1⟩ with he | he
      · revert he
        generalize parseExpression md n (depth + 1) ⟨st.toks, st.look + 1⟩ = r
        intro he
        cases r with
        | ok a s => simp [Res.tooDeep] at he
        | fuel => simp [Res.tooDeep] at he
        | err e => exact Or.inl (PErr.wrap_tooDeep _ _ he)
      · rw [he]; exact Or.inr rfl

/-! ### the lexer keeps every byte -/

def LexSt.acc : LexSt → Bytes
  | .none => []
  | .inName a => a
  | .inSpace a => a

theorem flush_text (st : LexSt) : st.flush.flatMap Tok.text = st.acc := by
  cases st <;> simp [LexSt.flush, LexSt.acc, Tok.text]

theorem lexGo_text (st : LexSt) (input : Bytes) :
    (lexGo st input).flatMap Tok.text = st.acc ++ input := by
  fun_induction lexGo st input
  case case1 st => simpa using flush_text st
  case case2 => simp_all [LexSt.acc]
  case case3 => simp_all [LexSt.acc]
  case case4 c rest st _ _ ih3 ih2 ih1 =>
    rw [List.flatMap_append, flush_text]
    congr 1
    simp only [LexSt.acc, List.nil_append, List.singleton_append] at ih1 ih2 ih3
    split
    · exact ih3
    split
    · simp [Tok.text, ih2]
    split
    · next h => have h := eq_of_beq h; subst h; simp [Tok.text, ih2]
    split
    · next h => have h := eq_of_beq h; subst h; simp [Tok.text, ih2]
    split
    · next h => have h := eq_of_beq h; subst h; simp [Tok.text, ih2]
    split
    · next c' rest' =>
      simp only at ih1
      split
      · next h =>
        simp only [Bool.and_eq_true, beq_iff_eq] at h
        obtain ⟨h1, h2⟩ := h; subst h1 h2; simp [Tok.text, ih1.1]
      split
      · next h =>
        simp only [Bool.and_eq_true, beq_iff_eq] at h
        obtain ⟨h1, h2⟩ := h; subst h1 h2; simp [Tok.text, ih1.1]
      · exact ih1.2.2
    · exact ih1

end SV.Sqe

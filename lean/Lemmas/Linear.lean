import Model.Linear
import Lemmas.History
import Props.C09
/-!
Helper lemmas about the linear specification `Model/Linear.lean` (C01, C07).

* segment compositionality of `runBlocks` (`runBlocks_add`, block numbers of a run, `find?` in the
  blocks of a shorter/longer run);
* the store invariant `LInv` of a linear state and its preservation by `runModule`/`runBlock`/`runBlocks`;
* the cached-output branch of `RunModule`: `runModuleC` on a cache that *agrees* with what the block's
  execution produces (`CacheOK`) computes exactly what `runModule` computes — a map/index hit appends what
  `execModule` appends, a store hit replays the recorded log (`SV.C09.replay_full`), a miss executes;
* `Agrees`: the same statement for runs of consecutive blocks (`runBlocksC_eq_of_agrees`).
-/
namespace SV.Lin
open SV

/-! ### segments -/

/-- the run of `n2` more blocks glued behind a run `r1` (which stopped the execution if it failed) -/
def glue (r1 r2 : RunRes) : RunRes := ⟨r2.st, r1.blocks ++ r2.blocks, r2.failed⟩

theorem runBlocks_add (w : World) (md : Nat) (n2 : Nat) : ∀ (n1 b : Nat) (st : LState),
    runBlocks w md (n1 + n2) b st =
      match (runBlocks w md n1 b st).failed with
      | none => glue (runBlocks w md n1 b st) (runBlocks w md n2 (b + n1) (runBlocks w md n1 b st).st)
      | some _ => runBlocks w md n1 b st := by
  intro n1
  induction n1 with
  | zero =>
    intro b st
    simp only [Nat.zero_add, runBlocks, glue, List.nil_append, Nat.add_zero]
  | succ n1 ih =>
    intro b st
    have e : n1 + 1 + n2 = (n1 + n2) + 1 := by omega
    rw [e]
    simp only [runBlocks]
    cases hb : runBlock w md st b with
    | error e => rfl
    | ok p =>
      obtain ⟨st', outs⟩ := p
      simp only []
      rw [ih (b + 1) st']
      have e2 : b + 1 + n1 = b + (n1 + 1) := by omega
      cases hf : (runBlocks w md n1 (b + 1) st').failed with
      | some f => dsimp only; rw [hf]
      | none => simp only [glue, List.cons_append, e2]

/-- block numbers recorded by a run lie in `[b, b+n)` -/
theorem runBlocks_range (w : World) (md : Nat) : ∀ (n b : Nat) (st : LState),
    ∀ p ∈ (runBlocks w md n b st).blocks, b ≤ p.1 ∧ p.1 < b + n := by
  intro n
  induction n with
  | zero => intro b st p hp; simp [runBlocks] at hp
  | succ n ih =>
    intro b st p hp
    simp only [runBlocks] at hp
    cases hb : runBlock w md st b with
    | error e => rw [hb] at hp; simp at hp
    | ok q =>
      rw [hb] at hp
      simp only [List.mem_cons] at hp
      rcases hp with hp | hp
      · subst hp; simp only; omega
      · have := ih (b + 1) q.1 p hp; omega

/-- looking up block `b'` in the recorded blocks -/
def findBlock (blocks : List (Nat × BlockOut)) (b' : Nat) : Option (Nat × BlockOut) :=
  blocks.find? (fun p => p.1 == b')

theorem findBlock_none_of_range {blocks : List (Nat × BlockOut)} {b' : Nat}
    (h : ∀ p ∈ blocks, p.1 ≠ b') : findBlock blocks b' = none := by
  unfold findBlock
  rw [List.find?_eq_none]
  intro p hp
  simpa using h p hp

theorem findBlock_append (l1 l2 : List (Nat × BlockOut)) (b' : Nat) :
    findBlock (l1 ++ l2) b' = (findBlock l1 b').or (findBlock l2 b') := by
  unfold findBlock
  rw [List.find?_append]

/-- a longer run from the same start records the same thing for every block the shorter run recorded -/
theorem findBlock_mono (w : World) (md : Nat) (n k b : Nat) (st : LState) (b' : Nat) (p : Nat × BlockOut)
    (h : findBlock (runBlocks w md n b st).blocks b' = some p) :
    findBlock (runBlocks w md (n + k) b st).blocks b' = some p := by
  rw [runBlocks_add]
  cases hf : (runBlocks w md n b st).failed with
  | some f => exact h
  | none => simp only [glue, findBlock_append, h, Option.some_or]

/-- and records nothing else for the blocks in the range of the shorter run -/
theorem findBlock_anti (w : World) (md : Nat) (n k b : Nat) (st : LState) (b' : Nat) (hb' : b' < b + n) :
    findBlock (runBlocks w md (n + k) b st).blocks b' = findBlock (runBlocks w md n b st).blocks b' := by
  rw [runBlocks_add]
  cases hf : (runBlocks w md n b st).failed with
  | some f => rfl
  | none =>
    simp only [glue, findBlock_append]
    rw [findBlock_none_of_range (blocks := (runBlocks w md k (b + n) (runBlocks w md n b st).st).blocks)]
    · simp
    · intro p hp
      have := runBlocks_range w md k (b + n) _ p hp
      omega

/-! ### the store invariant of a linear state -/

/-- every store of the state has distinct keys and an exact size (`SInv`); nothing is asked of the
deltas/log a store carries (`reset` clears them before the next block) -/
def LInv (st : LState) : Prop := ∀ p ∈ st.stores, SInv p.2

theorem sinv_empty : SInv Store.empty := ⟨by unfold NodupKeys; decide, rfl⟩

theorem LInv.empty : LInv ⟨[]⟩ := by intro p hp; simp at hp

theorem LInv.getStore {st : LState} (h : LInv st) (n : Bytes) : SInv (getStore st n) := by
  unfold Lin.getStore
  cases hf : st.stores.find? (fun p => p.1 == n) with
  | none => exact sinv_empty
  | some p => exact h p (List.mem_of_find?_eq_some hf)

theorem LInv.setStore {st : LState} (h : LInv st) (n : Bytes) (s : Store) (hs : SInv s) :
    LInv (setStore st n s) := by
  unfold Lin.setStore
  split
  · intro p hp
    simp only [List.mem_map] at hp
    obtain ⟨q, hq, rfl⟩ := hp
    split
    · exact hs
    · exact h q hq
  · intro p hp
    simp only [List.mem_append, List.mem_singleton] at hp
    rcases hp with hp | hp
    · exact h p hp
    · subst hp; exact hs

theorem sinv_reset {s : Store} (h : SInv s) : SInv (reset s) := ⟨h.nodup, h.size⟩

theorem LInv.resetAll {st : LState} (h : LInv st) : LInv (resetAll st) := by
  intro p hp
  simp only [Lin.resetAll, List.mem_map] at hp
  obtain ⟨q, hq, rfl⟩ := hp
  exact sinv_reset (h q hq)

/-! ### what one module does to the block accumulator -/

/-- the three things `runModule` can do: nothing (not started, filtered out, skipped, empty output
skipped), append a map/index output, or execute a store block -/
inductive Step (acc : BlockAcc) (m : ModSpec) : BlockAcc → Prop
  | same : Step acc m acc
  | out (v : Bytes) : m.kind ≠ .store → Step acc m { acc with outs := acc.outs ++ [(m.name, v)] }
  | store (calls : List Op) (s' : Store) : m.kind = .store →
      execBlock (cfgOf m) (stdSem (cfgOf m)) (reset (getStore acc.st m.name)) calls = .ok s' →
      Step acc m { acc with st := setStore acc.st m.name s', deltas := acc.deltas ++ [(m.name, s'.deltas)],
                            logs := acc.logs ++ [(m.name, readOps s')] }

theorem execModule_step {w : World} {b : Nat} {acc acc1 : BlockAcc} {m : ModSpec}
    (h : execModule w b acc m = .ok acc1) : Step acc m acc1 := by
  unfold execModule at h
  split at h
  · injection h with h; subst h; exact .same
  split at h
  · simp at h
  revert h
  generalize digestInputs w acc.st acc.outs acc.deltas m b = de
  obtain ⟨digest, extra⟩ := de
  intro h
  dsimp only at h
  cases hk : m.kind with
  | map =>
    rw [hk] at h
    dsimp only at h
    split at h
    · injection h with h; subst h; exact .out _ (by rw [hk]; decide)
    split at h
    · injection h with h; subst h; exact .same
    · injection h with h; subst h; exact .out _ (by rw [hk]; decide)
  | index =>
    rw [hk] at h
    dsimp only at h
    injection h with h; subst h; exact .out _ (by rw [hk]; decide)
  | store =>
    rw [hk] at h
    dsimp only at h
    split at h
    · simp at h
    · rename_i ops hops
      split at h
      · simp at h
      · rename_i s' hs'
        injection h with h; subst h
        exact .store ops s' hk hs'

theorem runModule_step {w : World} {md b : Nat} {acc acc1 : BlockAcc} {m : ModSpec}
    (h : runModule w md b acc m = .ok acc1) : Step acc m acc1 := by
  unfold runModule at h
  split at h
  · injection h with h; subst h; exact .same
  split at h
  · simp at h
  · injection h with h; subst h; exact .same
  · exact execModule_step h

theorem Step.linv {acc acc1 : BlockAcc} {m : ModSpec} (h : Step acc m acc1) (hi : LInv acc.st) : LInv acc1.st := by
  cases h with
  | same => exact hi
  | out v _ => exact hi
  | store calls s' _ hs' =>
    obtain ⟨bd, i1, _⟩ := execBlock_inv (hi.getStore m.name).reset hs'
    exact hi.setStore _ _ i1.sinv

/-- outputs and logs only grow, by entries under the module's own name -/
theorem Step.shape {acc acc1 : BlockAcc} {m : ModSpec} (h : Step acc m acc1) :
    ∃ eo el, acc1.outs = acc.outs ++ eo ∧ acc1.logs = acc.logs ++ el ∧
      (∀ q ∈ eo, q.1 = m.name) ∧ (∀ q ∈ el, q.1 = m.name) := by
  cases h with
  | same => exact ⟨[], [], by simp, by simp, by simp, by simp⟩
  | out v _ => exact ⟨[(m.name, v)], [], rfl, by simp, by simp, by simp⟩
  | store calls s' _ _ => exact ⟨[], [(m.name, readOps s')], by simp, rfl, by simp, by simp⟩

/-! ### folds in `Except` -/

theorem foldlM_cons_ok {α β ε : Type} {f : β → α → Except ε β} {a a' : β} {x : α} {xs : List α}
    (h : f a x = .ok a') : (x :: xs).foldlM f a = xs.foldlM f a' := by
  rw [List.foldlM_cons, h]; rfl

theorem foldlM_cons_err {α β ε : Type} {f : β → α → Except ε β} {a : β} {e : ε} {x : α} {xs : List α}
    (h : f a x = .error e) : (x :: xs).foldlM f a = .error e := by
  rw [List.foldlM_cons, h]; rfl

theorem foldlM_nil_ok {α β ε : Type} {f : β → α → Except ε β} {a : β} :
    ([] : List α).foldlM f a = .ok a := rfl

/-- what the modules `ms` add to the accumulator -/
theorem fold_shape {w : World} {md b : Nat} : ∀ (ms : List ModSpec) (acc accF : BlockAcc),
    ms.foldlM (runModule w md b) acc = .ok accF →
    (LInv acc.st → LInv accF.st) ∧
    ∃ eo el, accF.outs = acc.outs ++ eo ∧ accF.logs = acc.logs ++ el ∧
      (∀ q ∈ eo, q.1 ∈ ms.map (·.name)) ∧ (∀ q ∈ el, q.1 ∈ ms.map (·.name)) := by
  intro ms
  induction ms with
  | nil =>
    intro acc accF h
    rw [foldlM_nil_ok] at h
    injection h with h; subst h
    exact ⟨id, [], [], by simp, by simp, by simp, by simp⟩
  | cons m ms ih =>
    intro acc accF h
    cases h1 : runModule w md b acc m with
    | error e => rw [foldlM_cons_err h1] at h; simp at h
    | ok acc1 =>
      rw [foldlM_cons_ok h1] at h
      have st := runModule_step h1
      obtain ⟨hl, eo, el, e1, e2, e3, e4⟩ := ih acc1 accF h
      obtain ⟨eo0, el0, f1, f2, f3, f4⟩ := st.shape
      refine ⟨fun hi => hl (st.linv hi), eo0 ++ eo, el0 ++ el, ?_, ?_, ?_, ?_⟩
      · rw [e1, f1, List.append_assoc]
      · rw [e2, f2, List.append_assoc]
      · intro q hq
        simp only [List.mem_append] at hq
        simp only [List.map_cons, List.mem_cons]
        rcases hq with hq | hq
        · exact Or.inl (f3 q hq)
        · exact Or.inr (e3 q hq)
      · intro q hq
        simp only [List.mem_append] at hq
        simp only [List.map_cons, List.mem_cons]
        rcases hq with hq | hq
        · exact Or.inl (f4 q hq)
        · exact Or.inr (e4 q hq)

/-! ### cache entries -/

/-- what the output file of a block holds for module `name` (the per-block part of `cacheOf`) -/
def entryOf (bo : BlockOut) (name : Bytes) : Option Cached :=
  match bo.outs.find? (fun q => q.1 == name) with
  | some q => some (.out q.2)
  | none =>
    match bo.logs.find? (fun q => q.1 == name) with
    | some q => some (.log q.2)
    | none => none

theorem cacheOf_eq (blocks : List (Nat × BlockOut)) (sel : Bytes → Nat → Bool) (name : Bytes) (b : Nat) :
    cacheOf blocks sel name b =
      if sel name b then
        match findBlock blocks b with
        | none => none
        | some p => entryOf p.2 name
      else none := rfl

theorem find?_none_of_ne {α : Type} {l : List (Bytes × α)} {name : Bytes} (h : ∀ q ∈ l, q.1 ≠ name) :
    l.find? (fun q => q.1 == name) = none := by
  rw [List.find?_eq_none]
  intro q hq
  simpa using h q hq

theorem find?_hit {α : Type} {l1 l2 : List (Bytes × α)} {name : Bytes} {v : α} (h : ∀ q ∈ l1, q.1 ≠ name) :
    (l1 ++ (name, v) :: l2).find? (fun q => q.1 == name) = some (name, v) := by
  rw [List.find?_append, find?_none_of_ne h]
  simp

theorem entryOf_none {outs : Outputs} {logs : List (Bytes × List Op)} {name : Bytes}
    (h1 : ∀ q ∈ outs, q.1 ≠ name) (h2 : ∀ q ∈ logs, q.1 ≠ name) : entryOf ⟨outs, logs⟩ name = none := by
  unfold entryOf
  simp only [find?_none_of_ne h1, find?_none_of_ne h2]

theorem entryOf_out {o1 o2 : Outputs} {logs : List (Bytes × List Op)} {name v : Bytes}
    (h1 : ∀ q ∈ o1, q.1 ≠ name) : entryOf ⟨o1 ++ (name, v) :: o2, logs⟩ name = some (.out v) := by
  unfold entryOf
  simp only [find?_hit h1]

theorem entryOf_log {outs : Outputs} {l1 l2 : List (Bytes × List Op)} {name : Bytes} {ops : List Op}
    (h1 : ∀ q ∈ outs, q.1 ≠ name) (h2 : ∀ q ∈ l1, q.1 ≠ name) :
    entryOf ⟨outs, l1 ++ (name, ops) :: l2⟩ name = some (.log ops) := by
  unfold entryOf
  simp only [find?_none_of_ne h1, find?_hit h2]

/-! ### one module with a cache -/

/-- a miss executes -/
theorem runModuleC_miss {w : World} {md b : Nat} {c : Cache} {acc : BlockAcc} {m : ModSpec}
    (h : c m.name b = none) : runModuleC w md c b acc m = runModule w md b acc m := by
  unfold runModuleC runModule
  rw [h]

/-- the branch of `runModuleC` taken after the index check -/
def hitBranch (w : World) (ce : Option Cached) (b : Nat) (acc : BlockAcc) (m : ModSpec) : Except LErr BlockAcc :=
  match ce, m.kind with
  | some (.out v), .map => .ok { acc with outs := acc.outs ++ [(m.name, v)] }
  | some (.out v), .index => .ok { acc with outs := acc.outs ++ [(m.name, v)] }
  | some (.log ops), .store =>
    let c := cfgOf m
    match applyOps c (stdSem c) (reset (getStore acc.st m.name)) ops with
    | .error e => .error (.store e)
    | .ok s' => .ok { acc with st := setStore acc.st m.name s', deltas := acc.deltas ++ [(m.name, s'.deltas)],
                               logs := acc.logs ++ [(m.name, readOps s')] }
  | _, _ => execModule w b acc m

/-- `runModuleC` and `runModule` differ only where `runModule` executes the module -/
theorem runModuleC_cases (w : World) (md b : Nat) (c : Cache) (acc : BlockAcc) (m : ModSpec) :
    runModuleC w md c b acc m = runModule w md b acc m ∨
    (runModule w md b acc m = execModule w b acc m ∧
      runModuleC w md c b acc m = hitBranch w (c m.name b) b acc m) := by
  unfold runModuleC runModule
  by_cases hb : b < m.init
  · simp only [hb, ↓reduceIte]; exact Or.inl trivial
  · simp only [hb, ↓reduceIte]
    cases he : filterSkip md acc m with
    | error e => exact Or.inl rfl
    | ok t =>
      cases t with
      | true => exact Or.inl rfl
      | false => exact Or.inr ⟨rfl, rfl⟩

/-- a hit whose content is what the module's execution produces gives the same accumulator: a map/index
output is appended as is; a store's log is replayed, and the replay on the (clean, by the invariant)
pre-block store gives exactly the executed store (`SV.C09.replay_full`) -/
theorem runModuleC_hit {w : World} {md b : Nat} {c : Cache} {acc acc1 : BlockAcc} {m : ModSpec}
    (hi : LInv acc.st) (hrun : runModule w md b acc m = .ok acc1)
    (hc : c m.name b = none ∨
      (∃ v, m.kind ≠ .store ∧ c m.name b = some (.out v) ∧ acc1 = { acc with outs := acc.outs ++ [(m.name, v)] }) ∨
      (∃ calls s', m.kind = .store ∧
        execBlock (cfgOf m) (stdSem (cfgOf m)) (reset (getStore acc.st m.name)) calls = .ok s' ∧
        c m.name b = some (.log (readOps s')) ∧
        acc1 = { acc with st := setStore acc.st m.name s', deltas := acc.deltas ++ [(m.name, s'.deltas)],
                          logs := acc.logs ++ [(m.name, readOps s')] })) :
    runModuleC w md c b acc m = .ok acc1 := by
  rcases runModuleC_cases w md b c acc m with h | ⟨_, h⟩
  · rw [h]; exact hrun
  rw [h]
  rcases hc with hc | ⟨v, hk, hc, rfl⟩ | ⟨calls, s', hk, hs', hc, rfl⟩
  · rw [← h, runModuleC_miss hc]; exact hrun
  · rw [hc]
    unfold hitBranch
    cases hk' : m.kind with
    | map => rfl
    | index => rfl
    | store => exact absurd hk' hk
  · rw [hc]
    unfold hitBranch
    rw [hk]
    dsimp only
    rw [SV.C09.replay_full (hi.getStore m.name).reset rfl ⟨rfl, rfl, rfl, rfl⟩ hs']

/-! ### one block with a cache -/

/-- the cache's entries for block `b` are entries of the block's output `bo` (any subset of them) -/
def CacheOK (c : Cache) (b : Nat) (bo : BlockOut) : Prop :=
  ∀ name, c name b = none ∨ c name b = entryOf bo name

/-- Over the remaining modules `ms` of a block: if the names of `ms` are distinct and the entries already in
the accumulator carry other names (names of modules already processed), then `find?` of a module's name in
the final block output returns what this very module produced, so every cache entry taken from the final
output replaces the execution without changing the accumulator. -/
theorem foldC_eq {w : World} {md b : Nat} {c : Cache} : ∀ (ms : List ModSpec) (acc accF : BlockAcc),
    (ms.map (·.name)).Nodup →
    (∀ q ∈ acc.outs, q.1 ∉ ms.map (·.name)) →
    (∀ q ∈ acc.logs, q.1 ∉ ms.map (·.name)) →
    LInv acc.st →
    ms.foldlM (runModule w md b) acc = .ok accF →
    (∀ m ∈ ms, c m.name b = none ∨ c m.name b = entryOf ⟨accF.outs, accF.logs⟩ m.name) →
    ms.foldlM (runModuleC w md c b) acc = .ok accF := by
  intro ms
  induction ms with
  | nil => intro acc accF _ _ _ _ h _; exact h
  | cons m ms ih =>
    intro acc accF hn ho hl hi h hc
    simp only [List.map_cons, List.nodup_cons] at hn
    obtain ⟨hm, hn⟩ := hn
    cases h1 : runModule w md b acc m with
    | error e => rw [foldlM_cons_err h1] at h; simp at h
    | ok acc1 =>
      rw [foldlM_cons_ok h1] at h
      have st := runModule_step h1
      obtain ⟨_, eo, el, e1, e2, e3, e4⟩ := fold_shape ms acc1 accF h
      -- names already present / added later differ from `m.name`
      have ho' : ∀ q ∈ acc.outs, q.1 ≠ m.name := fun q hq hEq => ho q hq (by simp [hEq])
      have hl' : ∀ q ∈ acc.logs, q.1 ≠ m.name := fun q hq hEq => hl q hq (by simp [hEq])
      have heo : ∀ q ∈ eo, q.1 ≠ m.name := fun q hq hEq => hm (hEq ▸ e3 q hq)
      have hel : ∀ q ∈ el, q.1 ≠ m.name := fun q hq hEq => hm (hEq ▸ e4 q hq)
      have hcm := hc m (by simp)
      have hstep : runModuleC w md c b acc m = .ok acc1 := by
        apply runModuleC_hit hi h1
        cases st with
        | same =>
          left
          rcases hcm with hcm | hcm
          · exact hcm
          · rw [hcm, e1, e2]
            apply entryOf_none
            · intro q hq; simp only [List.mem_append] at hq
              rcases hq with hq | hq
              · exact ho' q hq
              · exact heo q hq
            · intro q hq; simp only [List.mem_append] at hq
              rcases hq with hq | hq
              · exact hl' q hq
              · exact hel q hq
        | out v hk =>
          rcases hcm with hcm | hcm
          · exact Or.inl hcm
          · right; left
            refine ⟨v, hk, ?_, rfl⟩
            rw [hcm, e1]
            simp only [List.append_assoc, List.singleton_append]
            exact entryOf_out ho'
        | store calls s' hk hs' =>
          rcases hcm with hcm | hcm
          · exact Or.inl hcm
          · right; right
            refine ⟨calls, s', hk, hs', ?_, rfl⟩
            rw [hcm, e1, e2]
            simp only [List.append_assoc, List.singleton_append]
            apply entryOf_log
            · intro q hq; simp only [List.mem_append] at hq
              rcases hq with hq | hq
              · exact ho' q hq
              · exact heo q hq
            · exact hl'
      rw [foldlM_cons_ok hstep]
      obtain ⟨eo0, el0, f1, f2, f3, f4⟩ := st.shape
      apply ih acc1 accF hn _ _ (st.linv hi) h (fun m' hm' => hc m' (by simp [hm']))
      · intro q hq
        rw [f1] at hq; simp only [List.mem_append] at hq
        rcases hq with hq | hq
        · intro hmem; exact ho q hq (by simp [hmem])
        · rw [f3 q hq]; exact hm
      · intro q hq
        rw [f2] at hq; simp only [List.mem_append] at hq
        rcases hq with hq | hq
        · intro hmem; exact hl q hq (by simp [hmem])
        · rw [f4 q hq]; exact hm

theorem runBlock_linv {w : World} {md b : Nat} {st st' : LState} {bo : BlockOut} (hi : LInv st)
    (h : runBlock w md st b = .ok (st', bo)) : LInv st' := by
  unfold runBlock at h
  cases hf : w.foldlM (runModule w md b) ⟨st, [], [], []⟩ with
  | error e => rw [hf] at h; simp at h
  | ok accF =>
    rw [hf] at h
    simp only [Except.ok.injEq, Prod.mk.injEq] at h
    rw [← h.1]
    exact ((fold_shape w _ accF hf).1 hi).resetAll

/-- **a block served (partly) from the cache = the block executed** -/
theorem runBlockC_eq_of_ok {w : World} {md b : Nat} {c : Cache} {st st' : LState} {bo : BlockOut}
    (hn : (w.map (·.name)).Nodup) (hi : LInv st)
    (h : runBlock w md st b = .ok (st', bo)) (hc : CacheOK c b bo) :
    runBlockC w md c st b = .ok (st', bo) := by
  unfold runBlock at h
  unfold runBlockC
  cases hf : w.foldlM (runModule w md b) ⟨st, [], [], []⟩ with
  | error e => rw [hf] at h; simp at h
  | ok accF =>
    rw [hf] at h
    simp only [Except.ok.injEq, Prod.mk.injEq] at h
    obtain ⟨h1, h2⟩ := h
    rw [foldC_eq w ⟨st, [], [], []⟩ accF hn (by intro q hq; simp at hq) (by intro q hq; simp at hq) hi hf
      (fun m _ => by rw [h2]; exact hc m.name)]
    simp only [h1, h2]

/-- no entry for the block: the block is executed -/
theorem runBlockC_eq_of_miss {w : World} {md b : Nat} {c : Cache} {st : LState}
    (hc : ∀ name, c name b = none) : runBlockC w md c st b = runBlock w md st b := by
  unfold runBlockC runBlock
  have : runModuleC w md c b = runModule w md b := by
    funext acc m; exact runModuleC_miss (hc m.name)
  rw [this]

/-! ### consecutive blocks with a cache -/

/-- on the blocks `[b, b+n)` every entry of the cache is an entry of the block as recorded in `blocks` -/
def Agrees (c : Cache) (blocks : List (Nat × BlockOut)) (b n : Nat) : Prop :=
  ∀ b' name, b ≤ b' → b' < b + n →
    c name b' = none ∨ ∃ p, findBlock blocks b' = some p ∧ c name b' = entryOf p.2 name

theorem runBlocks_linv {w : World} {md : Nat} : ∀ (n b : Nat) (st : LState), LInv st →
    LInv (runBlocks w md n b st).st := by
  intro n
  induction n with
  | zero => intro b st hi; exact hi
  | succ n ih =>
    intro b st hi
    simp only [runBlocks]
    cases hb : runBlock w md st b with
    | error e => exact hi
    | ok q => exact ih (b + 1) q.1 (runBlock_linv hi hb)

theorem findBlock_cons_self (b : Nat) (bo : BlockOut) (rest : List (Nat × BlockOut)) :
    findBlock ((b, bo) :: rest) b = some (b, bo) := by
  simp [findBlock]

theorem findBlock_cons_ne {b b' : Nat} (bo : BlockOut) (rest : List (Nat × BlockOut)) (h : b ≠ b') :
    findBlock ((b, bo) :: rest) b' = findBlock rest b' := by
  simp [findBlock, h]

/-- **a run served (partly) from a cache that agrees with the run = the run** -/
theorem runBlocksC_eq_of_agrees {w : World} {md : Nat} {c : Cache} (hn : (w.map (·.name)).Nodup) :
    ∀ (n b : Nat) (st : LState), LInv st → Agrees c (runBlocks w md n b st).blocks b n →
      runBlocksC w md c n b st = runBlocks w md n b st := by
  intro n
  induction n with
  | zero => intro b st _ _; rfl
  | succ n ih =>
    intro b st hi ha
    simp only [runBlocks, runBlocksC] at ha ⊢
    cases hb : runBlock w md st b with
    | error e =>
      rw [hb] at ha
      dsimp only at ha
      have hmiss : ∀ name, c name b = none := by
        intro name
        rcases ha b name (Nat.le_refl _) (by omega) with h | ⟨p, hp, _⟩
        · exact h
        · simp [findBlock] at hp
      rw [runBlockC_eq_of_miss hmiss, hb]
    | ok q =>
      obtain ⟨st', bo⟩ := q
      rw [hb] at ha
      dsimp only at ha
      have hok : CacheOK c b bo := by
        intro name
        rcases ha b name (Nat.le_refl _) (by omega) with h | ⟨p, hp, h⟩
        · exact Or.inl h
        · rw [findBlock_cons_self] at hp
          injection hp with hp; subst hp
          exact Or.inr h
      rw [runBlockC_eq_of_ok hn hi hb hok]
      dsimp only
      rw [ih (b + 1) st' (runBlock_linv hi hb)]
      intro b' name h1 h2
      have := ha b' name (by omega) (by omega)
      rwa [findBlock_cons_ne bo _ (by omega : b ≠ b')] at this

/-- with no cache entries at all `runBlocksC` is `runBlocks` (no hypothesis needed) -/
theorem runBlocksC_empty {w : World} {md : Nat} {c : Cache} (hc : ∀ name b, c name b = none) :
    ∀ (n b : Nat) (st : LState), runBlocksC w md c n b st = runBlocks w md n b st := by
  intro n
  induction n with
  | zero => intro b st; rfl
  | succ n ih =>
    intro b st
    simp only [runBlocks, runBlocksC]
    rw [runBlockC_eq_of_miss (fun name => hc name b)]
    cases hb : runBlock w md st b with
    | error e => rfl
    | ok q => dsimp only; rw [ih]

/-- `c'` holds a subset of the entries of `c` -/
def SubCache (c' c : Cache) : Prop := ∀ name b, c' name b = none ∨ c' name b = c name b

theorem Agrees.subset {c c' : Cache} {blocks : List (Nat × BlockOut)} {b n : Nat}
    (h : Agrees c blocks b n) (hs : SubCache c' c) : Agrees c' blocks b n := by
  intro b' name h1 h2
  rcases hs name b' with h' | h'
  · exact Or.inl h'
  · rw [h']; exact h b' name h1 h2

/-- entries from two sources (the first wins) -/
def unionCache (c1 c2 : Cache) : Cache := fun name b => (c1 name b).or (c2 name b)

theorem Agrees.union {c1 c2 : Cache} {blocks : List (Nat × BlockOut)} {b n : Nat}
    (h1 : Agrees c1 blocks b n) (h2 : Agrees c2 blocks b n) : Agrees (unionCache c1 c2) blocks b n := by
  intro b' name hb1 hb2
  unfold unionCache
  cases hc : c1 name b' with
  | none => simpa using h2 b' name hb1 hb2
  | some x => have := h1 b' name hb1 hb2; rw [hc] at this; simpa using this

/-- the cache files of a run, any selection of them, agree with the run -/
theorem cacheOf_agrees (blocks : List (Nat × BlockOut)) (sel : Bytes → Nat → Bool) (b n : Nat) :
    Agrees (cacheOf blocks sel) blocks b n := by
  intro b' name _ _
  rw [cacheOf_eq]
  split
  · cases hf : findBlock blocks b' with
    | none => exact Or.inl rfl
    | some p => exact Or.inr ⟨p, rfl, rfl⟩
  · exact Or.inl rfl

/-- what another run from the same start recorded for a block in the range of this run, this run
recorded too -/
theorem findBlock_other (w : World) (md : Nat) (n n' b : Nat) (st : LState) (b' : Nat) (p : Nat × BlockOut)
    (hlt : b' < b + n) (hf : findBlock (runBlocks w md n' b st).blocks b' = some p) :
    findBlock (runBlocks w md n b st).blocks b' = some p := by
  rcases Nat.le_total n n' with hle | hle
  · obtain ⟨k, rfl⟩ := Nat.exists_eq_add_of_le hle
    rw [← findBlock_anti w md n k b st b' hlt]; exact hf
  · obtain ⟨k, rfl⟩ := Nat.exists_eq_add_of_le hle
    exact findBlock_mono w md n' k b st b' p hf

/-- the cache files of ANOTHER run from the same start agree with this run -/
theorem cacheOf_other_agrees (w : World) (md : Nat) (n n' b : Nat) (st : LState) (sel : Bytes → Nat → Bool) :
    Agrees (cacheOf (runBlocks w md n' b st).blocks sel) (runBlocks w md n b st).blocks b n := by
  intro b' name _ hlt
  rw [cacheOf_eq]
  split
  · cases hf : findBlock (runBlocks w md n' b st).blocks b' with
    | none => exact Or.inl rfl
    | some p => exact Or.inr ⟨p, findBlock_other w md n n' b st b' p hlt hf, rfl⟩
  · exact Or.inl rfl

theorem findBlock_some_fst {blocks : List (Nat × BlockOut)} {b' : Nat} {p : Nat × BlockOut}
    (h : findBlock blocks b' = some p) : p.1 = b' ∧ p ∈ blocks := by
  unfold findBlock at h
  exact ⟨by simpa using List.find?_some h, List.mem_of_find?_eq_some h⟩

/-- the cache files of a run that started EARLIER (at `b0`, from `st0`) and passed through this run's start
state at block `b0 + k` agree with this run, whatever the lengths of the two runs -/
theorem cacheOf_earlier_agrees (w : World) (md : Nat) (N k n b0 : Nat) (st0 : LState) (sel : Bytes → Nat → Bool)
    (hk : (runBlocks w md k b0 st0).failed = none) :
    Agrees (cacheOf (runBlocks w md N b0 st0).blocks sel)
      (runBlocks w md n (b0 + k) (runBlocks w md k b0 st0).st).blocks (b0 + k) n := by
  intro b' name hge hlt
  rw [cacheOf_eq]
  split
  · cases hf : findBlock (runBlocks w md N b0 st0).blocks b' with
    | none => exact Or.inl rfl
    | some p =>
      refine Or.inr ⟨p, ?_, rfl⟩
      rcases Nat.le_total N k with hle | hle
      · -- the other run ended before this one starts: it has nothing for `b'`
        obtain ⟨j, rfl⟩ := Nat.exists_eq_add_of_le hle
        have h2 := findBlock_mono w md N j b0 st0 b' p hf
        obtain ⟨h3, h4⟩ := findBlock_some_fst h2
        have := runBlocks_range w md (N + j) b0 st0 p h4
        omega
      · obtain ⟨n', rfl⟩ := Nat.exists_eq_add_of_le hle
        rw [runBlocks_add, hk] at hf
        simp only [glue, findBlock_append] at hf
        rw [findBlock_none_of_range (blocks := (runBlocks w md k b0 st0).blocks)] at hf
        · simp only [Option.none_or] at hf
          exact findBlock_other w md n n' (b0 + k) _ b' p hlt hf
        · intro q hq
          have := runBlocks_range w md k b0 st0 q hq
          omega
  · exact Or.inl rfl

/-- the cache files of a run that started LATER (at `b0 + k`, from the state this run reaches there) agree
with this run -/
theorem cacheOf_later_agrees (w : World) (md : Nat) (N k n b0 : Nat) (st0 : LState) (sel : Bytes → Nat → Bool)
    (hk : (runBlocks w md k b0 st0).failed = none) :
    Agrees (cacheOf (runBlocks w md N (b0 + k) (runBlocks w md k b0 st0).st).blocks sel)
      (runBlocks w md n b0 st0).blocks b0 n := by
  intro b' name hge hlt
  rw [cacheOf_eq]
  split
  · cases hf : findBlock (runBlocks w md N (b0 + k) (runBlocks w md k b0 st0).st).blocks b' with
    | none => exact Or.inl rfl
    | some p =>
      refine Or.inr ⟨p, ?_, rfl⟩
      obtain ⟨h3, h4⟩ := findBlock_some_fst hf
      have hr := runBlocks_range w md N (b0 + k) _ p h4
      have hle : k ≤ n := by omega
      obtain ⟨n2, rfl⟩ := Nat.exists_eq_add_of_le hle
      rw [runBlocks_add, hk]
      simp only [glue, findBlock_append]
      rw [findBlock_none_of_range (blocks := (runBlocks w md k b0 st0).blocks)]
      · simp only [Option.none_or]
        exact findBlock_other w md n2 N (b0 + k) _ b' p (by omega) hf
      · intro q hq
        have := runBlocks_range w md k b0 st0 q hq
        omega
  · exact Or.inl rfl

/-! ### blocks below every initial block -/

theorem fold_idle {w : World} {md b : Nat} : ∀ (ms : List ModSpec) (acc : BlockAcc),
    (∀ m ∈ ms, b < m.init) → ms.foldlM (runModule w md b) acc = .ok acc := by
  intro ms
  induction ms with
  | nil => intro acc _; rfl
  | cons m ms ih =>
    intro acc h
    have h1 : runModule w md b acc m = .ok acc := by
      unfold runModule; simp only [h m (by simp), ↓reduceIte]
    rw [foldlM_cons_ok h1]
    exact ih acc (fun m' hm' => h m' (by simp [hm']))

/-- below the initial block of every module nothing is executed: the (empty) state stays empty -/
theorem runBlocks_idle {w : World} {md : Nat} : ∀ (k b : Nat), (∀ m ∈ w, b + k ≤ m.init) →
    (runBlocks w md k b ⟨[]⟩).st = ⟨[]⟩ ∧ (runBlocks w md k b ⟨[]⟩).failed = none := by
  intro k
  induction k with
  | zero => intro b _; exact ⟨rfl, rfl⟩
  | succ k ih =>
    intro b h
    have hb : runBlock w md ⟨[]⟩ b = .ok (⟨[]⟩, ⟨[], []⟩) := by
      unfold runBlock
      rw [fold_idle w _ (fun m hm => by have := h m hm; omega)]
      rfl
    simp only [runBlocks, hb]
    exact ih (b + 1) (fun m hm => by have := h m hm; omega)

theorem foldl_min_le (ms : List ModSpec) : ∀ (a : Nat),
    ms.foldl (fun acc m => min acc m.init) a ≤ a ∧ ∀ m ∈ ms, ms.foldl (fun acc m => min acc m.init) a ≤ m.init := by
  induction ms with
  | nil => intro a; exact ⟨Nat.le_refl _, by intro m hm; simp at hm⟩
  | cons x xs ih =>
    intro a
    simp only [List.foldl_cons]
    obtain ⟨h1, h2⟩ := ih (min a x.init)
    refine ⟨by omega, ?_⟩
    intro m hm
    simp only [List.mem_cons] at hm
    rcases hm with rfl | hm
    · omega
    · exact h2 m hm

/-! ### segmented runs -/

/-- one segment job: if an earlier segment failed nothing more is executed (the request has failed at
that block); otherwise `n` blocks are executed from the state reached at the segment's start boundary
`acc.2` and their per-block results are appended -/
def segStep (w : World) (md : Nat) (acc : RunRes × Nat) (n : Nat) : RunRes × Nat :=
  match acc.1.failed with
  | some _ => acc
  | none => (glue acc.1 (runBlocks w md n acc.2 acc.1.st), acc.2 + n)

/-- the segments `ns` (their lengths) executed one after the other from block `b` and state `st` -/
def runSegments (w : World) (md : Nat) (ns : List Nat) (b : Nat) (st : LState) : RunRes :=
  (ns.foldl (segStep w md) (⟨st, [], none⟩, b)).1

theorem segFold_failed (w : World) (md : Nat) : ∀ (ns : List Nat) (acc : RunRes × Nat) (f : Nat),
    acc.1.failed = some f → ns.foldl (segStep w md) acc = acc := by
  intro ns
  induction ns with
  | nil => intro acc f _; rfl
  | cons n ns ih =>
    intro acc f h
    have : segStep w md acc n = acc := by unfold segStep; rw [h]
    rw [List.foldl_cons, this]
    exact ih acc f h

theorem segFold_eq (w : World) (md : Nat) : ∀ (ns : List Nat) (acc : RunRes) (b : Nat),
    acc.failed = none →
    (ns.foldl (segStep w md) (acc, b)).1 = glue acc (runBlocks w md ns.sum b acc.st) := by
  intro ns
  induction ns with
  | nil =>
    intro acc b h
    simp only [List.foldl_nil, List.sum_nil, runBlocks, glue, List.append_nil]
    cases acc; simp_all
  | cons n ns ih =>
    intro acc b h
    have e : segStep w md (acc, b) n = (glue acc (runBlocks w md n b acc.st), b + n) := by
      unfold segStep; simp only [h]
    rw [List.foldl_cons, e, List.sum_cons, runBlocks_add]
    cases hf : (runBlocks w md n b acc.st).failed with
    | some f =>
      rw [segFold_failed w md ns _ f (by simpa [glue] using hf)]
    | none =>
      rw [ih _ _ (by simpa [glue] using hf)]
      simp only [glue, List.append_assoc]

/-! ### the client's view through a cache -/

/-- `linearSpec` with the blocks executed by `RunModule` with cached outputs -/
def linearSpecC (w : World) (maxDepth : Nat) (cache : Cache) (output : Bytes) (start stop : Nat) :
    (List (Nat × Option Bytes)) × Option Nat :=
  let u := usedMods w output
  let lowest := u.foldl (fun acc m => min acc m.init) start
  let r := runBlocksC u maxDepth cache (stop - lowest) lowest ⟨[]⟩
  ((r.blocks.filter (fun p => start ≤ p.1)).map (fun p => (p.1, outputOf output p.2.outs)), r.failed)

/-- the lowest block a request on the modules `u` has to execute (as in `linearSpec`) -/
def lowestOf (u : World) (start : Nat) : Nat := u.foldl (fun acc m => min acc m.init) start

/-- the linear run behind `linearSpec` (on `u = usedMods w output`) -/
def linearRun (u : World) (maxDepth : Nat) (start stop : Nat) : RunRes :=
  runBlocks u maxDepth (stop - lowestOf u start) (lowestOf u start) ⟨[]⟩

/-- the modules needed for an output are a sub-list of the module list: distinct names stay distinct -/
theorem usedMods_nodup {w : World} (output : Bytes) (h : (w.map (·.name)).Nodup) :
    ((usedMods w output).map (·.name)).Nodup := by
  unfold usedMods
  exact List.Nodup.sublist (List.Sublist.map _ List.filter_sublist) h

theorem lowestOf_le_start (w : World) (start : Nat) : lowestOf w start ≤ start := (foldl_min_le w start).1

theorem lowestOf_le_init (w : World) (start : Nat) : ∀ m ∈ w, lowestOf w start ≤ m.init := (foldl_min_le w start).2

theorem linearSpec_eq (w : World) (md : Nat) (output : Bytes) (start stop : Nat) :
    linearSpec w md output start stop =
      (((linearRun (usedMods w output) md start stop).blocks.filter (fun p => start ≤ p.1)).map
        (fun p => (p.1, outputOf output p.2.outs)), (linearRun (usedMods w output) md start stop).failed) := by
  unfold linearSpec linearRun lowestOf; rfl

theorem linearSpecC_eq (w : World) (md : Nat) (c : Cache) (output : Bytes) (start stop : Nat) :
    linearSpecC w md c output start stop =
      (((runBlocksC (usedMods w output) md c (stop - lowestOf (usedMods w output) start)
            (lowestOf (usedMods w output) start) ⟨[]⟩).blocks.filter
          (fun p => start ≤ p.1)).map (fun p => (p.1, outputOf output p.2.outs)),
        (runBlocksC (usedMods w output) md c (stop - lowestOf (usedMods w output) start)
            (lowestOf (usedMods w output) start) ⟨[]⟩).failed) := by
  unfold linearSpecC lowestOf; rfl

/-- the cache files left by the linear run of ANY request (any start and stop block) on the same modules
agree with the linear run of this request: the two runs start from the empty state at blocks below which
nothing is executed, so one of them passes through the other's start state -/
theorem cacheOf_request_agrees (w : World) (md : Nat) (start stop start' stop' : Nat) (sel : Bytes → Nat → Bool) :
    Agrees (cacheOf (linearRun w md start' stop').blocks sel)
      (runBlocks w md (stop - lowestOf w start) (lowestOf w start) ⟨[]⟩).blocks
      (lowestOf w start) (stop - lowestOf w start) := by
  unfold linearRun
  rcases Nat.le_total (lowestOf w start') (lowestOf w start) with hle | hle
  · obtain ⟨k, hk⟩ := Nat.exists_eq_add_of_le hle
    obtain ⟨i1, i2⟩ := runBlocks_idle (w := w) (md := md) k (lowestOf w start')
      (fun m hm => by have := lowestOf_le_init w start m hm; omega)
    have := cacheOf_earlier_agrees w md (stop' - lowestOf w start') k (stop - lowestOf w start)
      (lowestOf w start') ⟨[]⟩ sel i2
    rw [i1, ← hk] at this
    exact this
  · obtain ⟨k, hk⟩ := Nat.exists_eq_add_of_le hle
    obtain ⟨i1, i2⟩ := runBlocks_idle (w := w) (md := md) k (lowestOf w start)
      (fun m hm => by have := lowestOf_le_init w start' m hm; omega)
    have := cacheOf_later_agrees w md (stop' - lowestOf w start') k (stop - lowestOf w start)
      (lowestOf w start) ⟨[]⟩ sel i2
    rw [i1, ← hk] at this
    exact this

end SV.Lin

/-! ### blocks of a fork tree: the content number of a canonical block is its number -/
namespace SV.Lin

theorem execModuleE_self (w : World) (b : Nat) (acc : BlockAcc) (m : ModSpec) :
    execModuleE w b b acc m = execModule w b acc m := by
  unfold execModuleE
  by_cases hc : canSkip acc.outs acc.deltas m = true
  · simp [hc, execModule]
  · by_cases hf : m.failAt = some b
    · simp [hc, hf, execModule]
    · simp only [hc, hf, if_false, Bool.false_eq_true]
      unfold execModule
      have hc' : canSkip acc.outs acc.deltas { m with failAt := none } = canSkip acc.outs acc.deltas m := rfl
      simp only [hc', hc, hf, if_false, Bool.false_eq_true]
      rfl

theorem runModuleE_self (w : World) (d b : Nat) (acc : BlockAcc) (m : ModSpec) :
    runModuleE w d b b acc m = runModule w d b acc m := by
  unfold runModuleE runModule
  simp only [execModuleE_self]

end SV.Lin

import Model.Segmenter
/-! Helper lemmas for C13 (segment tiling).  Core Lean only. -/
namespace SV

theorem div_mul_le' (a k : Nat) : a / k * k ≤ a := Nat.div_mul_le_self a k

theorem lt_div_succ_mul (a k : Nat) (hk : 0 < k) : a < (a / k + 1) * k := by
  have h := Nat.div_add_mod a k
  have hm := Nat.mod_lt a hk
  rw [Nat.add_mul, Nat.one_mul, Nat.mul_comm]
  omega

theorem sub_mod_eq (a k : Nat) : a - a % k = a / k * k := by
  have h := Nat.div_add_mod a k
  rw [Nat.mul_comm] at h
  omega

/-- `i = b / k` iff `i*k ≤ b < (i+1)*k`. -/
theorem div_eq_iff' (b k i : Nat) (hk : 0 < k) : b / k = i ↔ i * k ≤ b ∧ b < (i + 1) * k := by
  constructor
  · intro h; subst h; exact ⟨div_mul_le' b k, lt_div_succ_mul b k hk⟩
  · intro ⟨h1, h2⟩
    apply Nat.le_antisymm
    · have : b / k < i + 1 := (Nat.div_lt_iff_lt_mul hk).2 h2
      omega
    · exact (Nat.le_div_iff_mul_le hk).2 h1

namespace Segmenter

variable (s : Segmenter)

theorem first_le_last (hk : 0 < s.interval) (hlt : s.init < s.end_) : s.firstIndex ≤ s.lastIndex := by
  unfold firstIndex lastIndex
  exact Nat.div_le_div_right (by omega)

/-- Closed form of every segment: `[max init (i*k), min ((i+1)*k) end)`. -/
theorem range?_eq (hk : 0 < s.interval) (hlt : s.init < s.end_) (i : Nat)
    (h1 : s.firstIndex ≤ i) (h2 : i ≤ s.lastIndex) :
    s.range? i = some ⟨max s.init (i * s.interval), min ((i + 1) * s.interval) s.end_⟩ := by
  unfold range?
  have hfl := first_le_last s hk hlt
  by_cases hi : i = s.firstIndex
  · subst hi
    simp only [Nat.lt_irrefl, ↓reduceIte]
    unfold firstRange
    have : ¬ (s.end_ ≠ 0 ∧ s.end_ < s.init) := by omega
    simp only [this, ↓reduceIte]
    have e1 : s.init - s.init % s.interval = s.firstIndex * s.interval := sub_mod_eq _ _
    have e2 : s.firstIndex * s.interval ≤ s.init := div_mul_le' _ _
    rw [e1]
    have e3 : (s.firstIndex + 1) * s.interval = s.firstIndex * s.interval + s.interval := by
      rw [Nat.add_mul, Nat.one_mul]
    rw [e3, Nat.max_eq_left e2]
  · have hgt : s.firstIndex < i := by omega
    have : ¬ i < s.firstIndex := by omega
    simp only [this, hi, ↓reduceIte]
    unfold followingRange
    have : ¬ i > s.lastIndex := by omega
    simp only [this, ↓reduceIte]
    have e3 : (i + 1) * s.interval = i * s.interval + s.interval := by
      rw [Nat.add_mul, Nat.one_mul]
    have e4 : s.init < i * s.interval := by
      have := lt_div_succ_mul s.init s.interval hk
      have h5 : (s.firstIndex + 1) * s.interval ≤ i * s.interval := Nat.mul_le_mul_right _ hgt
      unfold firstIndex at h5
      omega
    rw [e3, Nat.max_eq_right (Nat.le_of_lt e4)]

theorem range?_none_low (i : Nat) (h : i < s.firstIndex) : s.range? i = none := by
  unfold range?; simp [h]

theorem range?_none_high (hk : 0 < s.interval) (hlt : s.init < s.end_) (i : Nat)
    (h : s.lastIndex < i) : s.range? i = none := by
  have hfl := first_le_last s hk hlt
  unfold range?
  have h1 : ¬ i < s.firstIndex := by omega
  have h2 : ¬ i = s.firstIndex := by omega
  simp only [h1, h2, ↓reduceIte]
  unfold followingRange
  simp [h]

/-- the last index's segment reaches `end_`, earlier ones stop at `(i+1)*k < end_`. -/
theorem succ_mul_lt_end (hk : 0 < s.interval) (i : Nat) (h : i < s.lastIndex) :
    (i + 1) * s.interval < s.end_ := by
  unfold lastIndex at h
  have h2 : (i + 1) * s.interval ≤ s.end_ - 1 := (Nat.le_div_iff_mul_le hk).1 h
  have : 0 < (i + 1) * s.interval := Nat.mul_pos (by omega) hk
  omega

theorem end_le_last_succ_mul (hk : 0 < s.interval) (hpos : 0 < s.end_) :
    s.end_ ≤ (s.lastIndex + 1) * s.interval := by
  have := lt_div_succ_mul (s.end_ - 1) s.interval hk
  unfold lastIndex
  omega

theorem last_mul_lt_end (hk : 0 < s.interval) (hpos : 0 < s.end_) :
    s.lastIndex * s.interval < s.end_ := by
  have := div_mul_le' (s.end_ - 1) s.interval
  unfold lastIndex
  omega

end Segmenter
end SV

namespace SV

/-- `l` is a list of non-empty contiguous ranges going from `a` to `b`. -/
def Tiles : List Range → Nat → Nat → Prop
  | [], _, _ => False
  | [r], a, b => r.start = a ∧ r.stop = b ∧ a < b
  | r :: r2 :: rest, a, b => r.start = a ∧ a < r.stop ∧ Tiles (r2 :: rest) r.stop b

theorem Tiles.lt : ∀ {l a b}, Tiles l a b → a < b
  | [], _, _, h => h.elim
  | [_], _, _, h => h.2.2
  | _ :: r2 :: rest, _, _, h => Nat.lt_trans h.2.1 (Tiles.lt (l := r2 :: rest) h.2.2)

theorem Tiles.cons {r : Range} {l a b} (h1 : r.start = a) (h2 : a < r.stop) (h3 : Tiles l r.stop b) :
    Tiles (r :: l) a b := by
  cases l with
  | nil => exact h3.elim
  | cons r2 rest => exact ⟨h1, h2, h3⟩

theorem Tiles.cover : ∀ {l a b}, Tiles l a b → ∀ x, (∃ r ∈ l, r.contains x = true) ↔ (a ≤ x ∧ x < b)
  | [], _, _, h, _ => h.elim
  | [r], a, b, h, x => by
    obtain ⟨h1, h2, _⟩ := h
    simp [Range.contains, h1, h2]
  | r :: r2 :: rest, a, b, h, x => by
    obtain ⟨h1, h2, h3⟩ := h
    have ih := Tiles.cover (l := r2 :: rest) h3 x
    have hlt := Tiles.lt (l := r2 :: rest) h3
    constructor
    · rintro ⟨r', hr', hc⟩
      rcases List.mem_cons.1 hr' with rfl | hr'
      · simp [Range.contains] at hc; omega
      · have := ih.1 ⟨r', hr', hc⟩; omega
    · intro ⟨hx1, hx2⟩
      by_cases hx : x < r.stop
      · refine ⟨r, List.mem_cons_self, ?_⟩
        simp [Range.contains]; omega
      · obtain ⟨r', hr', hc⟩ := ih.2 ⟨by omega, hx2⟩
        exact ⟨r', List.mem_cons_of_mem _ hr', hc⟩

/-- the pieces are pairwise disjoint and ordered -/
theorem Tiles.ordered : ∀ {l a b}, Tiles l a b → l.Pairwise (fun r1 r2 => r1.stop ≤ r2.start) ∧
    (∀ r ∈ l, a ≤ r.start ∧ r.start < r.stop ∧ r.stop ≤ b)
  | [], _, _, h => h.elim
  | [r], a, b, h => by
    obtain ⟨h1, h2, h3⟩ := h
    refine ⟨by simp, ?_⟩
    intro r' hr'; simp at hr'; subst hr'; omega
  | r :: r2 :: rest, a, b, h => by
    obtain ⟨h1, h2, h3⟩ := h
    have ⟨ih1, ih2⟩ := Tiles.ordered (l := r2 :: rest) h3
    have hlt := Tiles.lt (l := r2 :: rest) h3
    refine ⟨List.pairwise_cons.2 ⟨?_, ih1⟩, ?_⟩
    · intro r' hr'; exact (ih2 r' hr').1
    · intro r' hr'
      rcases List.mem_cons.1 hr' with rfl | hr'
      · omega
      · have := ih2 r' hr'; omega

/-! ### Split -/

theorem splitLoop_spec (stop chunk : Nat) (hc : 0 < chunk) :
    ∀ fuel cs ce, cs < ce → ce ≤ stop → ce - cs ≤ chunk → (ce = stop ∨ ce % chunk = 0) →
      stop - ce ≤ fuel * chunk →
      Tiles (splitLoop stop chunk fuel cs ce) cs stop ∧
      (∀ r ∈ splitLoop stop chunk fuel cs ce, r.size ≤ chunk) ∧
      (∀ r ∈ splitLoop stop chunk fuel cs ce, r.stop = stop ∨ r.stop % chunk = 0) := by
  intro fuel
  induction fuel with
  | zero =>
    intro cs ce h1 h2 h3 h4 h5
    have : ce = stop := by omega
    subst this
    simp [splitLoop, Tiles, Range.size, h1]; omega
  | succ n ih =>
    intro cs ce h1 h2 h3 h4 h5
    unfold splitLoop
    by_cases hge : ce ≥ stop
    · have : ce = stop := by omega
      subst this
      simp [Tiles, Range.size, h1]; omega
    · simp only [hge, ↓reduceIte]
      have hlt : ce < stop := by omega
      by_cases hov : ce + chunk > stop
      · simp only [hov, ↓reduceIte]
        have := ih ce stop hlt (Nat.le_refl _) (by omega) (Or.inl rfl) (by omega)
        obtain ⟨t1, t2, t3⟩ := this
        refine ⟨Tiles.cons rfl h1 t1, ?_, ?_⟩
        · intro r hr; rcases List.mem_cons.1 hr with rfl | hr
          · simpa [Range.size] using h3
          · exact t2 r hr
        · intro r hr; rcases List.mem_cons.1 hr with rfl | hr
          · rcases h4 with h4 | h4
            · omega
            · exact Or.inr h4
          · exact t3 r hr
      · simp only [hov, ↓reduceIte]
        have hmod : (ce + chunk) % chunk = 0 := by
          rcases h4 with h4 | h4
          · omega
          · rw [Nat.add_mod_right]; exact h4
        have hfuel : stop - (ce + chunk) ≤ n * chunk := by
          rw [Nat.add_mul, Nat.one_mul] at h5; omega
        have := ih ce (ce + chunk) (by omega) (by omega) (by omega) (Or.inr hmod) hfuel
        obtain ⟨t1, t2, t3⟩ := this
        refine ⟨Tiles.cons rfl h1 t1, ?_, ?_⟩
        · intro r hr; rcases List.mem_cons.1 hr with rfl | hr
          · simpa [Range.size] using h3
          · exact t2 r hr
        · intro r hr; rcases List.mem_cons.1 hr with rfl | hr
          · rcases h4 with h4 | h4
            · omega
            · exact Or.inr h4
          · exact t3 r hr

end SV

namespace SV

/-! ### Merged -/

def Covers (l : List Range) (x : Nat) : Prop := ∃ r ∈ l, r.contains x = true

def WF (l : List Range) : Prop := ∀ r ∈ l, r.start ≤ r.stop

theorem Covers.cons_iff (r : Range) (l : List Range) (x : Nat) :
    Covers (r :: l) x ↔ (r.start ≤ x ∧ x < r.stop) ∨ Covers l x := by
  unfold Covers
  constructor
  · rintro ⟨r', hr', hc⟩
    rcases List.mem_cons.1 hr' with rfl | hr'
    · left; simpa [Range.contains] using hc
    · right; exact ⟨r', hr', hc⟩
  · rintro (h | ⟨r', hr', hc⟩)
    · exact ⟨r, List.mem_cons_self, by simpa [Range.contains] using h⟩
    · exact ⟨r', List.mem_cons_of_mem _ hr', hc⟩

theorem Covers.nil_iff (x : Nat) : Covers [] x ↔ False := by
  unfold Covers; simp

theorem WF.tail {r : Range} {l : List Range} (h : WF (r :: l)) : WF l :=
  fun r' hr' => h r' (List.mem_cons_of_mem _ hr')

theorem WF.head {r : Range} {l : List Range} (h : WF (r :: l)) : r.start ≤ r.stop :=
  h r List.mem_cons_self

theorem absorb_spec (ok : Nat → Range → Bool) (hok : ∀ e n, ok e n = true → e = n.start) :
    ∀ (l : List Range) (e : Nat), WF l →
      e ≤ (absorb ok e l).1 ∧ WF (absorb ok e l).2 ∧
      ∀ x, ((e ≤ x ∧ x < (absorb ok e l).1) ∨ Covers (absorb ok e l).2 x) ↔ Covers l x := by
  intro l
  induction l with
  | nil => intro e _; simp [absorb, Covers.nil_iff, WF]
  | cons n rest ih =>
    intro e hwf
    unfold absorb
    by_cases h : ok e n = true
    · simp only [h, ↓reduceIte]
      have hen := hok e n h
      obtain ⟨i1, i2, i3⟩ := ih n.stop hwf.tail
      have := hwf.head
      refine ⟨by omega, i2, ?_⟩
      intro x
      rw [Covers.cons_iff, ← i3 x]
      grind
    · simp only [h]
      refine ⟨Nat.le_refl _, hwf, ?_⟩
      intro x; simp only [Bool.false_eq_true, ↓reduceIte]
      constructor
      · rintro (h | h)
        · omega
        · exact h
      · intro h; exact Or.inr h

theorem merged_spec (l : List Range) (hwf : WF l) :
    WF (merged l) ∧ ∀ x, Covers (merged l) x ↔ Covers l x := by
  fun_induction merged l with
  | case1 => exact ⟨hwf, fun _ => Iff.rfl⟩
  | case2 r => exact ⟨hwf, fun _ => Iff.rfl⟩
  | case3 cur next rest hne ih =>
    obtain ⟨i1, i2⟩ := ih hwf.tail
    refine ⟨?_, ?_⟩
    · intro r hr; rcases List.mem_cons.1 hr with rfl | hr
      · exact hwf.head
      · exact i1 r hr
    · intro x; rw [Covers.cons_iff, Covers.cons_iff cur, i2]
  | case4 cur next rest heq p ih =>
    have heq' : cur.stop = next.start := by simpa using heq
    have hwf2 := hwf.tail.tail
    have hn := hwf.tail.head
    have hc := hwf.head
    obtain ⟨a1, a2, a3⟩ := absorb_spec (fun e n => e == n.start) (by intro e n h; simpa using h) rest next.stop hwf2
    obtain ⟨i1, i2⟩ := ih a2
    refine ⟨?_, ?_⟩
    · intro r hr; rcases List.mem_cons.1 hr with rfl | hr
      · show cur.start ≤ p.1; simp only [p]; omega
      · exact i1 r hr
    · intro x
      rw [Covers.cons_iff, Covers.cons_iff cur, Covers.cons_iff next, i2, ← a3 x]
      simp only [p]
      grind

theorem mergedBuckets_spec (m : Nat) (l : List Range) (hwf : WF l) :
    WF (mergedBuckets m l) ∧ ∀ x, Covers (mergedBuckets m l) x ↔ Covers l x := by
  fun_induction mergedBuckets m l with
  | case1 => exact ⟨hwf, fun _ => Iff.rfl⟩
  | case2 r => exact ⟨hwf, fun _ => Iff.rfl⟩
  | case3 cur next rest hge ih =>
    obtain ⟨i1, i2⟩ := ih hwf.tail
    refine ⟨?_, ?_⟩
    · intro r hr; rcases List.mem_cons.1 hr with rfl | hr
      · exact hwf.head
      · exact i1 r hr
    · intro x; rw [Covers.cons_iff, Covers.cons_iff cur, i2]
  | case4 cur next rest hge hne ih =>
    obtain ⟨i1, i2⟩ := ih hwf.tail
    refine ⟨?_, ?_⟩
    · intro r hr; rcases List.mem_cons.1 hr with rfl | hr
      · exact hwf.head
      · exact i1 r hr
    · intro x; rw [Covers.cons_iff, Covers.cons_iff cur, i2]
  | case5 cur next rest hge heq p ih =>
    have heq' : cur.stop = next.start := by omega
    have hwf2 := hwf.tail.tail
    have hn := hwf.tail.head
    have hc := hwf.head
    obtain ⟨a1, a2, a3⟩ := absorb_spec (fun e n => e == n.start && !(n.stop - cur.start > m))
      (by intro e n h; simp at h; exact h.1) rest next.stop hwf2
    obtain ⟨i1, i2⟩ := ih a2
    refine ⟨?_, ?_⟩
    · intro r hr; rcases List.mem_cons.1 hr with rfl | hr
      · show cur.start ≤ p.1; simp only [p]; omega
      · exact i1 r hr
    · intro x
      rw [Covers.cons_iff, Covers.cons_iff cur, Covers.cons_iff next, i2, ← a3 x]
      simp only [p]
      grind

end SV

import Lemmas.ValidateHash
/-!
Helper lemmas for C17, part 4: what `ValidateModules` establishes (`ModsOK`), and the stage lemmas
"if the earlier stages returned ok then this stage neither panics nor hangs".
-/
namespace SV.Val

/-! ### the two Go maps of ValidateModules -/

theorem lookupKind_none_iff {nm : Str} {mk : List (Str × Kind)} :
    lookupKind nm mk = none ↔ nm ∉ mk.map (·.1) := by
  induction mk with
  | nil => simp [lookupKind]
  | cons p r ih =>
    obtain ⟨k, v⟩ := p
    unfold lookupKind
    by_cases h : k = nm
    · simp [h]
    · simp only [h, if_false, ih]
      simp only [List.map_cons, List.mem_cons, not_or]
      constructor
      · intro h'; exact ⟨fun e => h e.symm, h'⟩
      · intro h'; exact h'.2

theorem lookupKind_append (nm : Str) (mk : List (Str × Kind)) (n : Str) (k : Kind) :
    lookupKind nm (mk ++ [(n, k)]) =
      match lookupKind nm mk with
      | some x => some x
      | none => if n = nm then some k else none := by
  induction mk with
  | nil => simp [lookupKind]
  | cons p r ih =>
    obtain ⟨k', v⟩ := p
    simp only [List.cons_append, lookupKind]
    by_cases h : k' = nm
    · simp [h]
    · simp only [h, if_false]; exact ih

theorem lookupMod_append (nm : Str) (mm : List (Str × Module)) (n : Str) (m : Module) :
    lookupMod nm (mm ++ [(n, m)]) =
      match lookupMod nm mm with
      | some x => some x
      | none => if n = nm then some m else none := by
  induction mm with
  | nil => simp [lookupMod]
  | cons p r ih =>
    obtain ⟨k', v⟩ := p
    simp only [List.cons_append, lookupMod]
    by_cases h : k' = nm
    · simp [h]
    · simp only [h, if_false]; exact ih

structure MapsInv (pre : List Module) (mk : List (Str × Kind)) (mm : List (Str × Module)) : Prop where
  keys : mk.map (·.1) = pre.map (·.name)
  nodup : (pre.map (·.name)).Nodup
  kinds : ∀ m ∈ pre, m.kind ≠ none
  mkLook : ∀ nm k, lookupKind nm mk = some k → ∃ m ∈ pre, m.name = nm
  mmLook : ∀ nm sm, lookupMod nm mm = some sm → sm ∈ pre ∧ sm.name = nm

theorem buildMaps_spec : ∀ (r pre : List Module) (mk : List (Str × Kind)) (mm : List (Str × Module)),
    MapsInv pre mk mm →
    Good (buildMaps r mk mm) ∧
      ∀ mk' mm', buildMaps r mk mm = .ok (mk', mm') → MapsInv (pre ++ r) mk' mm' := by
  intro r
  induction r with
  | nil =>
    intro pre mk mm inv
    refine ⟨by simp [buildMaps], ?_⟩
    intro mk' mm' h
    simp [buildMaps] at h
    obtain ⟨h1, h2⟩ := h; subst h1; subst h2
    simpa using inv
  | cons m r ih =>
    intro pre mk mm inv
    unfold buildMaps
    split
    · exact ⟨by simp, fun _ _ h => by cases h⟩
    · rename_i hdup
      split
      · exact ⟨by simp, fun _ _ h => by cases h⟩
      · rename_i hkind
        cases hk : m.kind with
        | none => simp [hk] at hkind
        | some k =>
          have hmk : m.moduleKind = .ok k := by simp [Module.moduleKind, hk]
          rw [hmk]
          simp only [bind_ok]
          have hnone : lookupKind m.name mk = none := by
            cases hl : lookupKind m.name mk with
            | none => rfl
            | some x => simp [hl] at hdup
          have hnotin : m.name ∉ pre.map (·.name) := by
            rw [← inv.keys]; exact lookupKind_none_iff.1 hnone
          have inv' : MapsInv (pre ++ [m]) (mk ++ [(m.name, k)]) (mm ++ [(m.name, m)]) := by
            refine ⟨?_, ?_, ?_, ?_, ?_⟩
            · simp [inv.keys]
            · rw [List.map_append]
              apply List.nodup_append.2
              refine ⟨inv.nodup, by simp, ?_⟩
              intro x hx y hy hxy
              simp at hy; subst hy; subst hxy; exact hnotin hx
            · intro x hx
              rcases List.mem_append.1 hx with hx | hx
              · exact inv.kinds x hx
              · simp at hx; subst hx; rw [hk]; simp
            · intro nm k' h
              rw [lookupKind_append] at h
              cases hl : lookupKind nm mk with
              | some x =>
                obtain ⟨m', hm', hn'⟩ := inv.mkLook nm x hl
                exact ⟨m', List.mem_append_left _ hm', hn'⟩
              | none =>
                rw [hl] at h
                simp only at h
                split at h
                · rename_i heq; exact ⟨m, List.mem_append_right _ (by simp), heq⟩
                · cases h
            · intro nm sm h
              rw [lookupMod_append] at h
              cases hl : lookupMod nm mm with
              | some x =>
                rw [hl] at h; simp only at h; injection h with h; subst h
                obtain ⟨h1, h2⟩ := inv.mmLook nm x hl
                exact ⟨List.mem_append_left _ h1, h2⟩
              | none =>
                rw [hl] at h
                simp only at h
                split at h
                · rename_i heq; injection h with h; subst h
                  exact ⟨List.mem_append_right _ (by simp), heq⟩
                · cases h
          obtain ⟨hg, hok⟩ := ih (pre ++ [m]) _ _ inv'
          refine ⟨hg, ?_⟩
          intro mk' mm' h
          have := hok mk' mm' h
          simpa [List.append_assoc] using this

/-! ### the per-module checks -/

theorem checkValidInputs_spec (mk : List (Str × Kind)) :
    ∀ (ins : List (Option InputK)) (idx : Nat),
      Good (checkValidInputs mk ins idx) ∧
      (checkValidInputs mk ins idx = .ok () →
        (∀ i ∈ ins, i ≠ none) ∧
        (∀ n, some (InputK.map n) ∈ ins → (lookupKind n mk).isSome) ∧
        (∀ n md, some (InputK.store n md) ∈ ins → (lookupKind n mk).isSome)) := by
  intro ins
  induction ins with
  | nil => intro idx; simp [checkValidInputs]
  | cons i r ih =>
    intro idx
    cases i with
    | none => simp [checkValidInputs]
    | some k =>
      cases k with
      | params v =>
        simp only [checkValidInputs]
        split
        · simp
        · obtain ⟨h1, h2⟩ := ih (idx + 1)
          refine ⟨h1, ?_⟩
          intro hok
          obtain ⟨a, b, c⟩ := h2 hok
          refine ⟨?_, ?_, ?_⟩
          · intro i hi
            rcases List.mem_cons.1 hi with hi | hi
            · subst hi; simp
            · exact a i hi
          · intro n hn
            rcases List.mem_cons.1 hn with hn | hn
            · cases hn
            · exact b n hn
          · intro n md hn
            rcases List.mem_cons.1 hn with hn | hn
            · cases hn
            · exact c n md hn
      | source t =>
        simp only [checkValidInputs]
        split
        · simp
        · obtain ⟨h1, h2⟩ := ih (idx + 1)
          refine ⟨h1, ?_⟩
          intro hok
          obtain ⟨a, b, c⟩ := h2 hok
          refine ⟨?_, ?_, ?_⟩
          · intro i hi
            rcases List.mem_cons.1 hi with hi | hi
            · subst hi; simp
            · exact a i hi
          · intro n hn
            rcases List.mem_cons.1 hn with hn | hn
            · cases hn
            · exact b n hn
          · intro n md hn
            rcases List.mem_cons.1 hn with hn | hn
            · cases hn
            · exact c n md hn
      | map nm =>
        simp only [checkValidInputs]
        cases hl : lookupKind nm mk with
        | none => simp
        | some kk =>
          simp only
          split
          · simp
          · obtain ⟨h1, h2⟩ := ih (idx + 1)
            refine ⟨h1, ?_⟩
            intro hok
            obtain ⟨a, b, c⟩ := h2 hok
            refine ⟨?_, ?_, ?_⟩
            · intro i hi
              rcases List.mem_cons.1 hi with hi | hi
              · subst hi; simp
              · exact a i hi
            · intro n hn
              rcases List.mem_cons.1 hn with hn | hn
              · injection hn with hn; injection hn with hn; subst hn; simp [hl]
              · exact b n hn
            · intro n md hn
              rcases List.mem_cons.1 hn with hn | hn
              · cases hn
              · exact c n md hn
      | store nm mode =>
        simp only [checkValidInputs]
        cases hl : lookupKind nm mk with
        | none => simp
        | some kk =>
          simp only
          split
          · simp
          · split
            · obtain ⟨h1, h2⟩ := ih (idx + 1)
              refine ⟨h1, ?_⟩
              intro hok
              obtain ⟨a, b, c⟩ := h2 hok
              refine ⟨?_, ?_, ?_⟩
              · intro i hi
                rcases List.mem_cons.1 hi with hi | hi
                · subst hi; simp
                · exact a i hi
              · intro n hn
                rcases List.mem_cons.1 hn with hn | hn
                · cases hn
                · exact b n hn
              · intro n md hn
                rcases List.mem_cons.1 hn with hn | hn
                · injection hn with hn; injection hn with hn _; subst hn; simp [hl]
                · exact c n md hn
            · simp

theorem checkValidBlockFilter_spec {all : List Module} {mk : List (Str × Kind)} {mm : List (Str × Module)}
    (inv : MapsInv all mk mm) (m : Module) :
    Good (checkValidBlockFilter m mm) ∧
    (checkValidBlockFilter m mm = .ok () → ∀ bf, m.blockFilter = some bf → ∃ m' ∈ all, m'.name = bf.module) := by
  unfold checkValidBlockFilter
  cases hbf : m.blockFilter with
  | none => simp
  | some bf =>
    simp only
    cases hl : lookupMod bf.module mm with
    | none => simp
    | some sm =>
      simp only
      obtain ⟨hsm, hsn⟩ := inv.mmLook _ _ hl
      have hk := inv.kinds sm hsm
      cases hkk : sm.kind with
      | none => exact absurd hkk hk
      | some k =>
        have : sm.moduleKind = .ok k := by simp [Module.moduleKind, hkk]
        rw [this]
        simp only [bind_ok]
        split
        · simp
        · split
          · simp
          · refine ⟨by simp, ?_⟩
            intro _ bf' hbf'
            injection hbf' with hbf'; subst hbf'
            exact ⟨sm, hsm, hsn⟩

theorem moduleNameOk_ne {n : Str} (h : moduleNameOk n = true) : n ≠ [] := by
  intro hn; subst hn
  simp [moduleNameOk, splitOn, nameSegmentOk] at h

structure ModOK (all : List Module) (m : Module) : Prop where
  nameNe : m.name ≠ []
  present : ∀ i ∈ m.inputs, i ≠ none
  refs : ∀ nm ∈ depNames m, ∃ m' ∈ all, m'.name = nm
  inputCount : m.inputs.length ≤ 30

theorem checkModules_spec {all : List Module} {mk : List (Str × Kind)} {mm : List (Str × Module)}
    (inv : MapsInv all mk mm) :
    ∀ (l : List Module), Good (checkModules mk mm l) ∧
      (checkModules mk mm l = .ok () → ∀ m ∈ l, ModOK all m) := by
  intro l
  induction l with
  | nil => simp [checkModules]
  | cons m r ih =>
    unfold checkModules
    split
    · simp
    · rename_i hname
      split
      · simp
      · rename_i hcnt
        obtain ⟨hbg, hbok⟩ := checkValidBlockFilter_spec inv m
        obtain ⟨hig, hiok⟩ := checkValidInputs_spec mk m.inputs 0
        refine ⟨?_, ?_⟩
        · rw [good_bind]; refine ⟨hbg, fun _ _ => ?_⟩
          rw [good_bind]; exact ⟨hig, fun _ _ => ih.1⟩
        · intro hok
          obtain ⟨u1, hb, hok⟩ := bind_eq_ok.1 hok
          obtain ⟨u2, hi, hok⟩ := bind_eq_ok.1 hok
          cases u1; cases u2
          intro x hx
          rcases List.mem_cons.1 hx with hx | hx
          · subst hx
            obtain ⟨a, b, c⟩ := hiok hi
            refine ⟨moduleNameOk_ne (by simpa using hname), a, ?_, by omega⟩
            intro nm hnm
            unfold depNames at hnm
            rcases List.mem_append.1 hnm with h | h
            · obtain ⟨i, hi', hik⟩ := List.mem_filterMap.1 h
              cases i with
              | none => simp at hik
              | some k =>
                cases k with
                | params v => simp at hik
                | source t => simp at hik
                | map n =>
                  simp at hik; subst hik
                  have := b n hi'
                  cases hl : lookupKind n mk with
                  | none => simp [hl] at this
                  | some kk => exact inv.mkLook n kk hl
                | store n md =>
                  simp at hik; subst hik
                  have := c n md hi'
                  cases hl : lookupKind n mk with
                  | none => simp [hl] at this
                  | some kk => exact inv.mkLook n kk hl
            · cases hbf : x.blockFilter with
              | none => rw [hbf] at h; simp at h
              | some bf =>
                rw [hbf] at h; simp at h; subst h
                exact hbok hb bf hbf
          · exact ih.2 hok x hx

theorem validateModules_spec (ms : Modules) :
    Good (validateModules ms) ∧ (validateModules ms = .ok () → ModsOK ms.modules) := by
  unfold validateModules
  split
  · simp
  · split
    · simp
    · rename_i hcount
      have inv0 : MapsInv [] [] [] := ⟨rfl, by simp, by simp, by simp [lookupKind], by simp [lookupMod]⟩
      obtain ⟨hg, hok⟩ := buildMaps_spec ms.modules [] [] [] inv0
      constructor
      · rw [good_bind]
        refine ⟨hg, ?_⟩
        intro p hp
        obtain ⟨mk, mm⟩ := p
        have inv := hok mk mm hp
        simp only [List.nil_append] at inv
        exact (checkModules_spec inv ms.modules).1
      · intro h
        obtain ⟨p, hp, h⟩ := bind_eq_ok.1 h
        obtain ⟨mk, mm⟩ := p
        have inv := hok mk mm hp
        simp only [List.nil_append] at inv
        have hall := (checkModules_spec inv ms.modules).2 h
        exact ⟨inv.nodup, fun m hm => (hall m hm).nameNe, inv.kinds, fun m hm => (hall m hm).present,
          fun m hm => (hall m hm).refs, by omega, fun m hm => (hall m hm).inputCount⟩

/-! ### stage 1: ValidateTier1Request -/

theorem validateBinaryTypes_good : ∀ (bs : List Binary), Good (validateBinaryTypes bs) := by
  intro bs
  induction bs with
  | nil => simp [validateBinaryTypes]
  | cons b r ih =>
    unfold validateBinaryTypes
    split
    · simp
    · split
      · exact ih
      · simp

theorem validateModuleGraph_good (ms : List Module) (out bt : Str) : Good (validateModuleGraph ms out bt) := by
  unfold validateModuleGraph
  rw [good_bind]
  refine ⟨newModuleGraph_good ms, fun g _ => ?_⟩
  rw [good_bind]
  refine ⟨ancestorsOf_good g out, fun anc _ => ?_⟩
  split <;> simp

theorem requestValidate_good (r : Request) : Good (requestValidate r) := by
  unfold requestValidate
  repeat' split
  all_goals simp

theorem requestValidate_ok {r : Request} {ms : Modules} (h : requestValidate r = .ok ms) :
    r.modules = some ms := by
  unfold requestValidate at h
  split at h
  · cases h
  · rename_i ms' hm
    split at h
    · cases h
    · split at h
      · cases h
      · split at h
        · cases h
        · cases h
        · split at h
          · injection h with h; subst h; exact hm
          · cases h

theorem validateRequest_spec (ms : Modules) (out bt : Str) :
    Good (validateRequest ms out bt) ∧ (validateRequest ms out bt = .ok () → ModsOK ms.modules) := by
  unfold validateRequest
  constructor
  · rw [good_bind]
    refine ⟨validateBinaryTypes_good _, fun _ _ => ?_⟩
    rw [good_bind]
    exact ⟨(validateModules_spec ms).1, fun _ _ => validateModuleGraph_good _ _ _⟩
  · intro h
    obtain ⟨u1, _, h⟩ := bind_eq_ok.1 h
    obtain ⟨u2, h3, _⟩ := bind_eq_ok.1 h
    cases u2
    exact (validateModules_spec ms).2 h3

theorem requestValidateT2_good (r : T2Request) : Good (requestValidateT2 r) := by
  unfold requestValidateT2
  repeat' split
  all_goals simp

theorem validateTier2Request_spec (r : T2Request) :
    Good (validateTier2Request r) ∧ ∀ ms, validateTier2Request r = .ok ms → ModsOK ms.modules := by
  unfold validateTier2Request
  constructor
  · rw [good_bind]
    refine ⟨requestValidateT2_good r, fun ms _ => ?_⟩
    rw [good_bind]
    exact ⟨(validateRequest_spec ms _ _).1, fun _ _ => by simp⟩
  · intro ms h
    obtain ⟨ms', _, h⟩ := bind_eq_ok.1 h
    obtain ⟨u, h2, h⟩ := bind_eq_ok.1 h
    injection h with h; subst h
    cases u
    exact (validateRequest_spec ms' _ _).2 h2

theorem validateTier1Request_spec (r : Request) (bt : Str) :
    Good (validateTier1Request r bt) ∧
    ∀ ms, validateTier1Request r bt = .ok ms → r.modules = some ms ∧ ModsOK ms.modules := by
  unfold validateTier1Request validateRequest
  constructor
  · rw [good_bind]
    refine ⟨requestValidate_good r, fun ms _ => ?_⟩
    rw [good_bind]
    refine ⟨?_, fun _ _ => by simp⟩
    rw [good_bind]
    refine ⟨validateBinaryTypes_good _, fun _ _ => ?_⟩
    rw [good_bind]
    exact ⟨(validateModules_spec ms).1, fun _ _ => validateModuleGraph_good _ _ _⟩
  · intro ms h
    obtain ⟨ms', h1, h⟩ := bind_eq_ok.1 h
    obtain ⟨u, h2, h⟩ := bind_eq_ok.1 h
    injection h with h; subst h
    obtain ⟨u1, _, h2⟩ := bind_eq_ok.1 h2
    obtain ⟨u2, h3, _⟩ := bind_eq_ok.1 h2
    cases u2
    exact ⟨requestValidate_ok h1, (validateModules_spec ms').2 h3⟩

/-! ### stage 2: NewOutputModuleGraph -/

/-- what the later stages rely on about the execution graph -/
structure ExecGraphOK (ms : List Module) (eg : ExecGraph) : Prop where
  stages : StagesOK eg.used eg.stages
  usedNe : eg.used ≠ []
  usedLen : eg.used.length ≤ ms.length
  lowestStores : eg.lowestStoresInit = computeLowestStoresInitBlock eg.used 0 ∨ True
  storesSome : (∃ m ∈ eg.used, m.isStore = true) → eg.lowestStoresInit ≠ none

theorem computeLowestStoresInitBlock_some (used : List Module) (first : Nat)
    (h : ∃ m ∈ used, m.isStore = true) : computeLowestStoresInitBlock used first ≠ none := by
  obtain ⟨m, hm, hs⟩ := h
  unfold computeLowestStoresInitBlock
  have hne : ((used.filter Module.isStore).map (·.initialBlock)).isEmpty = false := by
    have : m ∈ used.filter Module.isStore := List.mem_filter.2 ⟨hm, hs⟩
    cases hf : used.filter Module.isStore with
    | nil => rw [hf] at this; cases this
    | cons a r => rfl
  simp only [hne, Bool.false_eq_true, if_false]
  split <;> simp

theorem initBlocks_good (first : Nat) : ∀ (l : List Module) (acc : List (Str × Nat)),
    Good (initBlocks first l acc) := by
  intro l
  induction l with
  | nil => intro acc; simp [initBlocks]
  | cons m r ih =>
    intro acc
    unfold initBlocks
    split
    · exact ih _
    · split
      · simp
      · exact ih _

theorem computeOutputModule_spec : ∀ (used : List Module) (out : Str), (∃ m ∈ used, m.name = out) →
    ∃ om, computeOutputModule used out = .ok om ∧ om.name = out := by
  intro used
  induction used with
  | nil => intro out ⟨m, hm, _⟩; cases hm
  | cons a r ih =>
    intro out h
    unfold computeOutputModule
    by_cases ha : a.name = out
    · exact ⟨a, by simp [ha], ha⟩
    · simp only [ha, if_false]
      apply ih
      obtain ⟨m, hm, hn⟩ := h
      rcases List.mem_cons.1 hm with hm | hm
      · subst hm; exact absurd hn ha
      · exact ⟨m, hm, hn⟩

theorem storesDownTo_good (g : MGraph) (name : Str) : Good (g.storesDownTo name) := by
  unfold MGraph.storesDownTo
  split
  · simp
  · split
    · simp
    · rename_i v _
      obtain ⟨l, h, _⟩ := modulesAt_spec g.ms
        ((List.range g.ms.length).filter (reach g.adj v).contains)
        (fun i hi => List.mem_range.1 (List.mem_filter.1 hi).1)
      simp only [h, bind_ok]; simp

theorem computeSchedulableAncestors_good (g : MGraph) : ∀ (l : List Module),
    Good (computeSchedulableAncestors g l) := by
  intro l
  induction l with
  | nil => simp [computeSchedulableAncestors]
  | cons m r ih =>
    unfold computeSchedulableAncestors
    rw [good_bind]
    exact ⟨ancestorsOf_good g m.name, fun _ _ => ih⟩

theorem computeGraph_spec {ms : Modules} (hM : ModsOK ms.modules) (out : Str) (prod : Bool) (first : Nat) :
    Good (computeGraph out prod ms first) ∧
    ∀ eg, computeGraph out prod ms first = .ok eg → ExecGraphOK ms.modules eg := by
  unfold computeGraph
  rcases newModuleGraph_cases ms.modules with he | ⟨hok, hlen⟩
  · rw [he]; simp
  rw [hok]
  simp only [bind_ok]
  have hg : GraphOK ms.modules ⟨ms.modules, ms.modules.map (edgesOf ms.modules), topoOrder (ms.modules.map (edgesOf ms.modules))⟩ :=
    ⟨rfl, rfl, rfl, hlen⟩
  generalize (⟨ms.modules, ms.modules.map (edgesOf ms.modules), topoOrder (ms.modules.map (edgesOf ms.modules))⟩ : MGraph) = g at hg
  rcases modulesDownTo_spec hg hM out with he | ⟨used, hu, hU, hidx, hout, hulen⟩
  · rw [he]; simp
  rw [hu]
  simp only [bind_ok]
  have hune : used ≠ [] := by
    obtain ⟨m, hm, _⟩ := hout
    intro h; rw [h] at hm; cases hm
  cases hib : initBlocks first used [] with
  | error => simp
  | panic => have := initBlocks_good first used []; rw [hib] at this; simp at this
  | hang => have := initBlocks_good first used []; rw [hib] at this; simp at this
  | ok tbl =>
    simp only [bind_ok]
    obtain ⟨hsg, hsok⟩ := computeStages_spec hU tbl
    cases hst : computeStages used tbl with
    | error => simp
    | panic => rw [hst] at hsg; simp at hsg
    | hang => rw [hst] at hsg; simp at hsg
    | ok stages =>
      simp only [bind_ok]
      have hS := hsok stages hst
      have hhg := hashModules_good hg hM.nodup ms used hidx
      cases hh : hashModules ms g used with
      | error => simp
      | panic => rw [hh] at hhg; simp at hhg
      | hang => rw [hh] at hhg; simp at hhg
      | ok cache =>
        simp only [bind_ok]
        obtain ⟨om, hom, homn⟩ := computeOutputModule_spec used out hout
        rw [hom]
        simp only [bind_ok]
        have hsd := storesDownTo_good g om.name
        cases hs : g.storesDownTo om.name with
        | error => simp
        | panic => rw [hs] at hsd; simp at hsd
        | hang => rw [hs] at hsd; simp at hsd
        | ok stores =>
          simp only [bind_ok]
          have hca := computeSchedulableAncestors_good g (computeSchedulableModules stores om prod)
          cases hc : computeSchedulableAncestors g (computeSchedulableModules stores om prod) with
          | error => simp
          | panic => rw [hc] at hca; simp at hca
          | hang => rw [hc] at hca; simp at hca
          | ok u =>
            simp only [bind_ok]
            refine ⟨by simp, ?_⟩
            intro eg heg
            injection heg with heg; subst heg
            exact ⟨hS, hune, hulen, Or.inr trivial, computeLowestStoresInitBlock_some used first⟩

/-! ### stage 3: the first lines of blocks() and BuildRequestDetails -/

theorem modSeg_eq (x : Nat) {seg : Nat} (h : 0 < seg) : modSeg x seg = .ok (x % seg) := by
  unfold modSeg
  have : seg ≠ 0 := by omega
  simp [this]

theorem divSeg_eq (x : Nat) {seg : Nat} (h : 0 < seg) : divSeg x seg = .ok (x / seg) := by
  unfold divSeg
  have : seg ≠ 0 := by omega
  simp [this]

theorem computeLinearHandoff_good (prod : Bool) (start stop : Nat) (rf sra : Option Nat) {seg : Nat}
    (h : 0 < seg) : Good (computeLinearHandoff prod start stop rf sra seg) := by
  unfold computeLinearHandoff
  simp only [modSeg_eq _ h, bind_ok]
  repeat' split
  all_goals simp

theorem resolveStartBlockNum_good (start : Int) (stop : Nat) (cur : Cursor) (cfg : Cfg) :
    Good (resolveStartBlockNum start stop cur cfg) := by
  unfold resolveStartBlockNum
  rw [good_bind]
  constructor
  · split
    · split <;> simp
    · simp
  · intro s _
    cases cur with
    | none => simp
    | invalid => simp
    | valid step blk lib =>
      simp only
      split
      · simp
      · split
        · simp
        · split
          · simp
          · cases cfg.resolve with
            | err => simp
            | noJunction => simp
            | junction j => simp only; split <;> simp

theorem reprocStateRequired_good (start : Nat) (out : Str) (ms : List Module) :
    Good (reprocStateRequired start out ms) := by
  unfold reprocStateRequired
  rw [good_bind]
  refine ⟨newModuleGraph_good ms, fun g _ => ?_⟩
  rw [good_bind]
  exact ⟨storesDownTo_good g out, fun _ _ => by simp⟩

theorem stageDetails_good (r : Request) (ms : Modules) (cfg : Cfg) (hseg : 0 < cfg.segmentSize) :
    Good (stageDetails r ms cfg) := by
  unfold stageDetails
  split
  · simp
  · unfold buildRequestDetails
    rw [good_bind]
    refine ⟨resolveStartBlockNum_good _ _ _ _, fun rs _ => ?_⟩
    rw [good_bind]
    refine ⟨reprocStateRequired_good _ _ _, fun sra _ => ?_⟩
    rw [good_bind]
    exact ⟨computeLinearHandoff_good _ _ _ _ _ hseg, fun _ _ => by simp⟩

/-! ### stages 4 and 5 -/

theorem stageChecks_good (r : Request) (eg : ExecGraph) (d : Details) : Good (stageChecks r eg d) := by
  unfold stageChecks
  split
  · simp
  · split <;> simp

theorem segRangeStart_good (seg init end_ : Nat) (idx : Int) (h : 0 < seg) :
    Good (segRangeStart seg init end_ idx) := by
  unfold segRangeStart
  simp only [divSeg_eq _ h, bind_ok]
  repeat' split
  all_goals simp

theorem buildTier1RequestPlan_good (prod : Bool) (seg li ls start handoff stop : Nat) (sched : Bool)
    (h : 0 < seg) : Good (buildTier1RequestPlan prod seg li ls start handoff stop sched) := by
  unfold buildTier1RequestPlan
  simp only [divSeg_eq _ h, bind_ok]
  split
  · simp
  · split
    · simp
    · split
      · split
        · rw [good_bind]
          refine ⟨segRangeStart_good _ _ _ _ h, fun w _ => ?_⟩
          cases w <;> simp
        · simp
      · simp

theorem scheduleStoresOf_good {ms : List Module} {eg : ExecGraph} (h : ExecGraphOK ms eg) :
    Good (scheduleStoresOf eg) := by
  unfold scheduleStoresOf
  have hne := h.stages.ne h.usedNe
  cases hst : eg.stages with
  | nil => exact absurd hst hne
  | cons st rest =>
    simp only
    have hstmem : st ∈ eg.stages := by rw [hst]; exact List.mem_cons_self
    have hstne := h.stages.stageNe st hstmem
    cases hlast : st.getLast? with
    | none => exact absurd (List.getLast?_eq_none_iff.1 hlast) hstne
    | some layer =>
      simp only
      have hlmem : layer ∈ st := List.mem_of_getLast? hlast
      have hlne := h.stages.layerNe st hstmem layer hlmem
      cases layer with
      | nil => exact absurd rfl hlne
      | cons a t =>
        simp only [isStoreLayer, bind_ok]
        split
        · rename_i hs
          have ha : a ∈ eg.used := (h.stages.sub st hstmem _ hlmem).subset List.mem_cons_self
          have := h.storesSome ⟨a, ha, hs⟩
          cases hl : eg.lowestStoresInit with
          | none => exact absurd hl this
          | some l => simp
        · simp

theorem stagePlan_good {ms : List Module} (r : Request) {eg : ExecGraph} (h : ExecGraphOK ms eg)
    (d : Details) (cfg : Cfg) (hseg : 0 < cfg.segmentSize) : Good (stagePlan r eg d cfg) := by
  unfold stagePlan
  rw [good_bind]
  exact ⟨scheduleStoresOf_good h, fun _ _ => buildTier1RequestPlan_good _ _ _ _ _ _ _ _ hseg⟩

end SV.Val

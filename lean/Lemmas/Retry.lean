import Model.Retry
/-! Helper lemmas about the retry machine of `Model/Retry.lean` (property C16). -/
namespace SV.Retry

/-! ### Vocabulary -/

/-- a clean fault: the attempt ended with a retryable error, the context is alive after it and during
the back-off sleep that follows -/
def OStep.CleanFault (s : OStep) : Prop :=
  (∃ e, s.out = .retryable e) ∧ s.ctxAfter = none ∧ s.sleepCancel = none

/-- an error that `Work` counts as an execution time-out -/
def RpcErr.counted (e : RpcErr) : Bool := !e.textOverloaded && e.textDeadline

/-- execution time-outs counted over a list of attempts -/
def timeoutsOf : List OStep → Nat
  | [] => 0
  | s :: rest =>
    (match s.out with
     | .retryable e => if e.counted then 1 else 0
     | _ => 0) + timeoutsOf rest

theorem bumpTimeouts_eq (t : Nat) (e : RpcErr) :
    bumpTimeouts t e = t + (if e.counted then 1 else 0) := by
  unfold bumpTimeouts RpcErr.counted
  cases e.textOverloaded <;> cases e.textDeadline <;> simp

theorem timeoutsOf_append (a b : List OStep) : timeoutsOf (a ++ b) = timeoutsOf a + timeoutsOf b := by
  induction a with
  | nil => simp [timeoutsOf]
  | cons s rest ih => simp [timeoutsOf, ih]; omega

/-! ### The loop skips clean faults that fit the budgets -/

theorem loop_skip_faults (M T : Nat) (faults : List OStep) :
    ∀ (r t n : Nat) (tail : List OStep),
      (∀ s ∈ faults, s.CleanFault) →
      r + faults.length ≤ M →
      t + timeoutsOf faults < T →
      loop M T r t n (faults ++ tail)
        = loop M T (r + faults.length) (t + timeoutsOf faults) (n + faults.length) tail := by
  induction faults with
  | nil => intro r t n tail _ _ _; simp [timeoutsOf]
  | cons s rest ih =>
    intro r t n tail hc hr ht
    have hs := hc s (by simp)
    obtain ⟨⟨e, he⟩, hctx, hsl⟩ := hs
    have hrest : ∀ x ∈ rest, x.CleanFault := fun x hx => hc x (by simp [hx])
    simp only [List.length_cons] at hr
    simp only [timeoutsOf, he] at ht
    have hb := bumpTimeouts_eq t e
    have h1 : ¬ T ≤ bumpTimeouts t e := by omega
    have h2 : ¬ M ≤ r := by omega
    simp only [List.cons_append, loop, he, hctx, hsl, h1, h2, if_false]
    rw [ih (r + 1) (bumpTimeouts t e) (n + 1) tail hrest (by omega) (by omega)]
    simp only [List.length_cons, timeoutsOf, he]
    congr 1 <;> omega

theorem loop_skip_faults0 (M T : Nat) (faults tail : List OStep)
    (hc : ∀ s ∈ faults, s.CleanFault) (hM : faults.length ≤ M) (hT : timeoutsOf faults < T) :
    loop M T 0 0 0 (faults ++ tail) = loop M T faults.length (timeoutsOf faults) faults.length tail := by
  have := loop_skip_faults M T faults 0 0 0 tail hc (by omega) (by omega)
  simpa using this

/-- a step that is not retryable ends the loop, whatever the counters and whatever follows -/
theorem loop_terminal (M T r t n : Nat) (s : OStep) (rest : List OStep)
    (h : ∀ e, s.out ≠ .retryable e) :
    loop M T r t n (s :: rest) = ⟨(loop M T 0 0 0 [s]).result, n + 1⟩ := by
  cases hs : s.out with
  | retryable e => exact absurd hs (h e)
  | ok m => cases hc : s.ctxAfter <;> simp [loop, hs, hc]
  | fatalStatus e => simp [loop, hs]
  | fatalRemoteFailed => simp [loop, hs]
  | fatalFactory => simp [loop, hs]
  | fatalCtx c => simp [loop, hs]

/-! ### Bounds -/

theorem loop_attempts_le (M T : Nat) (steps : List OStep) :
    ∀ (r t n : Nat), (loop M T r t n steps).attempts ≤ n + (M - r) + 1 := by
  induction steps with
  | nil => intro r t n; simp [loop]; omega
  | cons s rest ih =>
    intro r t n
    cases hs : s.out with
    | retryable e =>
      simp only [loop, hs]
      split
      · simp <;> omega
      · split
        · simp <;> omega
        · rename_i h2
          cases hc : s.ctxAfter with
          | some c => simp <;> omega
          | none =>
            cases hsl : s.sleepCancel with
            | some c => simp <;> omega
            | none =>
              have := ih (r + 1) (bumpTimeouts t e) (n + 1)
              simp only []
              omega
    | ok m => cases hc : s.ctxAfter <;> simp [loop, hs, hc] <;> omega
    | fatalStatus e => simp [loop, hs] <;> omega
    | fatalRemoteFailed => simp [loop, hs] <;> omega
    | fatalFactory => simp [loop, hs] <;> omega
    | fatalCtx c => simp [loop, hs] <;> omega

theorem loop_attempts_le_length (M T : Nat) (steps : List OStep) :
    ∀ (r t n : Nat), (loop M T r t n steps).attempts ≤ n + steps.length := by
  induction steps with
  | nil => intro r t n; simp [loop]
  | cons s rest ih =>
    intro r t n
    cases hs : s.out with
    | retryable e =>
      simp only [loop, hs]
      split
      · simp <;> omega
      · split
        · simp <;> omega
        · cases hc : s.ctxAfter with
          | some c => simp <;> omega
          | none =>
            cases hsl : s.sleepCancel with
            | some c => simp <;> omega
            | none =>
              have := ih (r + 1) (bumpTimeouts t e) (n + 1)
              simp only [List.length_cons]
              omega
    | ok m => cases hc : s.ctxAfter <;> simp [loop, hs, hc] <;> omega
    | fatalStatus e => simp [loop, hs] <;> omega
    | fatalRemoteFailed => simp [loop, hs] <;> omega
    | fatalFactory => simp [loop, hs] <;> omega
    | fatalCtx c => simp [loop, hs] <;> omega

/-- success is reported only when an attempt ended without error with the context alive, and every
attempt before it was a clean fault -/
theorem loop_succeeded_inv (M T : Nat) (steps : List OStep) :
    ∀ (r t n : Nat) (m : Bool) (a : Nat), loop M T r t n steps = ⟨.succeeded m, a⟩ →
      ∃ pre s post, steps = pre ++ s :: post ∧ (∀ x ∈ pre, x.CleanFault) ∧
        s.out = .ok m ∧ s.ctxAfter = none ∧ a = n + pre.length + 1 := by
  induction steps with
  | nil => intro r t n m a h; simp [loop] at h
  | cons s rest ih =>
    intro r t n m a h
    cases hs : s.out with
    | retryable e =>
      simp only [loop, hs] at h
      split at h
      · simp at h
      · split at h
        · simp at h
        · cases hc : s.ctxAfter with
          | some c => simp [hc] at h
          | none =>
            cases hsl : s.sleepCancel with
            | some c => simp [hc, hsl] at h
            | none =>
              simp only [hc, hsl] at h
              obtain ⟨pre, s', post, he, hpre, hok, hctx, ha⟩ := ih _ _ _ _ _ h
              refine ⟨s :: pre, s', post, by simp [he], ?_, hok, hctx, by simp [ha]; omega⟩
              intro x hx
              rcases List.mem_cons.1 hx with rfl | hx
              · exact ⟨⟨e, hs⟩, hc, hsl⟩
              · exact hpre x hx
    | ok m' =>
      cases hc : s.ctxAfter with
      | some c => simp [loop, hs, hc] at h
      | none =>
        simp [loop, hs, hc] at h
        refine ⟨[], s, rest, rfl, by simp, ?_, hc, by simp [h.2]⟩
        rw [hs, h.1]
    | fatalStatus e => simp [loop, hs] at h
    | fatalRemoteFailed => simp [loop, hs] at h
    | fatalFactory => simp [loop, hs] at h
    | fatalCtx c => simp [loop, hs] at h

/-! ### One attempt: `recvLoop` / `work` without cancellation -/

/-- progress messages: `Update`, or a response without a type -/
def RecvEv.Progress (ev : RecvEv) : Prop := ev = .msg .update ∨ ev = .msg .other

theorem fire_none (p : CancelAt) (ctx : Option CtxErr) : fire none p ctx = ctx := by
  cases ctx <;> simp [fire]

theorem recvLoop_progress (cfg : Cfg) (cancel : Option (CancelAt × CtxErr)) (ups : List RecvEv)
    (hups : ∀ ev ∈ ups, ev.Progress) :
    ∀ (i : Nat) (tail : List RecvEv),
      (∀ j, i ≤ j → j < i + ups.length → fire cancel (.recv j) none = none) →
      recvLoop cfg cancel i none (ups ++ tail) = recvLoop cfg cancel (i + ups.length) none tail := by
  induction ups with
  | nil => intro i tail _; simp
  | cons ev rest ih =>
    intro i tail hf
    have h0 := hf i (Nat.le_refl _) (by simp)
    have hrest : ∀ ev ∈ rest, ev.Progress := fun x hx => hups x (by simp [hx])
    have ih' := ih hrest (i + 1) tail (fun j h1 h2 => hf j (by omega) (by simp <;> omega))
    rcases hups ev (by simp) with rfl | rfl
    · simp only [List.cons_append, recvLoop, h0, List.length_cons]
      rw [ih']; congr 1; omega
    · simp only [List.cons_append, recvLoop, h0, List.length_cons]
      rw [ih']; congr 1; omega

/-- the stream delivers progress messages and then fails with `e` -/
theorem work_stream_error (cfg : Cfg) (h : Bool) (ups : List RecvEv) (e : RpcErr) (post : List RecvEv)
    (hups : ∀ ev ∈ ups, ev.Progress) :
    work cfg ⟨.stream h (ups ++ .err e :: post), none⟩
      = (if e.codeOrOk ∈ cfg.fatalCodes then .fatalStatus e else .retryable e, none) := by
  have hl := recvLoop_progress cfg none ups hups 0 (.err e :: post) (fun j _ _ => by simp [fire])
  cases h <;> (simp only [work, fire_none, hl, recvLoop]; split <;> simp)

/-- the call itself fails -/
theorem work_call_error (cfg : Cfg) (e : RpcErr) :
    work cfg ⟨.callErr e, none⟩ = (.retryable e, none) := by
  simp [work, fire]

/-- progress messages, then the server ends the stream with status OK -/
theorem work_clean_end (cfg : Cfg) (h : Bool) (ups : List RecvEv) (hups : ∀ ev ∈ ups, ev.Progress) :
    work cfg ⟨.stream h ups, none⟩ = (.ok false, none) := by
  have hl := recvLoop_progress cfg none ups hups 0 [] (fun j _ _ => by simp [fire])
  simp only [List.append_nil] at hl
  cases h <;> simp [work, hl, recvLoop, fire]

/-- progress messages, then a `Completed` message -/
theorem work_completed (cfg : Cfg) (h : Bool) (ups post : List RecvEv) (hups : ∀ ev ∈ ups, ev.Progress) :
    work cfg ⟨.stream h (ups ++ .msg .completed :: post), none⟩ = (.ok true, none) := by
  have hl := recvLoop_progress cfg none ups hups 0 (.msg .completed :: post) (fun j _ _ => by simp [fire])
  cases h <;> simp [work, hl, recvLoop, fire]

/-- `recvLoop` returns "no error, context alive" only at a `Completed` message or at the clean end of the
stream, after progress messages only -/
theorem recvLoop_ok_inv (cfg : Cfg) (cancel : Option (CancelAt × CtxErr)) (evs : List RecvEv) :
    ∀ (i : Nat) (ctx : Option CtxErr) (m : Bool), recvLoop cfg cancel i ctx evs = (.ok m, none) →
      (m = false ∧ ∀ ev ∈ evs, ev.Progress) ∨
      (m = true ∧ ∃ ups post, evs = ups ++ .msg .completed :: post ∧ ∀ ev ∈ ups, ev.Progress) := by
  induction evs with
  | nil =>
    intro i ctx m h
    simp only [recvLoop] at h
    split at h <;> simp at h
    exact Or.inl ⟨h, by simp⟩
  | cons ev rest ih =>
    intro i ctx m h
    simp only [recvLoop] at h
    split at h
    · simp at h
    · simp at h
    · cases ev with
      | err e => simp only at h; split at h <;> simp at h
      | msg mm =>
        cases mm with
        | update =>
          rcases ih _ _ _ h with ⟨hm, hp⟩ | ⟨hm, ups, post, he, hp⟩
          · exact Or.inl ⟨hm, fun x hx => by
              rcases List.mem_cons.1 hx with rfl | hx
              · exact Or.inl rfl
              · exact hp x hx⟩
          · refine Or.inr ⟨hm, .msg .update :: ups, post, by simp [he], fun x hx => ?_⟩
            rcases List.mem_cons.1 hx with rfl | hx
            · exact Or.inl rfl
            · exact hp x hx
        | other =>
          rcases ih _ _ _ h with ⟨hm, hp⟩ | ⟨hm, ups, post, he, hp⟩
          · exact Or.inl ⟨hm, fun x hx => by
              rcases List.mem_cons.1 hx with rfl | hx
              · exact Or.inr rfl
              · exact hp x hx⟩
          · refine Or.inr ⟨hm, .msg .other :: ups, post, by simp [he], fun x hx => ?_⟩
            rcases List.mem_cons.1 hx with rfl | hx
            · exact Or.inr rfl
            · exact hp x hx
        | failed => simp at h
        | completed =>
          simp at h
          exact Or.inr ⟨h, [], rest, rfl, by simp⟩

theorem fire_eq_none {cancel : Option (CancelAt × CtxErr)} {p : CancelAt} {ctx : Option CtxErr}
    (h : fire cancel p ctx = none) : ctx = none := by
  cases ctx with
  | none => rfl
  | some c => simp [fire] at h

/-! ### `sysLoop` is `loop` plus bookkeeping of files -/

theorem sysLoop_run {N V : Type} [DecidableEq N] (M T : Nat) (steps : List (SysStep N V)) :
    ∀ (r t n : Nat) (c : Cache N V),
      (sysLoop M T r t n c steps).1 = loop M T r t n (steps.map (·.o)) := by
  induction steps with
  | nil => intro r t n c; simp [sysLoop, loop]
  | cons s rest ih =>
    intro r t n c
    cases hs : s.o.out with
    | retryable e =>
      simp only [sysLoop, List.map_cons, loop, hs]
      split
      · rfl
      · split
        · rfl
        · cases hc : s.o.ctxAfter with
          | some k => rfl
          | none =>
            cases hsl : s.o.sleepCancel with
            | some k => rfl
            | none => exact ih _ _ _ _
    | ok m => cases hc : s.o.ctxAfter <;> simp [sysLoop, loop, hs, hc]
    | fatalStatus e => simp [sysLoop, loop, hs]
    | fatalRemoteFailed => simp [sysLoop, loop, hs]
    | fatalFactory => simp [sysLoop, loop, hs]
    | fatalCtx c => simp [sysLoop, loop, hs]

/-! ### Files -/

/-- every name is written with one value -/
def Functional {N V : Type} (l : Files N V) : Prop :=
  ∀ n v v', (n, v) ∈ l → (n, v') ∈ l → v = v'

theorem lookup_mem {N V : Type} [DecidableEq N] (l : Files N V) (n : N) (v : V)
    (h : l.lookup n = some v) : (n, v) ∈ l := by
  induction l with
  | nil => simp at h
  | cons p rest ih =>
    obtain ⟨k, w⟩ := p
    by_cases hk : n = k
    · subst hk; simp [List.lookup] at h; simp [h]
    · have : (n == k) = false := by simp [hk]
      simp [List.lookup, this] at h
      exact List.mem_cons_of_mem _ (ih h)

theorem lookup_none_not_mem {N V : Type} [DecidableEq N] (l : Files N V) (n : N)
    (h : l.lookup n = none) : ∀ v, (n, v) ∉ l := by
  induction l with
  | nil => simp
  | cons p rest ih =>
    obtain ⟨k, w⟩ := p
    by_cases hk : n = k
    · subst hk; simp [List.lookup] at h
    · have hb : (n == k) = false := by simp [hk]
      simp only [List.lookup, hb] at h
      intro v hv
      rcases List.mem_cons.1 hv with heq | hv
      · exact hk (by injection heq)
      · exact ih h v hv

theorem mem_lookup_functional {N V : Type} [DecidableEq N] (l : Files N V) (hf : Functional l) (n : N) (v : V)
    (h : (n, v) ∈ l) : l.lookup n = some v := by
  cases hl : l.lookup n with
  | none => exact absurd h (lookup_none_not_mem l n hl v)
  | some v' => rw [hf n v v' h (lookup_mem l n v' hl)]

/-- a cache obtained from `c0` by writing files that all belong to `J` (functional) agrees, name by name,
with `c0` or with `J` -/
def Between {N V : Type} [DecidableEq N] (c0 : Cache N V) (J : Files N V) (c : Cache N V) : Prop :=
  ∀ n, c n = c0 n ∨ (∃ v, J.lookup n = some v ∧ c n = some v)

theorem between_write {N V : Type} [DecidableEq N] (c0 c : Cache N V) (J S : Files N V)
    (hf : Functional J) (hb : Between c0 J c) (hS : ∀ x ∈ S, x ∈ J) : Between c0 J (writeAll c S) := by
  intro n
  unfold writeAll
  cases hl : S.lookup n with
  | none => exact hb n
  | some v =>
    right
    exact ⟨v, mem_lookup_functional J hf n v (hS _ (lookup_mem S n v hl)), rfl⟩

/-- writing all of `J` over a cache that lies between `c0` and `J` gives exactly `c0` overwritten by `J` -/
theorem between_write_all {N V : Type} [DecidableEq N] (c0 c : Cache N V) (J W : Files N V)
    (hf : Functional J) (hb : Between c0 J c) (hsub : ∀ x ∈ W, x ∈ J) (hsup : ∀ x ∈ J, x ∈ W) :
    ∀ n, writeAll c W n = writeAll c0 J n := by
  intro n
  unfold writeAll
  cases hl : W.lookup n with
  | some v => rw [mem_lookup_functional J hf n v (hsub _ (lookup_mem W n v hl))]
  | none =>
    have hJ : J.lookup n = none := by
      cases hj : J.lookup n with
      | none => rfl
      | some v => exact absurd (hsup _ (lookup_mem J n v hj)) (lookup_none_not_mem W n hl v)
    rw [hJ]
    rcases hb n with h | ⟨v, hv, _⟩
    · exact h
    · rw [hJ] at hv; cases hv

end SV.Retry

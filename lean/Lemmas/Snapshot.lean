import Model.Snapshot
import Lemmas.Wire
import Lemmas.Filename
/-! Helper lemmas for C10 about `Model/Snapshot.lean`: the object store, save followed by load. -/
namespace SV.Snapshot
open SV.Wire SV.Filename

theorem read_write_same (fs : Files) (n : Name) (c : Bytes) : (fs.write n c).read n = some c := by
  induction fs with
  | nil => simp [Files.write, Files.read]
  | cons a t ih =>
    obtain ⟨n', c'⟩ := a
    unfold Files.write
    by_cases h : n' = n
    · simp [h, Files.read]
    · simp only [h, if_false, Files.read]
      exact ih

theorem read_write_other (fs : Files) (n m : Name) (c : Bytes) (h : m ≠ n) :
    (fs.write n c).read m = fs.read m := by
  induction fs with
  | nil =>
    simp only [Files.write, Files.read]
    rw [if_neg (fun hc => h hc.symm)]
  | cons a t ih =>
    obtain ⟨n', c'⟩ := a
    unfold Files.write
    by_cases h' : n' = n
    · subst h'
      simp only [if_true, Files.read]
      rw [if_neg (fun hc => h hc.symm), if_neg (fun hc => h hc.symm)]
    · simp only [h', if_false, Files.read]
      by_cases h'' : n' = m
      · simp [h'']
      · simp only [h'', if_false]; exact ih

end SV.Snapshot

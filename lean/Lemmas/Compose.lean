import Model.Segmenter
import Lemmas.Segmenter
/-!
Composition lemmas (C13 → C02/C01): the segments the real `Segmenter` hands out, walked in index order,
list every block of `[init, end)` exactly once and in order.
-/
namespace SV
open Segmenter

/-- a tiling lists, block by block, exactly `[a, b)` in order -/
theorem Tiles.blocks_flatten : ∀ {l : List Range} {a b : Nat}, Tiles l a b →
    (l.map Range.blocks).flatten = List.range' a (b - a)
  | [], _, _, h => h.elim
  | [r], a, b, h => by
    obtain ⟨h1, h2, _⟩ := h
    simp [Range.blocks, h1, h2]
  | r :: r2 :: rest, a, b, h => by
    obtain ⟨h1, h2, h3⟩ := h
    have ih := Tiles.blocks_flatten h3
    have hlt := Tiles.lt h3
    rw [List.map_cons, List.flatten_cons, ih]
    simp only [Range.blocks, h1]
    have e : a + (r.stop - a) = r.stop := by omega
    have := @List.range'_append_1 a (r.stop - a) (b - r.stop)
    rw [e] at this
    rw [this]
    congr 1
    omega

variable (s : Segmenter)

theorem segments_from_tiles (hk : 0 < s.interval) (hlt : s.init < s.end_) :
    ∀ (n i : Nat), i + n = s.lastIndex → s.firstIndex ≤ i →
      Tiles ((List.range' i (n + 1)).filterMap s.range?) (max s.init (i * s.interval)) s.end_
  | 0, i, hi, hf => by
    have hil : i ≤ s.lastIndex := by omega
    have hr := range?_eq s hk hlt i hf hil
    have hE : min ((i + 1) * s.interval) s.end_ = s.end_ := by
      have : i = s.lastIndex := by omega
      subst this
      exact Nat.min_eq_right (end_le_last_succ_mul s hk (by omega))
    have hl : List.range' i (0 + 1) = [i] := by simp
    rw [hl]
    simp only [List.filterMap_cons, hr, List.filterMap_nil]
    refine ⟨rfl, hE, ?_⟩
    have a := last_mul_lt_end s hk (by omega)
    have : i = s.lastIndex := by omega
    subst this
    simp only [Nat.max_def]; split <;> omega
  | n + 1, i, hi, hf => by
    have hil : i < s.lastIndex := by omega
    have hr := range?_eq s hk hlt i hf (by omega)
    have hstop : min ((i + 1) * s.interval) s.end_ = (i + 1) * s.interval :=
      Nat.min_eq_left (Nat.le_of_lt (succ_mul_lt_end s hk i hil))
    have ih := segments_from_tiles hk hlt n (i + 1) (by omega) (by omega)
    have hinit : s.init < (i + 1) * s.interval := by
      have := lt_div_succ_mul s.init s.interval hk
      have h5 : (s.firstIndex + 1) * s.interval ≤ (i + 1) * s.interval :=
        Nat.mul_le_mul_right _ (by omega)
      unfold firstIndex at h5
      omega
    rw [Nat.max_eq_right (Nat.le_of_lt hinit)] at ih
    rw [List.range'_succ, List.filterMap_cons, hr]
    refine Tiles.cons rfl ?_ (by rw [hstop]; exact ih)
    show max s.init (i * s.interval) < min ((i + 1) * s.interval) s.end_
    rw [hstop]
    have e : (i + 1) * s.interval = i * s.interval + s.interval := by rw [Nat.add_mul, Nat.one_mul]
    simp only [Nat.max_def]; split <;> omega

/-- the segments of a segmenter tile `[init, end)` -/
theorem segments_tiles (hk : 0 < s.interval) (hlt : s.init < s.end_) : Tiles s.segments s.init s.end_ := by
  have hfl := first_le_last s hk hlt
  have h := segments_from_tiles s hk hlt (s.lastIndex - s.firstIndex) s.firstIndex (by omega) (Nat.le_refl _)
  have e : s.lastIndex - s.firstIndex + 1 = s.lastIndex + 1 - s.firstIndex := by omega
  have e2 : max s.init (s.firstIndex * s.interval) = s.init :=
    Nat.max_eq_left (by unfold firstIndex; exact div_mul_le' _ _)
  rw [e2, e] at h
  exact h

/-- walked in index order, the segments list every block of `[init, end)` once, in order -/
theorem segments_blocks (hk : 0 < s.interval) (hlt : s.init < s.end_) :
    (s.segments.map Range.blocks).flatten = List.range' s.init (s.end_ - s.init) :=
  (segments_tiles s hk hlt).blocks_flatten

end SV

namespace SV
/-- the sizes of a tiling add up to the length of the tiled interval -/
theorem Tiles.sizes_sum : ∀ {l : List Range} {a b : Nat}, Tiles l a b → (l.map Range.size).sum = b - a
  | [], _, _, h => h.elim
  | [r], a, b, h => by
    obtain ⟨h1, h2, _⟩ := h
    simp [Range.size, h1, h2]
  | r :: r2 :: rest, a, b, h => by
    obtain ⟨h1, h2, h3⟩ := h
    have ih := Tiles.sizes_sum h3
    have hlt := Tiles.lt h3
    rw [List.map_cons, List.sum_cons, ih]
    simp only [Range.size, h1]
    omega

theorem Segmenter.segments_sizes (s : Segmenter) (hk : 0 < s.interval) (hlt : s.init < s.end_) :
    (s.segments.map Range.size).sum = s.end_ - s.init :=
  (segments_tiles s hk hlt).sizes_sum

/-- the per-segment block lists, mapped through any per-block function, concatenate to the whole range -/
theorem Segmenter.segments_map_flatten {α : Type} (s : Segmenter) (hk : 0 < s.interval) (hlt : s.init < s.end_)
    (f : Nat → α) :
    (s.segments.map (fun r => r.blocks.map f)).flatten = (List.range' s.init (s.end_ - s.init)).map f := by
  rw [← segments_blocks s hk hlt, List.map_flatten, List.map_map]
  rfl
/-- every segment lies inside `[init, end)` -/
theorem Segmenter.segments_mem_bounds (s : Segmenter) (hk : 0 < s.interval) (hlt : s.init < s.end_)
    {r : Range} (hr : r ∈ s.segments) : s.init ≤ r.start ∧ r.stop ≤ s.end_ := by
  unfold Segmenter.segments at hr
  obtain ⟨i, hi, hri⟩ := List.mem_filterMap.1 hr
  have hb := List.mem_range'_1.1 hi
  have hfl := first_le_last s hk hlt
  rw [range?_eq s hk hlt i hb.1 (by omega)] at hri
  injection hri with hri; subst hri
  exact ⟨Nat.le_max_left _ _, Nat.min_le_right _ _⟩
end SV

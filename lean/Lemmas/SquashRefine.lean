import Lemmas.History
import Lemmas.Squash
import Lemmas.Codec
/-!
Layer B of C02: the byte-level model (`flush`, `Partial.execBlock`, `merge` of Model/Store.lean,
Model/Merge.lean with the value semantics `stdSem` of Model/Policy.lean) refines the per-key algebras
of Lemmas/Squash.lean.

  B1  one flushed block, per key: `flushOp_key`, `flush_key`, `seqRun_key`
  B2  `merge`, per key: `mergeKey_eq`, `merge_key`; partial stores: `segRun_key`
  B3/B4  `Refine`: what a policy has to provide (relations bytes ↔ typed value, three commutation
      laws) for `refine_squash_eq_seq`; the instances.

Core Lean only.
-/
namespace SV

/-! ### folds that may fail -/

/-- left fold of a step that may fail (`none`) -/
def foldOpt {α β : Type} (f : α → β → Option α) : α → List β → Option α
  | x, [] => some x
  | x, b :: rest =>
    match f x b with
    | none => none
    | some x' => foldOpt f x' rest

theorem foldOpt_append {α β : Type} (f : α → β → Option α) (l1 l2 : List β) : ∀ x : α,
    foldOpt f x (l1 ++ l2) = (foldOpt f x l1).bind (fun y => foldOpt f y l2) := by
  induction l1 with
  | nil => intro x; rfl
  | cons b rest ih =>
    intro x
    simp only [List.cons_append, foldOpt]
    cases f x b with
    | none => rfl
    | some x' => exact ih x'

/-! ### B1: the effect of one operation of `Flush` on one key -/

/-- the operations whose value goes through `sem`: effect on key `k` (`none`: `sem` fails, `Flush` errors) -/
def viaSem (cfg : Cfg) (sem : Sem) (kind : OpKind) (k : Bytes) (cur : Option Bytes) (op : Op) :
    Option (Option Bytes) :=
  if op.key = k then
    match sem kind (if isSetSum kind then cur else stripTag cfg cur) op.val with
    | .ok nv => some (some nv)
    | .error _ => none
  else some cur

/-- the content of key `k` after one iteration of the loop of `Flush`, from its content `cur` before
(outer `none`: the value computation fails) -/
def keyEffect (cfg : Cfg) (sem : Sem) (k : Bytes) (cur : Option Bytes) (op : Op) : Option (Option Bytes) :=
  match op.kind with
  | .deletePrefix => some (if isPrefix op.key k then none else cur)
  | .set => some (if op.key = k then some op.val else cur)
  | .setIfNotExists =>
    some (if op.key = k then (match cur with | some c => some c | none => some op.val) else cur)
  | kind => viaSem cfg sem kind k cur op

/-- under the flush invariant `getAt` at the current operation's ordinal reads the current content -/
theorem getAt_eq_look {f : Content} {s : Store} {b ord : Nat} (h : FInv f s b) (hb : b ≤ ord) (k : Bytes) :
    s.getAt ord k = look s.kv k := by
  unfold Store.getAt
  rw [h.getLast]
  cases hr : s.deltas.reverse with
  | nil => rfl
  | cons d rest =>
    have hm : d ∈ s.deltas := by
      have : d ∈ s.deltas.reverse := by rw [hr]; exact List.mem_cons_self
      simpa using this
    have hd := h.bounded d hm
    unfold walkBack
    simp only [show d.ord ≤ ord by omega, ↓reduceIte]

theorem setRaw_look {cfg : Cfg} {f : Content} {s s' : Store} {b ord : Nat} {k v : Bytes}
    (h : FInv f s b) (hb : b ≤ ord) (hp : setRaw cfg s ord k v = .ok s') :
    ∀ k', look s'.kv k' = if k = k' then some v else look s.kv k' := by
  unfold setRaw at hp
  split at hp; · simp at hp
  split at hp; · simp at hp
  split at hp; · simp at hp
  rw [h.getLast k] at hp
  intro k'
  split at hp
  · rename_i old hlook
    have := pushDelta_inv (d := ⟨.update, ord, k, old, v⟩) h (by simpa [WFd] using hlook) hb hp
    rw [this.2.2.2]; simp only [stepF]
  · rename_i hlook
    have := pushDelta_inv (d := ⟨.create, ord, k, [], v⟩) h (by simpa [WFd] using hlook) hb hp
    rw [this.2.2.2]; simp only [stepF]

theorem setIfNotExistsRaw_look {cfg : Cfg} {f : Content} {s s' : Store} {b ord : Nat} {k v : Bytes}
    (h : FInv f s b) (hb : b ≤ ord) (hp : setIfNotExistsRaw cfg s ord k v = .ok s') :
    ∀ k', look s'.kv k' =
      if k = k' then (match look s.kv k' with | some c => some c | none => some v) else look s.kv k' := by
  unfold setIfNotExistsRaw at hp
  rw [h.getLast k] at hp
  intro k'
  split at hp
  · rename_i old hlook
    injection hp with hp; subst hp
    by_cases hk : k = k'
    · subst hk; simp only [↓reduceIte, hlook]
    · simp only [hk, ↓reduceIte]
  · rename_i hlook
    have := pushDelta_inv (d := ⟨.create, ord, k, [], v⟩) h (by simpa [WFd] using hlook) hb hp
    rw [this.2.2.2]; simp only [stepF]
    by_cases hk : k = k'
    · subst hk; simp only [↓reduceIte, hlook]
    · simp only [hk, ↓reduceIte]

/-- `deleteFold_inv` with the resulting content: the listed keys are gone, the others untouched -/
theorem deleteFold_look {cfg : Cfg} {f : Content} {ord : Nat} : ∀ (L : KV) (s s' : Store),
    FInv f s ord → (∀ p ∈ L, look s.kv p.1 = some p.2) → (L.map (·.1)).Nodup →
    L.foldlM (fun s p => pushDelta cfg s ⟨.delete, ord, p.1, p.2, []⟩) s = .ok s' →
    ∀ k, look s'.kv k = if k ∈ L.map (·.1) then none else look s.kv k := by
  intro L
  induction L with
  | nil => intro s s' h _ _ hp k; simp [List.foldlM] at hp; cases hp; simp
  | cons p rest ih =>
    intro s s' h hl hnd hp k
    rw [List.foldlM_cons] at hp
    cases hpd : pushDelta cfg s ⟨.delete, ord, p.1, p.2, []⟩ with
    | error e => rw [hpd] at hp; simp [bind, Except.bind] at hp
    | ok s1 =>
      rw [hpd] at hp
      simp only [bind, Except.bind] at hp
      have hw : WFd (look s.kv) ⟨.delete, ord, p.1, p.2, []⟩ := by
        simpa [WFd] using hl p List.mem_cons_self
      obtain ⟨i1, _, _, i4⟩ := pushDelta_inv h hw (Nat.le_refl _) hpd
      simp only [List.map_cons, List.nodup_cons] at hnd
      have hl' : ∀ q ∈ rest, look s1.kv q.1 = some q.2 := by
        intro q hq
        rw [i4, stepF_ne]
        · exact hl q (List.mem_cons_of_mem _ hq)
        · intro hc
          exact hnd.1 (List.mem_map.2 ⟨q, hq, hc.symm⟩)
      rw [ih s1 s' i1 hl' hnd.2 hp k, i4]
      simp only [List.map_cons, List.mem_cons, stepF]
      by_cases h1 : k = p.1
      · subst h1; simp
      · have h1' : ¬ p.1 = k := fun hc => h1 hc.symm
        simp only [h1, h1', false_or, ↓reduceIte]

theorem deletePrefixRaw_look {cfg : Cfg} {f : Content} {s s' : Store} {b ord : Nat} {pfx : Bytes}
    (h : FInv f s b) (hb : b ≤ ord) (hp : deletePrefixRaw cfg s ord pfx = .ok s') :
    ∀ k, look s'.kv k = if isPrefix pfx k then none else look s.kv k := by
  unfold deletePrefixRaw at hp
  have hperm := sortByKey_perm (s.kv.filter (fun p => isPrefix pfx p.1))
  intro k
  have hl : ∀ p ∈ sortByKey (s.kv.filter (fun p => isPrefix pfx p.1)), look s.kv p.1 = some p.2 := by
    intro p hp'
    have : p ∈ s.kv := (List.mem_filter.1 ((hperm.mem_iff).1 hp')).1
    exact look_of_mem h.nodup this
  have hnd : ((sortByKey (s.kv.filter (fun p => isPrefix pfx p.1))).map (·.1)).Nodup := by
    have h1 : ((s.kv.filter (fun p => isPrefix pfx p.1)).map (·.1)).Nodup :=
      List.Nodup.sublist (List.Sublist.map _ List.filter_sublist) h.nodup
    exact ((hperm.map (·.1)).nodup_iff).2 h1
  rw [deleteFold_look _ s s' (h.mono hb) hl hnd hp k]
  by_cases hpre : isPrefix pfx k = true
  · simp only [hpre, ↓reduceIte]
    split
    · rfl
    · rename_i hnm
      cases hlk : look s.kv k with
      | none => rfl
      | some v =>
        exfalso; apply hnm
        have hm : (k, v) ∈ s.kv := mem_keys_of_look hlk
        have : (k, v) ∈ sortByKey (s.kv.filter (fun p => isPrefix pfx p.1)) :=
          (hperm.mem_iff).2 (List.mem_filter.2 ⟨hm, hpre⟩)
        exact List.mem_map.2 ⟨(k, v), this, rfl⟩
  · simp only [hpre, Bool.false_eq_true, ↓reduceIte]
    split
    · rename_i hm
      obtain ⟨q, hq, hqk⟩ := List.mem_map.1 hm
      have := (List.mem_filter.1 ((hperm.mem_iff).1 hq)).2
      rw [hqk] at this
      exact absurd this hpre
    · rfl

/-- the writers that go through `sem` -/
theorem viaSem_look {cfg : Cfg} {sem : Sem} {f : Content} {s s' : Store} {b : Nat} {op : Op} {kind : OpKind}
    (h : FInv f s b) (hb : b ≤ op.ord)
    (hp : (match sem kind (if isSetSum kind = true then s.getAt op.ord op.key
              else stripTag cfg (s.getAt op.ord op.key)) op.val with
            | .error e => Except.error e
            | .ok nv => setRaw cfg s op.ord op.key nv) = .ok s') :
    ∀ k, viaSem cfg sem kind k (look s.kv k) op = some (look s'.kv k) := by
  intro k
  rw [getAt_eq_look h hb] at hp
  unfold viaSem
  by_cases hk : op.key = k
  · subst hk
    simp only [↓reduceIte]
    split at hp
    · simp at hp
    · rename_i nv hsem
      rw [hsem]
      simp only [setRaw_look h hb hp op.key, ↓reduceIte]
  · simp only [hk, ↓reduceIte]
    split at hp
    · simp at hp
    · rw [setRaw_look h hb hp k]; simp only [hk, ↓reduceIte]

/-- **B1**: one iteration of the loop of `Flush`, per key -/
theorem flushOp_key {cfg : Cfg} {sem : Sem} {f : Content} {s s' : Store} {b : Nat} {op : Op}
    (h : FInv f s b) (hb : b ≤ op.ord) (hp : flushOp cfg sem s op = .ok s') :
    ∀ k, keyEffect cfg sem k (look s.kv k) op = some (look s'.kv k) := by
  unfold flushOp at hp
  split at hp
  · simp at hp
  · rename_i s1 hbody
    injection hp with hp; subst hp
    show ∀ k, keyEffect cfg sem k (look s.kv k) op = some (look s1.kv k)
    intro k
    unfold flushOpBody at hbody
    unfold keyEffect
    cases hk : op.kind <;> simp only [hk] at hbody ⊢
    · rw [setRaw_look h hb hbody k]
    · rw [setIfNotExistsRaw_look h hb hbody k]
    · exact viaSem_look h hb hbody k
    · rw [deletePrefixRaw_look h hb hbody k]
    · exact viaSem_look h hb hbody k
    · exact viaSem_look h hb hbody k
    · exact viaSem_look h hb hbody k
    · exact viaSem_look h hb hbody k

theorem flushFold_key {cfg : Cfg} {sem : Sem} {f : Content} : ∀ (ops : List Op) (s s' : Store) (b : Nat),
    FInv f s b → OrdSorted ops → (∀ o ∈ ops, b ≤ o.ord) →
    ops.foldlM (flushOp cfg sem) s = .ok s' →
    ∀ k, foldOpt (keyEffect cfg sem k) (look s.kv k) ops = some (look s'.kv k) := by
  intro ops
  induction ops with
  | nil => intro s s' b h _ _ hp k; simp [List.foldlM] at hp; cases hp; rfl
  | cons o rest ih =>
    intro s s' b h hs hb hp k
    rw [List.foldlM_cons] at hp
    cases hfo : flushOp cfg sem s o with
    | error e => rw [hfo] at hp; simp [bind, Except.bind] at hp
    | ok s1 =>
      rw [hfo] at hp
      simp only [bind, Except.bind] at hp
      unfold OrdSorted at hs
      rw [List.pairwise_cons] at hs
      obtain ⟨i1, _⟩ := flushOp_inv h (hb o List.mem_cons_self) hfo
      simp only [foldOpt, flushOp_key h (hb o List.mem_cons_self) hfo k]
      exact ih s1 s' o.ord i1 hs.2 hs.1 hp k

/-- **B1**: one flushed block, per key: the content of `k` is the fold of `keyEffect` over the sorted log -/
theorem flush_key {cfg : Cfg} {sem : Sem} {s s' : Store} (h : Clean s) (hp : flush cfg sem s = .ok s') :
    ∀ k, foldOpt (keyEffect cfg sem k) (look s.kv k) (sortOps s.ops) = some (look s'.kv k) := by
  unfold flush at hp
  have hc : FInv (look s.kv) { s with ops := sortOps s.ops } 0 :=
    { nodup := h.nodup
      chain := by show Chain _ s.deltas; rw [h.deltas]; trivial
      kvpost := by show _ = postF _ s.deltas; rw [h.deltas]; rfl
      sorted := by show s.deltas.Pairwise _; rw [h.deltas]; exact List.Pairwise.nil
      bounded := by show ∀ d ∈ s.deltas, _; rw [h.deltas]; intro d hd; simp at hd
      size := h.size }
  intro k
  exact flushFold_key (sortOps s.ops) { s with ops := sortOps s.ops } s' 0 hc (sortOps_sorted _)
    (by intro o _; omega) hp k

/-! ### runs of blocks on a full store and on a partial store -/

theorem execBlock_key {cfg : Cfg} {sem : Sem} {pre post : Store} {calls : List Op} (h : Clean pre)
    (hp : execBlock cfg sem pre calls = .ok post) :
    ∀ k, foldOpt (keyEffect cfg sem k) (look pre.kv k) (sortOps (pre.ops ++ calls)) = some (look post.kv k) := by
  unfold execBlock at hp
  obtain ⟨a, _, _, d⟩ := record_fold_fields calls pre
  intro k
  have := flush_key (h.record_fold calls) hp k
  rw [a, d] at this
  exact this

/-- sequential execution of blocks on one store: per block `NewCall` (Reset), the calls, `Flush` -/
def seqRun (cfg : Cfg) (sem : Sem) : Store → List (List Op) → Except SErr Store
  | s, [] => .ok s
  | s, calls :: rest =>
    match execBlock cfg sem (reset s) calls with
    | .error e => .error e
    | .ok s' => seqRun cfg sem s' rest

/-- **B1 over a list of blocks**: the content of every key is the fold of `keyEffect` over the blocks'
sorted logs -/
theorem seqRun_key {cfg : Cfg} {sem : Sem} : ∀ (blocks : List (List Op)) (s s' : Store),
    SInv s → seqRun cfg sem s blocks = .ok s' →
    SInv s' ∧ ∀ k, foldOpt (keyEffect cfg sem k) (look s.kv k) (blocks.flatMap sortOps) = some (look s'.kv k) := by
  intro blocks
  induction blocks with
  | nil => intro s s' h hr; simp only [seqRun, Except.ok.injEq] at hr; subst hr; exact ⟨h, fun _ => rfl⟩
  | cons calls rest ih =>
    intro s s' h hr
    unfold seqRun at hr
    cases hb : execBlock cfg sem (reset s) calls with
    | error e => rw [hb] at hr; simp at hr
    | ok s1 =>
      rw [hb] at hr
      dsimp only at hr
      obtain ⟨b, i1, _⟩ := execBlock_inv h.reset hb
      obtain ⟨j1, j2⟩ := ih s1 s' i1.sinv hr
      refine ⟨j1, fun k => ?_⟩
      have e1 := execBlock_key h.reset hb k
      have e1' : foldOpt (keyEffect cfg sem k) (look s.kv k) (sortOps calls) = some (look s1.kv k) := by
        simpa [reset] using e1
      rw [List.flatMap_cons, foldOpt_append, e1']
      exact j2 k

theorem partial_execBlock_eq (cfg : Cfg) (sem : Sem) (p : Partial) (calls : List Op) :
    Partial.execBlock cfg sem p calls =
      match execBlock cfg sem p.store calls with
      | .error e => .error e
      | .ok s => .ok ⟨s, calls.foldl addPfx p.deletedPrefixes⟩ := by
  unfold Partial.execBlock execBlock
  rw [partial_record_fold]
  rfl

/-- one segment on a partial store: per block Reset, the calls (prefixes remembered), `Flush` -/
def segRun (cfg : Cfg) (sem : Sem) : Partial → List (List Op) → Except SErr Partial
  | p, [] => .ok p
  | p, calls :: rest =>
    match Partial.execBlock cfg sem ⟨reset p.store, p.deletedPrefixes⟩ calls with
    | .error e => .error e
    | .ok p' => segRun cfg sem p' rest

/-- **B2 (partial stores)**: content = per-key fold; `deletedPrefixes` = exactly the prefixes of the
segment's `deletePrefix` operations -/
theorem segRun_key {cfg : Cfg} {sem : Sem} : ∀ (blocks : List (List Op)) (p p' : Partial),
    SInv p.store → segRun cfg sem p blocks = .ok p' →
    SInv p'.store ∧
    (∀ k, foldOpt (keyEffect cfg sem k) (look p.store.kv k) (blocks.flatMap sortOps) = some (look p'.store.kv k)) ∧
    (∀ x, x ∈ p'.deletedPrefixes ↔
      (x ∈ p.deletedPrefixes ∨ ∃ o ∈ blocks.flatMap sortOps, o.kind = .deletePrefix ∧ o.key = x)) := by
  intro blocks
  induction blocks with
  | nil =>
    intro p p' h hr
    simp only [segRun, Except.ok.injEq] at hr; subst hr
    exact ⟨h, fun _ => rfl, by simp⟩
  | cons calls rest ih =>
    intro p p' h hr
    unfold segRun at hr
    rw [partial_execBlock_eq] at hr
    dsimp only at hr
    cases hb : execBlock cfg sem (reset p.store) calls with
    | error e => rw [hb] at hr; simp at hr
    | ok s1 =>
      rw [hb] at hr
      dsimp only at hr
      obtain ⟨b, i1, _⟩ := execBlock_inv h.reset hb
      obtain ⟨j1, j2, j3⟩ := ih ⟨s1, calls.foldl addPfx p.deletedPrefixes⟩ p' i1.sinv hr
      refine ⟨j1, fun k => ?_, fun x => ?_⟩
      · have e1 := execBlock_key h.reset hb k
        have e1' : foldOpt (keyEffect cfg sem k) (look p.store.kv k) (sortOps calls) = some (look s1.kv k) := by
          simpa [reset] using e1
        rw [List.flatMap_cons, foldOpt_append, e1']
        exact j2 k
      · rw [j3 x, mem_foldl_addPfx]
        simp only [List.flatMap_cons, List.mem_append, (sortOps_perm calls).mem_iff]
        constructor
        · rintro ((h1 | ⟨o, ho, h1⟩) | ⟨o, ho, h1⟩)
          · exact Or.inl h1
          · exact Or.inr ⟨o, Or.inl ho, h1⟩
          · exact Or.inr ⟨o, Or.inr ho, h1⟩
        · rintro (h1 | ⟨o, ho | ho, h1⟩)
          · exact Or.inl (Or.inl h1)
          · exact Or.inl (Or.inr ⟨o, ho, h1⟩)
          · exact Or.inr ⟨o, ho, h1⟩

/-! ### B2: `merge`, per key -/

/-- what `mergeKey` does to the full store for its key -/
inductive MAct
  | keep                 -- the store is left as it is
  | put (v : Bytes)      -- `setKV`
  | putNew (v : Bytes)   -- `setNewKV`

def MAct.apply (s : Store) (k : Bytes) : MAct → Store
  | .keep => s
  | .put v => setKV s k v
  | .putNew v => setNewKV s k v

/-- `mergeKey` as a function of the full store's value `cur` of the key and the partial store's value `v`
(`mergeKey_eq`: this is exactly what `mergeKey` computes) -/
def mergeGen (cfg : Cfg) (cur : Option Bytes) (v : Bytes) : Option (Except SErr MAct) :=
  match cfg.policy with
  | .set => some (.ok (.put v))
  | .setIfNotExists => some (.ok (if cur.isSome then .keep else .putNew v))
  | .append =>
    match cur with
    | some prev =>
      if cfg.appendLimit > 0 ∧ prev.length + v.length ≥ cfg.appendLimit then some (.error .appendLimit)
      else some (.ok (.put (prev ++ v)))
    | none => some (.ok (.putNew v))
  | .add =>
    match cfg.vt with
    | .int64 => some (.ok (.put (renderInt (wrap64 (foundOrZeroInt64 cur + foundOrZeroInt64 (some v))))))
    | .float64 => some (.ok (.put (renderF64 (foundOrZeroF64 cur + foundOrZeroF64 (some v)))))
    | .bigint =>
      match foundOrZeroBigInt cur, foundOrZeroBigInt (some v) with
      | some a, some b => some (.ok (.put (renderInt (a + b))))
      | _, _ => none
    | .bigdecimal =>
      match foundOrZeroDec cur, foundOrZeroDec (some v) with
      | some a, some b => some (.ok (.put (a.add b).render))
      | _, _ => none
    | .bytes => some (.error .badValue)
  | .setSum =>
    if isPrefix pfxSet v then
      match cfg.vt with
      | .float64 =>
        match parseF64 (v.drop 4) with
        | some f => some (.ok (.put (pfxSum ++ renderF64 f)))
        | none => none
      | .bytes => some (.ok .keep)
      | _ => some (.ok (.put (pfxSum ++ v.drop 4)))
    else
      match cfg.vt with
      | .int64 =>
        let a := match cur with | none => 0 | some c => (parseInt64 (c.drop 4)).getD 0
        let b := (parseInt64 (v.drop 4)).getD 0
        some (.ok (.put (pfxSum ++ renderInt (wrap64 (a + b)))))
      | .float64 =>
        let a := match cur with | none => 0.0 | some c => (parseF64 (c.drop 4)).getD 0.0
        let b := (parseF64 (v.drop 4)).getD 0.0
        some (.ok (.put (pfxSum ++ renderF64 (a + b))))
      | .bigint =>
        match (match cur with | none => some 0 | some c => parseInt (c.drop 4)), parseInt (v.drop 4) with
        | some a, some b => some (.ok (.put (pfxSum ++ renderInt (a + b))))
        | _, _ => none
      | .bigdecimal =>
        match foundOrZeroPrefixedDec cur, foundOrZeroPrefixedDec (some v) with
        | some a, some b => some (.ok (.put (pfxSum ++ (a.add b).render)))
        | _, _ => none
      | .bytes => some (.ok .keep)
  | .max | .min =>
    let isMax := cfg.policy = .max
    match cfg.vt with
    | .int64 =>
      let v1 := foundOrZeroInt64 (some v)
      match cur with
      | none => some (.ok (.putNew (renderInt v1)))
      | some c =>
        let v0 := foundOrZeroInt64 (some c)
        let r := if isMax then (if v0 ≥ v1 then v0 else v1) else (if v0 ≤ v1 then v0 else v1)
        some (.ok (.put (renderInt r)))
    | .float64 =>
      let v1 := foundOrZeroF64 (some v)
      match cur with
      | none => some (.ok (.putNew (renderF64 v1)))
      | some c =>
        let v0 := foundOrZeroF64 (some c)
        let r := if isMax then (if v0 < v1 then v1 else v0) else (if v0 < v1 then v0 else v1)
        some (.ok (.put (renderF64 r)))
    | .bigint =>
      match foundOrZeroBigInt (some v) with
      | none => none
      | some v1 =>
        match cur with
        | none => some (.ok (.putNew (renderInt v1)))
        | some c =>
          match foundOrZeroBigInt (some c) with
          | none => none
          | some v0 =>
            let r := if isMax then (if v0 ≤ v1 then v1 else v0) else (if v0 ≤ v1 then v0 else v1)
            some (.ok (.put (renderInt r)))
    | .bigdecimal =>
      match foundOrZeroDec (some v) with
      | none => none
      | some v1 =>
        match cur with
        | none => some (.ok (.putNew v1.render))
        | some c =>
          match foundOrZeroDec (some c) with
          | none => none
          | some v0 =>
            let le := v0.cmp v1 != .gt
            let r := if isMax then (if le then v1 else v0) else (if le then v0 else v1)
            some (.ok (.put r.render))
    | .bytes => some (.error .badValue)
  | .unset => some (.error .badValue)

/-- lift of `MAct.apply` over the two failure layers (panic, error) -/
def liftAct (s : Store) (k : Bytes) : Option (Except SErr MAct) → Option (Except SErr Store)
  | none => none
  | some (.error e) => some (.error e)
  | some (.ok a) => some (.ok (a.apply s k))

/-- `mergeKey` only looks at the full store's value of its key, and only writes that key -/
theorem mergeKey_eq (cfg : Cfg) (s : Store) (k v : Bytes) :
    mergeKey cfg s k v = liftAct s k (mergeGen cfg (look s.kv k) v) := by
  unfold mergeKey mergeGen
  dsimp only
  cases hl : look s.kv k <;> cases cfg.policy <;> cases cfg.vt <;>
    simp only [Option.isSome_none, Option.isSome_some, Bool.false_eq_true, ↓reduceIte] <;>
    (repeat' split) <;> first | rfl | (exfalso; omega) | (simp_all [liftAct, MAct.apply]; done) |
      (simp_all [liftAct, MAct.apply]; exfalso; omega)

/-- the value of the key after `mergeKey` (`none`: `Merge` errors or panics) -/
def mergeVal (cfg : Cfg) (cur : Option Bytes) (v : Bytes) : Option (Option Bytes) :=
  match mergeGen cfg cur v with
  | some (.ok .keep) => some cur
  | some (.ok (.put x)) => some (some x)
  | some (.ok (.putNew x)) => some (some x)
  | _ => none

/-- the full store's value of a key after `Merge`: `cur` its value after the partial's prefix deletions,
`pv` the partial store's value of the key -/
def mergeLook (cfg : Cfg) (cur : Option Bytes) (pv : Option Bytes) : Option (Option Bytes) :=
  match pv with
  | none => some cur
  | some v => mergeVal cfg cur v

theorem look_setKV (s : Store) (k v k' : Bytes) :
    look (setKV s k v).kv k' = if k = k' then some v else look s.kv k' := look_ins _ _ _ _

theorem look_setNewKV (s : Store) (k v k' : Bytes) :
    look (setNewKV s k v).kv k' = if k = k' then some v else look s.kv k' := look_ins _ _ _ _

theorem mergeKey_look {cfg : Cfg} {s s' : Store} {k v : Bytes} (hm : mergeKey cfg s k v = some (.ok s')) :
    mergeVal cfg (look s.kv k) v = some (look s'.kv k) ∧ ∀ k', k ≠ k' → look s'.kv k' = look s.kv k' := by
  rw [mergeKey_eq] at hm
  unfold mergeVal
  cases hg : mergeGen cfg (look s.kv k) v with
  | none => rw [hg] at hm; simp [liftAct] at hm
  | some r =>
    cases r with
    | error e => rw [hg] at hm; simp [liftAct] at hm
    | ok a =>
      rw [hg] at hm
      simp only [liftAct, Option.some.injEq, Except.ok.injEq] at hm
      subst hm
      cases a with
      | keep => exact ⟨rfl, fun _ _ => rfl⟩
      | put x =>
        refine ⟨by simp only [MAct.apply, look_setKV, ↓reduceIte], fun k' hk => ?_⟩
        simp only [MAct.apply, look_setKV, hk, ↓reduceIte]
      | putNew x =>
        refine ⟨by simp only [MAct.apply, look_setNewKV, ↓reduceIte], fun k' hk => ?_⟩
        simp only [MAct.apply, look_setNewKV, hk, ↓reduceIte]

/-- the loop of `Merge` over the partial store's content -/
def mergeFold (cfg : Cfg) (l : KV) (acc : Option (Except SErr Store)) : Option (Except SErr Store) :=
  l.foldl (fun (acc : Option (Except SErr Store)) kv =>
    match acc with
    | some (.ok s) => mergeKey cfg s kv.1 kv.2
    | other => other) acc

theorem mergeFold_stuck (cfg : Cfg) (l : KV) (acc : Option (Except SErr Store))
    (h : ∀ s, acc ≠ some (.ok s)) : mergeFold cfg l acc = acc := by
  induction l with
  | nil => rfl
  | cons p rest ih =>
    unfold mergeFold at ih ⊢
    simp only [List.foldl_cons]
    match acc, h with
    | none, _ => exact ih
    | some (.error e), _ => exact ih
    | some (.ok s), h => exact absurd rfl (h s)

theorem mergeFold_key {cfg : Cfg} : ∀ (l : KV) (s s' : Store), NodupKeys l →
    mergeFold cfg l (some (.ok s)) = some (.ok s') →
    ∀ k, mergeLook cfg (look s.kv k) (look l k) = some (look s'.kv k) := by
  intro l
  induction l with
  | nil =>
    intro s s' _ hf k
    simp only [mergeFold, List.foldl_nil, Option.some.injEq, Except.ok.injEq] at hf
    subst hf; rfl
  | cons p rest ih =>
    intro s s' hn hf k
    obtain ⟨k1, v1⟩ := p
    unfold NodupKeys at hn
    simp only [List.map_cons, List.nodup_cons] at hn
    have hf' : mergeFold cfg rest (mergeKey cfg s k1 v1) = some (.ok s') := hf
    cases hmk : mergeKey cfg s k1 v1 with
    | none =>
      rw [hmk, mergeFold_stuck cfg rest none (by intro s; simp)] at hf'
      simp at hf'
    | some r =>
      cases r with
      | error e =>
        rw [hmk, mergeFold_stuck cfg rest _ (by intro s; simp)] at hf'
        simp at hf'
      | ok s1 =>
        rw [hmk] at hf'
        obtain ⟨m1, m2⟩ := mergeKey_look hmk
        have := ih s1 s' hn.2 hf' k
        have hlk : look ((k1, v1) :: rest) k = if k1 = k then some v1 else look rest k := rfl
        rw [hlk]
        by_cases hk : k1 = k
        · subst hk
          simp only [↓reduceIte]
          rw [look_none_of_not_mem hn.1] at this
          simp only [mergeLook, Option.some.injEq] at this
          simp only [mergeLook]
          rw [m1, this]
        · simp only [hk, ↓reduceIte]
          rw [m2 k hk] at this
          exact this

/-- a log of `deletePrefix` operations, per key -/
theorem foldOpt_deletes {cfg : Cfg} {sem : Sem} (k : Bytes) : ∀ (ops : List Op) (x : Option Bytes),
    (∀ o ∈ ops, o.kind = .deletePrefix) →
    foldOpt (keyEffect cfg sem k) x ops = some (if ops.any (fun o => isPrefix o.key k) then none else x) := by
  intro ops
  induction ops with
  | nil => intro x _; rfl
  | cons o rest ih =>
    intro x h
    have ho := h o List.mem_cons_self
    simp only [foldOpt, keyEffect, ho]
    rw [ih _ (fun o' ho' => h o' (List.mem_cons_of_mem _ ho'))]
    simp only [List.any_cons]
    by_cases hp : isPrefix o.key k = true
    · simp [hp]
    · simp [hp]

theorem any_perm {α : Type} {l1 l2 : List α} (h : l1.Perm l2) (p : α → Bool) : l1.any p = l2.any p := by
  rw [Bool.eq_iff_iff, List.any_eq_true, List.any_eq_true]
  constructor
  · rintro ⟨x, hx, hp⟩; exact ⟨x, h.mem_iff.1 hx, hp⟩
  · rintro ⟨x, hx, hp⟩; exact ⟨x, h.mem_iff.2 hx, hp⟩

/-- a full store at rest between requests: consistent, no deltas, empty log -/
structure Rest (s : Store) : Prop where
  clean : Clean s
  ops   : s.ops = []

theorem Rest.empty : Rest Store.empty :=
  ⟨⟨by simp [NodupKeys, Store.empty], rfl, by simp [Store.empty, kvSize]⟩, rfl⟩

/-- **B2**: `Merge`, per key -/
theorem merge_key {cfg : Cfg} {sem : Sem} {g g' : Store} {p : Partial} (hg : Rest g)
    (hp : NodupKeys p.store.kv) (hm : merge cfg sem g p = some (.ok g')) :
    Rest g' ∧ ∀ k, mergeLook cfg
        (if p.deletedPrefixes.any (fun pfx => isPrefix pfx k) then none else look g.kv k)
        (look p.store.kv k) = some (look g'.kv k) := by
  unfold merge at hm
  dsimp only at hm
  let mk : Bytes → Op := fun pfx => ⟨.deletePrefix, p.store.lastOrd, pfx, []⟩
  have hfold : p.deletedPrefixes.foldl (fun s pfx => record s ⟨.deletePrefix, p.store.lastOrd, pfx, []⟩) g =
      (p.deletedPrefixes.map mk).foldl record g := by
    rw [List.foldl_map]
  rw [hfold] at hm
  cases hf : flush cfg sem ((p.deletedPrefixes.map mk).foldl record g) with
  | error e => rw [hf] at hm; simp at hm
  | ok s0 =>
    rw [hf] at hm
    dsimp only at hm
    have hb : execBlock cfg sem g (p.deletedPrefixes.map mk) = .ok s0 := hf
    obtain ⟨b, i1, _⟩ := execBlock_inv hg.clean hb
    have hk0 := execBlock_key hg.clean hb
    have hfm : ∀ r, mergeFold cfg p.store.kv (some (.ok s0)) = r →
        (match r with | some (.ok s) => some (.ok (reset s)) | other => other) = some (.ok g') →
        ∃ s1, r = some (.ok s1) ∧ g' = reset s1 := by
      intro r _ hr
      match r, hr with
      | some (.ok s1), hr =>
        simp only [Option.some.injEq, Except.ok.injEq] at hr
        exact ⟨s1, rfl, hr.symm⟩
      | some (.error e), hr => simp at hr
      | none, hr => simp at hr
    obtain ⟨s1, hs1, hg'⟩ := hfm _ rfl hm
    have hS1 : SInv s1 := mergeFold_inv (cfg := cfg) p.store.kv (some (.ok s0)) s1
      (by intro t ht; injection ht with ht; injection ht with ht; subst ht; exact i1.sinv) hs1
    subst hg'
    refine ⟨⟨hS1.reset, rfl⟩, fun k => ?_⟩
    have h0 := hk0 k
    rw [hg.ops, List.nil_append,
      foldOpt_deletes k _ _ (by
        intro o ho
        obtain ⟨x, _, hx⟩ := List.mem_map.1 ((sortOps_perm _).mem_iff.1 ho)
        rw [← hx]),
      any_perm (sortOps_perm _), List.any_map] at h0
    simp only [Option.some.injEq] at h0
    have := mergeFold_key p.store.kv s0 s1 hp hs1 k
    rw [← h0] at this
    exact this

/-! ### the squash of a list of segments, store level and per key -/

/-- save + load of a partial store: content and deleted prefixes survive, the block state does not
(`sl P` of Driver/StoreProto.lean) -/
def saveLoadP (p : Partial) : Partial := ⟨saveLoad p.store, p.deletedPrefixes⟩

/-- the squash: per segment a fresh partial store executes the segment's blocks, is saved and loaded,
and merged into the full store, in segment order (`none`: an error or panic anywhere) -/
def squashRun (cfg : Cfg) (sem : Sem) : Store → List (List (List Op)) → Option Store
  | g, [] => some g
  | g, seg :: rest =>
    match segRun cfg sem Partial.empty seg with
    | .error _ => none
    | .ok p =>
      match merge cfg sem g (saveLoadP p) with
      | some (.ok g') => squashRun cfg sem g' rest
      | _ => none

/-- a `deletePrefix` of the log matches the key -/
def delHit (k : Bytes) (ops : List Op) : Bool :=
  ops.any (fun o => decide (o.kind = .deletePrefix) && isPrefix o.key k)

/-- the squash as seen by one key: per segment (given as its operations in execution order) the
partial value is the fold from "absent", then `mergeLook` after the segment's prefix deletions -/
def squashKey (cfg : Cfg) (sem : Sem) (k : Bytes) : Option Bytes → List (List Op) → Option (Option Bytes)
  | x, [] => some x
  | x, seg :: rest =>
    match foldOpt (keyEffect cfg sem k) none seg with
    | none => none
    | some pv =>
      match mergeLook cfg (if delHit k seg then none else x) pv with
      | none => none
      | some x' => squashKey cfg sem k x' rest

theorem SInv.empty : SInv Store.empty := ⟨Rest.empty.clean.nodup, Rest.empty.clean.size⟩

theorem squashRun_key {cfg : Cfg} {sem : Sem} : ∀ (segs : List (List (List Op))) (g g' : Store),
    Rest g → squashRun cfg sem g segs = some g' →
    Rest g' ∧ ∀ k, squashKey cfg sem k (look g.kv k) (segs.map (·.flatMap sortOps)) = some (look g'.kv k) := by
  intro segs
  induction segs with
  | nil => intro g g' h hr; simp only [squashRun, Option.some.injEq] at hr; subst hr; exact ⟨h, fun _ => rfl⟩
  | cons seg rest ih =>
    intro g g' h hr
    unfold squashRun at hr
    cases hs : segRun cfg sem Partial.empty seg with
    | error e => rw [hs] at hr; simp at hr
    | ok p =>
      rw [hs] at hr
      dsimp only at hr
      obtain ⟨j1, j2, j3⟩ := segRun_key seg Partial.empty p SInv.empty hs
      cases hmg : merge cfg sem g (saveLoadP p) with
      | none => rw [hmg] at hr; simp at hr
      | some r =>
        cases r with
        | error e => rw [hmg] at hr; simp at hr
        | ok g1 =>
          rw [hmg] at hr
          dsimp only at hr
          obtain ⟨m1, m2⟩ := merge_key (p := saveLoadP p) h j1.nodup hmg
          obtain ⟨r1, r2⟩ := ih g1 g' m1 hr
          refine ⟨r1, fun k => ?_⟩
          simp only [List.map_cons, squashKey]
          have e1 : foldOpt (keyEffect cfg sem k) none (seg.flatMap sortOps) = some (look p.store.kv k) := j2 k
          rw [e1]
          dsimp only
          have e2 : (saveLoadP p).deletedPrefixes.any (fun pfx => isPrefix pfx k) =
              delHit k (seg.flatMap sortOps) := by
            unfold delHit
            rw [Bool.eq_iff_iff, List.any_eq_true, List.any_eq_true]
            constructor
            · rintro ⟨pfx, hpfx, hpre⟩
              rcases (j3 pfx).1 hpfx with hc | ⟨o, ho, hk, hkey⟩
              · simp [Partial.empty] at hc
              · exact ⟨o, ho, by simp [hk, hkey, hpre]⟩
            · rintro ⟨o, ho, hh⟩
              simp only [Bool.and_eq_true, decide_eq_true_eq] at hh
              exact ⟨o.key, (j3 o.key).2 (Or.inr ⟨o, ho, hh.1, rfl⟩), hh.2⟩
          have e3 := m2 k
          rw [e2] at e3
          have e3' : mergeLook cfg (if delHit k (seg.flatMap sortOps) then none else look g.kv k)
              (look p.store.kv k) = some (look g1.kv k) := e3
          rw [e3']
          exact r2 k

theorem flatMap_flatten {α β : Type} (f : α → List β) (L : List (List α)) :
    L.flatten.flatMap f = (L.map (·.flatMap f)).flatten := by
  induction L with
  | nil => rfl
  | cons l rest ih => simp only [List.flatten_cons, List.flatMap_append, List.map_cons, ih]

/-- **B1 + B2 end to end, policy independent**: sequential and squashed execution from the empty store,
as seen by one key, are the two per-key folds -/
theorem seq_squash_key {cfg : Cfg} {sem : Sem} {segs : List (List (List Op))} {F G : Store}
    (hF : seqRun cfg sem Store.empty segs.flatten = .ok F)
    (hG : squashRun cfg sem Store.empty segs = some G) (k : Bytes) :
    foldOpt (keyEffect cfg sem k) none (segs.map (·.flatMap sortOps)).flatten = some (look F.kv k) ∧
    squashKey cfg sem k none (segs.map (·.flatMap sortOps)) = some (look G.kv k) := by
  constructor
  · have := (seqRun_key segs.flatten Store.empty F SInv.empty hF).2 k
    rw [flatMap_flatten] at this
    exact this
  · exact (squashRun_key segs Store.empty G Rest.empty hG).2 k

/-! ### refinement of a per-key algebra by the byte-level per-key functions -/

/-- a relation between stored bytes and typed values, lifted to "maybe absent" -/
def ORel {X : Type} (R : Bytes → X → Prop) : Option Bytes → Option X → Prop
  | none, none => True
  | some b, some x => R b x
  | _, _ => False

theorem keyEffect_other {cfg : Cfg} {sem : Sem} {k : Bytes} {cur : Option Bytes} {op : Op}
    (hk : op.kind ≠ .deletePrefix) (hkey : op.key ≠ k) : keyEffect cfg sem k cur op = some cur := by
  unfold keyEffect
  cases h : op.kind <;> simp only [viaSem, hkey, ↓reduceIte] <;> exact absurd h hk

theorem keyEffect_delete {cfg : Cfg} {sem : Sem} {k : Bytes} {cur : Option Bytes} {op : Op}
    (hk : op.kind = .deletePrefix) :
    keyEffect cfg sem k cur op = some (if isPrefix op.key k then none else cur) := by
  unfold keyEffect; simp only [hk]

/-- what a policy provides so that the byte-level model refines the algebra `A`:
the admitted (non-delete) operations, their typed reading `wOf`, the representation relations of the
full side (`RF`) and the partial side (`RP`), and the three commutation laws: one write on a full store,
one write on a partial store, the merge of one key.  Each law only speaks about *successful* steps
(an error ends the run, and the theorem is about runs that succeed). -/
structure Refine (cfg : Cfg) (sem : Sem) {F P W : Type} (A : KeyAlg F P W) where
  okOp  : Op → Prop
  wOf   : Op → W
  RF    : Bytes → F → Prop
  RP    : Bytes → P → Prop
  notDel : ∀ op, okOp op → op.kind ≠ .deletePrefix
  stepF : ∀ (op : Op) (x x' : Option Bytes) (fx : Option F), okOp op → ORel RF x fx →
    keyEffect cfg sem op.key x op = some x' → ORel RF x' (A.updF (wOf op) fx)
  stepP : ∀ (op : Op) (y y' : Option Bytes) (py : Option P), okOp op → ORel RP y py →
    keyEffect cfg sem op.key y op = some y' → ORel RP y' (A.updP (wOf op) py)
  mrg   : ∀ (x x' : Option Bytes) (v : Bytes) (fx : Option F) (pv : P), ORel RF x fx → RP v pv →
    mergeVal cfg x v = some x' → ORel RF x' (A.mrg fx (some pv))

namespace Refine
variable {cfg : Cfg} {sem : Sem} {F P W : Type} {A : KeyAlg F P W} (R : Refine cfg sem A)

/-- admitted logs: `deletePrefix` and the policy's own operations -/
def Adm (ops : List Op) : Prop := ∀ op ∈ ops, op.kind = .deletePrefix ∨ R.okOp op

/-- the event of an operation for key `k` (if it touches `k` at all) -/
def evAt (k : Bytes) (op : Op) : Option (Ev W) :=
  if op.kind = .deletePrefix then (if isPrefix op.key k then some .del else none)
  else if op.key = k then some (.write (R.wOf op)) else none

/-- the events of key `k` in a log -/
def evs (k : Bytes) (ops : List Op) : List (Ev W) := ops.filterMap (R.evAt k)

theorem evs_cons (k : Bytes) (op : Op) (rest : List Op) :
    R.evs k (op :: rest) = (match R.evAt k op with | some e => [e] | none => []) ++ R.evs k rest := by
  unfold evs
  rw [List.filterMap_cons]
  cases R.evAt k op <;> rfl

theorem evs_flatten (k : Bytes) (L : List (List Op)) : R.evs k L.flatten = (L.map (R.evs k)).flatten := by
  induction L with
  | nil => rfl
  | cons l rest ih =>
    simp only [List.flatten_cons, List.map_cons, ← ih]
    unfold evs
    rw [List.filterMap_append]

theorem Adm.tail {R : Refine cfg sem A} {op : Op} {rest : List Op} (h : R.Adm (op :: rest)) : R.Adm rest :=
  fun o ho => h o (List.mem_cons_of_mem _ ho)

/-- full side: the byte-level fold follows `runF` -/
theorem runF_fold (k : Bytes) : ∀ (ops : List Op) (x x' : Option Bytes) (fx : Option F),
    R.Adm ops → ORel R.RF x fx → foldOpt (keyEffect cfg sem k) x ops = some x' →
    ORel R.RF x' (A.runF (R.evs k ops) fx) := by
  intro ops
  induction ops with
  | nil =>
    intro x x' fx _ hr hf
    simp only [foldOpt, Option.some.injEq] at hf; subst hf; exact hr
  | cons op rest ih =>
    intro x x' fx ha hr hf
    unfold foldOpt at hf
    rw [R.evs_cons]
    rcases ha op List.mem_cons_self with hd | hok
    · rw [keyEffect_delete hd] at hf
      dsimp only at hf
      unfold evAt
      simp only [hd, ↓reduceIte]
      by_cases hp : isPrefix op.key k = true
      · simp only [hp, ↓reduceIte] at hf ⊢
        exact ih none x' none ha.tail trivial hf
      · simp only [hp, Bool.false_eq_true, ↓reduceIte] at hf ⊢
        exact ih x x' fx ha.tail hr hf
    · have hnd := R.notDel op hok
      unfold evAt
      simp only [hnd, ↓reduceIte]
      by_cases hk : op.key = k
      · subst hk
        simp only [↓reduceIte]
        cases hke : keyEffect cfg sem op.key x op with
        | none => rw [hke] at hf; simp at hf
        | some x1 =>
          rw [hke] at hf
          dsimp only at hf
          exact ih x1 x' _ ha.tail (R.stepF op x x1 fx hok hr hke) hf
      · rw [keyEffect_other hnd hk] at hf
        simp only [hk, ↓reduceIte]
        exact ih x x' fx ha.tail hr hf

/-- partial side: the byte-level fold follows `runP`, and the remembered prefixes follow its flag -/
theorem runP_fold (k : Bytes) : ∀ (ops : List Op) (y y' : Option Bytes) (b : Bool) (py : Option P),
    R.Adm ops → ORel R.RP y py → foldOpt (keyEffect cfg sem k) y ops = some y' →
    ORel R.RP y' (A.runP (R.evs k ops) (b, py)).2 ∧ (A.runP (R.evs k ops) (b, py)).1 = (b || delHit k ops) := by
  intro ops
  induction ops with
  | nil =>
    intro y y' b py _ hr hf
    simp only [foldOpt, Option.some.injEq] at hf; subst hf
    exact ⟨hr, by simp [evs, KeyAlg.runP, delHit]⟩
  | cons op rest ih =>
    intro y y' b py ha hr hf
    unfold foldOpt at hf
    rw [R.evs_cons]
    have hdh : delHit k (op :: rest) = ((decide (op.kind = .deletePrefix) && isPrefix op.key k) || delHit k rest) := by
      simp [delHit]
    rw [hdh]
    rcases ha op List.mem_cons_self with hd | hok
    · rw [keyEffect_delete hd] at hf
      dsimp only at hf
      unfold evAt
      simp only [hd, ↓reduceIte, decide_true, Bool.true_and]
      by_cases hp : isPrefix op.key k = true
      · simp only [hp, ↓reduceIte] at hf ⊢
        have := ih none y' true none ha.tail trivial hf
        simpa [KeyAlg.runP, KeyAlg.stepP] using this
      · simp only [hp, Bool.false_eq_true, ↓reduceIte] at hf ⊢
        have := ih y y' b py ha.tail hr hf
        simpa using this
    · have hnd := R.notDel op hok
      unfold evAt
      simp only [hnd, ↓reduceIte, decide_false, Bool.false_and, Bool.false_or]
      by_cases hk : op.key = k
      · subst hk
        simp only [↓reduceIte]
        cases hke : keyEffect cfg sem op.key y op with
        | none => rw [hke] at hf; simp at hf
        | some y1 =>
          rw [hke] at hf
          dsimp only at hf
          have := ih y1 y' b _ ha.tail (R.stepP op y y1 py hok hr hke) hf
          simpa [KeyAlg.runP, KeyAlg.stepP] using this
      · rw [keyEffect_other hnd hk] at hf
        simp only [hk, ↓reduceIte]
        have := ih y y' b py ha.tail hr hf
        simpa using this

/-- the byte-level squash follows the algebra's squash -/
theorem squash_fold (k : Bytes) : ∀ (segs : List (List Op)) (x y : Option Bytes) (fx : Option F),
    (∀ seg ∈ segs, R.Adm seg) → ORel R.RF x fx → squashKey cfg sem k x segs = some y →
    ORel R.RF y (A.squash (segs.map (R.evs k)) fx) := by
  intro segs
  induction segs with
  | nil =>
    intro x y fx _ hr hs
    simp only [squashKey, Option.some.injEq] at hs; subst hs; exact hr
  | cons seg rest ih =>
    intro x y fx ha hr hs
    unfold squashKey at hs
    cases hfo : foldOpt (keyEffect cfg sem k) none seg with
    | none => rw [hfo] at hs; simp at hs
    | some pv =>
      rw [hfo] at hs
      dsimp only at hs
      obtain ⟨p1, p2⟩ := R.runP_fold k seg none pv false none (ha seg List.mem_cons_self) trivial hfo
      simp only [Bool.false_or] at p2
      cases hml : mergeLook cfg (if delHit k seg then none else x) pv with
      | none => rw [hml] at hs; simp at hs
      | some x1 =>
        rw [hml] at hs
        dsimp only at hs
        have hsq : A.squash ((seg :: rest).map (R.evs k)) fx =
            A.squash (rest.map (R.evs k)) (A.mrgD fx (A.runP (R.evs k seg) (false, none))) := by
          simp [KeyAlg.squash]
        rw [hsq]
        apply ih x1 y _ (fun s hs' => ha s (List.mem_cons_of_mem _ hs')) _ hs
        unfold KeyAlg.mrgD
        rw [p2]
        have hcur : ORel R.RF (if delHit k seg then none else x) (if delHit k seg = true then none else fx) := by
          cases delHit k seg
          · simpa using hr
          · trivial
        generalize (A.runP (R.evs k seg) (false, none)).2 = q at p1
        cases pv with
        | none =>
          cases q with
          | none =>
            simp only [mergeLook, Option.some.injEq] at hml
            rw [A.mrg_none, ← hml]; exact hcur
          | some _ => exact absurd p1 (by simp [ORel])
        | some v =>
          cases q with
          | none => exact absurd p1 (by simp [ORel])
          | some pvv => exact R.mrg _ x1 v _ pvv hcur p1 hml

/-- **Layer B, per key**: if the sequential fold and the squash of a cut both succeed, their results
represent the same typed value -/
theorem squash_eq_seq (k : Bytes) (segs : List (List Op)) (ha : ∀ seg ∈ segs, R.Adm seg)
    {x y : Option Bytes} (hx : foldOpt (keyEffect cfg sem k) none segs.flatten = some x)
    (hy : squashKey cfg sem k none segs = some y) :
    ∃ f : Option F, ORel R.RF x f ∧ ORel R.RF y f := by
  refine ⟨A.runF (R.evs k segs.flatten) none, ?_, ?_⟩
  · apply R.runF_fold k segs.flatten none x none _ trivial hx
    intro op hop
    obtain ⟨seg, hseg, hop'⟩ := List.mem_flatten.1 hop
    exact ha seg hseg op hop'
  · rw [R.evs_flatten, ← A.squash_eq_seq]
    exact R.squash_fold k segs none y none ha trivial hy

/-- **Layer B, store level**: sequential execution of all blocks on one store and the squash of any cut
into segments, both from the empty store, hold for every key representations of the same typed value -/
theorem model_squash_eq_seq (segs : List (List (List Op)))
    (ha : ∀ seg ∈ segs, ∀ calls ∈ seg, ∀ op ∈ calls, op.kind = .deletePrefix ∨ R.okOp op)
    {F' G' : Store} (hF : seqRun cfg sem Store.empty segs.flatten = .ok F')
    (hG : squashRun cfg sem Store.empty segs = some G') (k : Bytes) :
    ∃ f : Option F, ORel R.RF (look F'.kv k) f ∧ ORel R.RF (look G'.kv k) f := by
  obtain ⟨h1, h2⟩ := seq_squash_key hF hG k
  apply R.squash_eq_seq k _ _ h1 h2
  intro seg' hseg' op hop
  obtain ⟨seg, hseg, rfl⟩ := List.mem_map.1 hseg'
  obtain ⟨calls, hcalls, hop'⟩ := List.mem_flatMap.1 hop
  exact ha seg hseg calls hcalls op ((sortOps_perm calls).mem_iff.1 hop')

end Refine

/-! ### B3: the byte-exact policies (typed value = the bytes) -/

@[simp] theorem ORel_none_none {X : Type} (R : Bytes → X → Prop) : ORel R none none = True := rfl
@[simp] theorem ORel_some_some {X : Type} (R : Bytes → X → Prop) (b : Bytes) (x : X) :
    ORel R (some b) (some x) = R b x := rfl
@[simp] theorem ORel_none_some {X : Type} (R : Bytes → X → Prop) (x : X) : ORel R none (some x) = False := rfl
@[simp] theorem ORel_some_none {X : Type} (R : Bytes → X → Prop) (b : Bytes) : ORel R (some b) none = False := rfl

/-- with the identity representation both sides are equal -/
theorem ORel_eq {x y : Option Bytes} {f : Option Bytes}
    (hx : ORel (fun b v => b = v) x f) (hy : ORel (fun b v => b = v) y f) : x = y := by
  cases x <;> cases y <;> cases f <;> simp_all

theorem stripTag_id {cfg : Cfg} (h : cfg.policy ≠ .setSum) (x : Option Bytes) : stripTag cfg x = x := by
  cases x <;> simp [stripTag, h]

/-- `set` -/
def refSet (cfg : Cfg) (sem : Sem) (hpol : cfg.policy = .set) : Refine cfg sem (algSet Bytes) where
  okOp op := op.kind = .set
  wOf op := op.val
  RF b f := b = f
  RP b f := b = f
  notDel op h := by rw [h]; simp
  stepF op x x' fx hok _ hke := by
    simp only [keyEffect, hok, ↓reduceIte, Option.some.injEq] at hke
    subst hke; simp [algSet]
  stepP op x x' fx hok _ hke := by
    simp only [keyEffect, hok, ↓reduceIte, Option.some.injEq] at hke
    subst hke; simp [algSet]
  mrg x x' v fx pv _ hv hm := by
    simp only [mergeVal, mergeGen, hpol, Option.some.injEq] at hm
    subst hm; subst hv; simp [algSet]

theorem mergeVal_sine {cfg : Cfg} (hpol : cfg.policy = .setIfNotExists) (x : Option Bytes) (v : Bytes) :
    mergeVal cfg x v = some (match x with | some c => some c | none => some v) := by
  cases x <;> simp [mergeVal, mergeGen, hpol]

/-- `set_if_not_exists` -/
def refSine (cfg : Cfg) (sem : Sem) (hpol : cfg.policy = .setIfNotExists) : Refine cfg sem (algSine Bytes) where
  okOp op := op.kind = .setIfNotExists
  wOf op := op.val
  RF b f := b = f
  RP b f := b = f
  notDel op h := by rw [h]; simp
  stepF op x x' fx hok hr hke := by
    simp only [keyEffect, hok, ↓reduceIte, Option.some.injEq] at hke
    subst hke
    cases x <;> cases fx <;> simp_all [algSine]
  stepP op x x' fx hok hr hke := by
    simp only [keyEffect, hok, ↓reduceIte, Option.some.injEq] at hke
    subst hke
    cases x <;> cases fx <;> simp_all [algSine]
  mrg x x' v fx pv hr hv hm := by
    rw [mergeVal_sine hpol, Option.some.injEq] at hm
    subst hv; subst hm
    cases x <;> cases fx <;> simp_all [algSine]

theorem keyEffect_append {cfg : Cfg} (hpol : cfg.policy = .append) {op : Op} (hok : op.kind = .append)
    (x : Option Bytes) :
    keyEffect cfg (stdSem cfg) op.key x op =
      match x with
      | none => some (some op.val)
      | some old =>
        if cfg.appendLimit > 0 ∧ old.length + op.val.length ≥ cfg.appendLimit then none
        else some (some (old ++ op.val)) := by
  have hst : stripTag cfg x = x := stripTag_id (by rw [hpol]; simp) x
  simp only [keyEffect, viaSem, hok, ↓reduceIte, isSetSum, Bool.false_eq_true, hst, stdSem, semAppend]
  cases x with
  | none => rfl
  | some old =>
    dsimp only
    by_cases hlim : cfg.appendLimit > 0 ∧ old.length + op.val.length ≥ cfg.appendLimit
    · rw [if_pos hlim, if_pos hlim]
    · rw [if_neg hlim, if_neg hlim]

theorem mergeVal_append {cfg : Cfg} (hpol : cfg.policy = .append) (x : Option Bytes) (v : Bytes) :
    mergeVal cfg x v =
      match x with
      | none => some (some v)
      | some prev =>
        if cfg.appendLimit > 0 ∧ prev.length + v.length ≥ cfg.appendLimit then none
        else some (some (prev ++ v)) := by
  simp only [mergeVal, mergeGen, hpol]
  cases x with
  | none => rfl
  | some old =>
    dsimp only
    by_cases hlim : cfg.appendLimit > 0 ∧ old.length + v.length ≥ cfg.appendLimit
    · rw [if_pos hlim, if_pos hlim]
    · rw [if_neg hlim, if_neg hlim]

/-- `append` (the concrete `semAppend`; an append over the limit is an error, i.e. not a successful step) -/
def refAppend (cfg : Cfg) (hpol : cfg.policy = .append) : Refine cfg (stdSem cfg) (algAppend UInt8) where
  okOp op := op.kind = .append
  wOf op := op.val
  RF b f := b = f
  RP b f := b = f
  notDel op h := by rw [h]; simp
  stepF op x x' fx hok hr hke := by
    rw [keyEffect_append hpol hok] at hke
    cases x <;> cases fx <;> simp only [ORel_none_none, ORel_some_some, ORel_none_some, ORel_some_none] at hr
    · simp only [Option.some.injEq] at hke; subst hke; simp [algAppend]
    · subst hr
      dsimp only at hke
      split at hke
      · simp at hke
      · simp only [Option.some.injEq] at hke; subst hke; simp [algAppend]
  stepP op x x' fx hok hr hke := by
    rw [keyEffect_append hpol hok] at hke
    cases x <;> cases fx <;> simp only [ORel_none_none, ORel_some_some, ORel_none_some, ORel_some_none] at hr
    · simp only [Option.some.injEq] at hke; subst hke; simp [algAppend]
    · subst hr
      dsimp only at hke
      split at hke
      · simp at hke
      · simp only [Option.some.injEq] at hke; subst hke; simp [algAppend]
  mrg x x' v fx pv hr hv hm := by
    rw [mergeVal_append hpol] at hm
    subst hv
    cases x <;> cases fx <;> simp only [ORel_none_none, ORel_some_some, ORel_none_some, ORel_some_none] at hr
    · simp only [Option.some.injEq] at hm; subst hm; simp [algAppend]
    · subst hr
      dsimp only at hm
      split at hm
      · simp at hm
      · simp only [Option.some.injEq] at hm; subst hm; simp [algAppend]

/-! ### B4: `add`, `min`, `max` over int64 and bigint (typed value = the integer; stored text = its
canonical rendering, which is what every writer of these policies produces) -/

/-- the shape of `keyEffect` on the key of an operation whose value goes through `stdSem` -/
def SemShape (cfg : Cfg) (kind : OpKind) : Prop :=
  ∀ (op : Op) (x : Option Bytes), op.kind = kind →
    keyEffect cfg (stdSem cfg) op.key x op =
      match stdSem cfg kind x op.val with
      | .ok nv => some (some nv)
      | .error _ => none

theorem semShape_sum {cfg : Cfg} (h : cfg.policy ≠ .setSum) (vt : VT) : SemShape cfg (.sum vt) := by
  intro op x hk
  simp only [keyEffect, viaSem, hk, ↓reduceIte, isSetSum, Bool.false_eq_true, stripTag_id h]

theorem semShape_max {cfg : Cfg} (h : cfg.policy ≠ .setSum) (vt : VT) : SemShape cfg (.max vt) := by
  intro op x hk
  simp only [keyEffect, viaSem, hk, ↓reduceIte, isSetSum, Bool.false_eq_true, stripTag_id h]

theorem semShape_min {cfg : Cfg} (h : cfg.policy ≠ .setSum) (vt : VT) : SemShape cfg (.min vt) := by
  intro op x hk
  simp only [keyEffect, viaSem, hk, ↓reduceIte, isSetSum, Bool.false_eq_true, stripTag_id h]

/-- a numeric policy whose stored texts are canonical renderings of integers satisfying `ok`
(`True` for bigint, the int64 range for int64) -/
def refCombine (cfg : Cfg) (C : Combine Int) (ok : Int → Prop) (arg : Bytes → Int) (kind : OpKind)
    (hnd : kind ≠ .deletePrefix) (hshape : SemShape cfg kind)
    (harg : ∀ v, ok (arg v)) (hop : ∀ a b, ok a → ok b → ok (C.op a b))
    (hsemN : ∀ v, stdSem cfg kind none v = .ok (renderInt (arg v)))
    (hsemS : ∀ i v, ok i → stdSem cfg kind (some (renderInt i)) v = .ok (renderInt (C.op i (arg v))))
    (hmrgN : ∀ b, ok b → mergeVal cfg none (renderInt b) = some (some (renderInt b)))
    (hmrgS : ∀ a b, ok a → ok b →
      mergeVal cfg (some (renderInt a)) (renderInt b) = some (some (renderInt (C.op a b)))) :
    Refine cfg (stdSem cfg) (algCombine C) where
  okOp op := op.kind = kind
  wOf op := arg op.val
  RF b i := b = renderInt i ∧ ok i
  RP b i := b = renderInt i ∧ ok i
  notDel op h := by rw [h]; exact hnd
  stepF op x x' fx hok hr hke := by
    rw [hshape op x hok] at hke
    cases x <;> cases fx <;> simp only [ORel_none_none, ORel_some_some, ORel_none_some, ORel_some_none] at hr
    · rw [hsemN] at hke
      simp only [Option.some.injEq] at hke; subst hke
      exact ⟨rfl, harg _⟩
    · obtain ⟨h1, h2⟩ := hr
      subst h1
      rw [hsemS _ _ h2] at hke
      simp only [Option.some.injEq] at hke; subst hke
      exact ⟨rfl, hop _ _ h2 (harg _)⟩
  stepP op x x' fx hok hr hke := by
    rw [hshape op x hok] at hke
    cases x <;> cases fx <;> simp only [ORel_none_none, ORel_some_some, ORel_none_some, ORel_some_none] at hr
    · rw [hsemN] at hke
      simp only [Option.some.injEq] at hke; subst hke
      exact ⟨rfl, harg _⟩
    · obtain ⟨h1, h2⟩ := hr
      subst h1
      rw [hsemS _ _ h2] at hke
      simp only [Option.some.injEq] at hke; subst hke
      exact ⟨rfl, hop _ _ h2 (harg _)⟩
  mrg x x' v fx pv hr hv hm := by
    obtain ⟨hv1, hv2⟩ := hv
    subst hv1
    cases x <;> cases fx <;> simp only [ORel_none_none, ORel_some_some, ORel_none_some, ORel_some_none] at hr
    · rw [hmrgN _ hv2] at hm
      simp only [Option.some.injEq] at hm; subst hm
      exact ⟨rfl, hv2⟩
    · obtain ⟨h1, h2⟩ := hr
      subst h1
      rw [hmrgS _ _ h2 hv2] at hm
      simp only [Option.some.injEq] at hm; subst hm
      exact ⟨rfl, hop _ _ h2 hv2⟩

/-- with canonical representations both sides hold the same bytes -/
theorem ORel_canon {ok : Int → Prop} {x y : Option Bytes} {f : Option Int}
    (hx : ORel (fun b i => b = renderInt i ∧ ok i) x f) (hy : ORel (fun b i => b = renderInt i ∧ ok i) y f) :
    x = y := by
  cases x <;> cases y <;> cases f <;> simp_all

def combAdd64 : Combine Int :=
  ⟨fun a b => wrap64 (a + b), by intro a b c; unfold wrap64 two63 two64; omega⟩
def combAddInt : Combine Int := ⟨(· + ·), Int.add_assoc⟩
def combMax : Combine Int :=
  ⟨max, by intro a b c; simp only [Int.max_def]; repeat' split
           all_goals omega⟩
def combMin : Combine Int :=
  ⟨min, by intro a b c; simp only [Int.min_def]; repeat' split
           all_goals omega⟩

theorem foundOrZeroInt64_render (i : Int) (h : InRange64 i) : foundOrZeroInt64 (some (renderInt i)) = i := by
  simp [foundOrZeroInt64, parseInt64_renderInt i h]

/-- `add` over int64 -/
def refAddInt64 (cfg : Cfg) (hpol : cfg.policy = .add) (hvt : cfg.vt = .int64) :
    Refine cfg (stdSem cfg) (algCombine combAdd64) :=
  refCombine cfg combAdd64 InRange64 argInt64 (.sum .int64) (by simp)
    (semShape_sum (by rw [hpol]; simp) _)
    argInt64_inRange (fun _ _ _ _ => wrap64_inRange _)
    (fun v => rfl)
    (fun i v h => by simp [stdSem, semSum, parseInt64_renderInt i h, combAdd64])
    (fun b h => by
      simp only [mergeVal, mergeGen, hpol, hvt, foundOrZeroInt64_render b h]
      simp [foundOrZeroInt64, wrap64_id b h])
    (fun a b ha hb => by
      simp only [mergeVal, mergeGen, hpol, hvt, foundOrZeroInt64_render _ ha, foundOrZeroInt64_render _ hb]
      rfl)

/-- `add` over bigint -/
def refAddBigInt (cfg : Cfg) (hpol : cfg.policy = .add) (hvt : cfg.vt = .bigint) :
    Refine cfg (stdSem cfg) (algCombine combAddInt) :=
  refCombine cfg combAddInt (fun _ => True) argBigInt (.sum .bigint) (by simp)
    (semShape_sum (by rw [hpol]; simp) _)
    (fun _ => trivial) (fun _ _ _ _ => trivial)
    (fun v => rfl)
    (fun i v _ => by simp [stdSem, semSum, parseInt_renderInt, combAddInt])
    (fun b _ => by
      simp [mergeVal, mergeGen, hpol, hvt, foundOrZeroBigInt, parseInt_renderInt])
    (fun a b _ _ => by
      simp [mergeVal, mergeGen, hpol, hvt, foundOrZeroBigInt, parseInt_renderInt, combAddInt])

/-- closes `renderInt (if … then a else b) = renderInt (max/min a b)` -/
local macro "minmax_tac" : tactic =>
  `(tactic| (congr 1 <;> first
      | (simp only [Int.max_def, Int.min_def]; done)
      | (simp only [Int.max_def, Int.min_def]; (repeat' split) <;> omega)))

theorem max_inRange {a b : Int} (ha : InRange64 a) (hb : InRange64 b) : InRange64 (max a b) := by
  simp only [Int.max_def]; split <;> assumption

theorem min_inRange {a b : Int} (ha : InRange64 a) (hb : InRange64 b) : InRange64 (min a b) := by
  simp only [Int.min_def]; split <;> assumption

/-- `max` over int64 -/
def refMaxInt64 (cfg : Cfg) (hpol : cfg.policy = .max) (hvt : cfg.vt = .int64) :
    Refine cfg (stdSem cfg) (algCombine combMax) :=
  refCombine cfg combMax InRange64 argInt64 (.max .int64) (by simp)
    (semShape_max (by rw [hpol]; simp) _)
    argInt64_inRange (fun _ _ ha hb => max_inRange ha hb)
    (fun v => rfl)
    (fun i v h => by
      simp [stdSem, semMinMax, parseInt64_renderInt i h, combMax] <;> minmax_tac)
    (fun b h => by simp [mergeVal, mergeGen, hpol, hvt, foundOrZeroInt64_render _ h])
    (fun a b ha hb => by
      simp [mergeVal, mergeGen, hpol, hvt, foundOrZeroInt64_render _ ha, foundOrZeroInt64_render _ hb, combMax] <;> minmax_tac)

/-- `min` over int64 -/
def refMinInt64 (cfg : Cfg) (hpol : cfg.policy = .min) (hvt : cfg.vt = .int64) :
    Refine cfg (stdSem cfg) (algCombine combMin) :=
  refCombine cfg combMin InRange64 argInt64 (.min .int64) (by simp)
    (semShape_min (by rw [hpol]; simp) _)
    argInt64_inRange (fun _ _ ha hb => min_inRange ha hb)
    (fun v => rfl)
    (fun i v h => by
      simp [stdSem, semMinMax, parseInt64_renderInt i h, combMin] <;> minmax_tac)
    (fun b h => by simp [mergeVal, mergeGen, hpol, hvt, foundOrZeroInt64_render _ h])
    (fun a b ha hb => by
      simp [mergeVal, mergeGen, hpol, hvt, foundOrZeroInt64_render _ ha, foundOrZeroInt64_render _ hb, combMin] <;> minmax_tac)

/-- `max` over bigint -/
def refMaxBigInt (cfg : Cfg) (hpol : cfg.policy = .max) (hvt : cfg.vt = .bigint) :
    Refine cfg (stdSem cfg) (algCombine combMax) :=
  refCombine cfg combMax (fun _ => True) argBigInt (.max .bigint) (by simp)
    (semShape_max (by rw [hpol]; simp) _)
    (fun _ => trivial) (fun _ _ _ _ => trivial)
    (fun v => rfl)
    (fun i v _ => by
      simp [stdSem, semMinMax, parseInt_renderInt, combMax] <;> minmax_tac)
    (fun b _ => by simp [mergeVal, mergeGen, hpol, hvt, foundOrZeroBigInt, parseInt_renderInt])
    (fun a b _ _ => by
      simp [mergeVal, mergeGen, hpol, hvt, foundOrZeroBigInt, parseInt_renderInt, combMax] <;> minmax_tac)

/-- `min` over bigint -/
def refMinBigInt (cfg : Cfg) (hpol : cfg.policy = .min) (hvt : cfg.vt = .bigint) :
    Refine cfg (stdSem cfg) (algCombine combMin) :=
  refCombine cfg combMin (fun _ => True) argBigInt (.min .bigint) (by simp)
    (semShape_min (by rw [hpol]; simp) _)
    (fun _ => trivial) (fun _ _ _ _ => trivial)
    (fun v => rfl)
    (fun i v _ => by
      simp [stdSem, semMinMax, parseInt_renderInt, combMin] <;> minmax_tac)
    (fun b _ => by simp [mergeVal, mergeGen, hpol, hvt, foundOrZeroBigInt, parseInt_renderInt])
    (fun a b _ _ => by
      simp [mergeVal, mergeGen, hpol, hvt, foundOrZeroBigInt, parseInt_renderInt, combMin] <;> minmax_tac)

/-! ### B4: `set_sum` over int64 and bigint.  A stored value is a tag (`"sum:"`/`"set:"`) followed by the
canonical rendering; the typed value of a full store ignores the tag (`stripTag`), a partial store's
tag says whether a `set` happened in its segment.  Operands are canonical tagged texts (what the host
interface produces). -/

/-- the typed reading of a `set_sum` operand -/
def wOfSS (v : Bytes) : SS Int :=
  if isPrefix pfxSet v then .set ((parseInt (v.drop 4)).getD 0) else .sum ((parseInt (v.drop 4)).getD 0)

theorem wOfSS_sum (i : Int) : wOfSS (pfxSum ++ renderInt i) = .sum i := by
  simp [wOfSS, pfxSum, pfxSet, isPrefix, parseInt_renderInt]

theorem wOfSS_set (i : Int) : wOfSS (pfxSet ++ renderInt i) = .set i := by
  simp [wOfSS, pfxSet, isPrefix, parseInt_renderInt]

def IsTag (t : Bytes) : Prop := t = pfxSum ∨ t = pfxSet

theorem semSetSum_none (vt : VT) (v : Bytes) : semSetSum vt none v = .ok v := rfl

theorem semSetSum_set (vt : VT) (c r : Bytes) : semSetSum vt (some c) (pfxSet ++ r) = .ok (pfxSet ++ r) := by
  simp [semSetSum, pfxSet, pfxSum]

theorem semShape_setSum (cfg : Cfg) (vt : VT) : SemShape cfg (.setSum vt) := by
  intro op x hk
  simp only [keyEffect, viaSem, hk, ↓reduceIte, isSetSum]

def refSetSum (cfg : Cfg) (C : Combine Int) (ok : Int → Prop) (vt : VT)
    (hop : ∀ a b, ok a → ok b → ok (C.op a b))
    (hsem : ∀ tag a b, IsTag tag → ok a → ok b →
      stdSem cfg (.setSum vt) (some (tag ++ renderInt a)) (pfxSum ++ renderInt b) = .ok (tag ++ renderInt (C.op a b)))
    (hmrgSet : ∀ x b, ok b → mergeVal cfg x (pfxSet ++ renderInt b) = some (some (pfxSum ++ renderInt b)))
    (hmrgN : ∀ b, ok b → mergeVal cfg none (pfxSum ++ renderInt b) = some (some (pfxSum ++ renderInt b)))
    (hmrgS : ∀ tag a b, IsTag tag → ok a → ok b →
      mergeVal cfg (some (tag ++ renderInt a)) (pfxSum ++ renderInt b) = some (some (pfxSum ++ renderInt (C.op a b)))) :
    Refine cfg (stdSem cfg) (algSetSum C) where
  okOp op := op.kind = .setSum vt ∧ ∃ i, ok i ∧ (op.val = pfxSum ++ renderInt i ∨ op.val = pfxSet ++ renderInt i)
  wOf op := wOfSS op.val
  RF b i := ok i ∧ ∃ tag, IsTag tag ∧ b = tag ++ renderInt i
  RP b ti := ok ti.2 ∧ b = (if ti.1 then pfxSet else pfxSum) ++ renderInt ti.2
  notDel op h := by rw [h.1]; simp
  stepF op x x' fx hok hr hke := by
    obtain ⟨hkind, i, hi, hval⟩ := hok
    rw [semShape_setSum cfg vt op x hkind] at hke
    rcases hval with hval | hval
    · rw [hval, wOfSS_sum]
      rw [hval] at hke
      cases x <;> cases fx <;> simp only [ORel_none_none, ORel_some_some, ORel_none_some, ORel_some_none] at hr
      · simp only [stdSem, semSetSum_none, Option.some.injEq] at hke; subst hke
        exact ⟨hi, pfxSum, Or.inl rfl, rfl⟩
      · obtain ⟨h1, tag, h2, h3⟩ := hr
        subst h3
        rw [hsem tag _ _ h2 h1 hi] at hke
        simp only [Option.some.injEq] at hke; subst hke
        exact ⟨hop _ _ h1 hi, tag, h2, rfl⟩
    · rw [hval, wOfSS_set]
      rw [hval] at hke
      have : x' = some (pfxSet ++ renderInt i) := by
        cases x
        · simp only [stdSem, semSetSum_none, Option.some.injEq] at hke; exact hke.symm
        · simp only [stdSem, semSetSum_set, Option.some.injEq] at hke; exact hke.symm
      subst this
      exact ⟨hi, pfxSet, Or.inr rfl, rfl⟩
  stepP op x x' fx hok hr hke := by
    obtain ⟨hkind, i, hi, hval⟩ := hok
    rw [semShape_setSum cfg vt op x hkind] at hke
    rcases hval with hval | hval
    · rw [hval, wOfSS_sum]
      rw [hval] at hke
      cases x <;> cases fx <;> simp only [ORel_none_none, ORel_some_some, ORel_none_some, ORel_some_none] at hr
      · simp only [stdSem, semSetSum_none, Option.some.injEq] at hke; subst hke
        exact ⟨hi, rfl⟩
      · rename_i ti
        obtain ⟨t, a⟩ := ti
        obtain ⟨h1, h3⟩ := hr
        subst h3
        have htag : IsTag (if t = true then pfxSet else pfxSum) := by
          cases t
          · exact Or.inl rfl
          · exact Or.inr rfl
        rw [hsem _ _ _ htag h1 hi] at hke
        simp only [Option.some.injEq] at hke; subst hke
        exact ⟨hop _ _ h1 hi, rfl⟩
    · rw [hval, wOfSS_set]
      rw [hval] at hke
      have : x' = some (pfxSet ++ renderInt i) := by
        cases x
        · simp only [stdSem, semSetSum_none, Option.some.injEq] at hke; exact hke.symm
        · simp only [stdSem, semSetSum_set, Option.some.injEq] at hke; exact hke.symm
      subst this
      cases fx with
      | none => exact ⟨hi, rfl⟩
      | some ti => obtain ⟨t, a⟩ := ti; exact ⟨hi, rfl⟩
  mrg x x' v fx pv hr hv hm := by
    obtain ⟨t, b⟩ := pv
    obtain ⟨hb, hv⟩ := hv
    subst hv
    cases t
    · simp only [Bool.false_eq_true, ↓reduceIte] at hm
      cases x <;> cases fx <;> simp only [ORel_none_none, ORel_some_some, ORel_none_some, ORel_some_none] at hr
      · rw [hmrgN _ hb] at hm
        simp only [Option.some.injEq] at hm; subst hm
        exact ⟨hb, pfxSum, Or.inl rfl, rfl⟩
      · obtain ⟨h1, tag, h2, h3⟩ := hr
        subst h3
        rw [hmrgS tag _ _ h2 h1 hb] at hm
        simp only [Option.some.injEq] at hm; subst hm
        exact ⟨hop _ _ h1 hb, pfxSum, Or.inl rfl, rfl⟩
    · simp only [↓reduceIte] at hm
      rw [hmrgSet _ _ hb] at hm
      simp only [Option.some.injEq] at hm; subst hm
      cases fx <;> exact ⟨hb, pfxSum, Or.inl rfl, rfl⟩

/-- with tagged canonical representations the typed (tag-stripped) values agree -/
theorem ORel_tagged {cfg : Cfg} (hpol : cfg.policy = .setSum) {ok : Int → Prop} {x y : Option Bytes} {f : Option Int}
    (hx : ORel (fun b i => ok i ∧ ∃ tag, IsTag tag ∧ b = tag ++ renderInt i) x f)
    (hy : ORel (fun b i => ok i ∧ ∃ tag, IsTag tag ∧ b = tag ++ renderInt i) y f) :
    stripTag cfg x = stripTag cfg y := by
  have key : ∀ tag i, IsTag tag → stripTag cfg (some (tag ++ renderInt i)) = some (renderInt i) := by
    intro tag i ht
    rcases ht with rfl | rfl <;> simp [stripTag, hpol, pfxSum, pfxSet, isPrefix]
  cases x <;> cases y <;> cases f <;>
    simp only [ORel_none_none, ORel_some_some, ORel_none_some, ORel_some_none] at hx hy
  · rfl
  · obtain ⟨_, t1, h1, rfl⟩ := hx
    obtain ⟨_, t2, h2, rfl⟩ := hy
    rw [key _ _ h1, key _ _ h2]

theorem tag_take {tag : Bytes} (h : IsTag tag) (r : Bytes) :
    (tag ++ r).take 4 = tag ∧ (tag ++ r).drop 4 = r ∧ ¬ (tag ++ r).length < 4 := by
  rcases h with rfl | rfl <;> simp [pfxSum, pfxSet]

/-- `set_sum` over int64 -/
def refSetSumInt64 (cfg : Cfg) (hpol : cfg.policy = .setSum) (hvt : cfg.vt = .int64) :
    Refine cfg (stdSem cfg) (algSetSum combAdd64) :=
  refSetSum cfg combAdd64 InRange64 .int64 (fun _ _ _ _ => wrap64_inRange _)
    (fun tag a b ht ha hb => by
      obtain ⟨t1, t2, t3⟩ := tag_take ht (renderInt a)
      obtain ⟨s1, s2, s3⟩ := tag_take (Or.inl rfl) (renderInt b)
      simp only [stdSem, semSetSum, t1, t2, t3, s1, s2, s3, ↓reduceIte, parseInt64_renderInt _ ha,
        parseInt64_renderInt _ hb, Option.getD_some, combAdd64])
    (fun x b hb => by
      have : isPrefix pfxSet (pfxSet ++ renderInt b) = true := by simp [pfxSet, isPrefix]
      simp [mergeVal, mergeGen, hpol, hvt, this, (tag_take (Or.inr rfl) (renderInt b)).2.1])
    (fun b hb => by
      have : isPrefix pfxSet (pfxSum ++ renderInt b) = false := by simp [pfxSet, pfxSum, isPrefix]
      simp [mergeVal, mergeGen, hpol, hvt, this, (tag_take (Or.inl rfl) (renderInt b)).2.1,
        parseInt64_renderInt _ hb, wrap64_id b hb])
    (fun tag a b ht ha hb => by
      have : isPrefix pfxSet (pfxSum ++ renderInt b) = false := by simp [pfxSet, pfxSum, isPrefix]
      simp [mergeVal, mergeGen, hpol, hvt, this, (tag_take (Or.inl rfl) (renderInt b)).2.1,
        (tag_take ht (renderInt a)).2.1, parseInt64_renderInt _ hb, parseInt64_renderInt _ ha, combAdd64])

/-- `set_sum` over bigint -/
def refSetSumBigInt (cfg : Cfg) (hpol : cfg.policy = .setSum) (hvt : cfg.vt = .bigint) :
    Refine cfg (stdSem cfg) (algSetSum combAddInt) :=
  refSetSum cfg combAddInt (fun _ => True) .bigint (fun _ _ _ _ => trivial)
    (fun tag a b ht _ _ => by
      obtain ⟨t1, t2, t3⟩ := tag_take ht (renderInt a)
      obtain ⟨s1, s2, s3⟩ := tag_take (Or.inl rfl) (renderInt b)
      simp only [stdSem, semSetSum, t1, t2, t3, s1, s2, s3, ↓reduceIte, argBigInt, parseInt_renderInt,
        Option.getD_some, combAddInt])
    (fun x b _ => by
      have : isPrefix pfxSet (pfxSet ++ renderInt b) = true := by simp [pfxSet, isPrefix]
      simp [mergeVal, mergeGen, hpol, hvt, this, (tag_take (Or.inr rfl) (renderInt b)).2.1])
    (fun b _ => by
      have : isPrefix pfxSet (pfxSum ++ renderInt b) = false := by simp [pfxSet, pfxSum, isPrefix]
      simp [mergeVal, mergeGen, hpol, hvt, this, (tag_take (Or.inl rfl) (renderInt b)).2.1,
        parseInt_renderInt])
    (fun tag a b ht _ _ => by
      have : isPrefix pfxSet (pfxSum ++ renderInt b) = false := by simp [pfxSet, pfxSum, isPrefix]
      simp [mergeVal, mergeGen, hpol, hvt, this, (tag_take (Or.inl rfl) (renderInt b)).2.1,
        (tag_take ht (renderInt a)).2.1, parseInt_renderInt, combAddInt])

/-! ### B4: `add`, `min`, `max` over bigdecimal.  Operands have at most 34 decimals (the host interface
truncates them: `hostOp`), so every stored value has at most 34 decimals, merge's `Truncate(34)` is the
identity, and the typed value is the integer `value × 10^34` (`typedDec34`).  Stored texts are not
canonical as `Dec`s (`"1.50"` reads as 150/100, is written as `"1.5"`), so the representation relation is
"reads as" (`RepDec`) rather than "is the rendering of". -/

/-- like `refCombine`, for a representation relation `Rep` (stored text ↦ typed value) and operands that
must satisfy `okArg` -/
def refCombineR (cfg : Cfg) (C : Combine Int) (Rep : Bytes → Int → Prop) (okArg : Bytes → Prop)
    (arg : Bytes → Int) (kind : OpKind)
    (hnd : kind ≠ .deletePrefix) (hshape : SemShape cfg kind)
    (hsemN : ∀ v, okArg v → ∃ nv, stdSem cfg kind none v = .ok nv ∧ Rep nv (arg v))
    (hsemS : ∀ c i v, Rep c i → okArg v → ∃ nv, stdSem cfg kind (some c) v = .ok nv ∧ Rep nv (C.op i (arg v)))
    (hmrgN : ∀ v b, Rep v b → ∃ r, mergeVal cfg none v = some (some r) ∧ Rep r b)
    (hmrgS : ∀ c a v b, Rep c a → Rep v b → ∃ r, mergeVal cfg (some c) v = some (some r) ∧ Rep r (C.op a b)) :
    Refine cfg (stdSem cfg) (algCombine C) where
  okOp op := op.kind = kind ∧ okArg op.val
  wOf op := arg op.val
  RF := Rep
  RP := Rep
  notDel op h := by rw [h.1]; exact hnd
  stepF op x x' fx hok hr hke := by
    rw [hshape op x hok.1] at hke
    cases x <;> cases fx <;> simp only [ORel_none_none, ORel_some_some, ORel_none_some, ORel_some_none] at hr
    · obtain ⟨nv, h1, h2⟩ := hsemN _ hok.2
      rw [h1] at hke
      simp only [Option.some.injEq] at hke; subst hke
      exact h2
    · obtain ⟨nv, h1, h2⟩ := hsemS _ _ _ hr hok.2
      rw [h1] at hke
      simp only [Option.some.injEq] at hke; subst hke
      exact h2
  stepP op x x' fx hok hr hke := by
    rw [hshape op x hok.1] at hke
    cases x <;> cases fx <;> simp only [ORel_none_none, ORel_some_some, ORel_none_some, ORel_some_none] at hr
    · obtain ⟨nv, h1, h2⟩ := hsemN _ hok.2
      rw [h1] at hke
      simp only [Option.some.injEq] at hke; subst hke
      exact h2
    · obtain ⟨nv, h1, h2⟩ := hsemS _ _ _ hr hok.2
      rw [h1] at hke
      simp only [Option.some.injEq] at hke; subst hke
      exact h2
  mrg x x' v fx pv hr hv hm := by
    cases x <;> cases fx <;> simp only [ORel_none_none, ORel_some_some, ORel_none_some, ORel_some_none] at hr
    · obtain ⟨r, h1, h2⟩ := hmrgN _ _ hv
      rw [h1] at hm
      simp only [Option.some.injEq] at hm; subst hm
      exact h2
    · obtain ⟨r, h1, h2⟩ := hmrgS _ _ _ _ hr hv
      rw [h1] at hm
      simp only [Option.some.injEq] at hm; subst hm
      exact h2

/-- a bigdecimal operand as it reaches the store: parses, at most 34 decimals -/
def DecOperand (v : Bytes) : Prop := ∃ d, Dec.parse v = some d ∧ d.scale ≤ 34

/-- its typed value -/
def argDec34 (v : Bytes) : Int := ((Dec.parse v).getD ⟨0, 0⟩).val34

/-- what `hostOp` (wasm/call.go) hands to the store for `add`/`min`/`max` bigdecimal is such an operand -/
theorem hostOp_decOperand {op op' : Op}
    (hk : op.kind = .sum .bigdecimal ∨ op.kind = .max .bigdecimal ∨ op.kind = .min .bigdecimal)
    (h : hostOp op = some op') : op'.kind = op.kind ∧ DecOperand op'.val := by
  unfold hostOp at h
  have key : ∀ knd : OpKind, (match Dec.parse op.val with
      | none => none
      | some d => some (⟨knd, op.ord, op.key, (d.truncate 34).render⟩ : Op)) = some op' →
      op'.kind = knd ∧ DecOperand op'.val := by
    intro knd h
    split at h
    · simp at h
    · rename_i d hd
      simp only [Option.some.injEq] at h
      subst h
      refine ⟨rfl, ?_⟩
      obtain ⟨d', p1, p2, _⟩ := Dec.parse_render (d.truncate 34)
      exact ⟨d', p1, Nat.le_trans p2 (Dec.truncate_scale d)⟩
  rcases hk with hk | hk | hk <;>
    (simp only [hk] at h; obtain ⟨h1, h2⟩ := key _ h; exact ⟨h1.trans hk.symm, h2⟩)

theorem typed_eq_of_repDec {x y : Option Bytes} {f : Option Int}
    (hx : ORel RepDec x f) (hy : ORel RepDec y f) :
    x.isSome = y.isSome ∧ x.bind typedDec34 = y.bind typedDec34 := by
  cases x <;> cases y <;> cases f <;>
    simp only [ORel_none_none, ORel_some_some, ORel_none_some, ORel_some_none] at hx hy
  · exact ⟨rfl, rfl⟩
  · exact ⟨rfl, by simp only [Option.bind_some, hx.typed, hy.typed]⟩

theorem foundOrZeroDec_rep {v : Bytes} {b : Int} (h : RepDec v b) :
    ∃ d, foundOrZeroDec (some v) = some d ∧ d.scale ≤ 34 ∧ d.val34 = b := by
  obtain ⟨d, h1, h2, h3⟩ := h
  exact ⟨d, by simp [foundOrZeroDec, h1, Dec.truncate_id d h2], h2, h3⟩

/-- `add` over bigdecimal -/
def refAddDec (cfg : Cfg) (hpol : cfg.policy = .add) (hvt : cfg.vt = .bigdecimal) :
    Refine cfg (stdSem cfg) (algCombine combAddInt) :=
  refCombineR cfg combAddInt RepDec DecOperand argDec34 (.sum .bigdecimal) (by simp)
    (semShape_sum (by rw [hpol]; simp) _)
    (fun v hv => by
      obtain ⟨d, h1, h2⟩ := hv
      refine ⟨d.render, by simp [stdSem, semSum, h1], ?_⟩
      have := repDec_render d h2
      simpa [argDec34, h1] using this)
    (fun c i v hc hv => by
      obtain ⟨d, h1, h2⟩ := hv
      obtain ⟨p, p1, p2, p3⟩ := hc
      refine ⟨(p.add d).render, by simp [stdSem, semSum, h1, p1], ?_⟩
      obtain ⟨a1, a2⟩ := Dec.val34_add p d p2 h2
      have := repDec_render (p.add d) a1
      rw [a2, p3] at this
      simpa [argDec34, h1, combAddInt] using this)
    (fun v b hv => by
      obtain ⟨d, f1, f2, f3⟩ := foundOrZeroDec_rep hv
      have f0 : foundOrZeroDec none = some ⟨0, 0⟩ := rfl
      refine ⟨((⟨0, 0⟩ : Dec).add d).render, by simp [mergeVal, mergeGen, hpol, hvt, f1, f0], ?_⟩
      obtain ⟨a1, a2⟩ := Dec.val34_add ⟨0, 0⟩ d (by simp) f2
      have := repDec_render _ a1
      rw [a2, f3] at this
      simpa [Dec.val34] using this)
    (fun c a v b hc hv => by
      obtain ⟨d, f1, f2, f3⟩ := foundOrZeroDec_rep hv
      obtain ⟨e, g1, g2, g3⟩ := foundOrZeroDec_rep hc
      refine ⟨(e.add d).render, by simp [mergeVal, mergeGen, hpol, hvt, f1, g1], ?_⟩
      obtain ⟨a1, a2⟩ := Dec.val34_add e d g2 f2
      have := repDec_render _ a1
      rw [a2, f3, g3] at this
      exact this)

theorem repDec_pick {p q : Dec} (hp : p.scale ≤ 34) (hq : q.scale ≤ 34) (c : Bool) (i : Int)
    (hi : i = if c then p.val34 else q.val34) : RepDec (if c then p else q).render i := by
  cases c
  · simp only [Bool.false_eq_true, ↓reduceIte] at hi ⊢; rw [hi]; exact repDec_render q hq
  · simp only [↓reduceIte] at hi ⊢; rw [hi]; exact repDec_render p hp

theorem cmp_gt_beq (a b : Dec) (ha : a.scale ≤ 34) (hb : b.scale ≤ 34) :
    (a.cmp b == .gt) = decide (b.val34 < a.val34) := by
  rw [Bool.eq_iff_iff]
  simp only [beq_iff_eq, decide_eq_true_eq]
  exact Dec.cmp_gt a b ha hb

theorem cmp_gt_bne (a b : Dec) (ha : a.scale ≤ 34) (hb : b.scale ≤ 34) :
    (a.cmp b != .gt) = decide (a.val34 ≤ b.val34) := by
  rw [Bool.eq_iff_iff]
  simp only [bne_iff_ne, ne_eq, decide_eq_true_eq, Dec.cmp_gt a b ha hb]
  omega

/-- `max` over bigdecimal -/
def refMaxDec (cfg : Cfg) (hpol : cfg.policy = .max) (hvt : cfg.vt = .bigdecimal) :
    Refine cfg (stdSem cfg) (algCombine combMax) :=
  refCombineR cfg combMax RepDec DecOperand argDec34 (.max .bigdecimal) (by simp)
    (semShape_max (by rw [hpol]; simp) _)
    (fun v hv => by
      obtain ⟨d, h1, h2⟩ := hv
      refine ⟨d.render, by simp [stdSem, semMinMax, h1], ?_⟩
      have := repDec_render d h2
      simpa [argDec34, h1] using this)
    (fun c i v hc hv => by
      obtain ⟨d, h1, h2⟩ := hv
      obtain ⟨p, p1, p2, p3⟩ := hc
      refine ⟨(if (d.cmp p == .gt) then d else p).render, ?_, ?_⟩
      · simp only [stdSem, semMinMax, h1, p1, ↓reduceIte]
        cases (d.cmp p == .gt) <;> rfl
      · apply repDec_pick h2 p2
        rw [cmp_gt_beq d p h2 p2]
        simp only [argDec34, h1, Option.getD_some, combMax, p3, Int.max_def, decide_eq_true_eq]
        repeat' split
        all_goals omega)
    (fun v b hv => by
      obtain ⟨d, f1, f2, f3⟩ := foundOrZeroDec_rep hv
      refine ⟨d.render, by simp [mergeVal, mergeGen, hpol, hvt, f1], ?_⟩
      rw [← f3]; exact repDec_render d f2)
    (fun c a v b hc hv => by
      obtain ⟨d, f1, f2, f3⟩ := foundOrZeroDec_rep hv
      obtain ⟨e, g1, g2, g3⟩ := foundOrZeroDec_rep hc
      refine ⟨(if (e.cmp d != .gt) then d else e).render, ?_, ?_⟩
      · simp only [mergeVal, mergeGen, hpol, hvt, f1, g1, ↓reduceIte]
      · apply repDec_pick f2 g2
        rw [cmp_gt_bne e d g2 f2]
        simp only [combMax, f3, g3, Int.max_def, decide_eq_true_eq]
        repeat' split
        all_goals omega)

/-- `min` over bigdecimal -/
def refMinDec (cfg : Cfg) (hpol : cfg.policy = .min) (hvt : cfg.vt = .bigdecimal) :
    Refine cfg (stdSem cfg) (algCombine combMin) :=
  refCombineR cfg combMin RepDec DecOperand argDec34 (.min .bigdecimal) (by simp)
    (semShape_min (by rw [hpol]; simp) _)
    (fun v hv => by
      obtain ⟨d, h1, h2⟩ := hv
      refine ⟨d.render, by simp [stdSem, semMinMax, h1], ?_⟩
      have := repDec_render d h2
      simpa [argDec34, h1] using this)
    (fun c i v hc hv => by
      obtain ⟨d, h1, h2⟩ := hv
      obtain ⟨p, p1, p2, p3⟩ := hc
      refine ⟨(if (d.cmp p != .gt) then d else p).render, ?_, ?_⟩
      · simp only [stdSem, semMinMax, h1, p1, Bool.false_eq_true, ↓reduceIte]
        cases (d.cmp p != .gt) <;> rfl
      · apply repDec_pick h2 p2
        rw [cmp_gt_bne d p h2 p2]
        simp only [argDec34, h1, Option.getD_some, combMin, p3, Int.min_def, decide_eq_true_eq]
        repeat' split
        all_goals omega)
    (fun v b hv => by
      obtain ⟨d, f1, f2, f3⟩ := foundOrZeroDec_rep hv
      refine ⟨d.render, by simp [mergeVal, mergeGen, hpol, hvt, f1], ?_⟩
      rw [← f3]; exact repDec_render d f2)
    (fun c a v b hc hv => by
      obtain ⟨d, f1, f2, f3⟩ := foundOrZeroDec_rep hv
      obtain ⟨e, g1, g2, g3⟩ := foundOrZeroDec_rep hc
      refine ⟨(if (e.cmp d != .gt) then e else d).render, ?_, ?_⟩
      · simp only [mergeVal, mergeGen, hpol, hvt, f1, g1]
        simp
      · apply repDec_pick g2 f2
        rw [cmp_gt_bne e d g2 f2]
        simp only [combMin, f3, g3, Int.min_def, decide_eq_true_eq]
        repeat' split
        all_goals omega)

/-! ### B4: `set_sum` over bigdecimal.  No truncation anywhere on this path (merge after the fix of F6), so
scales are unbounded and the typed value is the number itself: two texts agree when they parse to
decimals that are equal as numbers (`Dec.Eqv`). -/

/-- the typed reading of a `set_sum` operand, for an operand decoder `arg` -/
def wOfSSR {M : Type} (arg : Bytes → M) (v : Bytes) : SS M :=
  if isPrefix pfxSet v then .set (arg (v.drop 4)) else .sum (arg (v.drop 4))

theorem wOfSSR_sum {M : Type} (arg : Bytes → M) (t : Bytes) : wOfSSR arg (pfxSum ++ t) = .sum (arg t) := by
  simp [wOfSSR, pfxSum, pfxSet, isPrefix]

theorem wOfSSR_set {M : Type} (arg : Bytes → M) (t : Bytes) : wOfSSR arg (pfxSet ++ t) = .set (arg t) := by
  simp [wOfSSR, pfxSet, isPrefix]

/-- like `refSetSum`, for a representation relation `Rep` on the untagged text -/
def refSetSumR (cfg : Cfg) {M : Type} (C : Combine M) (Rep : Bytes → M → Prop) (okText : Bytes → Prop)
    (arg : Bytes → M) (vt : VT)
    (hrepArg : ∀ t, okText t → Rep t (arg t))
    (hsem : ∀ tag c i t, IsTag tag → Rep c i → okText t →
      ∃ r, stdSem cfg (.setSum vt) (some (tag ++ c)) (pfxSum ++ t) = .ok (tag ++ r) ∧ Rep r (C.op i (arg t)))
    (hmrgSet : ∀ x t, mergeVal cfg x (pfxSet ++ t) = some (some (pfxSum ++ t)))
    (hmrgN : ∀ t b, Rep t b → ∃ r, mergeVal cfg none (pfxSum ++ t) = some (some (pfxSum ++ r)) ∧ Rep r b)
    (hmrgS : ∀ tag c a t b, IsTag tag → Rep c a → Rep t b →
      ∃ r, mergeVal cfg (some (tag ++ c)) (pfxSum ++ t) = some (some (pfxSum ++ r)) ∧ Rep r (C.op a b)) :
    Refine cfg (stdSem cfg) (algSetSum C) where
  okOp op := op.kind = .setSum vt ∧ ∃ t, okText t ∧ (op.val = pfxSum ++ t ∨ op.val = pfxSet ++ t)
  wOf op := wOfSSR arg op.val
  RF b i := ∃ tag t, IsTag tag ∧ b = tag ++ t ∧ Rep t i
  RP b ti := ∃ t, b = (if ti.1 then pfxSet else pfxSum) ++ t ∧ Rep t ti.2
  notDel op h := by rw [h.1]; simp
  stepF op x x' fx hok hr hke := by
    obtain ⟨hkind, t, ht, hval⟩ := hok
    rw [semShape_setSum cfg vt op x hkind] at hke
    rcases hval with hval | hval
    · rw [hval, wOfSSR_sum]
      rw [hval] at hke
      cases x <;> cases fx <;> simp only [ORel_none_none, ORel_some_some, ORel_none_some, ORel_some_none] at hr
      · simp only [stdSem, semSetSum_none, Option.some.injEq] at hke; subst hke
        exact ⟨pfxSum, t, Or.inl rfl, rfl, hrepArg t ht⟩
      · obtain ⟨tag, c, h2, h3, h4⟩ := hr
        subst h3
        obtain ⟨r, s1, s2⟩ := hsem tag c _ t h2 h4 ht
        rw [s1] at hke
        simp only [Option.some.injEq] at hke; subst hke
        exact ⟨tag, r, h2, rfl, s2⟩
    · rw [hval, wOfSSR_set]
      rw [hval] at hke
      have : x' = some (pfxSet ++ t) := by
        cases x
        · simp only [stdSem, semSetSum_none, Option.some.injEq] at hke; exact hke.symm
        · simp only [stdSem, semSetSum_set, Option.some.injEq] at hke; exact hke.symm
      subst this
      exact ⟨pfxSet, t, Or.inr rfl, rfl, hrepArg t ht⟩
  stepP op x x' fx hok hr hke := by
    obtain ⟨hkind, t, ht, hval⟩ := hok
    rw [semShape_setSum cfg vt op x hkind] at hke
    rcases hval with hval | hval
    · rw [hval, wOfSSR_sum]
      rw [hval] at hke
      cases x <;> cases fx <;> simp only [ORel_none_none, ORel_some_some, ORel_none_some, ORel_some_none] at hr
      · simp only [stdSem, semSetSum_none, Option.some.injEq] at hke; subst hke
        exact ⟨t, rfl, hrepArg t ht⟩
      · rename_i ti
        obtain ⟨tg, a⟩ := ti
        obtain ⟨c, h3, h4⟩ := hr
        subst h3
        have htag : IsTag (if tg = true then pfxSet else pfxSum) := by
          cases tg
          · exact Or.inl rfl
          · exact Or.inr rfl
        obtain ⟨r, s1, s2⟩ := hsem _ c _ t htag h4 ht
        rw [s1] at hke
        simp only [Option.some.injEq] at hke; subst hke
        exact ⟨r, rfl, s2⟩
    · rw [hval, wOfSSR_set]
      rw [hval] at hke
      have : x' = some (pfxSet ++ t) := by
        cases x
        · simp only [stdSem, semSetSum_none, Option.some.injEq] at hke; exact hke.symm
        · simp only [stdSem, semSetSum_set, Option.some.injEq] at hke; exact hke.symm
      subst this
      cases fx with
      | none => exact ⟨t, rfl, hrepArg t ht⟩
      | some ti => obtain ⟨tg, a⟩ := ti; exact ⟨t, rfl, hrepArg t ht⟩
  mrg x x' v fx pv hr hv hm := by
    obtain ⟨tg, b⟩ := pv
    obtain ⟨t, hv, hb⟩ := hv
    subst hv
    cases tg
    · simp only [Bool.false_eq_true, ↓reduceIte] at hm
      cases x <;> cases fx <;> simp only [ORel_none_none, ORel_some_some, ORel_none_some, ORel_some_none] at hr
      · obtain ⟨r, s1, s2⟩ := hmrgN t b hb
        rw [s1] at hm
        simp only [Option.some.injEq] at hm; subst hm
        exact ⟨pfxSum, r, Or.inl rfl, rfl, s2⟩
      · obtain ⟨tag, c, h2, h3, h4⟩ := hr
        subst h3
        obtain ⟨r, s1, s2⟩ := hmrgS tag c _ t b h2 h4 hb
        rw [s1] at hm
        simp only [Option.some.injEq] at hm; subst hm
        exact ⟨pfxSum, r, Or.inl rfl, rfl, s2⟩
    · simp only [↓reduceIte] at hm
      rw [hmrgSet] at hm
      simp only [Option.some.injEq] at hm; subst hm
      cases fx <;> exact ⟨pfxSum, t, Or.inl rfl, rfl, hb⟩

/-- `set_sum` over bigdecimal -/
def refSetSumDec (cfg : Cfg) (hpol : cfg.policy = .setSum) (hvt : cfg.vt = .bigdecimal) :
    Refine cfg (stdSem cfg) (algSetSum ⟨Dec.add, Dec.add_assoc⟩) :=
  refSetSumR cfg ⟨Dec.add, Dec.add_assoc⟩ RepDecQ (fun t => ∃ d, Dec.parse t = some d)
    (fun t => (Dec.parse t).getD ⟨0, 0⟩) .bigdecimal
    (fun t ht => by
      obtain ⟨d, hd⟩ := ht
      exact ⟨d, hd, by simp [hd, Dec.Eqv.refl]⟩)
    (fun tag c i t htag hc ht => by
      obtain ⟨d, hd⟩ := ht
      obtain ⟨p, p1, p2⟩ := hc
      obtain ⟨t1, t2, t3⟩ := tag_take htag c
      obtain ⟨s1, s2, s3⟩ := tag_take (Or.inl rfl) t
      refine ⟨(p.add d).render, ?_, ?_⟩
      · simp only [stdSem, semSetSum, t1, t2, t3, s1, s2, s3, ↓reduceIte, p1, hd]
      · obtain ⟨q, q1, q2⟩ := repDecQ_render (p.add d)
        exact ⟨q, q1, q2.trans (by simpa [hd] using Dec.add_congr_left d p2)⟩)
    (fun x t => by
      have : isPrefix pfxSet (pfxSet ++ t) = true := by simp [pfxSet, isPrefix]
      simp [mergeVal, mergeGen, hpol, hvt, this, (tag_take (Or.inr rfl) t).2.1])
    (fun t b hb => by
      obtain ⟨d, d1, d2⟩ := hb
      have : isPrefix pfxSet (pfxSum ++ t) = false := by simp [pfxSet, pfxSum, isPrefix]
      refine ⟨((⟨0, 0⟩ : Dec).add d).render, ?_, ?_⟩
      · simp [mergeVal, mergeGen, hpol, hvt, this, foundOrZeroPrefixedDec, (tag_take (Or.inl rfl) t).2.1, d1]
      · obtain ⟨q, q1, q2⟩ := repDecQ_render ((⟨0, 0⟩ : Dec).add d)
        refine ⟨q, q1, q2.trans (Dec.Eqv.trans ?_ d2)⟩
        unfold Dec.Eqv Dec.add Dec.rescaleUp
        simp)
    (fun tag c a t b htag hc hb => by
      obtain ⟨d, d1, d2⟩ := hb
      obtain ⟨e, e1, e2⟩ := hc
      have : isPrefix pfxSet (pfxSum ++ t) = false := by simp [pfxSet, pfxSum, isPrefix]
      refine ⟨(e.add d).render, ?_, ?_⟩
      · simp [mergeVal, mergeGen, hpol, hvt, this, foundOrZeroPrefixedDec, (tag_take (Or.inl rfl) t).2.1,
          (tag_take htag c).2.1, d1, e1]
      · obtain ⟨q, q1, q2⟩ := repDecQ_render (e.add d)
        exact ⟨q, q1, q2.trans (Dec.add_congr e2 d2)⟩)

/-- typed agreement for `set_sum` bigdecimal: same keys, and the tag-stripped texts parse to decimals
that are equal as numbers -/
theorem typed_eq_of_repDecQ {cfg : Cfg} (hpol : cfg.policy = .setSum) {x y : Option Bytes} {f : Option Dec}
    (hx : ORel (fun b i => ∃ tag t, IsTag tag ∧ b = tag ++ t ∧ RepDecQ t i) x f)
    (hy : ORel (fun b i => ∃ tag t, IsTag tag ∧ b = tag ++ t ∧ RepDecQ t i) y f) :
    x.isSome = y.isSome ∧ ∀ bx by', stripTag cfg x = some bx → stripTag cfg y = some by' →
      ∃ dx dy, Dec.parse bx = some dx ∧ Dec.parse by' = some dy ∧ dx.Eqv dy := by
  have key : ∀ tag t, IsTag tag → stripTag cfg (some (tag ++ t)) = some t := by
    intro tag t ht
    rcases ht with rfl | rfl <;> simp [stripTag, hpol, pfxSum, pfxSet, isPrefix]
  cases x <;> cases y <;> cases f <;>
    simp only [ORel_none_none, ORel_some_some, ORel_none_some, ORel_some_none] at hx hy
  · exact ⟨rfl, by intro bx by' h; simp [stripTag] at h⟩
  · obtain ⟨t1, c1, h1, rfl, dx, px, ex⟩ := hx
    obtain ⟨t2, c2, h2, rfl, dy, py, ey⟩ := hy
    refine ⟨rfl, ?_⟩
    intro bx by' hbx hby
    rw [key _ _ h1] at hbx
    rw [key _ _ h2] at hby
    simp only [Option.some.injEq] at hbx hby
    subst hbx; subst hby
    exact ⟨dx, dy, px, py, ex.trans ey.symm⟩

end SV

import Lemmas.History
import Lemmas.Squash
import Lemmas.Codec
/-!
Layer B of C02: the byte-level model (`flush`, `Partial.execBlock`, `merge` of Model/Store.lean,
Model/Merge.lean with the value semantics `stdSem` of Model/Policy.lean) refines the per-key algebras
of Lemmas/Squash.lean.

  B1  one flushed block, per key: `flushOp_key`, `flush_key`, `seqRun_key`
  B2  `merge`, per key: `mergeKey_eq`, `merge_key`; partial stores: `segRun_key`
  B3/B4  `Refine`: what a policy has to provide (relations bytes ↔ typed value, three commutation
      laws) for `refine_squash_eq_seq`; the instances.

Core Lean only.
-/
namespace SV

/-! ### folds that may fail -/

/-- left fold of a step that may fail (`none`) -/
def foldOpt {α β : Type} (f : α → β → Option α) : α → List β → Option α
  | x, [] => some x
  | x, b :: rest =>
    match f x b with
    | none => none
    | some x' => foldOpt f x' rest

theorem foldOpt_append {α β : Type} (f : α → β → Option α) (l1 l2 : List β) : ∀ x : α,
    foldOpt f x (l1 ++ l2) = (foldOpt f x l1).bind (fun y => foldOpt f y l2) := by
  induction l1 with
  | nil => intro x; rfl
  | cons b rest ih =>
    intro x
    simp only [List.cons_append, foldOpt]
    cases f x b with
    | none => rfl
    | some x' => exact ih x'

/-! ### B1: the effect of one operation of `Flush` on one key -/

/-- the operations whose value goes through `sem`: effect on key `k` (`none`: `sem` fails, `Flush` errors) -/
def viaSem (cfg : Cfg) (sem : Sem) (kind : OpKind) (k : Bytes) (cur : Option Bytes) (op : Op) :
    Option (Option Bytes) :=
  if op.key = k then
    match sem kind (if isSetSum kind then cur else stripTag cfg cur) op.val with
    | .ok nv => some (some nv)
    | .error _ => none
  else some cur

/-- the content of key `k` after one iteration of the loop of `Flush`, from its content `cur` before
(outer `none`: the value computation fails) -/
def keyEffect (cfg : Cfg) (sem : Sem) (k : Bytes) (cur : Option Bytes) (op : Op) : Option (Option Bytes) :=
  match op.kind with
  | .deletePrefix => some (if isPrefix op.key k then none else cur)
  | .set => some (if op.key = k then some op.val else cur)
  | .setIfNotExists =>
    some (if op.key = k then (match cur with | some c => some c | none => some op.val) else cur)
  | kind => viaSem cfg sem kind k cur op

/-- under the flush invariant `getAt` at the current operation's ordinal reads the current content -/
theorem getAt_eq_look {f : Content} {s : Store} {b ord : Nat} (h : FInv f s b) (hb : b ≤ ord) (k : Bytes) :
    s.getAt ord k = look s.kv k := by
  unfold Store.getAt
  rw [h.getLast]
  cases hr : s.deltas.reverse with
  | nil => rfl
  | cons d rest =>
    have hm : d ∈ s.deltas := by
      have : d ∈ s.deltas.reverse := by rw [hr]; exact List.mem_cons_self
      simpa using this
    have hd := h.bounded d hm
    unfold walkBack
    simp only [show d.ord ≤ ord by omega, ↓reduceIte]

theorem setRaw_look {cfg : Cfg} {f : Content} {s s' : Store} {b ord : Nat} {k v : Bytes}
    (h : FInv f s b) (hb : b ≤ ord) (hp : setRaw cfg s ord k v = .ok s') :
    ∀ k', look s'.kv k' = if k = k' then some v else look s.kv k' := by
  unfold setRaw at hp
  split at hp; · simp at hp
  split at hp; · simp at hp
  split at hp; · simp at hp
  rw [h.getLast k] at hp
  intro k'
  split at hp
  · rename_i old hlook
    have := pushDelta_inv (d := ⟨.update, ord, k, old, v⟩) h (by simpa [WFd] using hlook) hb hp
    rw [this.2.2.2]; simp only [stepF]
  · rename_i hlook
    have := pushDelta_inv (d := ⟨.create, ord, k, [], v⟩) h (by simpa [WFd] using hlook) hb hp
    rw [this.2.2.2]; simp only [stepF]

theorem setIfNotExistsRaw_look {cfg : Cfg} {f : Content} {s s' : Store} {b ord : Nat} {k v : Bytes}
    (h : FInv f s b) (hb : b ≤ ord) (hp : setIfNotExistsRaw cfg s ord k v = .ok s') :
    ∀ k', look s'.kv k' =
      if k = k' then (match look s.kv k' with | some c => some c | none => some v) else look s.kv k' := by
  unfold setIfNotExistsRaw at hp
  rw [h.getLast k] at hp
  intro k'
  split at hp
  · rename_i old hlook
    injection hp with hp; subst hp
    by_cases hk : k = k'
    · subst hk; simp only [↓reduceIte, hlook]
    · simp only [hk, ↓reduceIte]
  · rename_i hlook
    have := pushDelta_inv (d := ⟨.create, ord, k, [], v⟩) h (by simpa [WFd] using hlook) hb hp
    rw [this.2.2.2]; simp only [stepF]
    by_cases hk : k = k'
    · subst hk; simp only [↓reduceIte, hlook]
    · simp only [hk, ↓reduceIte]

/-- `deleteFold_inv` with the resulting content: the listed keys are gone, the others untouched -/
theorem deleteFold_look {cfg : Cfg} {f : Content} {ord : Nat} : ∀ (L : KV) (s s' : Store),
    FInv f s ord → (∀ p ∈ L, look s.kv p.1 = some p.2) → (L.map (·.1)).Nodup →
    L.foldlM (fun s p => pushDelta cfg s ⟨.delete, ord, p.1, p.2, []⟩) s = .ok s' →
    ∀ k, look s'.kv k = if k ∈ L.map (·.1) then none else look s.kv k := by
  intro L
  induction L with
  | nil => intro s s' h _ _ hp k; simp [List.foldlM] at hp; cases hp; simp
  | cons p rest ih =>
    intro s s' h hl hnd hp k
    rw [List.foldlM_cons] at hp
    cases hpd : pushDelta cfg s ⟨.delete, ord, p.1, p.2, []⟩ with
    | error e => rw [hpd] at hp; simp [bind, Except.bind] at hp
    | ok s1 =>
      rw [hpd] at hp
      simp only [bind, Except.bind] at hp
      have hw : WFd (look s.kv) ⟨.delete, ord, p.1, p.2, []⟩ := by
        simpa [WFd] using hl p List.mem_cons_self
      obtain ⟨i1, _, _, i4⟩ := pushDelta_inv h hw (Nat.le_refl _) hpd
      simp only [List.map_cons, List.nodup_cons] at hnd
      have hl' : ∀ q ∈ rest, look s1.kv q.1 = some q.2 := by
        intro q hq
        rw [i4, stepF_ne]
        · exact hl q (List.mem_cons_of_mem _ hq)
        · intro hc
          exact hnd.1 (List.mem_map.2 ⟨q, hq, hc.symm⟩)
      rw [ih s1 s' i1 hl' hnd.2 hp k, i4]
      simp only [List.map_cons, List.mem_cons, stepF]
      by_cases h1 : k = p.1
      · subst h1; simp
      · have h1' : ¬ p.1 = k := fun hc => h1 hc.symm
        simp only [h1, h1', false_or, ↓reduceIte]

theorem deletePrefixRaw_look {cfg : Cfg} {f : Content} {s s' : Store} {b ord : Nat} {pfx : Bytes}
    (h : FInv f s b) (hb : b ≤ ord) (hp : deletePrefixRaw cfg s ord pfx = .ok s') :
    ∀ k, look s'.kv k = if isPrefix pfx k then none else look s.kv k := by
  unfold deletePrefixRaw at hp
  have hperm := sortByKey_perm (s.kv.filter (fun p => isPrefix pfx p.1))
  intro k
  have hl : ∀ p ∈ sortByKey (s.kv.filter (fun p => isPrefix pfx p.1)), look s.kv p.1 = some p.2 := by
    intro p hp'
    have : p ∈ s.kv := (List.mem_filter.1 ((hperm.mem_iff).1 hp')).1
    exact look_of_mem h.nodup this
  have hnd : ((sortByKey (s.kv.filter (fun p => isPrefix pfx p.1))).map (·.1)).Nodup := by
    have h1 : ((s.kv.filter (fun p => isPrefix pfx p.1)).map (·.1)).Nodup :=
      List.Nodup.sublist (List.Sublist.map _ List.filter_sublist) h.nodup
    exact ((hperm.map (·.1)).nodup_iff).2 h1
  rw [deleteFold_look _ s s' (h.mono hb) hl hnd hp k]
  by_cases hpre : isPrefix pfx k = true
  · simp only [hpre, ↓reduceIte]
    split
    · rfl
    · rename_i hnm
      cases hlk : look s.kv k with
      | none => rfl
      | some v =>
        exfalso; apply hnm
        have hm : (k, v) ∈ s.kv := mem_keys_of_look hlk
        have : (k, v) ∈ sortByKey (s.kv.filter (fun p => isPrefix pfx p.1)) :=
          (hperm.mem_iff).2 (List.mem_filter.2 ⟨hm, hpre⟩)
        exact List.mem_map.2 ⟨(k, v), this, rfl⟩
  · simp only [hpre, Bool.false_eq_true, ↓reduceIte]
    split
    · rename_i hm
      obtain ⟨q, hq, hqk⟩ := List.mem_map.1 hm
      have := (List.mem_filter.1 ((hperm.mem_iff).1 hq)).2
      rw [hqk] at this
      exact absurd this hpre
    · rfl

/-- the writers that go through `sem` -/
theorem viaSem_look {cfg : Cfg} {sem : Sem} {f : Content} {s s' : Store} {b : Nat} {op : Op} {kind : OpKind}
    (h : FInv f s b) (hb : b ≤ op.ord)
    (hp : (match sem kind (if isSetSum kind = true then s.getAt op.ord op.key
              else stripTag cfg (s.getAt op.ord op.key)) op.val with
            | .error e => Except.error e
            | .ok nv => setRaw cfg s op.ord op.key nv) = .ok s') :
    ∀ k, viaSem cfg sem kind k (look s.kv k) op = some (look s'.kv k) := by
  intro k
  rw [getAt_eq_look h hb] at hp
  unfold viaSem
  by_cases hk : op.key = k
  · subst hk
    simp only [↓reduceIte]
    split at hp
    · simp at hp
    · rename_i nv hsem
      rw [hsem]
      simp only [setRaw_look h hb hp op.key, ↓reduceIte]
  · simp only [hk, ↓reduceIte]
    split at hp
    · simp at hp
    · rw [setRaw_look h hb hp k]; simp only [hk, ↓reduceIte]

/-- **B1**: one iteration of the loop of `Flush`, per key -/
theorem flushOp_key {cfg : Cfg} {sem : Sem} {f : Content} {s s' : Store} {b : Nat} {op : Op}
    (h : FInv f s b) (hb : b ≤ op.ord) (hp : flushOp cfg sem s op = .ok s') :
    ∀ k, keyEffect cfg sem k (look s.kv k) op = some (look s'.kv k) := by
  unfold flushOp at hp
  split at hp
  · simp at hp
  · rename_i s1 hbody
    injection hp with hp; subst hp
    show ∀ k, keyEffect cfg sem k (look s.kv k) op = some (look s1.kv k)
    intro k
    unfold flushOpBody at hbody
    unfold keyEffect
    cases hk : op.kind <;> simp only [hk] at hbody ⊢
    · rw [setRaw_look h hb hbody k]
    · rw [setIfNotExistsRaw_look h hb hbody k]
    · exact viaSem_look h hb hbody k
    · rw [deletePrefixRaw_look h hb hbody k]
    · exact viaSem_look h hb hbody k
    · exact viaSem_look h hb hbody k
    · exact viaSem_look h hb hbody k
    · exact viaSem_look h hb hbody k

theorem flushFold_key {cfg : Cfg} {sem : Sem} {f : Content} : ∀ (ops : List Op) (s s' : Store) (b : Nat),
    FInv f s b → OrdSorted ops → (∀ o ∈ ops, b ≤ o.ord) →
    ops.foldlM (flushOp cfg sem) s = .ok s' →
    ∀ k, foldOpt (keyEffect cfg sem k) (look s.kv k) ops = some (look s'.kv k) := by
  intro ops
  induction ops with
  | nil => intro s s' b h _ _ hp k; simp [List.foldlM] at hp; cases hp; rfl
  | cons o rest ih =>
    intro s s' b h hs hb hp k
    rw [List.foldlM_cons] at hp
    cases hfo : flushOp cfg sem s o with
    | error e => rw [hfo] at hp; simp [bind, Except.bind] at hp
    | ok s1 =>
      rw [hfo] at hp
      simp only [bind, Except.bind] at hp
      unfold OrdSorted at hs
      rw [List.pairwise_cons] at hs
      obtain ⟨i1, _⟩ := flushOp_inv h (hb o List.mem_cons_self) hfo
      simp only [foldOpt, flushOp_key h (hb o List.mem_cons_self) hfo k]
      exact ih s1 s' o.ord i1 hs.2 hs.1 hp k

/-- **B1**: one flushed block, per key: the content of `k` is the fold of `keyEffect` over the sorted log -/
theorem flush_key {cfg : Cfg} {sem : Sem} {s s' : Store} (h : Clean s) (hp : flush cfg sem s = .ok s') :
    ∀ k, foldOpt (keyEffect cfg sem k) (look s.kv k) (sortOps s.ops) = some (look s'.kv k) := by
  unfold flush at hp
  have hc : FInv (look s.kv) { s with ops := sortOps s.ops } 0 :=
    { nodup := h.nodup
      chain := by show Chain _ s.deltas; rw [h.deltas]; trivial
      kvpost := by show _ = postF _ s.deltas; rw [h.deltas]; rfl
      sorted := by show s.deltas.Pairwise _; rw [h.deltas]; exact List.Pairwise.nil
      bounded := by show ∀ d ∈ s.deltas, _; rw [h.deltas]; intro d hd; simp at hd
      size := h.size }
  intro k
  exact flushFold_key (sortOps s.ops) { s with ops := sortOps s.ops } s' 0 hc (sortOps_sorted _)
    (by intro o _; omega) hp k

/-! ### runs of blocks on a full store and on a partial store -/

theorem execBlock_key {cfg : Cfg} {sem : Sem} {pre post : Store} {calls : List Op} (h : Clean pre)
    (hp : execBlock cfg sem pre calls = .ok post) :
    ∀ k, foldOpt (keyEffect cfg sem k) (look pre.kv k) (sortOps (pre.ops ++ calls)) = some (look post.kv k) := by
  unfold execBlock at hp
  obtain ⟨a, _, _, d⟩ := record_fold_fields calls pre
  intro k
  have := flush_key (h.record_fold calls) hp k
  rw [a, d] at this
  exact this

/-- sequential execution of blocks on one store: per block `NewCall` (Reset), the calls, `Flush` -/
def seqRun (cfg : Cfg) (sem : Sem) : Store → List (List Op) → Except SErr Store
  | s, [] => .ok s
  | s, calls :: rest =>
    match execBlock cfg sem (reset s) calls with
    | .error e => .error e
    | .ok s' => seqRun cfg sem s' rest

/-- **B1 over a list of blocks**: the content of every key is the fold of `keyEffect` over the blocks'
sorted logs -/
theorem seqRun_key {cfg : Cfg} {sem : Sem} : ∀ (blocks : List (List Op)) (s s' : Store),
    SInv s → seqRun cfg sem s blocks = .ok s' →
    SInv s' ∧ ∀ k, foldOpt (keyEffect cfg sem k) (look s.kv k) (blocks.flatMap sortOps) = some (look s'.kv k) := by
  intro blocks
  induction blocks with
  | nil => intro s s' h hr; simp only [seqRun, Except.ok.injEq] at hr; subst hr; exact ⟨h, fun _ => rfl⟩
  | cons calls rest ih =>
    intro s s' h hr
    unfold seqRun at hr
    cases hb : execBlock cfg sem (reset s) calls with
    | error e => rw [hb] at hr; simp at hr
    | ok s1 =>
      rw [hb] at hr
      dsimp only at hr
      obtain ⟨b, i1, _⟩ := execBlock_inv h.reset hb
      obtain ⟨j1, j2⟩ := ih s1 s' i1.sinv hr
      refine ⟨j1, fun k => ?_⟩
      have e1 := execBlock_key h.reset hb k
      have e1' : foldOpt (keyEffect cfg sem k) (look s.kv k) (sortOps calls) = some (look s1.kv k) := by
        simpa [reset] using e1
      rw [List.flatMap_cons, foldOpt_append, e1']
      exact j2 k

theorem partial_execBlock_eq (cfg : Cfg) (sem : Sem) (p : Partial) (calls : List Op) :
    Partial.execBlock cfg sem p calls =
      match execBlock cfg sem p.store calls with
      | .error e => .error e
      | .ok s => .ok ⟨s, calls.foldl addPfx p.deletedPrefixes⟩ := by
  unfold Partial.execBlock execBlock
  rw [partial_record_fold]
  rfl

/-- one segment on a partial store: per block Reset, the calls (prefixes remembered), `Flush` -/
def segRun (cfg : Cfg) (sem : Sem) : Partial → List (List Op) → Except SErr Partial
  | p, [] => .ok p
  | p, calls :: rest =>
    match Partial.execBlock cfg sem ⟨reset p.store, p.deletedPrefixes⟩ calls with
    | .error e => .error e
    | .ok p' => segRun cfg sem p' rest

/-- **B2 (partial stores)**: content = per-key fold; `deletedPrefixes` = exactly the prefixes of the
segment's `deletePrefix` operations -/
theorem segRun_key {cfg : Cfg} {sem : Sem} : ∀ (blocks : List (List Op)) (p p' : Partial),
    SInv p.store → segRun cfg sem p blocks = .ok p' →
    SInv p'.store ∧
    (∀ k, foldOpt (keyEffect cfg sem k) (look p.store.kv k) (blocks.flatMap sortOps) = some (look p'.store.kv k)) ∧
    (∀ x, x ∈ p'.deletedPrefixes ↔
      (x ∈ p.deletedPrefixes ∨ ∃ o ∈ blocks.flatMap sortOps, o.kind = .deletePrefix ∧ o.key = x)) := by
  intro blocks
  induction blocks with
  | nil =>
    intro p p' h hr
    simp only [segRun, Except.ok.injEq] at hr; subst hr
    exact ⟨h, fun _ => rfl, by simp⟩
  | cons calls rest ih =>
    intro p p' h hr
    unfold segRun at hr
    rw [partial_execBlock_eq] at hr
    dsimp only at hr
    cases hb : execBlock cfg sem (reset p.store) calls with
    | error e => rw [hb] at hr; simp at hr
    | ok s1 =>
      rw [hb] at hr
      dsimp only at hr
      obtain ⟨b, i1, _⟩ := execBlock_inv h.reset hb
      obtain ⟨j1, j2, j3⟩ := ih ⟨s1, calls.foldl addPfx p.deletedPrefixes⟩ p' i1.sinv hr
      refine ⟨j1, fun k => ?_, fun x => ?_⟩
      · have e1 := execBlock_key h.reset hb k
        have e1' : foldOpt (keyEffect cfg sem k) (look p.store.kv k) (sortOps calls) = some (look s1.kv k) := by
          simpa [reset] using e1
        rw [List.flatMap_cons, foldOpt_append, e1']
        exact j2 k
      · rw [j3 x, mem_foldl_addPfx]
        simp only [List.flatMap_cons, List.mem_append, (sortOps_perm calls).mem_iff]
        constructor
        · rintro ((h1 | ⟨o, ho, h1⟩) | ⟨o, ho, h1⟩)
          · exact Or.inl h1
          · exact Or.inr ⟨o, Or.inl ho, h1⟩
          · exact Or.inr ⟨o, Or.inr ho, h1⟩
        · rintro (h1 | ⟨o, ho | ho, h1⟩)
          · exact Or.inl (Or.inl h1)
          · exact Or.inl (Or.inr ⟨o, ho, h1⟩)
          · exact Or.inr ⟨o, ho, h1⟩

end SV
